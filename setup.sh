#!/bin/sh
# Build the static checker from files on disk only (offline).
set -e
cd "$(dirname "$0")"
. ./env.sh
mkdir -p bin evidence
cd checker
go build -o ../bin/ergocheck .
echo "built $(cd .. && pwd)/bin/ergocheck"
