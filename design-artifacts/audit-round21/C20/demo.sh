#!/bin/bash
# C20 demo: a result file whose name is not valid UTF-8 is accepted (exit 0) and
# hashed, but the event records a DIFFERENT name (each bad byte becomes U+FFFD),
# so `path` / `file_url` of the result name a file that is not the one hashed.
#
# usage: bash demo.sh <ergo-source-dir>
# exit 1 = violation shown, 0 = property held, 2 = demo could not run
set -u
SRC=${1:?usage: bash demo.sh <ergo-source-dir>}
SRC=$(cd "$SRC" && pwd) || exit 2
TMP=/tmp/seedtmp-C20r21/demo.$$
rm -rf "$TMP"; mkdir -p "$TMP/bin" "$TMP/proj" || exit 2
trap 'rm -rf "$TMP"; rmdir /tmp/seedtmp-C20r21 2>/dev/null' EXIT

(cd "$SRC" && go build -o "$TMP/bin/ergo" ./cmd/ergo) || { echo "build failed"; exit 2; }
ERGO="$TMP/bin/ergo"

cd "$TMP/proj" || exit 2
timeout 20 "$ERGO" init </dev/null >/dev/null 2>&1 || { echo "init failed"; exit 2; }
T=$(timeout 20 "$ERGO" new task --title "write the report" </dev/null) || { echo "new task failed"; exit 2; }
echo "task: $T"

python3 - "$ERGO" "$T" <<'PYEOF'
import hashlib, json, os, subprocess, sys, urllib.parse

ergo, task = sys.argv[1], sys.argv[2]
root = os.getcwdb()

def run(*args):
    return subprocess.run([b"timeout", b"20", os.fsencode(ergo), *args],
                          stdin=subprocess.DEVNULL, capture_output=True)

def results():
    out = run(b"--json", b"show", os.fsencode(task))
    if out.returncode != 0:
        print("show failed:", out.stderr.decode("utf-8", "replace")); sys.exit(2)
    return json.loads(out.stdout).get("results") or []

def check(name, content, label):
    """attach root/name; return True if the property held for this attachment"""
    with open(os.path.join(root, name), "wb") as f:
        f.write(content)
    want_sha = hashlib.sha256(content).hexdigest()
    want_abs = os.path.join(root, name)
    before = results()
    r = run(b"set", os.fsencode(task), b"--result-path", name, b"--result-summary", label.encode())
    after = results()
    print(f"[{label}] file name bytes on disk: {name!r}")
    print(f"[{label}] set exit status: {r.returncode}  stderr: {r.stderr.decode('utf-8','replace').strip()!r}")
    if r.returncode != 0:
        if len(after) == len(before):
            print(f"[{label}] rejected, nothing recorded -> property held")
            return True
        print(f"[{label}] rejected BUT a result was recorded"); return False
    if len(after) != len(before) + 1:
        print(f"[{label}] accepted but results went {len(before)} -> {len(after)}"); return False
    res = after[0]
    url = urllib.parse.urlparse(res["file_url"])
    url_path = urllib.parse.unquote_to_bytes(url.path)
    rec_path = res["path"].encode("utf-8")
    print(f"[{label}] recorded path      : {rec_path!r}")
    print(f"[{label}] recorded file_url  : {res['file_url']}")
    print(f"[{label}] file_url decodes to: {url_path!r}")
    print(f"[{label}] absolute path is   : {want_abs!r}")
    print(f"[{label}] recorded sha256    : {res['sha256_at_attach']}")
    print(f"[{label}] sha256 of the file : {want_sha}")
    ok = True
    if res["sha256_at_attach"] != want_sha:
        print(f"[{label}] VIOLATION: sha256 is not the hash of the attached file"); ok = False
    if rec_path != name:
        print(f"[{label}] VIOLATION: recorded path is not the path that was attached"); ok = False
    if url.scheme != "file" or url_path != want_abs:
        print(f"[{label}] VIOLATION: file_url is not the file:// URL of the attached file's absolute path"); ok = False
    if not os.path.exists(url_path):
        print(f"[{label}] VIOLATION: file_url names a file that does not exist"); ok = False
    elif url_path != want_abs:
        other = hashlib.sha256(open(url_path, "rb").read()).hexdigest()
        print(f"[{label}] file_url names ANOTHER existing file, whose sha256 is {other}")
        if other != res["sha256_at_attach"]:
            print(f"[{label}] VIOLATION: recorded sha256 is not the hash of the file the result names")
    return ok

# control: a well-formed Unicode name is recorded faithfully
ok_control = check("report-café.txt".encode("utf-8"), b"control report\n", "control")
print()
# the case: same name in Latin-1 (byte 0xE9 alone is not valid UTF-8) - a legal POSIX file name
ok_latin1 = check(b"report-caf\xe9.txt", b"the real report\n", "latin1")
print()
# same again, now with a decoy whose name is what ergo records (U+FFFD in place of 0xE9)
with open(os.path.join(root, b"notes-caf\xef\xbf\xbd.txt"), "wb") as f:
    f.write(b"an unrelated file\n")
ok_decoy = check(b"notes-caf\xe9.txt", b"the real notes\n", "decoy")
print()
# compaction keeps the altered name (it is what the log holds)
run(b"compact")
print("after compact:", [r["path"] for r in results()])

if not ok_control:
    print("control case failed - demo inconclusive"); sys.exit(2)
if ok_latin1 and ok_decoy:
    print("RESULT: property held"); sys.exit(0)
print("RESULT: property C20 violated (attachment not faithful: path/file_url name a different file than the one hashed)")
sys.exit(1)
PYEOF
rc=$?
exit $rc
