#!/bin/bash
# C18 demo: `ergo init` run on an existing store, spelled as "the .ergo directory
# itself" (cwd inside .ergo, or `ergo init .ergo`), creates a second, empty store
# .ergo/.ergo. From then on every command started with that spelling
# (`cd .ergo`, `--dir .ergo`, `--dir /abs/.ergo`) operates on the empty nested
# store: the whole plan is hidden from it, and writes made there never reach
# the project's log.
#
# usage: bash demo.sh <ergo-source-dir> [init|legacy-set-body|where-deleted-cwd]
#   init               (default, the finding)      exit 1 = violation shown
#   legacy-set-body    additional observation A    exit 1 = shown
#   where-deleted-cwd  additional observation C    exit 1 = shown
set -u
SRC=${1:?usage: bash demo.sh <ergo-source-dir> [scenario]}
SCEN=${2:-init}
BASE=/tmp/seedtmp-C18r21
TMP=$BASE/demo.$$
mkdir -p "$TMP"
cleanup() { cd /; rm -rf "$TMP"; rmdir "$BASE" 2>/dev/null || true; }
trap cleanup EXIT

( cd "$SRC" && go build -o "$TMP/ergo" ./cmd/ergo ) || { echo "build failed"; exit 2; }
E="$TMP/ergo"
run() { timeout 20 "$E" "$@" </dev/null; }

# ids of all tasks and all epics the given spelling sees
allids() { { run "$@" --json list --all; run "$@" --json list --epics; } 2>/dev/null | jq -sc '[.[][].id] | sort' 2>/dev/null || echo '"<error>"'; }

# One line per spelling of "the store of project $1": where + ids seen by list.
views() {
  local p=$1
  ( cd "$p"        && printf 'cwd=proj                     where=%s ids=%s\n' "$(run where 2>&1)"                 "$(allids)" )
  ( cd "$p"        && printf 'cwd=proj      --dir .ergo    where=%s ids=%s\n' "$(run --dir .ergo where 2>&1)"     "$(allids --dir .ergo)" )
  ( cd "$p/.ergo"  && printf 'cwd=proj/.ergo               where=%s ids=%s\n' "$(run where 2>&1)"                 "$(allids)" )
  ( cd /           && printf 'cwd=/  --dir <abs>/.ergo     where=%s ids=%s\n' "$(run --dir "$p/.ergo" where 2>&1)" "$(allids --dir "$p/.ergo")" )
  ( cd "$p"        && mkdir -p sub/deep && cd sub/deep && printf 'cwd=proj/sub/deep            where=%s ids=%s\n' "$(run where 2>&1)" "$(allids)" )
}

scenario_init() {
  local P="$TMP/proj"
  mkdir -p "$P" && cd "$P" || exit 2
  run init >/dev/null 2>&1
  run new epic --title "Epic one" >/dev/null
  run new task --title "Task one" >/dev/null
  run new task --title "Task two" >/dev/null

  echo "--- before init: every spelling sees the same store and the same 3 items"
  views "$P" | tee "$TMP/before.txt"
  ( cd "$P" && find .ergo | sort ) > "$TMP/ls-before.txt"
  sha256sum "$P/.ergo/plans.jsonl" > "$TMP/sha-before.txt"

  echo
  echo "--- run: (cd proj/.ergo && ergo init)      [same effect: (cd proj && ergo init .ergo)]"
  ( cd "$P/.ergo" && run init ); echo "init exit code: $?"

  echo
  echo "--- after init"
  views "$P" | tee "$TMP/after.txt"
  ( cd "$P" && find .ergo | sort ) > "$TMP/ls-after.txt"
  echo
  echo "--- directory listing of .ergo, before | after"
  diff "$TMP/ls-before.txt" "$TMP/ls-after.txt"
  sha256sum -c "$TMP/sha-before.txt" 2>&1 | sed 's/^/project log: /'

  echo
  echo "--- a write made with the .ergo spelling now lands in the nested store"
  ( cd "$P/.ergo" && run new task --title "written from inside .ergo" >/dev/null )
  printf 'titles seen from proj       : %s\n' "$(cd "$P" && run --json list --all | jq -c '[.[].title]|sort')"
  printf 'titles seen from proj/.ergo : %s\n' "$(cd "$P/.ergo" && run --json list --all | jq -c '[.[].title]|sort')"

  echo
  if diff -q "$TMP/before.txt" "$TMP/after.txt" >/dev/null; then
    echo "RESULT: property held (init changed no view)"
    return 0
  fi
  echo "RESULT: VIOLATION - after init on the existing store, the spellings naming the .ergo"
  echo "        directory itself resolve to a new empty store .ergo/.ergo: all 3 items are hidden"
  echo "        from them, and the commands no longer agree on the store."
  return 1
}

scenario_legacy() {
  # A store written by ergo 0.4.2 .. 0.5.8 (CHANGELOG: title kept as first line of
  # body, no title field; log named events.jsonl until 0.10.0).
  local P="$TMP/legacy"
  mkdir -p "$P/.ergo" && cd "$P" || exit 2
  printf '%s\n' '{"type":"new_task","ts":"2025-01-01T00:00:00Z","data":{"id":"ABCDEF","uuid":"11111111-1111-4111-8111-111111111111","epic_id":"","state":"todo","body":"Fix login bug\nSteps to reproduce: ...","created_at":"2025-01-01T00:00:00Z"}}' > .ergo/events.jsonl
  cp -r "$P" "$TMP/legacy2"
  local before after after2
  before=$(run --json show ABCDEF | jq -c '{title,body}')
  echo "legacy store, show           : $before"
  run set ABCDEF --body "New details only" >/dev/null
  after=$(run --json show ABCDEF | jq -c '{title,body}')
  echo "after  set --body            : $after"
  cd "$TMP/legacy2" && run compact && run set ABCDEF --body "New details only" >/dev/null
  after2=$(run --json show ABCDEF | jq -c '{title,body}')
  echo "compact, then same set --body: $after2"
  if [ "$(jq -r .title <<<"$before")" != "$(jq -r .title <<<"$after")" ] || [ "$after" != "$after2" ]; then
    echo "RESULT: VIOLATION - setting only the body of a legacy item replaced its title (old title gone"
    echo "        from every view), and the same command gives another item after compact"
    return 1
  fi
  echo "RESULT: property held"; return 0
}

scenario_where() {
  local P="$TMP/proj"
  mkdir -p "$P" "$TMP/gone" && ( cd "$P" && run init >/dev/null 2>&1 && run new task --title T >/dev/null )
  cd "$TMP/gone" && rmdir "$TMP/gone"
  local n w rc
  n=$(run --dir "$P" --json list --all | jq length); echo "cwd deleted: --dir <abs> list  -> $n item(s)"
  w=$(run --dir "$P" where 2>&1); rc=$?;          echo "cwd deleted: --dir <abs> where -> rc=$rc: $w"
  cd /
  if [ "$n" = 1 ] && [ $rc -ne 0 ]; then
    echo "RESULT: VIOLATION - where cannot find the store every other command finds"; return 1
  fi
  echo "RESULT: property held"; return 0
}

case "$SCEN" in
  init) scenario_init ;;
  legacy-set-body) scenario_legacy ;;
  where-deleted-cwd) scenario_where ;;
  *) echo "unknown scenario $SCEN"; exit 2 ;;
esac
exit $?
