#!/bin/bash
# C08 demo: an epic whose epic-dependency is complete is still reported
# blocked (JSON: "blocked":true,"ready":false; human list: "⧗ <dep epic>"),
# while its own child is reported ready and is handed out by `claim`.
#
# usage: bash demo.sh <ergo-source-dir>
# exit 1 = violation shows, exit 0 = property held, 2 = demo could not run
set -u
SRC="${1:?usage: demo.sh <ergo-source-dir>}"
ROOT=/tmp/seedtmp-C08r21
mkdir -p "$ROOT" || exit 2
WORK=$(mktemp -d "$ROOT/demo.XXXXXX") || exit 2
cleanup() { rm -rf "$WORK"; rmdir "$ROOT" 2>/dev/null || true; }
trap cleanup EXIT

( cd "$SRC" && go build -o "$WORK/ergo" ./cmd/ergo ) || { echo "build failed"; exit 2; }
E="$WORK/ergo"
mkdir "$WORK/repo" && cd "$WORK/repo" || exit 2
e() { timeout 20 "$E" "$@" </dev/null; }

e init >/dev/null 2>&1 || exit 2
EA=$(e --json new epic --title "Epic A" | jq -r .id)
EB=$(e --json new epic --title "Epic B" | jq -r .id)
TA=$(e --json new task --title "a1" --epic "$EA" | jq -r .id)
TB=$(e --json new task --title "b1" --epic "$EB" | jq -r .id)
e --json sequence "$EA" "$EB" >/dev/null || exit 2      # Epic B depends on Epic A
echo "epics: A=$EA B=$EB   tasks: a1=$TA (in A)  b1=$TB (in B);  B depends on A"

echo
echo "== while a1 is open: B and b1 are (rightly) blocked"
e --json list --epics | jq -c '.[] | {id,kind,state,ready,blocked}'
e --json list --all   | jq -c '.[] | {id,state,ready,blocked}'

e --json set "$TA" --state done >/dev/null || exit 2
echo
echo "== a1 done: Epic A has only done children, so nothing Epic B depends on is open"
echo "-- list --json --all (tasks)"
e --json list --all | jq -c '.[] | {id,epic_id,state,ready,blocked}'
echo "-- list --json --epics"
EPICS=$(e --json list --epics)
echo "$EPICS" | jq -c '.[] | {id,kind,state,ready,blocked}'
echo "-- human list"
HUMAN=$(e list 2>/dev/null)
echo "$HUMAN"

B_READY=$(echo "$EPICS" | jq -r --arg id "$EB" '.[] | select(.id==$id) | .ready')
B_BLOCKED=$(echo "$EPICS" | jq -r --arg id "$EB" '.[] | select(.id==$id) | .blocked')
T_READY=$(e --json list --all | jq -r --arg id "$TB" '.[] | select(.id==$id) | .ready')
HUMAN_MARK=no
echo "$HUMAN" | grep "$EB" | grep -q "⧗" && HUMAN_MARK=yes

echo
echo "-- claim --epic B"
CLAIMED=$(e --json claim --agent demo --epic "$EB" | jq -r '.id // .status')
echo "claim handed out: $CLAIMED"

echo
echo "observed: epic B ready=$B_READY blocked=$B_BLOCKED ; its child b1 ready=$T_READY ; human row of B carries a blocked-by mark: $HUMAN_MARK ; claim --epic B -> $CLAIMED"
if [ "$B_BLOCKED" = "true" ] || [ "$B_READY" = "false" ] || [ "$HUMAN_MARK" = "yes" ]; then
  echo "VIOLATION: Epic B is reported blocked (not ready) although it is todo, unclaimed and every epic it depends on has only done children; its own child is ready and was claimed."
  exit 1
fi
echo "property held"
exit 0
