#!/bin/bash
# C12 (history only grows): a non-compact mutation that records more than one
# event (claim, set with two fields, new task with a state, sequence A B C,
# prune --yes, plan) re-serialises EVERY earlier line of the log through the
# three-field Event struct. Earlier events do not "remain with unchanged
# content": members ergo does not know, and bytes it decodes leniently, are
# silently rewritten.
#
# usage: bash demo.sh <ergo-source-dir>
# exit 1 = violation shown, exit 0 = property held, 2 = demo could not run
set -u
SRC="${1:?usage: demo.sh <ergo-source-dir>}"
BASE=/tmp/seedtmp-C12r21
W="$BASE/demo.$$"
mkdir -p "$W/bin" "$W/proj" || exit 2
cleanup() { rm -rf "$W"; rmdir "$BASE" 2>/dev/null; }
trap cleanup EXIT

( cd "$SRC" && go build -o "$W/bin/ergo" ./cmd/ergo ) >"$W/build.log" 2>&1 || { echo "build failed"; cat "$W/build.log"; exit 2; }
E="$W/bin/ergo"
cd "$W/proj" || exit 2
LOG=.ergo/plans.jsonl

# 1. an ordinary history written by ergo itself (one event per command)
timeout 20 "$E" init </dev/null >/dev/null 2>&1 || exit 2
EP=$(printf '%s' '{"title":"Epic one"}' | timeout 20 "$E" new epic) || exit 2
TA=$(printf '%s' '{"title":"Task A","epic":"'"$EP"'"}' | timeout 20 "$E" new task) || exit 2
TB=$(printf '%s' '{"title":"Task B"}' | timeout 20 "$E" new task) || exit 2

# 2. three kinds of content the property quantifies over
#    (a) one flipped bit in a KEY of line 1:        "type" -> "uype"   (still valid JSON, valid UTF-8)
#    (b) one flipped bit in the ts VALUE of line 2: a digit gets its high bit set (invalid UTF-8, Go decodes it anyway)
#    (c) an event of an unknown type written by "another version", carrying extra top-level members
python3 - "$LOG" "$TB" <<'EOF' || exit 2
import sys
p, tb = sys.argv[1], sys.argv[2]
lines = open(p, 'rb').read().split(b'\n')
assert lines[-1] == b'' and len(lines) == 4, lines
l0 = bytearray(lines[0]); i = l0.index(b'"type"') + 1; l0[i] ^= 0x01; lines[0] = bytes(l0)        # t -> u
l1 = bytearray(lines[1]); i = l1.index(b'"ts":"') + 6 + 2; l1[i] ^= 0x80; lines[1] = bytes(l1)      # 3rd digit of the year
extra = ('{"type":"comment","ts":"2026-01-01T00:00:00Z","data":{"id":"%s","text":"looks good"},"v":2,"author":"bob"}' % tb).encode()
lines.insert(3, extra)
open(p, 'wb').write(b'\n'.join(lines))
EOF

cp "$LOG" "$W/before.jsonl"
echo "== log before (5 lines, ends in newline) =="
cat -v "$LOG"

# 3. ergo accepts this log: it shows state and exits 0, twice the same
timeout 20 "$E" --json list </dev/null >"$W/l1.out" 2>"$W/l1.err"; RC1=$?
timeout 20 "$E" --json list </dev/null >"$W/l2.out" 2>"$W/l2.err"; RC2=$?
echo; echo "== ergo --json list: exit $RC1/$RC2, identical=$(cmp -s "$W/l1.out" "$W/l2.out" && echo yes || echo no) =="
cat "$W/l1.out"
[ "$RC1" = 0 ] || { echo "ergo rejects the log (that is allowed): $(cat "$W/l1.err")"; exit 0; }

# 4. control: a ONE-event mutation appends in place, earlier lines untouched
TC=$(printf '%s' '{"title":"Task C"}' | timeout 20 "$E" new task) || exit 2
cp "$LOG" "$W/mid.jsonl"

# 5. a TWO-event mutation (claim = claim + state)
timeout 20 "$E" --agent demo claim "$TB" </dev/null >"$W/claim.out" 2>"$W/claim.err"; RCC=$?
echo; echo "== ergo --agent demo claim $TB: exit $RCC =="
cp "$LOG" "$W/after.jsonl"
echo; echo "== log after claim =="
cat -v "$LOG"

# 6. judge: every line of before.jsonl must still be there, in order, unchanged
python3 - "$W/before.jsonl" "$W/mid.jsonl" "$W/after.jsonl" <<'EOF'
import sys, json
def lines(p): return [l for l in open(p, 'rb').read().split(b'\n') if l.strip()]
def parse(l):
    try: return json.loads(l.decode('utf-8', 'surrogateescape'))
    except Exception as e: return ('unparseable', l)
before, mid, after = map(lines, sys.argv[1:4])
print()
print("== control: after the one-event 'new task' the 5 earlier lines are byte-identical:", mid[:len(before)] == before)
raw_changed, parsed_changed = [], []
for i, l in enumerate(before):
    a = after[i] if i < len(after) else b''
    if a != l: raw_changed.append(i + 1)
    if parse(a) != parse(l): parsed_changed.append(i + 1)
print("== after the two-event 'claim':")
print("   earlier lines whose bytes changed       :", raw_changed)
print("   earlier lines whose parsed value changed:", parsed_changed)
for i in parsed_changed:
    print("   line %d was : %s" % (i, before[i-1][:150]))
    print("   line %d now : %s" % (i, after[i-1][:150]))
print("   events appended by claim:", len(after) - len(mid))
if parsed_changed or raw_changed:
    print("VIOLATION: a mutation other than compact changed the content of earlier events")
    sys.exit(1)
print("property held: all earlier events remain, in order, with unchanged content")
sys.exit(0)
EOF
exit $?
