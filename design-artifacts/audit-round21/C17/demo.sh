#!/usr/bin/env bash
# C17 demo: on a store written by ergo < 0.6.0 (tasks recorded without a title,
# the layout ergo still reads and documents as "legacy"), a body supplied to
# `ergo set` is accepted (exit 0) but `show --json` never returns it: the
# replay re-derives a title from the NEW body on every load, drops leading
# heading lines and the first text line from it, and `compact` makes the loss
# permanent.
#
# usage: bash demo.sh <ergo-source-dir>
# exit 1 = violation shown, exit 0 = property held, 2 = demo could not run
set -u
SRC="${1:?usage: demo.sh <ergo-source-dir>}"
BASE=/tmp/seedtmp-C17r21
mkdir -p "$BASE"
TMP="$(mktemp -d "$BASE/demo.XXXXXX")" || exit 2
cleanup() { rm -rf "$TMP"; rmdir "$BASE" 2>/dev/null || true; }
trap cleanup EXIT

ERGO="$TMP/ergo"
( cd "$SRC" && go build -o "$ERGO" ./cmd/ergo ) || { echo "build failed"; exit 2; }

PROJ="$TMP/proj"
mkdir -p "$PROJ/.ergo"
# What `ergo new task` of ergo <= 0.5.8 recorded: one body, no title
# (CHANGELOG 0.6.0: "Title and body are separate fields ... Legacy archives
# without titles are auto-migrated"; quickstart: "Legacy tasks without titles
# are auto-derived on load"). The log of those versions is .ergo/events.jsonl.
cat > "$PROJ/.ergo/events.jsonl" <<'EOF'
{"type":"new_task","ts":"2026-01-10T10:00:00Z","data":{"id":"ABCDEF","uuid":"11111111-1111-4111-8111-111111111111","epic_id":"","state":"todo","body":"Fix login\nDetails here","created_at":"2026-01-10T10:00:00Z"}}
EOF
cd "$PROJ" || exit 2
# init on such a store keeps the legacy file (fix 030dd02) and creates the lock.
timeout 20 "$ERGO" init </dev/null >/dev/null 2>&1 || { echo "init failed"; exit 2; }

field() { # field <id> <title|body>  -> raw text of that field from show --json
  timeout 20 "$ERGO" --json show "$1" </dev/null | jq -j ".$2"
}

echo "== legacy task as loaded (documented derivation) =="
printf 'title=%s\n' "$(field ABCDEF title | jq -Rs .)"
printf 'body=%s\n'  "$(field ABCDEF body  | jq -Rs .)"

violations=0
check() { # check <label> <supplied-body>
  local label="$1" want="$2" got
  got="$(field ABCDEF body; printf x)"; got="${got%x}"
  if [ "$got" == "$want" ]; then
    echo "   $label: show --json returns the supplied body"
  else
    echo "   $label: VIOLATION"
    printf '     supplied body : %s\n' "$(printf '%s' "$want" | jq -Rs .)"
    printf '     returned body : %s\n' "$(printf '%s' "$got"  | jq -Rs .)"
    printf '     returned title: %s   (no title was supplied)\n' "$(field ABCDEF title | jq -Rs .)"
    violations=$((violations+1))
  fi
}

echo "== 1. set body through JSON stdin =="
B1=$'## Plan\nstep one\nstep two'
jq -cn --arg b "$B1" '{body:$b}' | timeout 20 "$ERGO" --json set ABCDEF
echo "   exit code of set: $?"
check "JSON stdin" "$B1"

echo "== 2. set body through --body-stdin (one line) =="
B2='Rotate the signing keys before Friday'
printf '%s' "$B2" | timeout 20 "$ERGO" --json set ABCDEF --body-stdin
echo "   exit code of set: $?"
check "--body-stdin" "$B2"

echo "== 3. set body through the --body flag =="
B3=$'## Notes\nfirst line\nsecond line'
timeout 20 "$ERGO" --json set ABCDEF --body "$B3" </dev/null
echo "   exit code of set: $?"
check "--body flag" "$B3"

echo "== 4. compact makes it permanent =="
timeout 20 "$ERGO" compact </dev/null; echo "   exit code of compact: $?"
check "after compact" "$B3"
if grep -q '## Notes' .ergo/events.jsonl; then
  echo "   the heading '## Notes' is still somewhere in the log"
else
  echo "   the heading '## Notes' of the supplied body is no longer anywhere in the log"
fi

echo "== control: the same set on a task created by this binary =="
NEW="$(jq -cn '{title:"modern"}' | timeout 20 "$ERGO" --json new task | jq -r .id)"
jq -cn --arg b "$B1" '{body:$b}' | timeout 20 "$ERGO" --json set "$NEW" >/dev/null
got="$(timeout 20 "$ERGO" --json show "$NEW" </dev/null | jq -j .body; printf x)"; got="${got%x}"
if [ "$got" == "$B1" ]; then echo "   modern task: body returned exactly"; else echo "   modern task: body altered too"; violations=$((violations+1)); fi

if [ "$violations" -gt 0 ]; then
  echo "RESULT: property C17 violated ($violations mismatches)"
  exit 1
fi
echo "RESULT: property held"
exit 0
