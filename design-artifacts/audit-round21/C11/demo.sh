#!/bin/bash
# C11 demo: `ergo plan` does not parse its document strictly.
#   A. a repeated "tasks" key is MERGED element-wise into the array decoded first:
#      the created task gets a body and an `after` edge that no reading of the
#      document (first key wins / last key wins / reject) gives it.
#   B. a key that is not one of the documented ones ("taſks", U+017F LONG S;
#      likewise "TASKS", "tasKs" with U+212A) is accepted instead of rejected.
# usage: bash demo.sh <ergo-source-dir>     exit 1 = violation shows, 0 = property held
set -u
SRC=${1:?usage: demo.sh <ergo-source-dir>}
SRC=$(cd "$SRC" && pwd) || exit 2
ROOT=/tmp/seedtmp-C11r21
T=$ROOT/demo.$$
mkdir -p "$T/bin" "$T/a" "$T/b" || exit 2
trap 'rm -rf "$T"; rmdir "$ROOT" 2>/dev/null' EXIT

(cd "$SRC" && go build -o "$T/bin/ergo" ./cmd/ergo) || { echo "build failed"; exit 2; }
E="$T/bin/ergo"
violation=0

# ---------------------------------------------------------------- part A
cd "$T/a" || exit 2
timeout 20 "$E" init </dev/null >/dev/null 2>&1 || { echo "init failed"; exit 2; }
# something that exists before, so "nothing written" can be told from "nothing there"
printf '%s' '{"title":"pre-existing"}' | timeout 20 "$E" --json new task >/dev/null 2>&1
cp .ergo/plans.jsonl "$T/a.before"

cat > "$T/a.json" <<'EOF'
{
  "title": "E",
  "tasks": [ {"title": "draft", "body": "OLD BODY", "after": ["review"]}, {"title": "review"} ],
  "tasks": [ {"title": "build"}, {"title": "review"} ]
}
EOF
echo "== A: plan document with the key \"tasks\" given twice"
cat "$T/a.json"
timeout 20 "$E" --json plan < "$T/a.json" > "$T/a.out" 2> "$T/a.err"; rc=$?
echo "-- plan exit=$rc stdout:"; cat "$T/a.out"; echo "-- stderr:"; cat "$T/a.err"

if [ $rc -ne 0 ]; then
  if cmp -s .ergo/plans.jsonl "$T/a.before"; then
    echo "A: rejected, nothing written -> property held"
  else
    echo "A: VIOLATION: rejected but the log changed"; violation=1
  fi
else
  epic=$(python3 -c 'import json,sys; print(json.load(open(sys.argv[1]))["epic"]["id"])' "$T/a.out")
  timeout 20 "$E" --json show "$epic" </dev/null > "$T/a.show" 2>/dev/null
  python3 - "$T/a.out" "$T/a.show" <<'PY'
import json, sys
plan = json.load(open(sys.argv[1])); show = json.load(open(sys.argv[2]))
kids = {c["id"]: c for c in show["children"]}
title = {c["id"]: c["title"] for c in show["children"]}
got = sorted((c["title"], c["body"], tuple(sorted(title[d] for d in (c["deps"] or []))))
             for c in show["children"])
print("-- what a read shows (title, body, depends-on):")
for g in got: print("   ", g)
print("-- edges reported by plan:", [(title[e["from_id"]], "after", title[e["to_id"]]) for e in plan["edges"]])
last  = sorted([("build", "", ()), ("review", "", ())])
first = sorted([("draft", "OLD BODY", ("review",)), ("review", "", ())])
if got == last:
    print("A: the last \"tasks\" value was used as written -> property held"); sys.exit(0)
if got == first:
    print("A: the first \"tasks\" value was used as written -> property held"); sys.exit(0)
print("A: VIOLATION: the created graph is neither value of \"tasks\":")
print("   the last one says   ", last)
print("   the first one says  ", first)
print("   task 'build' was given body 'OLD BODY' and the edge build-after-review, which the input names for 'draft' only")
sys.exit(1)
PY
  [ $? -ne 0 ] && violation=1
fi

# ---------------------------------------------------------------- part B
cd "$T/b" || exit 2
timeout 20 "$E" init </dev/null >/dev/null 2>&1 || { echo "init failed"; exit 2; }
printf '%s' '{"title":"pre-existing"}' | timeout 20 "$E" --json new task >/dev/null 2>&1
cp .ergo/plans.jsonl "$T/b.before"
printf '%s' '{"title":"E","ta'$'\xc5\xbf''ks":[{"title":"a"}]}' > "$T/b.json"
echo
echo "== B: plan document whose only task list is under the key \"taſks\" (U+017F), not \"tasks\""
cat "$T/b.json"; echo
timeout 20 "$E" --json plan < "$T/b.json" > "$T/b.out" 2> "$T/b.err"; rc=$?
echo "-- plan exit=$rc stdout:"; cat "$T/b.out"; echo "-- stderr:"; cat "$T/b.err"
if [ $rc -ne 0 ] && cmp -s .ergo/plans.jsonl "$T/b.before"; then
  echo "B: rejected, nothing written -> property held"
else
  echo "B: VIOLATION: unknown key accepted (exit $rc), $(($(wc -l < .ergo/plans.jsonl) - $(wc -l < "$T/b.before"))) events written"
  violation=1
fi

echo
if [ $violation -ne 0 ]; then echo "RESULT: violation shows"; exit 1; fi
echo "RESULT: property held"; exit 0
