#!/usr/bin/env bash
# C05 round 21: `compact` freezes the load-time title migration of a legacy
# (untitled) task, so the same `set` issued after compaction leaves a different
# title and body than it does without compaction.
#
# usage: bash demo.sh <ergo-source-dir>
# exit 1 = violation shows, exit 0 = property held, 2 = could not run
set -u
SRC="${1:?usage: demo.sh <ergo-source-dir>}"
BASE=/tmp/seedtmp-C05r21
mkdir -p "$BASE" || exit 2
WORK="$(mktemp -d "$BASE/demo.XXXXXX")" || exit 2
cleanup() { rm -rf "$WORK"; rmdir "$BASE" 2>/dev/null || true; }
trap cleanup EXIT

( cd "$SRC" && go build -o "$WORK/ergo" ./cmd/ergo ) >/dev/null 2>"$WORK/build.err" || { echo "build failed"; cat "$WORK/build.err"; exit 2; }
E="$WORK/ergo"
ergo() { timeout 20 "$E" "$@"; }

# A legacy store: the log is still called events.jsonl (ergo < 0.10.0) and holds a
# task recorded by `printf '{"body":"..."}' | ergo new task` of ergo < 0.6.0, when
# the title was the first line of the body (same shape as the project's own
# TestLegacyTitleMigration fixture). The property quantifies over such logs.
mk_store() {
  mkdir -p "$1/.ergo"
  cat > "$1/.ergo/events.jsonl" <<'EOF'
{"type":"new_task","ts":"2026-01-10T10:00:00Z","data":{"id":"LEGACY","uuid":"11111111-1111-4111-8111-111111111111","epic_id":"","state":"todo","title":"","body":"Fix login redirect\nUsers land on /home instead of the page they asked for.","created_at":"2026-01-10T10:00:00Z"}}
EOF
  : > "$1/.ergo/lock"
}

view() { ( cd "$1" && ergo --json show LEGACY </dev/null | jq -c '{title,body,state,created_at}' ); }

fail=0
probe() { # $1 = label, $2 = JSON for `ergo set LEGACY`
  local plain="$WORK/$1.plain" comp="$WORK/$1.compacted"
  mk_store "$plain"; mk_store "$comp"
  local before after
  before="$(view "$comp")"
  ( cd "$comp" && ergo compact </dev/null ) || { echo "compact failed"; exit 2; }
  after="$(view "$comp")"
  echo "[$1] show before compact : $before"
  echo "[$1] show after  compact : $after"
  [ "$before" = "$after" ] || { echo "[$1] compact itself changed the item"; fail=1; }
  for d in "$plain" "$comp"; do
    ( cd "$d" && printf '%s' "$2" | ergo --json set LEGACY >/dev/null ) || { echo "set failed in $d"; exit 2; }
  done
  local vp vc
  vp="$(view "$plain")"; vc="$(view "$comp")"
  echo "[$1] set $2"
  echo "[$1]   without compact -> $vp"
  echo "[$1]   after   compact -> $vc"
  if [ "$vp" != "$vc" ]; then
    echo "[$1] VIOLATION: the same command behaves differently after compaction"
    fail=1
  fi
}

probe body  '{"body":"Fix logout redirect\nNew details."}'
probe title '{"title":"Redirect bug"}'

if [ "$fail" -ne 0 ]; then
  echo "RESULT: property C05 violated (commands issued after compaction do not behave as they would have without it)"
  exit 1
fi
echo "RESULT: property held"
exit 0
