#!/usr/bin/env bash
# C09 demo: the human dry run of `ergo prune` does not report exactly the set
# that `prune --yes` removes: titles are printed raw, so a done task whose title
# contains a line break adds a forged row (here: a row that names a live todo
# task as "would be removed"), and escape sequences reach the terminal verbatim
# (cursor-up + erase-line wipes the row of another item that WILL be removed).
#
# usage: bash demo.sh <ergo-source-dir>
# exit 1 = violation shown, exit 0 = property held, 2 = setup problem
set -u
SRC="${1:?usage: demo.sh <ergo-source-dir>}"
BASE=/tmp/seedtmp-C09r21
mkdir -p "$BASE" || exit 2
TMP="$(mktemp -d "$BASE/demo.XXXXXX")" || exit 2
cleanup() { rm -rf "$TMP"; rmdir "$BASE" 2>/dev/null || true; }
trap cleanup EXIT

( cd "$SRC" && go build -o "$TMP/ergo" ./cmd/ergo ) || { echo "build failed"; exit 2; }
E="$TMP/ergo"
W="$TMP/work"; mkdir -p "$W"; cd "$W" || exit 2
ergo() { timeout 20 "$E" "$@"; }

ergo init </dev/null >/dev/null 2>&1 || exit 2

# 1. a live task that must never be pruned
LIVE=$(printf '%s' '{"title":"migrate the database"}' | ergo new task) || exit 2
# 2. a finished task whose title continues on a second line that imitates a
#    preview row for the live task (JSON stdin accepts any characters in titles)
FORGED=$(python3 - "$LIVE" <<'EOF'
import json, sys
live = sys.argv[1]
print(json.dumps({"title": "old cleanup\n✓ migrate the database          " + live + "\n", "state": "done"}))
EOF
)
DONE1=$(printf '%s' "$FORGED" | ergo new task) || exit 2
# 3. a second finished task whose title carries cursor-up + erase-line
DONE2=$(printf '%s' '{"title":"\u001b[1A\u001b[2Kharmless note","state":"canceled"}' | ergo new task) || exit 2

echo "live (todo) task : $LIVE"
echo "finished tasks   : $DONE1 $DONE2"

BEFORE=$(sha256sum .ergo/plans.jsonl)
JSON_DRY=$(ergo --json prune </dev/null) || exit 2
HUMAN_DRY=$(ergo prune </dev/null 2>/dev/null) || exit 2
AFTER=$(sha256sum .ergo/plans.jsonl)
[ "$BEFORE" = "$AFTER" ] || { echo "dry run wrote to the log"; exit 1; }

echo "--- prune --json (dry run)"
echo "$JSON_DRY"
echo "--- prune (human dry run), control characters made visible"
printf '%s\n' "$HUMAN_DRY" | cat -v

JSON_APPLY=$(ergo --json prune --yes </dev/null) || exit 2
echo "--- prune --yes --json"
echo "$JSON_APPLY"

printf '%s' "$HUMAN_DRY" > "$TMP/human.txt"
python3 - "$JSON_DRY" "$JSON_APPLY" "$LIVE" "$TMP/human.txt" <<'EOF'
import json, sys
dry = json.loads(sys.argv[1]); app = json.loads(sys.argv[2]); live = sys.argv[3]
human = open(sys.argv[4], encoding="utf-8").read()
ids = dry["pruned_ids"]
bad = []
if ids != app["pruned_ids"]:
    bad.append("json dry run %r != applied %r" % (ids, app["pruned_ids"]))
if live in app["pruned_ids"]:
    bad.append("live task pruned")
# item rows = the block between the stats block and the "This is a preview" note
lines = human.split("\n")
try:
    end = next(i for i, l in enumerate(lines) if l.startswith("This is a preview"))
except StopIteration:
    print("unexpected preview layout"); sys.exit(2)
# blocks are separated by empty lines: header, stats, items
blocks, cur = [], []
for l in lines[:end]:
    if l.strip() == "":
        if cur: blocks.append(cur); cur = []
    else:
        cur.append(l)
if cur: blocks.append(cur)
rows = blocks[-1]
print("--- analysis")
print("ids that will be removed      :", ids)
print("item rows in the human dry run:", len(rows))
if len(rows) != len(ids):
    bad.append("human dry run shows %d item rows for %d ids" % (len(rows), len(ids)))
named = [r.split()[-1] for r in rows if r.split()]
extra = [n for n in named if n not in ids]
if extra:
    bad.append("rows end in something that is not a pruned id: %r" % extra)
if live in named:
    bad.append("the live todo task %s is shown in the id column of a would-be-removed row" % live)
ctl = sorted({c for c in human if (ord(c) < 32 and c != "\n") or ord(c) == 127})
if ctl:
    bad.append("raw control characters reach the terminal: %r (ESC[1A ESC[2K erases the previous item row on a tty)" % ctl)
if bad:
    print("VIOLATION: the dry run does not report exactly the set that prune --yes removes:")
    for b in bad: print("  -", b)
    sys.exit(1)
print("property held: one row per pruned id, nothing else")
sys.exit(0)
EOF
RC=$?
exit $RC
