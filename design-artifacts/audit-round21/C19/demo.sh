#!/usr/bin/env bash
# C19 demo: rows of the human `ergo list` overflow the terminal and lose the
# common id column when a title / claimant contains regional-indicator pairs
# (flag emoji): visibleLen() counts a flag as ONE cell, every terminal draws TWO.
#
# usage: bash demo.sh <ergo-source-dir>
# exit 1 = violation shown, exit 0 = property held, 2 = could not run
set -u
SRC="${1:?usage: demo.sh <ergo-source-dir>}"
BASE=/tmp/seedtmp-C19r21
mkdir -p "$BASE" || exit 2
TMP="$(mktemp -d "$BASE/demo.XXXXXX")" || exit 2
cleanup() { rm -rf "$TMP"; rmdir "$BASE" 2>/dev/null || true; }
trap cleanup EXIT

( cd "$SRC" && go build -o "$TMP/ergo" ./cmd/ergo ) >"$TMP/build.log" 2>&1 || { cat "$TMP/build.log"; echo "build failed"; exit 2; }

export ERGO="$TMP/ergo" STORE="$TMP/proj"
mkdir -p "$STORE"

python3 - <<'PY'
import os, sys, json, re, pty, fcntl, termios, struct, subprocess, unicodedata

ERGO, STORE = os.environ["ERGO"], os.environ["STORE"]
ANSI = re.compile(r"\x1b\[[0-9;]*m")

def ergo(args, stdin=None):
    p = subprocess.run(["timeout", "20", ERGO] + args, cwd=STORE, input=stdin,
                       stdin=None if stdin is not None else subprocess.DEVNULL,
                       stdout=subprocess.PIPE, stderr=subprocess.PIPE)
    if p.returncode != 0:
        print("ergo", args, "failed:", p.stderr.decode(), file=sys.stderr); sys.exit(2)
    return p.stdout

def new(kind, obj):
    return json.loads(ergo(["--json", "new", kind], json.dumps(obj).encode()))["id"]

def pty_list(args, cols):
    m, s = pty.openpty()
    fcntl.ioctl(s, termios.TIOCSWINSZ, struct.pack("HHHH", 50, cols, 0, 0))
    a = termios.tcgetattr(s); a[1] &= ~termios.OPOST; termios.tcsetattr(s, termios.TCSANOW, a)
    p = subprocess.Popen(["timeout", "20", ERGO] + args, cwd=STORE, stdin=subprocess.DEVNULL,
                         stdout=s, stderr=subprocess.DEVNULL)
    os.close(s); buf = b""
    while True:
        try: d = os.read(m, 65536)
        except OSError: break
        if not d: break
        buf += d
    p.wait(); os.close(m)
    return buf

def cells(s):
    """Cells a line occupies. Deliberately the SMALLEST figure any terminal
    convention gives: zero for combining/format characters, two for East Asian
    wide/fullwidth, one otherwise; a regional-indicator PAIR is two cells either
    way (two narrow letters on xterm/VTE/tmux/glibc wcwidth, one wide flag on
    kitty/wezterm/iTerm2/Windows Terminal)."""
    w = 0
    for ch in s:
        cat = unicodedata.category(ch)
        if cat in ("Mn", "Me", "Cf", "Cc"):
            continue
        w += 2 if unicodedata.east_asian_width(ch) in ("W", "F") else 1
    return w

def flag(cc):
    return "".join(chr(0x1F1E6 + ord(c) - ord("A")) for c in cc)

ergo(["init"])
ids = {}
ids["plain"] = new("task", {"title": "plain ascii task"})
ids["long-ascii"] = new("task", {"title": "a long plain ascii title " * 8})
ids["five-flags"] = new("task", {"title": "translate the docs %s %s %s %s %s" % tuple(flag(c) for c in ("DE", "FR", "ES", "IT", "JP"))})
ids["many-flags"] = new("task", {"title": "locales " + flag("DE") * 40})
ids["epic"] = new("epic", {"title": "Release"})
ids["child"] = new("task", {"title": "release notes " + flag("BR"), "epic": ids["epic"],
                            "state": "doing", "claim": "bot-" + flag("US") + flag("CA")})
byid = {v: k for k, v in ids.items()}

js = json.loads(ergo(["--json", "list", "--all"])) + json.loads(ergo(["--json", "list", "--epics"]))
assert sorted(i["id"] for i in js) == sorted(ids.values()), "json view incomplete?"

bad = False
views = [("pty", c) for c in (60, 80, 100, 140)] + [("pipe", 80)]
for kind, cols in views:
    if kind == "pty":
        raw = pty_list(["list", "--all"], cols)
    else:
        raw = ergo(["list", "--all"])
    try:
        text = raw.decode("utf-8")
    except UnicodeDecodeError:
        print("invalid UTF-8 in output"); bad = True; continue
    lines = [l for l in ANSI.sub("", text).split("\n") if l.strip()]
    rows = [l for l in lines if l[-6:] in byid]
    print("--- ergo list --all on a %s, terminal width %d" % (kind, cols))
    seen = [r[-6:] for r in rows]
    if sorted(seen) != sorted(ids.values()):
        print("   rows do not cover every item exactly once:", seen); bad = True
    endcols = set()
    for r in rows:
        w = cells(r)
        endcols.add(w)
        mark = ""
        if w > cols:
            mark = "  <-- %d cells: does not fit %d columns" % (w, cols); bad = True
        print("   [%-10s] ends in column %3d%s" % (byid[r[-6:]], w, mark))
    if len(endcols) > 1:
        print("   ids are NOT in one right-hand column: rows end in columns", sorted(endcols)); bad = True
    if kind == "pty" and cols == 80:
        print("   the rows as printed:")
        for r in rows:
            print("   |" + r)

if bad:
    print("VIOLATION: rows wider than the terminal and/or ids out of their common column")
    sys.exit(1)
print("property held: every row fits and all ids end in the same column")
sys.exit(0)
PY
rc=$?
exit $rc
