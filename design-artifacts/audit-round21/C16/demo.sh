#!/usr/bin/env bash
# C16 demo: a mistyped subcommand under `ergo new` ("new taks", or a stray
# positional such as `new "Fix login"`) is a command that does nothing, yet with
# --json it exits 0, writes the multi-page usage text (not JSON) to stdout and
# nothing to stderr.  The same typo one level up (`ergo --json taks`) is handled
# correctly (exit 1, "unknown command" on stderr, empty stdout).
#
# usage: bash demo.sh <ergo-source-dir>
# exit 1 = violation shows, exit 0 = property held, 2 = demo could not run
set -u
SRC="${1:?usage: demo.sh <ergo-source-dir>}"
SRC="$(cd "$SRC" && pwd)" || exit 2
ROOT=/tmp/seedtmp-C16r21
mkdir -p "$ROOT"
TMP="$(mktemp -d "$ROOT/demo.XXXXXX")" || exit 2
cleanup() { rm -rf "$TMP"; rmdir "$ROOT" 2>/dev/null || true; }
trap cleanup EXIT

( cd "$SRC" && go build -o "$TMP/ergo" ./cmd/ergo ) || { echo "build failed"; exit 2; }
ERGO="$TMP/ergo"
mkdir "$TMP/repo" && cd "$TMP/repo" || exit 2
timeout 20 "$ERGO" --json init </dev/null >/dev/null 2>&1 || { echo "init failed"; exit 2; }

# classify stdout: prints ONE / NONE / NOTJSON / MANY
classify() {
  python3 - "$1" <<'PY'
import json, sys
s = open(sys.argv[1], 'rb').read().decode('utf-8', 'replace')
dec = json.JSONDecoder(); i = 0; n = 0
try:
    while True:
        while i < len(s) and s[i] in ' \t\r\n': i += 1
        if i >= len(s): break
        _, i = dec.raw_decode(s, i); n += 1
except Exception:
    print('NOTJSON'); sys.exit()
print({0: 'NONE', 1: 'ONE'}.get(n, 'MANY'))
PY
}

violated=0
run_case() { # label, stdin-text, args...
  local label="$1" input="$2"; shift 2
  if [ -n "$input" ]; then
    printf '%s' "$input" | timeout 20 "$ERGO" "$@" >"$TMP/out" 2>"$TMP/err"
  else
    timeout 20 "$ERGO" "$@" </dev/null >"$TMP/out" 2>"$TMP/err"
  fi
  rc=$?
  kind=$(classify "$TMP/out")
  echo "== $label: ergo $*"
  echo "   exit=$rc stdout=$kind ($(wc -c <"$TMP/out") bytes, first line: $(head -n1 "$TMP/out" | cut -c1-70)) stderr=$(wc -c <"$TMP/err") bytes: $(head -n1 "$TMP/err" | cut -c1-100)"
}

# reference: the same typo at the top level is a proper failure
run_case "reference (top-level typo)" "" --json taks
ref_rc=$rc

# 1. the typo below `new`, with the JSON document an agent would pipe in
run_case "typo below new" '{"title":"Fix login"}' --json new taks
rc1=$rc; kind1=$kind; err1=$(wc -c <"$TMP/err")

# 2. a title passed positionally (forgot task/--title)
run_case "stray positional" "" --json new "Fix login"
rc2=$rc; kind2=$kind; err2=$(wc -c <"$TMP/err")

# nothing was created by either command
timeout 20 "$ERGO" --json list --all </dev/null >"$TMP/list" 2>/dev/null
echo "== following read: ergo --json list --all -> $(cat "$TMP/list")"
created=$(python3 -c 'import json,sys; print(len(json.load(open(sys.argv[1]))))' "$TMP/list")

for t in "$rc1:$kind1:$err1" "$rc2:$kind2:$err2"; do
  IFS=: read -r c k e <<<"$t"
  # the command did nothing (created=0): it must fail (non-zero, stderr explanation,
  # at most one JSON error object).  A zero exit would at least need exactly one JSON value.
  if [ "$created" = "0" ] && { [ "$c" = "0" ] || [ "$e" = "0" ] || [ "$k" = "NOTJSON" ] || [ "$k" = "MANY" ]; }; then
    violated=1
  fi
done

if [ "$violated" = "1" ]; then
  echo "VIOLATION: 'ergo --json new <unknown word>' created nothing, yet exited 0 with non-JSON usage text on stdout and an empty stderr (top-level typo exits $ref_rc)."
  exit 1
fi
echo "property held: the unknown subcommand below 'new' failed with a non-zero exit and an explanation on stderr"
exit 0
