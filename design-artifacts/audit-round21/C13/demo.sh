#!/bin/bash
# C13 demo: a reader that could read the store fails with "permission denied"
# as soon as a concurrent two-event command (claim) has replaced the log by
# temp file + rename: the replacement is created 0644&^umask and owned by the
# writer, the permissions of the log it replaces are not carried over.
#
# usage: bash demo.sh <ergo-source-dir>
# exit 1 = violation shown, 0 = property held, 2 = could not run
set -u
SRC=${1:?usage: demo.sh <ergo-source-dir>}
TMP=/tmp/seedtmp-C13r21/demo.$$
mkdir -p "$TMP" || exit 2
trap 'rm -rf "$TMP"; rmdir /tmp/seedtmp-C13r21 2>/dev/null' EXIT
chmod 755 /tmp/seedtmp-C13r21 "$TMP"

( cd "$SRC" && go build -o "$TMP/ergo" ./cmd/ergo ) || { echo "build failed"; exit 2; }
chmod 755 "$TMP/ergo"
E="$TMP/ergo"
STORE="$TMP/proj"
mkdir -p "$STORE" && chmod 755 "$STORE"
cd "$STORE" || exit 2

# the reader runs as another user when we are root, else as ourselves
if [ "$(id -u)" = 0 ] && command -v setpriv >/dev/null; then
  reader() { setpriv --reuid=65534 --regid=65534 --clear-groups timeout 20 "$E" "$@" </dev/null; }
  echo "reader runs as uid 65534 (nobody), writers as root"
  OTHER=1
else
  reader() { timeout 20 "$E" "$@" </dev/null; }
  echo "not root: cannot switch users, judging by the permission bits of the log only"
  OTHER=0
fi

# --- a store everybody may read: created under the usual umask 022
umask 022
timeout 20 "$E" init </dev/null >/dev/null 2>&1 || exit 2
T1=$(echo '{"title":"first"}'  | timeout 20 "$E" new task) || exit 2
T2=$(echo '{"title":"second"}' | timeout 20 "$E" new task) || exit 2
LOG=.ergo/plans.jsonl
echo "log before:          $(stat -c '%A %U' $LOG)"
MODE0=$(stat -c %a $LOG)

echo "--- reader before any rewrite"
reader --json list --all; RC0=$?
echo "reader exit status: $RC0"
[ $RC0 = 0 ] || { echo "reader cannot read even before: environment problem"; exit 2; }

# --- a writer whose umask is 077 (hardened login, systemd UMask=0077, ...)
# 1. a one-event command appends in place: nothing changes for readers
( umask 077; echo '{"title":"first, renamed"}' | timeout 20 "$E" set "$T1" >/dev/null ) || exit 2
echo "log after 1-event set: $(stat -c '%A %U' $LOG)"
reader --json list --all >/dev/null; RC1=$?
echo "reader exit status after the one-event set: $RC1"

# 2. claim records two events -> temp file + rename. The reader is started
#    while the writer is still parked inside rename(2) (old file in place) and
#    again right after it.
( umask 077
  strace -f -o /dev/null -e trace=rename,renameat,renameat2 \
     -e inject=rename,renameat,renameat2:delay_enter=1500000 \
     timeout 20 "$E" --json claim --agent alice </dev/null >"$TMP/claim.out" 2>"$TMP/claim.err" ) &
WPID=$!
sleep 0.7
echo "--- reader while claim is parked before the rename"
reader --json list --all; RCa=$?
echo "reader exit status: $RCa"
wait $WPID
echo "claim said: $(cat "$TMP/claim.out" "$TMP/claim.err" | head -c 200)"
echo "log after claim:     $(stat -c '%A %U' $LOG)"
MODE1=$(stat -c %a $LOG)

echo "--- reader after the rename"
reader --json list --all; RCb=$?
echo "reader exit status: $RCb"
reader --json show "$T2"; RCc=$?
echo "show exit status: $RCc"

if [ $OTHER = 1 ]; then
  if [ $RCb != 0 ] || [ $RCc != 0 ]; then
    echo "VIOLATION: list/show fail with an error after a concurrent claim replaced the log (mode $MODE0 -> $MODE1)"
    exit 1
  fi
else
  if [ "$MODE0" != "$MODE1" ]; then
    echo "VIOLATION (by permission bits): the log went from mode $MODE0 to $MODE1; readers of other users now get 'permission denied'"
    exit 1
  fi
fi
echo "property held: the reader kept working"
exit 0
