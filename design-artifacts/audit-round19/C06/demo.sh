#!/usr/bin/env bash
# C06 demo: a command whose events are appended as one batch (claim+state,
# unclaim+state, new_task+claim+state) can have that single append cut short
# by the environment (file-size limit -> EFBIG, full disk -> ENOSPC).  ergo
# reports the failure (exit 1) but leaves the whole lines that did fit in the
# log, and the reader accepts them: the task ends up `todo` WITH a claimant
# (or `doing` WITHOUT one), and the "rejected" request did change the task.
#
# usage: bash demo.sh <ergo-source-dir>
# exit 1 = violation shown, 0 = property held, 2 = could not build/run.
set -u
SRC=${1:?usage: demo.sh <ergo-source-dir>}
SRC=$(cd "$SRC" && pwd) || exit 2
ROOT=/tmp/seedtmp-C06r19
TMP=$ROOT/demo.$$
mkdir -p "$TMP/mnt" || exit 2
MOUNTED=0
cleanup() {
  [ "$MOUNTED" = 1 ] && umount "$TMP/mnt" 2>/dev/null
  rm -rf "$TMP"
  rmdir "$ROOT" 2>/dev/null
  return 0
}
trap cleanup EXIT

(cd "$SRC" && go build -o "$TMP/ergo" ./cmd/ergo) || { echo "build failed"; exit 2; }
export ERGO="$TMP/ergo" WORK="$TMP"

# ---------------------------------------------------------------- part 1+2
# Deterministic, unprivileged: RLIMIT_FSIZE set to (current log size + k) for
# EVERY k, each time on a fresh copy of the same store.  The kernel then makes
# the one write(2) of the batch short by exactly the chosen number of bytes.
python3 - <<'EOF'
import json, os, resource, shutil, subprocess, sys
E, W = os.environ['ERGO'], os.environ['WORK']

def ergo(store, args, inp=None, limit=None):
    pre = None
    if limit is not None:
        def pre():
            resource.setrlimit(resource.RLIMIT_FSIZE, (limit, limit))
    kw = dict(capture_output=True, text=True, preexec_fn=pre)
    if inp is None:
        kw['stdin'] = subprocess.DEVNULL
    else:
        kw['input'] = inp
    p = subprocess.run(['timeout', '20', E, '--dir', store] + args, **kw)
    return p.returncode, p.stdout.strip(), p.stderr.strip()

def show(store, tid):
    rc, out, err = ergo(store, ['show', '--json', tid])
    if rc != 0:
        return ('SHOW-FAILED: ' + err, '')
    d = json.loads(out)
    return (d.get('state'), d.get('claimed_by') or '')

def invariant_ok(state, claimant):
    if state in ('doing', 'error'):
        return claimant != ''
    if state in ('todo', 'done', 'canceled'):
        return claimant == ''
    return state == 'blocked'

def scan(name, setup, request):
    """setup(store) -> task id; request(store, id, limit) -> (rc, out, err)"""
    base = os.path.join(W, 'base-' + name)
    os.makedirs(base)
    subprocess.run(['timeout', '20', E, 'init', base], stdin=subprocess.DEVNULL,
                   capture_output=True, check=True)
    tid = setup(base)
    before = show(base, tid)
    log = os.path.join(base, '.ergo', 'plans.jsonl')
    size = os.path.getsize(log)
    print('== %s: task %s is %r, log is %d bytes' % (name, tid, before, size))
    groups, bad, sample = [], 0, None
    for k in range(1, 600):
        store = os.path.join(W, 'run')
        shutil.rmtree(store, ignore_errors=True)
        shutil.copytree(base, store)
        rc, out, err = request(store, tid, size + k)
        after = show(store, tid)
        verdict = 'ok'
        if not invariant_ok(*after):
            verdict = 'VIOLATION: claim invariant broken'
        elif rc != 0 and after != before:
            verdict = 'VIOLATION: failed request changed the task'
        if verdict != 'ok':
            bad += 1
            if sample is None:
                with open(os.path.join(store, '.ergo', 'plans.jsonl')) as f:
                    tail = f.read()[size:]
                lst = ergo(store, ['list', '--json', '--all'])[1]
                sample = (k, rc, err, tail, lst)
        key = (rc, after, verdict)
        if groups and groups[-1][0] == key:
            groups[-1][2] = k
        else:
            groups.append([key, k, k])
        if rc == 0:
            break
    for (rc, after, verdict), lo, hi in groups:
        print('   limit = size+%-3d .. size+%-3d  exit=%d  task=%r  %s' % (lo, hi, rc, after, verdict))
    if sample:
        k, rc, err, tail, lst = sample
        print('   first violating run (limit = size+%d): exit=%d, stderr: %s' % (k, rc, err))
        print('   bytes the failed command left in the log:')
        for line in tail.split('\n'):
            print('      | ' + line)
        print('   list --json --all: ' + lst)
    shutil.rmtree(os.path.join(W, 'run'), ignore_errors=True)
    return bad

def new_task(store):
    rc, out, err = ergo(store, ['new', 'task'], json.dumps({'title': 't'}))
    assert rc == 0, err
    return out

def setup_todo(store):
    return new_task(store)

def setup_doing(store):
    tid = new_task(store)
    rc, out, err = ergo(store, ['claim', tid, '--agent', 'alice'])
    assert rc == 0, err
    return tid

total = 0
# 1. `claim <id>` on a todo task: batch = [claim, state=doing]
total += scan('claim-by-id', setup_todo,
              lambda s, t, lim: ergo(s, ['claim', t, '--agent', 'alice'], limit=lim))
# 2. `set` {"claim":"","state":"blocked"} on a doing task: batch = [unclaim, state=blocked]
total += scan('set-unclaim+blocked', setup_doing,
              lambda s, t, lim: ergo(s, ['set', t], json.dumps({'claim': '', 'state': 'blocked'}), limit=lim))
print('rlimit runs violating the property: %d' % total)
sys.exit(1 if total else 0)
EOF
RL=$?
[ $RL -gt 1 ] && { echo "helper failed"; exit 2; }

# ---------------------------------------------------------------- part 3
# The same thing on a genuinely full disk (needs the right to mount a tmpfs;
# skipped otherwise).  The log is sized so that the page boundary - where a
# full tmpfs cuts the write - falls inside the second line of the batch.
FD=0
M=$TMP/mnt
if mount -t tmpfs -o size=32k tmpfs "$M" 2>/dev/null; then
  MOUNTED=1
  timeout 20 "$ERGO" init "$M" </dev/null >/dev/null 2>&1
  TITLE=$(python3 -c "print('x'*(4096-171-222))")
  ID=$(printf '{"title":"%s"}' "$TITLE" | timeout 20 "$ERGO" --dir "$M" new task)
  echo "== full disk (tmpfs, ENOSPC): task $ID, log $(stat -c %s "$M/.ergo/plans.jsonl") bytes"
  cat /dev/zero > "$M/filler" 2>/dev/null
  BEFORE=$(timeout 20 "$ERGO" --dir "$M" show --json "$ID" </dev/null | jq -c '{state,claimed_by}')
  echo "   before: $BEFORE"
  timeout 20 "$ERGO" --dir "$M" claim "$ID" --agent alice </dev/null 2>"$TMP/err"; RC=$?
  echo "   ergo claim $ID --agent alice -> exit=$RC ($(cat "$TMP/err" | head -1))"
  AFTER=$(timeout 20 "$ERGO" --dir "$M" show --json "$ID" </dev/null | jq -c '{state,claimed_by}')
  echo "   after:  $AFTER"
  echo "   ready list: $(timeout 20 "$ERGO" --dir "$M" list --json --ready </dev/null | jq -c '[.[]|{id,state,ready}]') (the task can no longer be handed out by \`ergo claim\`)"
  if [ "$RC" != 0 ] && [ "$AFTER" != "$BEFORE" ]; then
    echo "   VIOLATION: the failed claim left the task as $AFTER"
    FD=1
  fi
  umount "$M" && MOUNTED=0
else
  echo "== full disk (tmpfs) part skipped: cannot mount"
fi

if [ $RL = 1 ] || [ $FD = 1 ]; then
  echo "RESULT: property C06 VIOLATED (todo task with a claimant / doing task without one, left behind by a command that exited 1)"
  exit 1
fi
echo "RESULT: property held"
exit 0
