#!/bin/bash
# C01 demo: an oldest-ready `ergo claim` whose single write(2) of the
# claim+state pair is cut short (file-size limit / full disk) FAILS (exit 1)
# and yet leaves the `claim` line in the log: the oldest ready task is
# recorded as todo + claimed_by=A, A was told it lost, and no claimer is ever
# handed that task again.
#
# usage: bash demo.sh <ergo-source-dir>
# exit 1 = violation shown, 0 = property held, 2 = could not run
set -u
SRC=${1:?usage: demo.sh <ergo-source-dir>}
SRC=$(cd "$SRC" && pwd) || exit 2
BASE=/tmp/seedtmp-C01r19
T=$BASE/demo.$$
mkdir -p "$T" || exit 2
cleanup() { rm -rf "$T"; rmdir "$BASE" 2>/dev/null; }
trap cleanup EXIT

( cd "$SRC" && go build -o "$T/ergo" ./cmd/ergo ) || { echo "build failed"; exit 2; }
E=$T/ergo
export E

# ---- common judge -----------------------------------------------------------
# $1 = store dir, $2 = id of the oldest task, $3 = exit status of A's claim
judge() {
  local dir=$1 id=$2 rc=$3 row state by ready
  row=$(cd "$dir" && timeout 20 "$E" --json list --all </dev/null | jq -c --arg id "$id" '.[] | select(.id==$id)')
  state=$(jq -r '.state' <<<"$row"); by=$(jq -r '.claimed_by // ""' <<<"$row"); ready=$(jq -r '.ready' <<<"$row")
  echo "   after quiescence: task $id state=$state claimed_by='$by' ready=$ready   (A's claim exit status: $rc)"
  if [ "$rc" -ne 0 ]; then
    if [ "$state" = todo ] && [ -z "$by" ] && [ "$ready" = true ]; then
      echo "   -> A failed and the store is untouched: property held"; return 0
    fi
    echo "   -> VIOLATION: A's claim FAILED but had an effect (task is no longer ready, recorded claimant '$by', state $state)"
    return 1
  fi
  if [ "$state" = doing ] && [ "$by" = A ]; then
    echo "   -> A succeeded and owns the task: property held"; return 0
  fi
  echo "   -> VIOLATION: A was told it won but the task is state=$state claimed_by='$by'"; return 1
}

# B claims afterwards: which task is handed out?
after() {
  local dir=$1 id=$2 got
  got=$(cd "$dir" && timeout 20 "$E" --json claim --agent B </dev/null | jq -r '.id // .status')
  echo "   next claimer B is handed: $got   (the oldest task is $id)"
}

VIOL=0

# ---- scenario 1: RLIMIT_FSIZE (no privileges needed) --------------------------
echo "== scenario 1: file-size limit (RLIMIT_FSIZE) cuts the claim batch inside its 2nd line"
S1=$T/s1; mkdir -p "$S1"; cd "$S1" || exit 2
timeout 20 "$E" init -q </dev/null >/dev/null
OLD=$(timeout 20 "$E" new task --title oldest </dev/null)
NEW=$(timeout 20 "$E" new task --title second </dev/null)
SIZE=$(stat -c %s .ergo/plans.jsonl)
python3 - "$E" "$SIZE" "$OLD" <<'PY'
import json, resource, subprocess, sys
ergo, size, tid = sys.argv[1], int(sys.argv[2]), sys.argv[3]
ts = "2026-01-01T00:00:00.123456789Z"          # 30 chars, the usual length
line1 = json.dumps({"type": "claim", "ts": ts, "data": {"id": tid, "agent_id": "A", "ts": ts}},
                   separators=(",", ":")) + "\n"
limit = size + len(line1) + 40                  # 40 bytes into the state line
def pre():
    resource.setrlimit(resource.RLIMIT_FSIZE, (limit, limit))
p = subprocess.run([ergo, "--json", "claim", "--agent", "A"], stdin=subprocess.DEVNULL,
                   capture_output=True, preexec_fn=pre, timeout=20)
print("   A: exit %d stdout=%r stderr=%r" % (p.returncode, p.stdout.decode(), p.stderr.decode().strip()))
open("rc", "w").write(str(p.returncode if p.returncode >= 0 else 128 - p.returncode))
PY
RC=$(cat rc); rm -f rc
echo "   log tail now:"; tail -n 2 .ergo/plans.jsonl | cut -c1-140 | sed 's/^/      | /'; echo
judge "$S1" "$OLD" "$RC" || VIOL=1
after "$S1" "$OLD"

# ---- scenario 2: a really full disk (tiny tmpfs in a private mount namespace) --
echo "== scenario 2: disk full (ENOSPC) - tmpfs of 64k in a private mount namespace"
cat > "$T/full.sh" <<'EOS'
M=$1
mount -t tmpfs -o size=64k tmpfs "$M" 2>/dev/null || exit 3
cd "$M" || exit 3
run() { timeout 20 "$E" "$@" </dev/null; }
run init -q >/dev/null
OLD=$(run new task --title oldest)
NEW=$(run new task --title second)
PAD=$(run new task --title pad --state done)      # never ready; its body pads the log
L1=131                                            # claim line for agent A with 30-char timestamps (state line: 132)
for try in 1 2 3 4 5 6; do
  S=$(stat -c %s .ergo/plans.jsonl); cur=$(( S % 4096 ))
  # want the page boundary 25..90 bytes into the state line of the next claim batch
  [ $cur -ge $(( 4096 - L1 - 90 )) ] && [ $cur -le $(( 4096 - L1 - 25 )) ] && break
  need=$(( (4096 - L1 - 55 - cur + 4096) % 4096 )); [ $need -lt 140 ] && need=$(( need + 4096 ))
  run set "$PAD" --body "$(head -c $(( need - 115 )) /dev/zero | tr '\0' x)" >/dev/null
done
S=$(stat -c %s .ergo/plans.jsonl)
echo "   log is $S bytes: $(( 4096 - S % 4096 )) bytes left in its last page"
dd if=/dev/zero of=filler bs=4096 2>/dev/null     # take every remaining page
echo "   disk: $(df -k "$M" | tail -1 | awk '{print $4" KiB available"}')"
run --json claim --agent A > "$2/a.out" 2> "$2/a.err"; RC=$?   # replies go to another filesystem
echo "   A: exit $RC stdout='$(cat "$2/a.out")' stderr='$(cat "$2/a.err")'"
rm -f filler                                      # space is available again
echo "   log tail now:"; tail -n 2 .ergo/plans.jsonl | cut -c1-140 | sed 's/^/      | /'; echo
echo "$OLD $RC" > "$M/.verdict"
cp -r "$M/.ergo" "$2/.ergo"; cp "$M/.verdict" "$2/verdict"
EOS
S2=$T/s2; mkdir -p "$S2" "$T/mnt"
UNSHARE=""
if unshare -m true 2>/dev/null; then UNSHARE="unshare -m"
elif unshare -rm true 2>/dev/null; then UNSHARE="unshare -rm"; fi
if [ -n "$UNSHARE" ] && $UNSHARE bash "$T/full.sh" "$T/mnt" "$S2"; then
  read -r OLD2 RC2 < "$S2/verdict"
  judge "$S2" "$OLD2" "$RC2" || VIOL=1
  after "$S2" "$OLD2"
else
  echo "   (skipped: cannot mount a tmpfs here)"
fi

echo
if [ $VIOL -ne 0 ]; then
  echo "RESULT: violation shown - a failing oldest-ready claim left half of its claim+state pair in the log"
  exit 1
fi
echo "RESULT: property held"
exit 0
