#!/usr/bin/env bash
# C03 demo: an event line of >= 10 MiB (the reader's bufio.Scanner cap) is written
# by `ergo set --body-stdin` without any check on the write side.
#   Scenario 1: the writer's write(2) is cut short (file-size limit; same bytes a
#               SIGKILL inside write(2) or a full disk leaves): the command is NOT
#               acknowledged, the torn final fragment is > 10 MiB, and from then on
#               every read and every mutation fails - the torn-tail tolerance never
#               gets to run because the scanner gives up with ErrTooLong first.
#   Scenario 2: no crash at all: the same command is acknowledged (exit 0, JSON
#               reply) and the store is unreadable afterwards, compact included.
# usage: bash demo.sh <ergo-source-dir>     exit 1 = violation shown, 0 = property held
set -u
SRC=${1:?usage: demo.sh <ergo-source-dir>}
ROOT=/tmp/seedtmp-C03r19
mkdir -p "$ROOT"
W=$(mktemp -d "$ROOT/demo.XXXXXX")
trap 'rm -rf "$W"' EXIT

( cd "$SRC" && go build -o "$W/ergo" ./cmd/ergo ) || { echo "build failed"; exit 2; }
E="$W/ergo"
run() { timeout 60 "$E" "$@"; }

# 1.8 MB of '<' : encoding/json writes each as <, so the event line is ~10.8 MB.
# (11 MB of plain text does the same; binary data expands 6x as well.)
mkbody() { head -c 1800000 /dev/zero | tr '\0' '<'; }

violation=0

probe() {   # $1 = store dir, $2 = label, $3/$4 = ids that were acknowledged earlier
  local d=$1 label=$2 a=$3 b=$4 bad=0 out rc
  for c in "list" "--json list --all" "--json show $a" "--json show $b" "compact"; do
    out=$(cd "$d" && run $c </dev/null 2>&1); rc=$?
    echo "   [$label] ergo $c -> rc=$rc  $(echo "$out" | head -c 150 | tr '\n' ' ')"
    [ $rc -ne 0 ] && bad=1
  done
  out=$(cd "$d" && echo '{"title":"later task"}' | run --json new task 2>&1); rc=$?
  echo "   [$label] ergo new task -> rc=$rc  $(echo "$out" | head -c 150 | tr '\n' ' ')"
  [ $rc -ne 0 ] && bad=1
  out=$(cd "$d" && echo '{"state":"done"}' | run --json set "$a" 2>&1); rc=$?
  echo "   [$label] ergo set $a state=done -> rc=$rc  $(echo "$out" | head -c 150 | tr '\n' ' ')"
  [ $rc -ne 0 ] && bad=1
  # acknowledged work must still be visible
  out=$(cd "$d" && run --json show "$a" </dev/null 2>/dev/null)
  echo "$out" | grep -q '"title":"acknowledged A"' || { echo "   [$label] task $a (acknowledged) is no longer readable"; bad=1; }
  return $bad
}

mkstore() {  # prints "dir idA idB"
  local d=$1
  mkdir -p "$d" && cd "$d" || exit 2
  run init -q </dev/null >/dev/null || exit 2
  local a b
  a=$(echo '{"title":"acknowledged A"}' | run new task) || exit 2
  b=$(echo '{"title":"acknowledged B"}' | run new task) || exit 2
  echo "$a $b"
}

echo "== Scenario 1: write of one large event cut short (RLIMIT_FSIZE = what a kill inside write(2) / full disk leaves)"
read -r A B < <(mkstore "$W/s1")
cd "$W/s1"
echo "   acknowledged: tasks $A $B; log is $(stat -c %s .ergo/plans.jsonl) bytes, ends in newline"
# limit the log to 10400 KiB: the single write(2) of the ~10.8 MB line is cut short there
# (short write), and when strace is available the process is SIGKILLed as it enters the
# follow-up write(2) - a process that really died in the middle of writing one log line.
if command -v strace >/dev/null 2>&1; then
  ( ulimit -f 10400
    mkbody | timeout 60 strace -f -o "$W/s1.strace" -e trace=write \
        -e inject=write:signal=KILL:when=2 -P "$W/s1/.ergo/plans.jsonl" \
        "$E" --json set "$B" --body-stdin >"$W/s1.out" 2>"$W/s1.err" ) 2>/dev/null; rc=$?
  if [ $rc -eq 137 ]; then
    echo "   'ergo set $B --body-stdin' (1.8 MB body) SIGKILLed after its first, short write(2) -> rc=$rc  stdout: '$(head -c 100 "$W/s1.out")'"
  else
    echo "   'ergo set $B --body-stdin' (1.8 MB body) was not killed, it exited by itself -> rc=$rc  $(head -c 160 "$W/s1.err" | tr '\n' ' ')"
  fi
else
  ( ulimit -f 10400; mkbody | run --json set "$B" --body-stdin >"$W/s1.out" 2>"$W/s1.err" ); rc=$?
  echo "   interrupted 'ergo set $B --body-stdin' (1.8 MB body) -> rc=$rc  $(head -c 160 "$W/s1.err" | tr '\n' ' ')"
fi
size=$(stat -c %s .ergo/plans.jsonl); last=$(tail -c 1 .ergo/plans.jsonl | od -An -c | tr -d ' ')
if [ "$last" = '\n' ]; then tail_note="ends in newline, nothing torn"; else tail_note="torn final line, no newline"; fi
echo "   log is now $size bytes, last byte '$last' ($tail_note), complete lines: $(wc -l < .ergo/plans.jsonl)"
if [ $rc -eq 0 ]; then echo "   (unexpected: command succeeded under the size limit)"; fi
if probe "$W/s1" "after torn large write" "$A" "$B"; then
  echo "   scenario 1: store still works"
else
  echo "   scenario 1: VIOLATION - an unacknowledged, interrupted command left the store unusable"
  violation=1
fi

echo "== Scenario 2: no crash; the same mutation runs to completion and is acknowledged"
read -r A B < <(mkstore "$W/s2")
cd "$W/s2"
out=$(mkbody | run --json set "$B" --body-stdin 2>&1); rc=$?
echo "   'ergo set $B --body-stdin' (1.8 MB body) -> rc=$rc  $(echo "$out" | head -c 160 | tr '\n' ' ')"
echo "   log is now $(stat -c %s .ergo/plans.jsonl) bytes, longest line $(awk '{ if (length($0)>m) m=length($0) } END { print m }' .ergo/plans.jsonl) bytes"
if probe "$W/s2" "after acknowledged large set" "$A" "$B"; then
  echo "   scenario 2: store still works (the mutation was either rejected or stays readable)"
else
  if [ $rc -eq 0 ]; then
    echo "   scenario 2: VIOLATION - a mutation that ergo acknowledged made the store unreadable; compact cannot repair it"
  else
    echo "   scenario 2: VIOLATION - a rejected mutation left the store unreadable"
  fi
  violation=1
fi

if [ $violation -eq 1 ]; then
  echo "RESULT: property C03 violated"
  exit 1
fi
echo "RESULT: property held"
exit 0
