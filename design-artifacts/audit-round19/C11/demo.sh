#!/usr/bin/env bash
# C11 demo: a valid plan document whose task body makes one event line longer
# than the reader's 10 MiB line cap is accepted (exit 0, ids reported), and from
# then on no command can read the store: the plan's own epic cannot be shown and
# the task that existed before is gone from every view.
#
# usage: bash demo.sh <ergo-source-dir>
# exit 1 = violation shown, exit 0 = property held
set -u
SRC="${1:?usage: demo.sh <ergo-source-dir>}"
SRC="$(cd "$SRC" && pwd)"
ROOT=/tmp/seedtmp-C11r19
mkdir -p "$ROOT"
W="$(mktemp -d "$ROOT/demo.XXXXXX")"
trap 'rm -rf "$W"; rmdir "$ROOT" 2>/dev/null || true' EXIT

(cd "$SRC" && go build -o "$W/ergo" ./cmd/ergo) || { echo "build failed"; exit 2; }
E="$W/ergo"

violation=0

run_case() {
  local name="$1" pyexpr="$2"
  local D="$W/$name"
  mkdir -p "$D" && cd "$D" || exit 2
  timeout 20 "$E" init </dev/null >/dev/null 2>&1 || exit 2
  timeout 20 "$E" new task --title "pre-existing task" </dev/null >/dev/null || exit 2
  timeout 20 "$E" --json list --all </dev/null >"$D/before.json" || exit 2

  python3 - "$D/plan.json" "$pyexpr" <<'PY'
import json, sys
body = eval(sys.argv[2])
doc = {"title": "Epic", "tasks": [{"title": "A", "body": body}, {"title": "B", "after": ["A"]}]}
open(sys.argv[1], "w").write(json.dumps(doc))
PY
  echo "== case $name: plan document is $(stat -c %s "$D/plan.json") bytes"

  timeout 60 "$E" --json plan <"$D/plan.json" >"$D/plan.out" 2>"$D/plan.err"
  local prc=$?
  echo "plan exit status: $prc"
  head -c 300 "$D/plan.out"; echo
  [ -s "$D/plan.err" ] && head -c 300 "$D/plan.err"

  timeout 60 "$E" --json list --all </dev/null >"$D/after.json" 2>"$D/after.err"
  local lrc=$?
  echo "list --json --all after plan: exit $lrc"
  [ -s "$D/after.err" ] && head -c 300 "$D/after.err"

  if [ $prc -ne 0 ]; then
    # rejected: must have written nothing
    if [ $lrc -eq 0 ] && cmp -s "$D/before.json" "$D/after.json"; then
      echo "-> plan rejected, store unchanged: property held"
    else
      echo "-> VIOLATION: plan failed but the store changed / became unreadable"
      violation=1
    fi
    return
  fi

  # accepted: what it reported must be readable, and the old task untouched
  local epic
  epic="$(jq -r '.epic.id' "$D/plan.out")"
  timeout 60 "$E" --json show "$epic" </dev/null >"$D/show.json" 2>"$D/show.err"
  local src=$?
  echo "show --json $epic: exit $src"
  [ -s "$D/show.err" ] && head -c 300 "$D/show.err"
  if [ $src -ne 0 ] || [ $lrc -ne 0 ]; then
    echo "-> VIOLATION: plan succeeded (exit 0, ids reported) but a subsequent read cannot show them,"
    echo "   and the pre-existing task is no longer readable either"
    violation=1
    return
  fi
  if python3 - "$D/plan.json" "$D/plan.out" "$D/show.json" "$D/before.json" "$D/after.json" <<'PY'
import json, sys
plan, out, show, before, after = (json.load(open(p)) for p in sys.argv[1:6])
ok = True
kids = {c["id"]: c for c in show.get("children", [])}
for want, got in zip(plan["tasks"], out["tasks"]):
    c = kids.get(got["id"])
    if c is None or c["title"] != want["title"] or c["body"] != want.get("body", ""):
        ok = False
old = {t["id"]: t for t in before}
new = {t["id"]: t for t in after}
for i, t in old.items():
    if new.get(i) != t:
        ok = False
sys.exit(0 if ok else 1)
PY
  then
    echo "-> plan accepted, bodies identical, old task untouched: property held"
  else
    echo "-> VIOLATION: stored graph differs from the input or old task altered"
    violation=1
  fi
}

# 1.8 MB of '<' : each is stored as <, so the event line is ~10.8 MB
run_case amplified "'<' * 1800000"
# 11 MB of plain text: the line exceeds the cap without any escaping
run_case plain "'x' * (11 * 1024 * 1024)"

echo
if [ $violation -ne 0 ]; then
  echo "RESULT: violation of C11 shown"
  exit 1
fi
echo "RESULT: property held"
exit 0
