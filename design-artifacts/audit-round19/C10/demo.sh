#!/usr/bin/env bash
# C10 "a command that fails changes nothing" - disk fills up in the middle of a
# multi-event append: the command exits 1, yet a prefix of its events is in the log.
#
#   bash demo.sh <ergo-source-dir>
#
# exit 1 = violation shown, exit 0 = property held (or the fault could not be provoked).
# Temp files only under /tmp/seedtmp-C10r19/ (removed on exit).
set -u
SRC=${1:?usage: demo.sh <ergo-source-dir>}
SRC=$(cd "$SRC" && pwd) || exit 2
ROOT=/tmp/seedtmp-C10r19
mkdir -p "$ROOT"

# Need a filesystem that really runs out of space: a tiny tmpfs. Try a plain
# mount (root), else re-run inside a user+mount namespace, else fall back to a
# file-size limit (RLIMIT_FSIZE), which cuts the write(2) short in the same way.
MODE=${C10_MODE:-}
if [ -z "$MODE" ]; then
  probe=$(mktemp -d "$ROOT/probe.XXXXXX")
  if mount -t tmpfs -o size=64k tmpfs "$probe" 2>/dev/null; then
    umount "$probe"; rmdir "$probe"; MODE=tmpfs
  else
    rmdir "$probe"
    if unshare -Urm true 2>/dev/null; then
      C10_MODE=tmpfs exec unshare -Urm bash "$0" "$SRC"
    fi
    MODE=fsize
  fi
fi

T=$(mktemp -d "$ROOT/demo.XXXXXX")
MNT=
cleanup() {
  [ -n "$MNT" ] && umount "$MNT" 2>/dev/null
  rm -rf "$T"
  rmdir "$ROOT" 2>/dev/null
}
trap cleanup EXIT

( cd "$SRC" && go build -o "$T/ergo" ./cmd/ergo ) || { echo "build failed"; exit 2; }
E="$T/ergo"
echo "mode: $MODE"

ergo() { timeout 20 "$E" "$@" </dev/null; }

# Everything a user can observe, plus the events ergo's reader accepts.
snapshot() {
  ( cd "$1" || exit
    ergo --json list --all 2>&1
    ergo --json list --epics 2>&1
    for id in $( (ergo --json list --all; ergo --json list --epics) 2>/dev/null | jq -r '.[].id' | sort); do
      ergo --json show "$id" 2>&1
    done
    echo "-- events accepted by the reader --"
    python3 - .ergo/plans.jsonl <<'PY'
import json, sys
for line in open(sys.argv[1], 'rb').read().split(b'\n'):
    line = line.strip()
    if not line:
        continue
    try:
        ev = json.loads(line)
    except Exception:
        continue          # torn tail: ignored by ergo too
    print(ev["type"], json.dumps(ev["data"], sort_keys=True)[:150])
PY
  )
}

VIOLATIONS=0

# run_case <name> <setup-fn> : the setup function creates the pre-state in $P and
# sets CMD (array) to the command that is going to hit the full disk.
run_case() {
  local name=$1 setup=$2 unit P LOG room s try
  echo
  echo "=== $name ==="
  if [ "$MODE" = tmpfs ]; then
    MNT="$T/mnt.$name"; mkdir -p "$MNT"
    mount -t tmpfs -o size=64k,mode=755 tmpfs "$MNT" || { echo "mount failed"; return; }
    P="$MNT"; unit=4096
  else
    P="$T/proj.$name"; mkdir -p "$P"; unit=1024
  fi
  cd "$P" || return
  ergo init >/dev/null 2>&1
  LOG=.ergo/plans.jsonl
  $setup
  PADID=$(ergo new task --title padding)

  # Pad the log (ordinary `set --body`) until between 150 and 200 bytes are left
  # before the next $unit boundary: room for the command's first event, not for
  # all of them.
  for try in 1 2 3 4 5; do
    s=$(stat -c %s $LOG)
    room=$(( unit - s % unit ))
    if [ $room -ge 150 ] && [ $room -le 200 ]; then break; fi
    # a body event costs ~125 bytes + the body
    want=$(( (unit - 175 - s - 125) % unit )); while [ $want -lt 1 ]; do want=$((want + unit)); done
    ergo set "$PADID" --body "$(head -c $want /dev/zero | tr '\0' p)" >/dev/null
  done
  s=$(stat -c %s $LOG); room=$(( unit - s % unit ))
  echo "log is $s bytes; $room bytes left before the disk/limit is hit"

  if [ "$MODE" = tmpfs ]; then
    dd if=/dev/zero of="$P/filler" bs=4096 >/dev/null 2>&1   # use up every other page
    echo "filesystem: $(df -k "$P" | tail -1)"
  fi

  snapshot "$P" > "$T/before.$name"
  echo "\$ ergo ${CMD[*]}"
  if [ "$MODE" = tmpfs ]; then
    ergo "${CMD[@]}"; rc=$?
  else
    ( ulimit -f $(( (s + room) / 1024 )); timeout 20 "$E" "${CMD[@]}" </dev/null ); rc=$?
  fi
  echo "exit status: $rc"
  [ "$MODE" = tmpfs ] && rm -f "$P/filler"
  snapshot "$P" > "$T/after.$name"

  if [ $rc -eq 0 ]; then
    echo "command succeeded - fault not provoked, nothing to judge"
  elif cmp -s "$T/before.$name" "$T/after.$name"; then
    echo "command failed and the store is unchanged: property holds"
  else
    echo "command FAILED (exit $rc) but the store CHANGED:"
    strip='s/"uuid":"[^"]*",//g; s/"created_at":"[^"]*",//g; s/"updated_at":"[^"]*",//g; s/"epic_id":"",//g'
    diff <(sed "$strip" "$T/before.$name") <(sed "$strip" "$T/after.$name") | cut -c1-400
    echo "tail of the log:"; tail -c 260 $LOG; echo
    VIOLATIONS=$((VIOLATIONS + 1))
  fi
  cd /
  if [ "$MODE" = tmpfs ]; then umount "$MNT"; MNT=; fi
}

setup_sequence() {
  A=$(ergo new task --title A); B=$(ergo new task --title B); C=$(ergo new task --title C)
  CMD=(sequence "$A" "$B" "$C")
}
setup_claim() {
  A=$(ergo new task --title A)
  CMD=(--agent me claim "$A")
}

run_case sequence setup_sequence   # "a failed `sequence A B C` adds none of its edges"
run_case claim    setup_claim      # claim = claim event + state event

echo
if [ $VIOLATIONS -gt 0 ]; then
  echo "VIOLATION: $VIOLATIONS failing command(s) left part of their events in the store"
  exit 1
fi
echo "property held"
exit 0
