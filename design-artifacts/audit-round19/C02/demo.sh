#!/usr/bin/env bash
# C02 - "each command that failed contributed nothing":
# `ergo claim` on a full disk reports failure (exit 1, "no space left on device")
# but leaves HALF of its two-event batch (the claim event, not the state event)
# in the log.  Afterwards the only task is held by an agent that was told its
# claim failed, is state=todo with a claimant (a combination ergo itself forbids),
# is not ready, and `ergo claim` of any other agent answers "No ready ergo tasks".
#
# usage: bash demo.sh <ergo-source-dir>
# exit 1 = violation shown, 0 = property held, 2 = could not run the scenario.
set -u

SRC=${1:?usage: bash demo.sh <ergo-source-dir>}
SRC=$(cd "$SRC" && pwd) || exit 2
BASE=/tmp/seedtmp-C02r19

# The scenario needs a tiny filesystem (tmpfs, 40 KiB).  Mount it directly when
# we may, otherwise inside a private user+mount namespace.
if [ -z "${C02_INNER:-}" ]; then
  mkdir -p "$BASE/probe.$$"
  if mount -t tmpfs -o size=40k tmpfs "$BASE/probe.$$" 2>/dev/null; then
    umount "$BASE/probe.$$"; rmdir "$BASE/probe.$$"
  else
    rmdir "$BASE/probe.$$"
    if unshare -rm true 2>/dev/null; then
      C02_INNER=1 exec unshare -rm bash "$0" "$SRC"
    fi
    echo "cannot mount a tmpfs here (neither directly nor via unshare -rm)"; rmdir "$BASE" 2>/dev/null; exit 2
  fi
fi

mkdir -p "$BASE"
RUN=$(mktemp -d "$BASE/run.XXXXXX") || exit 2
MNT=$RUN/mnt
mkdir -p "$MNT"
MOUNTED=0
cleanup() {
  cd /
  [ "$MOUNTED" = 1 ] && umount "$MNT" 2>/dev/null
  rm -rf "$RUN"
  rmdir "$BASE" 2>/dev/null
}
trap cleanup EXIT

echo "== build ergo from $SRC"
(cd "$SRC" && go build -o "$RUN/ergo" ./cmd/ergo) || { echo "build failed"; exit 2; }
E=$RUN/ergo
run() { timeout 20 "$E" "$@" </dev/null; }

# Sizes of the two events `claim` writes for agent "agent-1", and the fixed part
# of a body event, measured in a scratch store on the normal filesystem.
mkdir -p "$RUN/scratch"; cd "$RUN/scratch"
run init >/dev/null 2>&1
SID=$(run new task --title x)
a=$(stat -c %s .ergo/plans.jsonl)
run set "$SID" --body yyyyyyyyyy >/dev/null
b=$(stat -c %s .ergo/plans.jsonl)
BODYBASE=$((b - a - 10))
run --agent agent-1 claim >/dev/null
L1=$(tail -n 2 .ergo/plans.jsonl | head -n 1 | wc -c)   # claim event + '\n'
L2=$(tail -n 1 .ergo/plans.jsonl | wc -c)               # state event + '\n'
echo "== claim writes one batch of two events: claim ($L1 bytes) + state ($L2 bytes)"

# Build the store on the small filesystem.  Pad the log (with one ordinary
# `set --body`) so that the free room in its last 4096-byte page holds the claim
# event and about half of the state event.
ROOM_WANTED=$((L1 + L2 / 2))
aligned=0
for attempt in 1 2 3 4 5; do
  cd /
  [ "$MOUNTED" = 1 ] && umount "$MNT" && MOUNTED=0
  mount -t tmpfs -o size=40k tmpfs "$MNT" || { echo "mount failed"; exit 2; }
  MOUNTED=1
  cd "$MNT"
  run init >/dev/null 2>&1
  ID=$(run new task --title "only task")
  S0=$(stat -c %s .ergo/plans.jsonl)
  N=$((4096 - ROOM_WANTED - S0 - BODYBASE))
  run set "$ID" --body "$(head -c "$N" /dev/zero | tr '\0' b)" >/dev/null
  SIZE=$(stat -c %s .ergo/plans.jsonl)
  ROOM=$((4096 - SIZE))
  if [ "$ROOM" -ge $((L1 + 8)) ] && [ "$ROOM" -le $((L1 + L2 - 8)) ]; then aligned=1; break; fi
done
[ "$aligned" = 1 ] || { echo "could not align the log (size $SIZE)"; exit 2; }
echo "== store: one todo task $ID; log is $SIZE bytes, $ROOM bytes left in its last page"
BEFORE=$(run show "$ID" --json | jq -c '{id,state,claimed_by}')
echo "   before: $BEFORE"
cp .ergo/plans.jsonl "$RUN/log.before"

# Disk full: no free page is left, only the room inside the log's last page.
dd if=/dev/zero of="$MNT/filler" bs=4096 >/dev/null 2>&1
echo "== filesystem filled: $(df --output=avail "$MNT" | tail -1 | tr -d ' ') KiB available"

echo "== agent-1 runs: ergo --agent agent-1 claim"
OUT=$(run --agent agent-1 claim 2>&1); RC=$?
echo "   exit status $RC"
echo "$OUT" | sed 's/^/   | /'

# Space comes back (somebody cleaned up); look at what the failed command left.
rm -f "$MNT/filler"
echo "== disk space freed again; log tail now:"
tail -c +$((SIZE + 1)) .ergo/plans.jsonl | sed 's/^/   | /'; echo
AFTER=$(run show "$ID" --json | jq -c '{id,state,claimed_by}')
READY=$(run list --ready --json | jq -c '[.[].id]')
echo "   after : $AFTER"
echo "   ready : $READY"
OUT2=$(run --agent agent-2 claim 2>&1); RC2=$?
echo "== agent-2 runs: ergo --agent agent-2 claim  -> exit $RC2: $(echo "$OUT2" | head -n 1)"

if [ "$RC" -ne 0 ]; then
  if [ "$AFTER" != "$BEFORE" ]; then
    echo
    echo "VIOLATION: the claim of agent-1 FAILED (exit $RC) and yet changed the store:"
    echo "  $BEFORE  ->  $AFTER"
    echo "  half of its batch (the claim event) is in effect, the state event is not;"
    echo "  the task is todo-with-claimant, not ready, and no agent's 'claim' can get it."
    exit 1
  fi
  echo "property held: the failed claim left the task as it was"
  exit 0
fi
# The claim reported success: then it must be in effect as a whole.
WANT=$(jq -cn --arg id "$ID" '{id:$id,state:"doing",claimed_by:"agent-1"}')
if [ "$AFTER" != "$WANT" ]; then
  echo "VIOLATION: claim acknowledged but the task is $AFTER"
  exit 1
fi
echo "property held: the claim succeeded as a whole"
exit 0
