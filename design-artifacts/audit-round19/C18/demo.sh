#!/usr/bin/env bash
# C18 demo: the same start directory, spelled through a symlink, makes ergo
# pick a different store (or none) than the physical spelling of that directory.
# usage: bash demo.sh <ergo-source-dir>
# exit 1 = violation shown, 0 = property held, 2 = setup problem
set -u
SRC=${1:?usage: demo.sh <ergo-source-dir>}
SRC=$(cd "$SRC" && pwd -P) || exit 2
mkdir -p /tmp/seedtmp-C18r19 || exit 2
W=$(mktemp -d /tmp/seedtmp-C18r19/demo.XXXXXX) || exit 2
W=$(cd "$W" && pwd -P)
trap 'cd /; rm -rf "$W"; rmdir /tmp/seedtmp-C18r19 2>/dev/null' EXIT

( cd "$SRC" && go build -o "$W/ergo" ./cmd/ergo ) || { echo "build failed"; exit 2; }
E="$W/ergo"
run() { timeout 20 "$E" "$@" </dev/null; }

# Layout
#   $W/A            project A   (.ergo, one task "task-in-A")
#   $W/A/sub/deep   the start directory D - physically inside project A only
#   $W/B            project B   (.ergo, one task "task-in-B")
#   $W/B/link  ->   $W/A/sub/deep        (a second spelling of D)
#   $W/C/link  ->   $W/A/sub/deep        (a third spelling of D; C has no store)
mkdir -p "$W/A/sub/deep" "$W/B" "$W/C"
( cd "$W/A" && run init -q >/dev/null && run new task --title task-in-A >/dev/null ) || exit 2
( cd "$W/B" && run init -q >/dev/null && run new task --title task-in-B >/dev/null ) || exit 2
ln -s "$W/A/sub/deep" "$W/B/link"
ln -s "$W/A/sub/deep" "$W/C/link"

D="$W/A/sub/deep"
EXPECT="$W/A/.ergo"
echo "start directory D = $D (inode $(stat -c %i "$D"))"
echo "B/link resolves to inode $(stat -L -c %i "$W/B/link"), C/link to inode $(stat -L -c %i "$W/C/link")  -> all the same directory"
echo "nearest .ergo above D (following '..' from D): $EXPECT"
echo

bad=0
check() { # label, observed ergo_dir, observed titles
  local verdict=ok
  if [ "$2" != "$EXPECT" ]; then verdict="WRONG STORE"; bad=1; fi
  printf '%-52s where=%-40s list=%s  [%s]\n' "$1" "${2#$W/}" "$3" "$verdict"
}
where_of() { jq -r '.ergo_dir' 2>/dev/null; }
titles_of() { jq -c '[.[].title]' 2>/dev/null; }

# 1. physical spelling, no --dir
w=$(cd "$D" && run where --json 2>&1 | where_of); t=$(cd "$D" && run list --json --all 2>&1 | titles_of)
check "cd A/sub/deep; ergo ..." "$w" "$t"
# 2. same directory entered through B/link (bash keeps PWD=$W/B/link), no --dir
w=$(cd "$W/B/link" && run where --json 2>&1 | where_of); t=$(cd "$W/B/link" && run list --json --all 2>&1 | titles_of)
check "cd B/link; ergo ...            (PWD=B/link)" "$w" "$t"
# 3. same process cwd as 2, only the PWD variable removed
w=$(cd "$W/B/link" && env -u PWD timeout 20 "$E" where --json </dev/null 2>&1 | where_of); t=$(cd "$W/B/link" && env -u PWD timeout 20 "$E" list --json --all </dev/null 2>&1 | titles_of)
check "cd B/link; env -u PWD ergo ... (same cwd as above)" "$w" "$t"
# 4. --dir spellings of D, from an unrelated cwd
w=$(cd / && run --dir "$D" where --json 2>&1 | where_of); t=$(cd / && run --dir "$D" list --json --all 2>&1 | titles_of)
check "ergo --dir <abs A/sub/deep>" "$w" "$t"
w=$(cd / && run --dir "$W/B/link" where --json 2>&1 | where_of); t=$(cd / && run --dir "$W/B/link" list --json --all 2>&1 | titles_of)
check "ergo --dir <abs B/link>" "$w" "$t"
w=$(cd "$W/B" && run --dir link where --json 2>&1 | where_of); t=$(cd "$W/B" && run --dir link list --json --all 2>&1 | titles_of)
check "cd B; ergo --dir link          (relative)" "$w" "$t"
w=$(cd "$W/B/link" && run --dir . where --json 2>&1 | where_of); t=$(cd "$W/B/link" && run --dir . list --json --all 2>&1 | titles_of)
check "cd B/link; ergo --dir ." "$w" "$t"

# 5. a write issued from D (entered through B/link) - which log receives it?
echo
( cd "$W/B/link" && run new task --title written-from-D >/dev/null 2>&1 )
inA=$(grep -c written-from-D "$W/A/.ergo/plans.jsonl")
inB=$(grep -c written-from-D "$W/B/.ergo/plans.jsonl")
echo "cd B/link; ergo new task --title written-from-D   -> lines in A/.ergo/plans.jsonl: $inA, in B/.ergo/plans.jsonl: $inB"
echo "ergo --dir <abs A/sub/deep> list --json --all     -> $(cd / && run --dir "$D" list --json --all 2>&1 | titles_of)"
if [ "$inA" != 1 ] || [ "$inB" != 0 ]; then bad=1; fi

# 6. no decoy store: the project is simply not found from inside it
echo
out=$(cd "$W/C/link" && run where 2>&1 | head -1)
echo "cd C/link; ergo where                 -> $out"
out2=$(cd "$W/C/link" && env -u PWD timeout 20 "$E" where </dev/null 2>&1 | head -1)
echo "cd C/link; env -u PWD ergo where      -> ${out2#$W/}"
if [ "$out" != "$EXPECT" ]; then bad=1; fi

echo
if [ $bad = 1 ]; then
  echo "VIOLATION: one start directory, several spellings, different stores (C18: 'however the directory is spelled ... every command operates on the nearest enclosing .ergo')"
  exit 1
fi
echo "property held: every spelling of D used $EXPECT"
exit 0
