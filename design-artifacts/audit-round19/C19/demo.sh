#!/usr/bin/env bash
# C19 demo: a title (or claimant name) that contains a line break is printed raw by
# the human `ergo list`, so one item is spread over two physical lines: the first
# one has no id, is not padded to the id column, and the item no longer occupies
# "exactly one row ... ending with its id".  `list --json` shows one item.
#
# usage: bash demo.sh <ergo-source-dir>
# exit 1 = violation observed, 0 = property held, 2 = demo could not run
set -u
SRC="${1:?usage: demo.sh <ergo-source-dir>}"
SRC="$(cd "$SRC" && pwd)" || exit 2
BASE=/tmp/seedtmp-C19r19
mkdir -p "$BASE" || exit 2
TMP="$(mktemp -d "$BASE/demo.XXXXXX")" || exit 2
cleanup() { rm -rf "$TMP"; rmdir "$BASE" 2>/dev/null || true; }
trap cleanup EXIT

( cd "$SRC" && GOCACHE="$TMP/gocache" GOFLAGS=-mod=mod go build -o "$TMP/ergo" ./cmd/ergo ) >"$TMP/build.log" 2>&1 \
  || ( cd "$SRC" && GOCACHE="$TMP/gocache" go build -o "$TMP/ergo" ./cmd/ergo ) >"$TMP/build.log" 2>&1 \
  || { echo "build failed:"; cat "$TMP/build.log"; exit 2; }

cat >"$TMP/demo.py" <<'PY'
import os, sys, pty, fcntl, termios, struct, subprocess, json, re

ERGO, STORE = sys.argv[1], sys.argv[2]
os.makedirs(STORE)

def run(args, stdin=None):
    p = subprocess.run(['timeout', '20', ERGO] + args, cwd=STORE,
                       input=stdin, stdin=None if stdin is not None else subprocess.DEVNULL,
                       capture_output=True)
    return p.returncode, p.stdout.decode('utf-8', 'replace'), p.stderr.decode('utf-8', 'replace')

def run_pty(args, cols):
    m, s = pty.openpty()
    fcntl.ioctl(s, termios.TIOCSWINSZ, struct.pack('HHHH', 40, cols, 0, 0))
    a = termios.tcgetattr(s); a[1] &= ~termios.OPOST; termios.tcsetattr(s, termios.TCSANOW, a)
    p = subprocess.Popen(['timeout', '20', ERGO] + args, cwd=STORE, stdin=subprocess.DEVNULL,
                         stdout=s, stderr=subprocess.DEVNULL)
    os.close(s)
    out = b''
    while True:
        try:
            d = os.read(m, 65536)
        except OSError:
            break
        if not d:
            break
        out += d
    p.wait(); os.close(m)
    return out

def must(rc_out):
    rc, out, err = rc_out
    if rc != 0:
        print('unexpected failure:', out, err); sys.exit(2)
    return out

must(run(['init']))
epic = json.loads(must(run(['--json', 'new', 'epic'], b'{"title":"Release 2.0"}')))['id']
plain = json.loads(must(run(['--json', 'new', 'task'], b'{"title":"plain root task"}')))['id']

# 1. a two-line title, through the documented JSON input of `new task`
two_line = json.dumps({'title': 'fix the parser\nand the lexer', 'epic': epic}).encode()
rc, out, err = run(['--json', 'new', 'task'], two_line)
if rc != 0:
    print('new task rejected the two-line title:', err.strip())
    # try the other documented way in: set title on an existing task
    t = json.loads(must(run(['--json', 'new', 'task'], json.dumps({'title': 'x', 'epic': epic}).encode())))['id']
    rc, out, err = run(['--json', 'set', t], json.dumps({'title': 'fix the parser\nand the lexer'}).encode())
    if rc != 0:
        print('set rejected it too:', err.strip())
        print('PROPERTY HELD (line breaks never reach the store)')
        sys.exit(0)
    multi = t
else:
    multi = json.loads(out)['id']

# 2. a claimant name with a line break, through --agent
other = json.loads(must(run(['--json', 'new', 'task'], json.dumps({'title': 'write docs', 'epic': epic}).encode())))['id']
rc, out, err = run(['--json', '--agent', 'bot\nnumber-7', 'claim', other])
claim_ok = rc == 0
if not claim_ok:
    print('claim with a two-line agent name rejected:', err.strip())

items = json.loads(must(run(['--json', 'list', '--all'])))
epics = json.loads(must(run(['--json', 'list', '--epics'])))
live = sorted(i['id'] for i in items + epics)
print('live items per `list --json --all` + `--epics`: %d -> %s' % (len(live), ' '.join(live)))
for i in items:
    if i['id'] == multi:
        print('  item %s title per JSON: %r' % (multi, i['title']))

ansi = re.compile(r'\x1b\[[0-9;]*m')
summary = re.compile(r'^(\d+ (ready|in progress|blocked|error|done|canceled)( · )?)+$')
violations = 0

def check(label, raw, cols):
    global violations
    text = ansi.sub('', raw.decode('utf-8'))
    print('--- %s ---' % label)
    rows = []
    for ln in text.split('\n'):
        if ln.strip() == '' or summary.match(ln) or ln.startswith('No '):
            continue
        rows.append(ln)
        print('|%s|' % ln)
    seen = []
    for ln in rows:
        m = re.search(r'(?:^|\s)([A-Z0-9]{6})$', ln)
        if not m or m.group(1) not in live:
            print('VIOLATION: this physical row does not end with an item id: %r' % ln)
            violations += 1
            continue
        seen.append(m.group(1))
        if len(ln) != cols - 2:      # all text in this scenario is 1 cell per character
            print('VIOLATION: row is %d cells, id column should end at %d: %r' % (len(ln), cols - 2, ln))
            violations += 1
    if len(rows) != len(live):
        print('VIOLATION: %d live items but %d physical rows' % (len(live), len(rows)))
        violations += 1
    if sorted(seen) != live:
        print('VIOLATION: ids at row ends %s != live items %s' % (sorted(seen), live))
        violations += 1

check('ergo list --all on an 80-column pty', run_pty(['list', '--all'], 80), 80)
rc, out, err = run(['list', '--all'])
check('ergo list --all on a pipe (80 columns assumed)', out.encode(), 80)

if violations:
    print('\nVIOLATION SHOWN (%d findings): a line break inside a title/claimant name is printed raw; '
          'the item spans two physical rows and the first has no id.' % violations)
    sys.exit(1)
print('\nPROPERTY HELD: every live item is exactly one row ending with its id in the same column.')
sys.exit(0)
PY

python3 "$TMP/demo.py" "$TMP/ergo" "$TMP/store"
rc=$?
exit $rc
