#!/usr/bin/env bash
# C17 demo: a body (or title+body) of HTML-significant / control characters is
# accepted and acknowledged (exit 0, echoed back), but is never returned by
# `show --json`: its log line, inflated 6x by \u00XX escaping, is longer than
# the reader's 10 MiB line limit, so every later command fails.
# A body of the SAME length made of plain letters round-trips fine.
#
# usage: bash demo.sh <ergo-source-dir>
# exit 1 = violation shown, exit 0 = property held
set -u
SRC="${1:?usage: demo.sh <ergo-source-dir>}"
BASE=/tmp/seedtmp-C17r19
mkdir -p "$BASE"
TMP="$(mktemp -d "$BASE/demo.XXXXXX")"
cleanup() { rm -rf "$TMP"; rmdir "$BASE" 2>/dev/null || true; }
trap cleanup EXIT

( cd "$SRC" && go build -o "$TMP/ergo" ./cmd/ergo ) || { echo "build failed"; exit 2; }
E="$TMP/ergo"
run() { timeout 60 "$E" "$@"; }

violation=0
N=1800000      # characters in scenario 1 and 3
H=900000       # characters per field in scenario 2 ("several hundred kilobytes")

gen() { python3 -c "import sys; sys.stdout.write(sys.argv[1]*int(sys.argv[2]))" "$1" "$2"; }

# Compare `show --json <id>`.body (and optionally .title) with a file.
check_show() { # dir id bodyfile label
  local dir="$1" id="$2" want="$3" label="$4" out rc
  out="$TMP/show.out"
  ( cd "$dir" && run --json show "$id" </dev/null >"$out" 2>"$TMP/show.err" ); rc=$?
  if [ $rc -ne 0 ]; then
    echo "  [$label] show --json $id: exit $rc: $(head -c 200 "$TMP/show.err")"
    return 1
  fi
  if jq -j '.body' "$out" | cmp -s - "$want"; then
    echo "  [$label] show --json $id: body identical ($(stat -c %s "$want") bytes)"
    return 0
  fi
  echo "  [$label] show --json $id: body DIFFERS"
  return 1
}

echo "== scenario 1: new task --body-stdin, $N x 'a' (control) vs $N x '<'"
D1="$TMP/s1"; mkdir -p "$D1"; ( cd "$D1" && run init </dev/null >/dev/null 2>&1 )
KEEP=$( cd "$D1" && run new task --title keep --body "small body" </dev/null )
echo "  earlier task: $KEEP"
gen a "$N" >"$TMP/a.txt"
gen '<' "$N" >"$TMP/lt.txt"
A=$( cd "$D1" && run new task --title control --body-stdin <"$TMP/a.txt" ); rcA=$?
echo "  control write: exit $rcA id=$A"
check_show "$D1" "$A" "$TMP/a.txt" control || { echo "  (control itself failed - length not admitted?)"; }
L=$( cd "$D1" && run new task --title lt --body-stdin <"$TMP/lt.txt" 2>"$TMP/w.err" ); rcL=$?
echo "  '<' write: exit $rcL id=$L $(head -c 160 "$TMP/w.err")"
if [ $rcL -eq 0 ]; then
  check_show "$D1" "$L" "$TMP/lt.txt" "'<' body" || violation=1
  printf 'small body' >"$TMP/keep.txt"
  check_show "$D1" "$KEEP" "$TMP/keep.txt" "earlier task" || violation=1
  ( cd "$D1" && run compact </dev/null >/dev/null 2>"$TMP/c.err" ); echo "  compact: exit $? $(head -c 120 "$TMP/c.err")"
  echo "  log line lengths: $(awk '{printf "%d ", length($0)}' "$D1/.ergo/plans.jsonl")"
else
  echo "  write refused; store still readable?"
  printf 'small body' >"$TMP/keep.txt"
  check_show "$D1" "$KEEP" "$TMP/keep.txt" "earlier task" || violation=1
fi

echo "== scenario 2: JSON stdin new task, title = $H x '&', body = $H x '&'"
D2="$TMP/s2"; mkdir -p "$D2"; ( cd "$D2" && run init </dev/null >/dev/null 2>&1 )
python3 -c "
import json,sys
n=int(sys.argv[1]); sys.stdout.write(json.dumps({'title':'&'*n,'body':'&'*n}))" "$H" >"$TMP/in2.json"
gen '&' "$H" >"$TMP/amp.txt"
( cd "$D2" && run --json new task <"$TMP/in2.json" >"$TMP/new2.out" 2>"$TMP/new2.err" ); rc2=$?
echo "  write: exit $rc2 $(head -c 160 "$TMP/new2.err")"
if [ $rc2 -eq 0 ]; then
  ID2=$(jq -r .id "$TMP/new2.out")
  echo "  reply echoes body of $(jq -j .body "$TMP/new2.out" | wc -c) bytes, id=$ID2"
  check_show "$D2" "$ID2" "$TMP/amp.txt" "title+body '&'" || violation=1
fi

echo "== scenario 3: set <id> (JSON stdin), body = $N x U+0001"
D3="$TMP/s3"; mkdir -p "$D3"; ( cd "$D3" && run init </dev/null >/dev/null 2>&1 )
ID3=$( cd "$D3" && run new task --title victim --body before </dev/null )
python3 -c "
import json,sys
n=int(sys.argv[1]); sys.stdout.write(json.dumps({'body':'\x01'*n}))" "$N" >"$TMP/in3.json"
gen $'\x01' "$N" >"$TMP/ctl.txt"
( cd "$D3" && run --json set "$ID3" <"$TMP/in3.json" >"$TMP/set3.out" 2>"$TMP/set3.err" ); rc3=$?
echo "  set: exit $rc3 $(cat "$TMP/set3.out" "$TMP/set3.err" | head -c 200 | tr "\n" " ")"
if [ $rc3 -eq 0 ]; then
  check_show "$D3" "$ID3" "$TMP/ctl.txt" "set body U+0001" || violation=1
fi

if [ $violation -eq 1 ]; then
  echo "RESULT: VIOLATION - acknowledged text is not returned by show --json (store unreadable)"
  exit 1
fi
echo "RESULT: property held"
exit 0
