#!/usr/bin/env bash
# C08 demo: after `ergo claim` runs into a full disk, the task it was about to
# hand out is left todo + claimed.  `ergo list` (human output) then reports that
# task as blocked ("·" row, "1 blocked" summary) although its state is not
# `blocked` and it is claimed - the JSON output of the very same command says
# blocked:false.
#
# usage: bash demo.sh <ergo-source-dir>      exit 1 = violation shown, 0 = property held
#
# Environment used: a disk that fills up during the claim.  If a tmpfs can be
# mounted (root), a real 8 KiB tmpfs is used and write(2) fails with ENOSPC
# after a short write.  Otherwise the same short write is produced with a
# file-size limit (RLIMIT_FSIZE via prlimit / python3), which needs no privilege.
# Force a mode with MODE=tmpfs or MODE=fsize.
set -u
SRC=${1:?usage: demo.sh <ergo-source-dir>}
SRC=$(cd "$SRC" && pwd) || exit 2
BASE=/tmp/seedtmp-C08r19
mkdir -p "$BASE"
WORK=$(mktemp -d "$BASE/demo.XXXXXX") || exit 2
MNT=""
cleanup() {
  cd /
  if [ -n "$MNT" ]; then umount "$MNT" 2>/dev/null || umount -l "$MNT" 2>/dev/null; fi
  rm -rf "$WORK"
  rmdir "$BASE" 2>/dev/null || true
}
trap cleanup EXIT

ERGO="$WORK/ergo"
(cd "$SRC" && go build -o "$ERGO" ./cmd/ergo) || { echo "build failed"; exit 2; }
e() { timeout 20 "$ERGO" "$@" </dev/null; }

MODE=${MODE:-auto}
STORE="$WORK/store"
mkdir -p "$STORE"
if [ "$MODE" = auto ] || [ "$MODE" = tmpfs ]; then
  if mount -t tmpfs -o size=8k tmpfs "$STORE" 2>/dev/null; then
    MNT="$STORE"; MODE=tmpfs
  elif [ "$MODE" = tmpfs ]; then
    echo "cannot mount tmpfs"; exit 2
  else
    MODE=fsize
  fi
fi
echo "== mode: $MODE"
cd "$STORE" || exit 2

e init >/dev/null 2>&1 || { echo "init failed"; exit 2; }
A=$(e new task --title "A") || { echo "new task failed"; exit 2; }
LOG=.ergo/plans.jsonl
[ -f "$LOG" ] || LOG=.ergo/events.jsonl
echo "== one ready task: $A"
e --json list --ready

# A claim appends two lines in one write: a claim event (<=130 bytes for agent
# "a1") and a state event (~133 bytes).  Let the space run out ~150 bytes into
# that write, i.e. inside the second line.
if [ "$MODE" = tmpfs ]; then
  # pad the log (two body updates; the first one measures the per-line overhead)
  S0=$(stat -c %s "$LOG")
  e set "$A" --body "$(head -c 4000 /dev/zero | tr '\0' x)" >/dev/null || { echo "padding failed"; exit 2; }
  S1=$(stat -c %s "$LOG")
  OVH=$((S1 - S0 - 4000))
  PAD=$((8192 - 150 - S1 - OVH))
  e set "$A" --body "$(head -c "$PAD" /dev/zero | tr '\0' y)" >/dev/null || { echo "padding failed"; exit 2; }
  echo "== log is $(stat -c %s "$LOG") bytes on an 8192-byte file system; claiming"
  e --json claim --agent a1
  echo "   (claim exit code $?)"
else
  LIM=$(( $(stat -c %s "$LOG") + 150 ))
  echo "== log is $(stat -c %s "$LOG") bytes, file-size limit $LIM bytes; claiming"
  if command -v prlimit >/dev/null 2>&1; then
    timeout 20 prlimit --fsize="$LIM" "$ERGO" --json claim --agent a1 </dev/null
    echo "   (claim exit code $?)"
  else
    python3 - "$LIM" "$ERGO" <<'EOF'
import resource, subprocess, sys
lim = int(sys.argv[1])
p = subprocess.run(["timeout", "20", sys.argv[2], "--json", "claim", "--agent", "a1"],
                   stdin=subprocess.DEVNULL,
                   preexec_fn=lambda: resource.setrlimit(resource.RLIMIT_FSIZE, (lim, lim)))
print("   (claim exit code %d)" % p.returncode)
EOF
  fi
fi

echo "== tail of the log after the failed claim:"
tail -c 220 "$LOG"; echo
echo "== ergo --json list --all"
JSON=$(e --json list --all)
echo "$JSON"
echo "== ergo list --all   (human output)"
HUMAN=$(e list --all 2>/dev/null)
echo "$HUMAN"
echo "== a second agent asks for work: ergo --json claim --agent a2   (read-only when nothing is ready)"
e --json claim --agent a2

STATE=$(printf '%s' "$JSON" | jq -r --arg id "$A" '.[] | select(.id==$id) | .state')
CLAIM=$(printf '%s' "$JSON" | jq -r --arg id "$A" '.[] | select(.id==$id) | (.claimed_by // "")')
JBLOCKED=$(printf '%s' "$JSON" | jq -r --arg id "$A" '.[] | select(.id==$id) | .blocked')
ROW=$(printf '%s\n' "$HUMAN" | grep -- "$A\$" | head -1)
echo
echo "task $A: state=$STATE claimed_by=${CLAIM:-<none>} json.blocked=$JBLOCKED"
echo "human row: $ROW"

if [ "$STATE" = todo ] && [ -n "$CLAIM" ]; then
  if printf '%s' "$ROW" | grep -q '·' || printf '%s\n' "$HUMAN" | grep -Eq '[0-9]+ blocked'; then
    echo "VIOLATION: $A is todo and claimed by $CLAIM (so neither ready nor blocked; JSON says blocked=$JBLOCKED),"
    echo "           but 'ergo list' reports it as blocked (icon '·' / 'N blocked' summary)."
    exit 1
  fi
  echo "task is todo+claimed, and the human list does not call it blocked: property held"
  exit 0
fi
echo "the failed claim left no half-recorded state: property held"
exit 0
