#!/usr/bin/env bash
# C05 demo: `compact` drops the claimant of a task whose claim was half recorded.
#
# usage: bash demo.sh <ergo-source-dir>
# exit 1 = violation observed, exit 0 = property held.
#
# Scenario (all through the real binary):
#   1. new task "first", new task "second"
#   2. agent A claims "first", then releases it (set --state todo)
#   3. agent B runs `claim`; its single write(2) of the two-line batch
#      [claim B, state doing] is cut short inside the second line (the kernel
#      accepts only part of the buffer: full disk / file-size limit / crash while
#      the data is being written). Here the short write is produced with
#      RLIMIT_FSIZE, which makes write(2) return after the bytes that still fit.
#      The log now ends in a complete "claim B" line plus a torn tail, which
#      ergo tolerates: every reader reports first = todo, claimed_by B, not ready.
#   4. compact
#   5. every reader now reports first = todo, unclaimed, ready; `claim` hands it
#      out to somebody else.
set -u

SRC="${1:-}"
if [ -z "$SRC" ] || [ ! -d "$SRC" ]; then
  echo "usage: bash demo.sh <ergo-source-dir>" >&2
  exit 2
fi
SRC="$(cd "$SRC" && pwd)"

ROOT=/tmp/seedtmp-C05r19
mkdir -p "$ROOT"
WORK="$(mktemp -d "$ROOT/demo.XXXXXX")"
cleanup() { rm -rf "$WORK"; rmdir "$ROOT" 2>/dev/null || true; }
trap cleanup EXIT

ERGO="$WORK/ergo"
if ! (cd "$SRC" && go build -o "$ERGO" ./cmd/ergo) >"$WORK/build.log" 2>&1; then
  echo "build failed:" >&2
  cat "$WORK/build.log" >&2
  exit 2
fi

e() { timeout 20 "$ERGO" "$@" </dev/null; }

# run a command with RLIMIT_FSIZE = $1 bytes
limited() {
  local lim="$1"; shift
  if command -v prlimit >/dev/null 2>&1; then
    prlimit --fsize="$lim" "$@"
  else
    python3 -c 'import os,resource,sys
n=int(sys.argv[1]); resource.setrlimit(resource.RLIMIT_FSIZE,(n,n)); os.execvp(sys.argv[2],sys.argv[2:])' "$lim" "$@"
  fi
}

P="$WORK/proj"
mkdir -p "$P"
cd "$P" || exit 2
e init >/dev/null 2>&1
FIRST="$(e new task --title first)"
SECOND="$(e new task --title second)"
e --agent A claim "$FIRST" >/dev/null
e set "$FIRST" --state todo >/dev/null
LOG="$P/.ergo/plans.jsonl"
echo "first=$FIRST second=$SECOND"

SIZE="$(stat -c %s "$LOG")"
# The claim line is 110..130 bytes (two RFC3339Nano stamps of 20..30 chars), the
# state line that follows is at least 111 bytes: a limit of size+135 always
# lets the whole claim line through and cuts the state line.
LIMIT=$((SIZE + 135))
echo "--- agent B: ergo claim, write cut short after $((LIMIT - SIZE)) bytes"
limited "$LIMIT" timeout 20 "$ERGO" --agent B claim </dev/null >"$WORK/claim.out" 2>&1
echo "claim exit status: $? ($(head -c 200 "$WORK/claim.out" | tr '\n' ' '))"
echo "--- tail of the log ergo left behind:"
tail -c +$((SIZE + 1)) "$LOG"
echo
echo "---"

snapshot() { # $1 = output file
  {
    echo "## show --json $FIRST";  e --json show "$FIRST" 2>&1
    echo "## show --json $SECOND"; e --json show "$SECOND" 2>&1
    echo "## list --json --all";   e --json list --all 2>&1
    echo "## list --json --ready"; e --json list --ready 2>&1
    echo "## claim order (on a copy of the store)"
    rm -rf "$WORK/copy"; cp -r "$P" "$WORK/copy"
    ( cd "$WORK/copy" || exit 0
      for _ in 1 2 3; do
        timeout 20 "$ERGO" --json --agent Z claim </dev/null 2>&1 | jq -c '.id // .status' 2>/dev/null
      done )
    rm -rf "$WORK/copy"
  } >"$1"
}

snapshot "$WORK/before.txt"
echo "=== BEFORE compact"
cat "$WORK/before.txt"

e compact
echo "=== compact exit status: $?"

snapshot "$WORK/after.txt"
echo "=== AFTER compact"
cat "$WORK/after.txt"

echo "=== diff before/after"
if diff "$WORK/before.txt" "$WORK/after.txt"; then
  echo "RESULT: compact changed nothing a reader can see (property held)"
  exit 0
fi
echo "RESULT: VIOLATION - compact changed claimant / claimed_at / ready flag / claim order of live task $FIRST"
exit 1
