#!/bin/bash
# C04 demo: `ergo claim <id>` (claim + state=doing, one batch) is NOT all-or-nothing
# when the log's file system runs out of room in the middle of the batch.
#
# appendEvents hands the whole batch to os.File.Write once, but write(2) may be
# SHORT (disk full, quota, RLIMIT_FSIZE): the kernel stores the bytes that still
# fit - here the complete `claim` line and a fragment of the `state` line - and
# Go's Write loop then issues a SECOND write(2) for the rest.  A process killed
# between those two system calls (and, for that matter, one that is not killed
# and just gets ENOSPC back) leaves the task claimed-but-todo.
#
# usage: bash demo.sh <ergo-source-dir>     exit 1 = violation shown, 0 = property held
set -u
SRC=${1:?usage: demo.sh <ergo-source-dir>}
SRC=$(cd "$SRC" && pwd) || exit 2
BASE=/tmp/seedtmp-C04r19
T=$BASE/demo.$$
MNT=$T/proj
MOUNTED=0
cleanup() {
  cd /
  [ "$MOUNTED" = 1 ] && umount "$MNT" 2>/dev/null
  rm -rf "$T"
  rmdir "$BASE" 2>/dev/null
}
trap cleanup EXIT
mkdir -p "$T" "$MNT" "$T/ref" || exit 2

(cd "$SRC" && go build -o "$T/ergo" ./cmd/ergo) || { echo "build failed"; exit 2; }
E="$T/ergo"
ergo() { timeout 20 "$E" "$@"; }

PAGE=$(getconf PAGESIZE 2>/dev/null || echo 4096)

# ---------------------------------------------------------------- reference run
# An uninterrupted claim in a twin project: gives the "after" state and the
# length of the two lines the command writes.
cd "$T/ref" || exit 2
ergo init </dev/null >/dev/null || exit 2
RID=$(echo '{"title":"victim","body":"x"}' | ergo --json new task | jq -r .id)
S0=$(stat -c %s .ergo/plans.jsonl)            # size of a new_task line with a 1-byte body
ergo --json --agent a1 claim "$RID" </dev/null >/dev/null || exit 2
L1=$(tail -n 2 .ergo/plans.jsonl | head -n 1 | wc -c)   # claim line incl. '\n'
L2=$(tail -n 1 .ergo/plans.jsonl | wc -c)               # state line incl. '\n'
REF_AFTER=$(ergo --json show "$RID" </dev/null | jq -c '{state,claimed_by}')
echo "reference (uninterrupted) claim writes 2 lines of $L1 and $L2 bytes; task afterwards: $REF_AFTER"

# ------------------------------------------------------------------- the set-up
MODE=disk
if [ -z "${C04_NO_MOUNT:-}" ] && mount -t tmpfs -o size=$((16*PAGE)) tmpfs "$MNT" 2>/dev/null; then
  MOUNTED=1
else
  MODE=rlimit
  echo "(cannot mount a small tmpfs here; using RLIMIT_FSIZE instead of a full disk)"
fi

ROOM_WANTED=$((L1 + L2/2))      # bytes that must still fit: all of line 1, half of line 2
ok=0
for attempt in 1 2 3 4 5 6; do
  cd "$MNT" || exit 2
  rm -rf .ergo filler
  ergo init </dev/null >/dev/null || exit 2
  if [ "$MODE" = disk ]; then
    # one task whose body pads the log so that exactly ROOM_WANTED bytes are
    # left in the log's last page
    N=$((PAGE - ROOM_WANTED - S0 + 1))
    BODY=$(head -c "$N" /dev/zero | tr '\0' 'x')
  else
    BODY=x
  fi
  ID=$(printf '{"title":"victim","body":"%s"}' "$BODY" | ergo --json new task | jq -r .id)
  SIZE=$(stat -c %s .ergo/plans.jsonl)
  if [ "$MODE" = disk ]; then
    ROOM=$((PAGE - SIZE % PAGE))
  else
    ROOM=$ROOM_WANTED
  fi
  # timestamps drop trailing zeros, so line lengths vary by a few bytes: keep a margin
  if [ "$ROOM" -ge $((L1 + 5)) ] && [ "$ROOM" -le $((L1 + L2 - 25)) ]; then ok=1; break; fi
done
[ "$ok" = 1 ] || { echo "could not align the log ($ROOM bytes of room)"; exit 2; }
EV="$MNT/.ergo/plans.jsonl"
echo "project: $MNT  mode: $MODE  task: $ID  log size: $SIZE  room left for the batch: $ROOM bytes"

BEFORE_SHOW=$(ergo --json show "$ID" </dev/null)
BEFORE_LIST=$(ergo --json list --all </dev/null)
echo "before : $(echo "$BEFORE_SHOW" | jq -c '{state,claimed_by}')"

if [ "$MODE" = disk ]; then
  dd if=/dev/zero of="$MNT/filler" bs="$PAGE" 2>/dev/null      # until ENOSPC
  echo "disk filled: $(df --output=avail "$MNT" | tail -1 | tr -d ' ') KiB available"
  RUN=("$E")
else
  LIM=$((SIZE + ROOM))
  RUN=(python3 -c 'import resource,os,sys
l=int(sys.argv[1]); resource.setrlimit(resource.RLIMIT_FSIZE,(l,l)); os.execv(sys.argv[2],sys.argv[2:])' "$LIM" "$E")
fi

# ------------------------------------------------------- the command, and the kill
# SIGKILL on entry to the 2nd write(2) on the log, i.e. between two system calls.
if command -v strace >/dev/null 2>&1; then
  { timeout 20 strace -f -o "$T/trace.txt" -e trace=write \
      -e inject=write:signal=KILL:when=2 -P "$EV" \
      "${RUN[@]}" --json --agent a1 claim "$ID" </dev/null >"$T/claim.out" 2>&1; rc=$?; } 2>/dev/null
  echo "claim under strace (kill at 2nd write to the log): exit $rc"
  grep ' write(' "$T/trace.txt" | cut -c1-110 | sed 's/^/    /'
else
  timeout 20 "${RUN[@]}" --json --agent a1 claim "$ID" </dev/null >"$T/claim.out" 2>&1
  echo "claim (no strace available, not killed): exit $?"
fi
sed 's/^/    /' "$T/claim.out" | cut -c1-200 | head -5
rm -f "$MNT/filler"

echo "log tail now:"
tail -c $((L1 + L2)) "$EV" | cut -c1-160 | sed 's/^/    /'; echo

# ------------------------------------------------------------------ observation
AFTER_SHOW=$(ergo --json show "$ID" </dev/null)
AFTER_LIST=$(ergo --json list --all </dev/null)
GOT=$(echo "$AFTER_SHOW" | jq -c '{state,claimed_by}')
echo "after the kill : $GOT"
echo "list --ready   : $(ergo --json list --ready </dev/null | jq -c '[.[]?.id]' 2>/dev/null)"
echo "claim (oldest ready, agent a2): $(ergo --agent a2 claim </dev/null 2>&1 | head -1)"

if [ "$AFTER_SHOW" = "$BEFORE_SHOW" ] && [ "$AFTER_LIST" = "$BEFORE_LIST" ]; then
  echo "PROPERTY HELD: state is exactly the state before the command"
  exit 0
fi
if [ "$GOT" = "$REF_AFTER" ]; then
  echo "PROPERTY HELD: state is exactly the state after the command"
  exit 0
fi
echo "VIOLATION: neither the state before ($(echo "$BEFORE_SHOW" | jq -c '{state,claimed_by}')) nor the state after ($REF_AFTER):"
echo "           the claim event was recorded, the state event was not - task is claimed-but-todo, never ready."
exit 1
