#!/usr/bin/env bash
# C14 demo: `prune --yes` writes the tombstones of an epic and of its closed
# children as ONE batch ordered by id (prune.go: sort.Strings over tasks and
# epics together).  When the append stops part-way (file-size limit / quota /
# full disk: write(2) returns a short count, then fails), the log keeps a
# PREFIX of the batch.  Whenever the epic's id sorts before one of its
# children's ids, that prefix prunes the epic but not the child: the child is
# left with an epic_id that names a pruned epic, vanishes from the human list
# views, and can be reopened and claimed.
#
# usage: bash demo.sh <ergo-source-dir>     exit 1 = violation shown, 0 = held
set -u
export LC_ALL=C
SRC=${1:?usage: demo.sh <ergo-source-dir>}
SRC=$(cd "$SRC" && pwd) || exit 2
ROOT=/tmp/seedtmp-C14r19
TMP=$ROOT/demo.$$
MNT=$TMP/mnt
mkdir -p "$TMP" || exit 2
cleanup() {
  cd /
  if mountpoint -q "$MNT" 2>/dev/null; then umount "$MNT" 2>/dev/null || umount -l "$MNT" 2>/dev/null; fi
  rm -rf "$TMP"
  rmdir "$ROOT" 2>/dev/null
}
trap cleanup EXIT

ERGO=$TMP/ergo
( cd "$SRC" && go build -o "$ERGO" ./cmd/ergo ) || { echo "build failed"; exit 2; }

e() { timeout 20 "$ERGO" "$@" </dev/null; }

# run a command with RLIMIT_FSIZE = $1 bytes (a write crossing the limit is cut
# short at the limit, the next one fails with EFBIG - same shape as ENOSPC/EDQUOT)
limited() {
  local bytes=$1; shift
  if command -v prlimit >/dev/null 2>&1; then
    timeout 20 prlimit --fsize="$bytes" "$@" </dev/null
    return
  fi
  timeout 20 python3 -c '
import os, resource, sys
n = int(sys.argv[1])
resource.setrlimit(resource.RLIMIT_FSIZE, (n, n))
os.execv(sys.argv[2], sys.argv[2:])
' "$bytes" "$@" </dev/null
}

# prints the ids of tasks whose epic_id is neither empty nor a listed epic
orphans() {
  local tasks epics
  tasks=$(e --json list --all 2>/dev/null) || return 0
  epics=$(e --json list --epics 2>/dev/null) || return 0
  jq -r -n --argjson t "$tasks" --argjson ep "$epics" \
    '($ep // [] | map(.id)) as $ids | ($t // [])[] | select((.epic_id // "") != "" and ((.epic_id) as $x | $ids | index($x) | not)) | "\(.id) (epic_id \(.epic_id), state \(.state))"'
}

# builds a store in $PWD: one epic whose closed children include at least one
# whose id sorts after the epic's id; sets EP and KIDS
build_store() {
  e init >/dev/null 2>&1
  EP=$(e new epic --title "Release 1") || return 1
  KIDS=""
  local t
  while :; do
    t=$(e new task --title "child of Release 1" --epic "$EP") || return 1
    KIDS="$KIDS $t"
    [[ "$t" > "$EP" ]] && break
  done
  for t in $KIDS; do e set "$t" --state done >/dev/null || return 1; done
}

VIOLATION=0

echo "=== part 1: prune stopped by a file-size limit at every possible byte ==="
mkdir -p "$TMP/s1" && cd "$TMP/s1" || exit 2
build_store || { echo "setup failed"; exit 2; }
LOG=$(ls .ergo/*.jsonl | head -1)
echo "epic $EP, closed children:$KIDS"
echo "prune plan: $(e --json prune)"
before=$(orphans)
[ -n "$before" ] && { echo "unexpected: orphan before the prune: $before"; exit 2; }
cp "$LOG" "$TMP/log.backup"
S=$(stat -c %s "$LOG")

# measure the size of the whole tombstone batch on a scratch copy
mkdir -p "$TMP/measure" && cp -r .ergo "$TMP/measure/.ergo"
( cd "$TMP/measure" && e prune --yes >/dev/null 2>&1 )
B=$(( $(stat -c %s "$TMP/measure/.ergo/$(basename "$LOG")") - S ))
NIDS=$(( $(echo $KIDS | wc -w) + 1 ))
L=$(( B / NIDS ))
echo "log is $S bytes before the prune; the prune batch is $B bytes ($NIDS tombstones, ~$L bytes each)"

bad=0; tried=0; first_cut=""
for (( cut = S + 1; cut < S + B; cut += 4 )); do
  cp "$TMP/log.backup" "$LOG"
  limited "$cut" "$ERGO" prune --yes >"$TMP/prune.out" 2>&1
  echo "(exit $?)" >>"$TMP/prune.out"
  tried=$((tried + 1))
  o=$(orphans)
  if [ -n "$o" ]; then
    bad=$((bad + 1))
    if [ -z "$first_cut" ]; then first_cut=$cut; cp "$LOG" "$TMP/log.bad"; cp "$TMP/prune.out" "$TMP/prune.bad"; fi
  fi
done
echo "limits tried: $tried; limits after which a task names a pruned epic: $bad"

if [ "$bad" -gt 0 ]; then
  VIOLATION=1
  cp "$TMP/log.bad" "$LOG"
  echo
  echo "--- first such limit: $first_cut bytes; 'prune --yes' under it says:"
  cat "$TMP/prune.bad"
  echo "--- tail of the log it left:"
  tail -c 360 "$LOG"; echo
  echo "--- list --json --all:";   e --json list --all
  echo "--- list --json --epics:"; e --json list --epics
  echo "--- orphaned: $(orphans)"
  echo "--- human 'list --all' (no row for the task, only the count):"
  e list --all 2>/dev/null
  O=$(orphans | head -1 | cut -d' ' -f1)
  echo "--- the limit is lifted; the closed task is reopened: set $O --state todo"
  e set "$O" --state todo
  echo "--- human 'list' and 'list --ready' (live todo task, no row):"
  e list 2>/dev/null
  e list --ready 2>/dev/null
  echo "--- prune --yes now: $(e prune --yes 2>&1 | head -1)"
  echo "--- yet it is handed out: claim --agent a1 --json"
  e --json claim --agent a1
  echo "--- show --json $O | epic_id, and show of that epic:"
  e --json show "$O" | jq -c '{id, epic_id, state}'
  EPID=$(e --json show "$O" | jq -r .epic_id)
  e show "$EPID" 2>&1 | tail -1
fi

echo
echo "=== part 2 (only if tmpfs can be mounted): the same on a really full disk ==="
part2() {
  mkdir -p "$MNT" && mount -t tmpfs -o size=64k tmpfs "$MNT" 2>/dev/null || { echo "(cannot mount tmpfs; skipped)"; return 0; }
  cd "$MNT" || return 0
  build_store || { echo "(setup failed; skipped)"; return 0; }
  local log plan p s0 d0 need boundary x s gap
  log=$(ls .ergo/*.jsonl | head -1)
  plan=$(e --json prune | jq -r '.pruned_ids | join(" ")')
  p=0; for id in $plan; do [ "$id" = "$EP" ] && break; p=$((p + 1)); done
  # pad the log (one root todo task with a long body) so that the next page
  # boundary falls inside the tombstone that follows the epic's
  s0=$(stat -c %s "$log"); e new task --title "pad0" >/dev/null; d0=$(( $(stat -c %s "$log") - s0 ))
  s0=$(stat -c %s "$log")
  need=$(( (p + 1) * L + L / 2 ))
  boundary=$(( ( (s0 + d0 + need) / 4096 + 1 ) * 4096 ))
  x=$(( boundary - need - s0 - d0 ))
  e new task --title "pad1" --body "$(head -c "$x" /dev/zero | tr '\0' x)" >/dev/null
  s=$(stat -c %s "$log"); gap=$(( boundary - s ))
  echo "epic $EP is tombstone #$((p + 1)) of: $plan"
  echo "log is $s bytes; $gap bytes are left in its last page (a tombstone is ~$L bytes)"
  [ -n "$(orphans)" ] && { echo "(unexpected orphan before prune; skipped)"; return 0; }
  # fill the disk completely
  dd if=/dev/zero of="$MNT/filler" bs=4096 count=64 >/dev/null 2>&1
  echo "disk filled: $(df --output=avail "$MNT" | tail -1 | tr -d ' ')K available; prune --yes says:"
  e prune --yes; echo "(exit $?)"
  rm -f "$MNT/filler"
  echo "--- space freed again; tail of the log:"
  tail -c 300 "$log"; echo
  local o; o=$(orphans)
  if [ -n "$o" ]; then
    VIOLATION=1
    echo "--- orphaned after ENOSPC: $o"
    echo "--- list --json --epics: $(e --json list --epics)"
    echo "--- human 'list --all':"; e list --all 2>/dev/null
  else
    echo "--- no task names a missing epic here"
  fi
  cd /; umount "$MNT" 2>/dev/null
}
part2

echo
if [ "$VIOLATION" -eq 1 ]; then
  echo "VIOLATION: after an interrupted 'prune --yes' a task's epic_id names a pruned epic (C14)"
  exit 1
fi
echo "property held: every prefix of the prune batch leaves each task under a live epic"
exit 0
