#!/usr/bin/env bash
# C20 demo: file_url of a result is NOT the file:// URL of the attached file's
# absolute path when the file name contains a backslash (a legal, ordinary byte
# in a POSIX file name). deriveFileURL rewrites every '\' to '/', so the URL
# names a different path - here the event log inside .ergo, and a decoy file
# with different content.
#
# usage: bash demo.sh <ergo-source-dir>
# exit 1 = violation observed, exit 0 = property held.
set -u
SRC="${1:?usage: demo.sh <ergo-source-dir>}"
SRC="$(cd "$SRC" && pwd)"
BASE=/tmp/seedtmp-C20r19
mkdir -p "$BASE"
TMP="$(mktemp -d "$BASE/demo.XXXXXX")"
cleanup() { rm -rf "$TMP"; rmdir "$BASE" 2>/dev/null || true; }
trap cleanup EXIT

( cd "$SRC" && go build -o "$TMP/ergo" ./cmd/ergo ) || { echo "build failed"; exit 2; }
E="$TMP/ergo"
PROJ="$TMP/proj"
mkdir -p "$PROJ" && cd "$PROJ" || exit 2

timeout 20 "$E" init </dev/null >/dev/null || { echo "init failed"; exit 2; }
ID="$(timeout 20 "$E" new task --title 'write the report' </dev/null)" || { echo "new task failed"; exit 2; }
echo "task: $ID"

# Two regular files in the project ROOT whose names contain a backslash.
# Lexically (and really) they are outside .ergo and inside the project.
printf 'the real report\n' > '.ergo\plans.jsonl'
printf 'the real notes\n'  > 'a\b.txt'
# A decoy that the mangled URL of 'a\b.txt' will point at.
mkdir -p a && printf 'something else entirely\n' > a/b.txt

violations=0
check() {
  local name="$1" summary="$2"
  if ! timeout 20 "$E" set "$ID" --result-path "$name" --result-summary "$summary" </dev/null >/dev/null 2>"$TMP/err"; then
    echo "[$name] attach refused: $(cat "$TMP/err") -> nothing recorded, property holds for this name"
    return
  fi
  timeout 20 "$E" --json show "$ID" </dev/null > "$TMP/show.json" || { echo "show failed"; exit 2; }
  NAME="$name" PROJ="$PROJ" python3 - "$TMP/show.json" <<'PY'
import json, os, sys, hashlib, pathlib, urllib.parse
name, proj = os.environ["NAME"], os.environ["PROJ"]
show = json.load(open(sys.argv[1]))
res = show["results"][0]            # newest first
assert res["path"] == name, (res["path"], name)
real = os.path.join(proj, name)
want = pathlib.PurePosixPath(real).as_uri()
got = res["file_url"]
target = urllib.parse.unquote(urllib.parse.urlparse(got).path)
print(f"[{name}] recorded path      : {res['path']}")
print(f"[{name}] absolute path      : {real}")
print(f"[{name}] expected file_url  : {want}")
print(f"[{name}] observed file_url  : {got}")
print(f"[{name}] URL resolves to    : {target}")
bad = False
if target != real:
    bad = True
    print(f"[{name}] VIOLATION: file_url names a different path than the attached file")
    ergo_dir = os.path.join(proj, ".ergo") + os.sep
    if target.startswith(ergo_dir):
        print(f"[{name}]   ... and that path is INSIDE .ergo (the event log itself)")
    if os.path.isfile(target):
        h = hashlib.sha256(open(target, "rb").read()).hexdigest()
        real_h = hashlib.sha256(open(real, "rb").read()).hexdigest()
        print(f"[{name}]   sha256_at_attach      = {res['sha256_at_attach']}")
        print(f"[{name}]   sha256(attached file) = {real_h}")
        print(f"[{name}]   sha256(URL target)    = {h}")
sys.exit(1 if bad else 0)
PY
  if [ $? -ne 0 ]; then violations=$((violations+1)); fi
}

check '.ergo\plans.jsonl' 'final report'
check 'a\b.txt' 'notes'

if [ "$violations" -gt 0 ]; then
  echo "RESULT: property C20 violated ($violations result(s) with a file_url that is not the URL of the attached file)"
  exit 1
fi
echo "RESULT: property held"
exit 0
