#!/usr/bin/env bash
# C15 demo: a `set --claim` (same for `claim`, `set --state doing --agent`,
# `new task --claim`) whose two-event batch [claim, state=doing] is cut short by
# the file system (disk full / quota / file size limit: write(2) stores the part
# that fits, then fails) leaves the claim event without its state event.  The
# command exits non-zero, but the store now holds a task that is `todo` AND
# claimed: it is never ready, nothing is doing/blocked/error, and
# `claim` answers "no ready tasks" although unfinished, un-held work exists.
#
# usage: bash demo.sh <ergo-source-dir>
# exit 1 = violation shown, 0 = property held.
set -u

ROOT=/tmp/seedtmp-C15r19
CUT=175   # bytes of the batch that still fit: claim line is 114..134 bytes,
          # claim+state lines are 220..260 bytes, so 134 <= CUT <= 219 always
          # falls after the claim line and inside the state line.

say() { printf '%s\n' "$*"; }

# ---------------------------------------------------------------------------
# observe <ergo> <projdir> : prints the store, returns 10 if the property is
# broken, 0 if it holds.
observe() {
  local ergo=$1 proj=$2 list todo held ready reply status
  list=$(cd "$proj" && timeout 20 "$ergo" --json list --all </dev/null)
  say "    list --json --all : $list"
  todo=$(jq '[.[]|select(.state=="todo")]|length' <<<"$list")
  held=$(jq '[.[]|select(.state=="doing" or .state=="blocked" or .state=="error")]|length' <<<"$list")
  ready=$(jq '[.[]|select(.ready==true)]|length' <<<"$list")
  reply=$(cd "$proj" && timeout 20 "$ergo" --json claim --agent bob </dev/null)
  say "    claim --agent bob : $(jq -c "del(.body)" <<<"$reply")"
  status=$(jq -r '.status // "claimed"' <<<"$reply")
  say "    todo=$todo doing/blocked/error=$held ready=$ready claim=$status"
  if [ "$todo" -ge 1 ] && [ "$held" -eq 0 ] && { [ "$ready" -eq 0 ] || [ "$status" = no_ready ]; }; then
    return 10
  fi
  return 0
}

# after the first verdict, show that compact keeps the stuck state (only when broken)
after_compact() {
  local ergo=$1 proj=$2
  (cd "$proj" && timeout 20 "$ergo" compact </dev/null >/dev/null 2>&1)
  say "    after 'ergo compact':"
  say "    log tail: $(tail -c 300 "$proj/.ergo/plans.jsonl" | tr "\n" "|")"
  observe "$ergo" "$proj" >/dev/null; local rc=$?
  say "    still stuck after compact: $([ $rc -eq 10 ] && echo yes || echo no)"
}

# ---------------------------------------------------------------------------
# Case A: per-process file size limit (RLIMIT_FSIZE), exact to the byte.
case_rlimit() {
  local ergo=$1 work=$2 proj=$2/projA T S rc
  mkdir -p "$proj"
  (cd "$proj" && timeout 20 "$ergo" init </dev/null >/dev/null 2>&1)
  T=$(cd "$proj" && timeout 20 "$ergo" new task --title "only task" </dev/null)
  S=$(stat -c %s "$proj/.ergo/plans.jsonl")
  say "  task $T created, log is $S bytes; file size limit = $((S+CUT)) bytes"
  cat >"$work/lim.py" <<'EOF'
import os, resource, sys
lim = int(sys.argv[1])
resource.setrlimit(resource.RLIMIT_FSIZE, (lim, lim))
os.execv(sys.argv[2], sys.argv[2:])
EOF
  (cd "$proj" && timeout 20 python3 "$work/lim.py" $((S+CUT)) "$ergo" --json set "$T" --claim alice </dev/null)
  rc=$?
  say "  'ergo set $T --claim alice' under the limit: exit $rc (the caller is told it failed)"
  say "  log tail: $(tail -c 260 "$proj/.ergo/plans.jsonl" | tr '\n' '|')"
  say "  now without any limit:"
  observe "$ergo" "$proj"; rc=$?
  [ $rc -eq 10 ] && after_compact "$ergo" "$proj"
  return $rc
}

# ---------------------------------------------------------------------------
# Case B: a really full disk (tiny tmpfs).  Runs inside a private mount namespace.
case_tmpfs_inner() {
  local ergo=$1 work=$2 mnt=$2/mnt proj T S room need pad i rc
  mkdir -p "$mnt"
  mount -t tmpfs -o size=64k tmpfs "$mnt" 2>/dev/null || return 2
  proj=$mnt/proj; mkdir -p "$proj"
  (cd "$proj" && timeout 20 "$ergo" init </dev/null >/dev/null 2>&1)
  T=$(cd "$proj" && timeout 20 "$ergo" new task --title "only task" </dev/null)
  # pad the log (ordinary `set --body`) until its last 4 KiB page has ~CUT bytes of room
  for i in 1 2 3 4 5 6; do
    S=$(stat -c %s "$proj/.ergo/plans.jsonl")
    room=$(( (4096 - S % 4096) % 4096 ))
    if [ $room -ge 140 ] && [ $room -le 212 ]; then break; fi
    need=$(( (room - CUT + 4096) % 4096 ))          # bytes to add
    [ $need -lt 200 ] && need=$((need + 4096))
    pad=$(head -c $((need - 126)) /dev/zero | tr '\0' x)   # body line = 126 bytes + body
    (cd "$proj" && timeout 20 "$ergo" set "$T" --body "$pad" </dev/null >/dev/null 2>&1)
  done
  S=$(stat -c %s "$proj/.ergo/plans.jsonl")
  room=$(( (4096 - S % 4096) % 4096 ))
  if [ $room -lt 134 ] || [ $room -gt 219 ]; then umount "$mnt"; return 2; fi
  dd if=/dev/zero of="$mnt/filler" bs=4096 >/dev/null 2>&1   # fill the disk
  say "  task $T created; log is $S bytes ($room bytes left in its last page); disk filled: $(df --output=avail "$mnt" | tail -1 | tr -d ' ') KiB free"
  (cd "$proj" && timeout 20 "$ergo" --json set "$T" --claim alice </dev/null)
  rc=$?
  say "  'ergo set $T --claim alice' on the full disk: exit $rc (the caller is told it failed)"
  rm -f "$mnt/filler"
  say "  log tail: $(tail -c 260 "$proj/.ergo/plans.jsonl" | tr '\n' '|')"
  say "  space freed again; now:"
  observe "$ergo" "$proj"; rc=$?
  [ $rc -eq 10 ] && after_compact "$ergo" "$proj"
  umount "$mnt" 2>/dev/null
  return $rc
}

if [ "${1:-}" = "--inner-tmpfs" ]; then
  case_tmpfs_inner "$2" "$3"
  exit $?
fi

# ---------------------------------------------------------------------------
SRC=${1:?usage: bash demo.sh <ergo-source-dir>}
SRC=$(cd "$SRC" && pwd)
mkdir -p "$ROOT"
WORK=$(mktemp -d "$ROOT/demo.XXXXXX")
cleanup() {
  umount "$WORK/mnt" 2>/dev/null
  rm -rf "$WORK"
  rmdir "$ROOT" 2>/dev/null
  true
}
trap cleanup EXIT

(cd "$SRC" && go build -o "$WORK/ergo" ./cmd/ergo) || { say "build failed"; exit 2; }
ERGO=$WORK/ergo
SELF=$(cd "$(dirname "$0")" && pwd)/$(basename "$0")

verdict=0

say "== case A: the log may not grow past a file size limit (RLIMIT_FSIZE) =="
case_rlimit "$ERGO" "$WORK"; rcA=$?
[ $rcA -eq 10 ] && verdict=1

say "== case B: the disk is full (64 KiB tmpfs) =="
rcB=2
for ns in "unshare -m" "unshare -rm"; do
  if $ns true 2>/dev/null; then
    $ns bash "$SELF" --inner-tmpfs "$ERGO" "$WORK"; rcB=$?
    [ $rcB -ne 2 ] && break
  fi
done
if [ $rcB -eq 2 ]; then say "  (skipped: cannot mount a tmpfs here)"; fi
[ $rcB -eq 10 ] && verdict=1

if [ $verdict -eq 1 ]; then
  say "VIOLATION: a task is todo, no task is doing/blocked/error, yet no task is ready and claim answers 'no ready tasks'"
  exit 1
fi
say "property held: the failed command left nothing behind, the todo task is ready and claimable"
exit 0
