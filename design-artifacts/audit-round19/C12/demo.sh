#!/usr/bin/env bash
# C12 "every command terminates promptly": `ergo list` (and `show <epic>`) need
# time cubic in the number of tasks of an epic as soon as that epic depends on
# an epic that is complete/empty.  A 470 KB log that ergo wrote itself with
# three commands keeps `ergo list` busy for minutes, while `ergo --json list`
# on the same log, and `ergo list` on the log minus its one `link` line, answer
# in a tenth of a second.
#
# usage: bash demo.sh <ergo-source-dir>
# exit 1 = violation shown, 0 = property held, 2 = demo could not run
set -u
SRC=${1:?usage: demo.sh <ergo-source-dir>}
ROOT=/tmp/seedtmp-C12r19
mkdir -p "$ROOT"
TMP=$(mktemp -d "$ROOT/demo.XXXXXX") || exit 2
trap 'rm -rf "$TMP"; rmdir "$ROOT" 2>/dev/null || true' EXIT

(cd "$SRC" && go build -o "$TMP/ergo" ./cmd/ergo) || { echo "build failed"; exit 2; }
E="$TMP/ergo"
N=${N:-2000}      # tasks in the dependent epic ("low thousands" = documented scale)
LIMIT=${LIMIT:-20} # seconds granted to one read command

now() { date +%s.%N; }
# timed <label> <cmd...> : runs under timeout, prints rc and seconds, sets RC/SECS
timed() {
  local label=$1; shift
  local s e
  s=$(now)
  timeout "$LIMIT" "$@" </dev/null >"$TMP/out.txt" 2>"$TMP/err.txt"
  RC=$?
  e=$(now)
  SECS=$(python3 -c "print('%.2f' % ($e - $s))")
  printf '  %-46s rc=%-3s %6ss\n' "$label" "$RC" "$SECS"
}

build_store() { # $1 = dir, $2 = number of tasks ; leaves ids in A and B
  mkdir -p "$1" && cd "$1" || exit 2
  timeout 20 "$E" init </dev/null >/dev/null 2>&1 || exit 2
  python3 -c "
import json
print(json.dumps({'title': 'Phase 2', 'tasks': [{'title': 'task %d' % i} for i in range($2)]}))" \
    | timeout 20 "$E" --json plan >"$TMP/plan.json" || { echo "plan failed"; exit 2; }
  B=$(python3 -c "import json;print(json.load(open('$TMP/plan.json'))['epic']['id'])")
  A=$(timeout 20 "$E" new epic --title "Phase 1" </dev/null) || exit 2
}

echo "== growth: the same three commands at small sizes (list after 'sequence A B') =="
for n in 250 500 1000; do
  build_store "$TMP/g$n" "$n"
  timeout 20 "$E" sequence "$A" "$B" </dev/null || exit 2
  timed "N=$n  ergo list" "$E" list
done

echo "== main scenario: plan with $N tasks, new epic, sequence =="
build_store "$TMP/main" "$N"
echo "  log: $(wc -l <.ergo/plans.jsonl) events, $(stat -c %s .ergo/plans.jsonl) bytes, written only by ergo"
timed "ergo list            (before the link)" "$E" list
CONTROL_RC=$RC
timeout 20 "$E" sequence "$A" "$B" </dev/null || { echo "sequence failed"; exit 2; }
echo "  ergo sequence $A $B   -> epic 'Phase 2' now depends on the empty epic 'Phase 1'"
echo "  log: $(wc -l <.ergo/plans.jsonl) events, $(stat -c %s .ergo/plans.jsonl) bytes"
sum_before=$(sha256sum .ergo/plans.jsonl | cut -d' ' -f1)
timed "ergo --json list     (same log)" "$E" --json list
JSON_RC=$RC
items=$(python3 -c "import json;print(len(json.load(open('$TMP/out.txt'))))" 2>/dev/null || echo '?')
echo "    -> $items items, so the log itself is healthy and replays at once"
timed "ergo list            (same log)" "$E" list
LIST_RC=$RC
timed "ergo show $B       (same log)" "$E" show "$B"
SHOW_RC=$RC
sum_after=$(sha256sum .ergo/plans.jsonl | cut -d' ' -f1)
[ "$sum_before" = "$sum_after" ] || echo "  (log changed during reads?!)"

echo
if [ "$CONTROL_RC" -eq 0 ] && [ "$JSON_RC" -eq 0 ] && { [ "$LIST_RC" -eq 124 ] || [ "$SHOW_RC" -eq 124 ]; }; then
  echo "VIOLATION: on a valid $N-task history 'ergo list' / 'ergo show <epic>' did not"
  echo "terminate within ${LIMIT}s (killed by timeout, rc=124); the time grows ~8x per"
  echo "doubling of N (cubic), although the same log replays in well under a second."
  exit 1
fi
echo "property held: every read finished within ${LIMIT}s"
exit 0
