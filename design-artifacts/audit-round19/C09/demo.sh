#!/usr/bin/env bash
# C09 demo: a live task ends up filed under a PRUNED epic, and the pruned epic id
# keeps working as a group key (list --epic / claim --epic) while the todo task
# disappears from the human list.
#
#   bash demo.sh <ergo-source-dir>               # primary route: hand-merged log
#   bash demo.sh <ergo-source-dir> short-write   # second route to the same state:
#                                                # prune --yes hits a full disk / quota
#
# exit 1 = violation shown, 0 = property held, 2 = demo could not run.
set -u
SRC=${1:?usage: demo.sh <ergo-source-dir> [short-write]}
MODE=${2:-merge}
SRC=$(cd "$SRC" && pwd) || exit 2
ROOT=/tmp/seedtmp-C09r19
mkdir -p "$ROOT"
TMP=$(mktemp -d "$ROOT/demo.XXXXXX") || exit 2
cleanup() { rm -rf "$TMP"; rmdir "$ROOT" 2>/dev/null || true; }
trap cleanup EXIT

( cd "$SRC" && go build -o "$TMP/ergo" ./cmd/ergo ) || { echo "build failed"; exit 2; }
ERGO="$TMP/ergo"
e() { timeout 20 "$ERGO" "$@" </dev/null; }   # never let ergo read our stdin

violation=0
flag() { echo "  VIOLATION: $*"; violation=1; }

# Inspect a store in which epic $EP is expected to be pruned and the ids in
# $LIVE are live, not-finished tasks.
inspect() { # dir EP id...
  local dir=$1 EP=$2; shift 2
  cd "$dir" || exit 2
  echo "  show $EP            -> $(e show "$EP" 2>&1 | tail -1)"
  local all; all=$(e --json list --all)
  echo "  list --json --all   -> $all"
  for id in "$@"; do
    if ! jq -e --arg id "$id" 'any(.[]; .id==$id)' <<<"$all" >/dev/null; then
      flag "task $id (todo) is gone from list --json --all"
    fi
  done
  if jq -e --arg ep "$EP" 'any(.[]; .epic_id==$ep)' <<<"$all" >/dev/null; then
    flag "list --json shows live work filed under the pruned id $EP (an epic that was pruned still has a child)"
  fi
  local scoped; scoped=$(e --json list --epic "$EP")
  echo "  list --json --epic $EP -> $scoped"
  if [ "$(jq 'length' <<<"$scoped")" != "0" ]; then
    flag "the pruned id $EP still selects tasks in list --epic (an id that never existed selects none)"
  fi
  local human; human=$(e list --all 2>/dev/null)
  echo "  list --all (human)  ->"; sed 's/^/      | /' <<<"$human"
  for id in "$@"; do
    if ! grep -q "$id" <<<"$human"; then
      flag "todo task $id is not rendered by 'ergo list --all' (its only parent is the pruned epic): active work removed from view"
    fi
  done
  echo "  prune (dry run)     -> $(e --json prune)"
  local claim; claim=$(e --json claim --epic "$EP" --agent demo 2>&1)
  echo "  claim --epic $EP   -> $claim"
  if jq -e '.id' <<<"$claim" >/dev/null 2>&1; then
    flag "claim --epic <pruned id> handed out task $(jq -r .id <<<"$claim")"
  fi
  e compact >/dev/null 2>&1
  local after; after=$(e --json list --all)
  if jq -e --arg ep "$EP" 'any(.[]; .epic_id==$ep)' <<<"$after" >/dev/null; then
    echo "  compact does not heal it -> still filed under $EP: $(e show "$EP" 2>&1 | tail -1)"
  fi
  cd "$TMP" || exit 2
}

if [ "$MODE" = merge ]; then
  # ---- common ancestor: epic EP whose only task is done; one unfiled todo task
  mkdir "$TMP/base" && cd "$TMP/base" || exit 2
  e init >/dev/null 2>&1
  EP=$(e new epic --title "Release 1")
  OLD=$(e new task --title "ship it" --epic "$EP")
  e set "$OLD" --state done >/dev/null
  LOOSE=$(e new task --title "unfiled chore")
  cd "$TMP" || exit 2
  cp -r base A; cp -r base B
  n=$(wc -l < base/.ergo/plans.jsonl)
  echo "ancestor: epic $EP, done task $OLD in it, todo task $LOOSE outside"

  # ---- clone A: clean up finished work
  echo "clone A: prune --yes -> $(cd A && e --json prune --yes)"
  # ---- clone B: meanwhile file follow-up work under the epic
  NEW=$(cd B && e new task --title "follow-up" --epic "$EP")
  (cd B && e set "$LOOSE" --epic "$EP" >/dev/null)
  echo "clone B: new task $NEW --epic $EP; set $LOOSE --epic $EP   (both accepted: $EP is live there)"

  # ---- hand-merge: both sides only appended lines; keep both, in either order
  for order in "A B" "B A"; do
    m="merged_${order// /_}"
    cp -r base "$m"
    for side in $order; do tail -n +$((n+1)) "$side/.ergo/plans.jsonl" >> "$m/.ergo/plans.jsonl"; done
    echo
    echo "merged log, appended lines of $order:"
    tail -n +$((n+1)) "$m/.ergo/plans.jsonl" | sed 's/^/      /'
    inspect "$TMP/$m" "$EP" "$NEW" "$LOOSE"
  done
else
  # ---- second route, one store, no merge: prune --yes is cut short by a file
  # size limit (same effect as ENOSPC/quota: write(2) stores a prefix of the
  # batch, the next write fails). Tombstones are written in id order, so the
  # epic's tombstone lands while its child's does not.
  while :; do
    rm -rf "$TMP/s"; mkdir "$TMP/s"; cd "$TMP/s" || exit 2
    e init >/dev/null 2>&1
    EP=$(e new epic --title "Release 1")
    T=$(e new task --title "ship it" --epic "$EP" --state done)
    [[ "$T" > "$EP" ]] && break          # need the epic to sort before its child
  done
  S=$(stat -c %s .ergo/plans.jsonl)
  echo "store: epic $EP with done task $T; dry run -> $(e --json prune)"
  python3 - "$ERGO" $((S+121+40)) <<'EOF'
import resource, subprocess, sys
ergo, lim = sys.argv[1], int(sys.argv[2])
r = subprocess.run(["timeout", "20", ergo, "--json", "prune", "--yes"], stdin=subprocess.DEVNULL,
                   capture_output=True, text=True,
                   preexec_fn=lambda: resource.setrlimit(resource.RLIMIT_FSIZE, (lim, lim)))
print("prune --yes under a file size limit -> rc=%d %s%s" % (r.returncode, r.stdout.strip(), r.stderr.strip()))
EOF
  echo "log tail:"; tail -c 260 .ergo/plans.jsonl | sed 's/^/      /'; echo
  echo "reopen the surviving child: set $T --state todo -> rc=$(e set "$T" --state todo >/dev/null 2>&1; echo $?)"
  inspect "$TMP/s" "$EP" "$T"
fi

echo
if [ $violation -eq 1 ]; then
  echo "RESULT: violation shown - a pruned epic id is still the parent of live work and still acts as a filter; the work is hidden from the human list."
  exit 1
fi
echo "RESULT: property held."
exit 0
