#!/usr/bin/env bash
# C16 demo: a --json success reply that the immediately following read cannot confirm.
#
#   bash demo.sh <ergo-source-dir>
#
# `ergo --json new task --body-stdin` (and `set --body-stdin`) accept a body whose
# JSON-encoded event line is longer than the 10 MiB the log reader is willing to
# scan.  The command exits 0 and prints one JSON value with the new id and
# state "todo"; the very next `show <id> --json` / `list --json --all` exits 1
# with "event line too long ... file may be corrupted".
#
# exit 1 = violation shown, exit 0 = property held, exit 2 = could not run.
set -u
SRC="${1:?usage: demo.sh <ergo-source-dir>}"
SRC="$(cd "$SRC" && pwd)" || exit 2
ROOT=/tmp/seedtmp-C16r19
W="$ROOT/demo.$$"
mkdir -p "$W" || exit 2
cleanup() { rm -rf "$W"; rmdir "$ROOT" 2>/dev/null || true; }
trap cleanup EXIT

( cd "$SRC" && go build -o "$W/ergo" ./cmd/ergo ) || { echo "build failed"; exit 2; }
E="$W/ergo"

# one_json FILE -> prints number of JSON values in FILE (or -1 if not pure JSON)
one_json() {
python3 - "$1" <<'PY'
import json, sys
s = open(sys.argv[1], 'rb').read().decode('utf-8', 'replace').strip()
dec = json.JSONDecoder(); i = 0; n = 0
try:
    while i < len(s):
        _, i = dec.raw_decode(s, i); n += 1
        while i < len(s) and s[i].isspace(): i += 1
    print(n)
except Exception:
    print(-1)
PY
}

violation=0

# 1.8 MB of '<'.  encoding/json writes each '<' as the 6 bytes backslash-u-0-0-3-c, so the
# event line is ~10.8 MB although the input is far below the reader's limit.
python3 -c "import sys; sys.stdout.write('<' * 1800000)" > "$W/body.txt"
echo "body on stdin: $(stat -c %s "$W/body.txt") bytes"

############ scenario 1: new task --body-stdin ############
S="$W/s1"; mkdir -p "$S"; cd "$S" || exit 2
timeout 20 "$E" --json init </dev/null >/dev/null 2>&1 || exit 2

echo
echo "== scenario 1: ergo --json new task --title big --body-stdin < body.txt"
timeout 60 "$E" --json new task --title big --body-stdin <"$W/body.txt" >"$W/out1" 2>"$W/err1"
rc=$?
n=$(one_json "$W/out1")
echo "exit=$rc  json values on stdout=$n  stderr: $(head -c 200 "$W/err1")"
if [ "$rc" -eq 0 ] && [ "$n" = 1 ]; then
  id=$(jq -r .id "$W/out1"); st=$(jq -r .state "$W/out1")
  echo "reply: id=$id state=$st claimed_by=$(jq -r '.claimed_by // ""' "$W/out1") (body omitted)"
  echo "log: $(awk '{ if (length($0) > m) m = length($0) } END { print m }' .ergo/plans.jsonl) bytes in the longest line of .ergo/plans.jsonl"
  timeout 60 "$E" --json show "$id" </dev/null >"$W/show1" 2>"$W/showerr1"; src=$?
  echo "following  show $id --json : exit=$src  stderr: $(head -c 200 "$W/showerr1")"
  timeout 60 "$E" --json list --all </dev/null >"$W/list1" 2>"$W/listerr1"; lrc=$?
  echo "following  list --json --all : exit=$lrc  stderr: $(head -c 200 "$W/listerr1")"
  shown=""
  [ "$src" -eq 0 ] && shown=$(jq -r '.state' "$W/show1" 2>/dev/null)
  if [ "$src" -ne 0 ] || [ "$shown" != "$st" ] || [ "$lrc" -ne 0 ]; then
    echo "VIOLATION: success reply (id $id, state $st) is not what the following read shows - the read fails"
    violation=1
  else
    echo "ok: the following read shows id $id in state $shown"
  fi
elif [ "$rc" -ne 0 ]; then
  echo "ok: the oversized event was refused (non-zero exit, nothing committed?)"
  timeout 20 "$E" --json list --all </dev/null >"$W/list1" 2>"$W/listerr1" \
    && echo "store still readable: $(cat "$W/list1")" \
    || { echo "VIOLATION: failing command left an unreadable store: $(cat "$W/listerr1")"; violation=1; }
else
  echo "VIOLATION: exit 0 but stdout is not exactly one JSON value"; violation=1
fi

############ scenario 2: set --body-stdin on an existing task ############
S="$W/s2"; mkdir -p "$S"; cd "$S" || exit 2
timeout 20 "$E" --json init </dev/null >/dev/null 2>&1 || exit 2
old=$(timeout 20 "$E" --json new task --title existing </dev/null | jq -r .id)
other=$(timeout 20 "$E" --json new task --title bystander </dev/null | jq -r .id)

echo
echo "== scenario 2: ergo --json set $old --body-stdin < body.txt   (bystander task $other)"
timeout 60 "$E" --json set "$old" --body-stdin <"$W/body.txt" >"$W/out2" 2>"$W/err2"
rc=$?
n=$(one_json "$W/out2")
echo "exit=$rc  json values on stdout=$n  stdout: $(head -c 200 "$W/out2")  stderr: $(head -c 200 "$W/err2")"
if [ "$rc" -eq 0 ] && [ "$n" = 1 ]; then
  st=$(jq -r .state "$W/out2")
  timeout 60 "$E" --json show "$old" </dev/null >"$W/show2" 2>"$W/showerr2"; src=$?
  echo "following  show $old --json : exit=$src  stderr: $(head -c 200 "$W/showerr2")"
  timeout 60 "$E" --json show "$other" </dev/null >"$W/show3" 2>"$W/showerr3"; orc=$?
  echo "following  show $other --json (untouched task): exit=$orc"
  timeout 60 "$E" --json compact </dev/null >"$W/cmp" 2>"$W/cmperr"; crc=$?
  echo "following  compact --json (the remedy the message suggests): exit=$crc"
  shown=""
  [ "$src" -eq 0 ] && shown=$(jq -r '.state' "$W/show2" 2>/dev/null)
  if [ "$src" -ne 0 ] || [ "$shown" != "$st" ]; then
    echo "VIOLATION: set replied state=$st for $old, the following read fails"
    violation=1
  else
    echo "ok: the following read shows $old in state $shown"
  fi
elif [ "$rc" -ne 0 ]; then
  timeout 20 "$E" --json show "$old" </dev/null >/dev/null 2>"$W/showerr2" \
    && echo "ok: refused, store still readable" \
    || { echo "VIOLATION: failing command left an unreadable store: $(cat "$W/showerr2")"; violation=1; }
else
  echo "VIOLATION: exit 0 but stdout is not exactly one JSON value"; violation=1
fi

echo
if [ "$violation" -eq 1 ]; then
  echo "RESULT: C16 violated"
  exit 1
fi
echo "RESULT: C16 held"
exit 0
