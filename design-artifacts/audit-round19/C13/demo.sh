#!/usr/bin/env bash
# C13 demo: readers (`list`, `show`) fail as soon as the log carries more than
# 10 MiB of one event line - whether that line is still being written / was cut
# off (a torn tail, which readers are supposed to tolerate) or was completed by
# a command that ergo accepted with exit status 0.
#
# usage: bash demo.sh <ergo-source-dir>
# exit 1 = violation shown, exit 0 = property held, exit 2 = demo could not run
set -u
SRC=${1:?usage: demo.sh <ergo-source-dir>}
SRC=$(cd "$SRC" && pwd) || exit 2
ROOT=/tmp/seedtmp-C13r19
mkdir -p "$ROOT" || exit 2
WORK=$(mktemp -d "$ROOT/demo.XXXXXX") || exit 2
trap 'rm -rf "$WORK"; rmdir "$ROOT" 2>/dev/null || true' EXIT

( cd "$SRC" && go build -o "$WORK/ergo" ./cmd/ergo ) || { echo "build failed"; exit 2; }
E="$WORK/ergo"
violation=0

new_store() { # $1 = dir ; creates a store with two small tasks
  mkdir -p "$1" && cd "$1" || exit 2
  timeout 20 "$E" init </dev/null >/dev/null 2>&1 || exit 2
  A=$(timeout 20 "$E" --json new task --title "alpha" </dev/null | jq -r .id)
  B=$(timeout 20 "$E" --json new task --title "beta"  </dev/null | jq -r .id)
  [ -n "$A" ] && [ -n "$B" ] || { echo "setup failed"; exit 2; }
}

check_readers() { # $1 = label ; the two base tasks must still be listed/shown
  local out rc n
  out=$(timeout 20 "$E" --json list --all </dev/null 2>"$WORK/err"); rc=$?
  if [ $rc -ne 0 ]; then
    echo "  [$1] list --json --all: exit $rc: $(cut -c1-200 "$WORK/err")"
    violation=1
  else
    n=$(printf '%s' "$out" | jq '[.[] | select(.title=="alpha" or .title=="beta")] | length' 2>/dev/null)
    echo "  [$1] list --json --all: exit 0, $(printf '%s' "$out" | jq length) task(s), base tasks present: $n"
    [ "$n" = "2" ] || violation=1
  fi
  out=$(timeout 20 "$E" --json show "$A" </dev/null 2>"$WORK/err"); rc=$?
  if [ $rc -ne 0 ]; then
    echo "  [$1] show $A: exit $rc: $(cut -c1-200 "$WORK/err")"
    violation=1
  else
    echo "  [$1] show $A: exit 0, title=$(printf '%s' "$out" | jq -r .title)"
  fi
}

# ---------------------------------------------------------------------------
echo "== scenario 1: the writer of a large event is cut off mid-line"
echo "   (what a reader sees while that append is in flight; here the writer is"
echo "    stopped by a file-size limit after >10 MiB of its line reached the file)"
new_store "$WORK/s1"
check_readers "before"
python3 - "$E" <<'EOF'
import os, resource, subprocess, sys
ergo = sys.argv[1]
log = ".ergo/plans.jsonl"
size = os.path.getsize(log)
limit = size + 10 * 1024 * 1024 + 4096          # line is cut after 10 MiB + 4 KiB
def pre():
    resource.setrlimit(resource.RLIMIT_FSIZE, (limit, limit))
body = b"x" * (11 * 1024 * 1024)
p = subprocess.run([ergo, "--json", "new", "task", "--title", "big", "--body-stdin"],
                   input=body, preexec_fn=pre, stdout=subprocess.PIPE,
                   stderr=subprocess.PIPE, timeout=60)
data_tail = open(log, "rb").read()[-1:]
print("  writer: exit %d (%s); log grew %d -> %d bytes, ends with newline: %s" % (
    p.returncode, p.stderr.decode(errors="replace").strip()[:120], size,
    os.path.getsize(log), data_tail == b"\n"))
EOF
check_readers "writer cut off mid-line"

# ---------------------------------------------------------------------------
echo "== scenario 2: the same command runs to completion (ergo accepts it)"
new_store "$WORK/s2"
check_readers "before"
python3 -c "import sys; sys.stdout.write('x' * (11 * 1024 * 1024))" |
  timeout 60 "$E" --json new task --title big --body-stdin >"$WORK/out" 2>"$WORK/err"
wrc=$?
echo "  writer: exit $wrc $(cut -c1-120 "$WORK/err")"
check_readers "after the accepted command"

if [ $violation -eq 1 ]; then
  echo "RESULT: VIOLATION - list/show failed instead of showing the state after the whole events in the log"
  exit 1
fi
echo "RESULT: property held"
exit 0
