#!/usr/bin/env python3
# Regenerates the per-check texts of MANIFEST.json (level_claimed.text, level_note, technique) from
# checker/properties.go (propertyRules, propertyScope), so that the manifest names exactly the rules each check runs.
import json,re
m=json.load(open('/verif/MANIFEST.json'))
src=open('/verif/checker/properties.go').read()
a,b=src.split('var propertyScope',1)
pr={x.group(1):re.findall(r'"([A-Z]+\d+(?::[^"]+)?)"',x.group(2)) for x in re.finditer(r'"(C\d\d)":\s*\{([^}]*)\}',a)}
scope={x.group(1):x.group(2) for x in re.finditer(r'"(C\d\d)":\s*"((?:[^"\\]|\\.)*)"',b)}
fam={'LK':'lock discipline (who-may-call, must-pass-through and typestate of the flock primitive on the SSA CFG and module call graph)',
'WR':'write-protocol must-pass-through, error-propagation and dead-error analysis with effect classification of os/syscall calls by path provenance (LOG/LOCK/OTHER)',
'VD':'validation dominance (reachability with removed guard edges, path-sensitive search, value provenance of emitted payload fields)',
'RD':'dominating-facts predicate specification, constant-table agreement between sibling implementations, who-may-mutate check of the replayed graph',
'DT':'order-taint dataflow, emitted-vs-replayed-vs-compacted table and field agreement, control-dependence whitelist for replay effects, visited-guard check of recursive call cycles (Tarjan SCCs)',
'OU':'assumption-pruned interpretation under --json, string/byte-flow whitelists from stdin to events, reply-vs-commit value identity, non-negativity and derivation checks of renderers/normalisers',
'ST':'store-discovery provenance (single chooser, absolute-path abstract interpretation, call-site agreement, forward use check of the --dir option)'}
for c in m['checks']:
    pid=c['property_id']; rs=pr[pid]
    fams=[]
    for r in rs:
        f=re.match(r'[A-Z]+',r).group(0)
        if fam[f] not in fams: fams.append(fam[f])
    c['technique']='static analysis over go/packages + go/ssa (nothing executed): '+'; '.join(fams)+'; helper-transparent (facts, units, value flow through parameters/struct fields, thin, defaulting and lock wrappers); rules '+','.join(rs)
    sc=scope[pid].replace('\\"','"')
    dec,_,nd=sc.partition(' Not decided: ')
    dec=dec.replace('Decided: ','',1).rstrip('.')
    c['level_claimed']['text']=("Decides, on the source of the current tree and for every path/call site/construct the rules govern (exhaustive over the code, nothing executed), structural necessary conditions of the property: "+dec+". A failing obligation names the construct that makes the property false for some schedule/input; a passing run does not prove the behaviour for all runtime values.")
    c['level_note']="Not decided here: "+nd+" Trusted: Go type checker, go/ssa (x/tools v0.50.0), OS flock/O_APPEND/rename semantics, encoding/json, bufio, cobra. Undecided obligations (unrecognised idiom) count as failures."
json.dump(m,open('/verif/MANIFEST.json','w'),indent=1)
