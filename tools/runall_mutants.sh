#!/bin/sh
# usage: tools/runall_mutants.sh <dir-with-*.diff> — one summary line per mutant: which rules report something.
cd "$(dirname "$0")/.."
for d in "$1"/*.diff; do
  id=$(basename "$d" .diff)
  out=$(tools/runmut.sh "$d" all 2>&1)
  fired=$(echo "$out" | awk '$2=="violated"||$2=="undecided"{print $1}' | sort -u | tr '\n' ' ')
  case "$out" in *PATCH-DOES-NOT-APPLY*) fired="(patch does not apply)";; *DOES-NOT-COMPILE*) fired="(does not compile)";; esac
  echo "$id: $fired"
done
