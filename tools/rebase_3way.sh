#!/bin/bash
# usage: tools/rebase_3way.sh <patch.diff>... — development aid: re-bases a stored patch (a diff against an earlier /repo
# commit) onto /repo HEAD with `git apply --3way` in a scratch worktree; the patch file is rewritten only when the merge
# is clean and the result builds. Prints CONFLICT otherwise (the worktree's conflict is shown for a manual port).
head=$(git -C /repo rev-parse HEAD)
for p in "$@"; do
  p=$(readlink -f "$p"); wt=/tmp/rebasewt
  git -C /repo worktree remove --force $wt 2>/dev/null
  git -C /repo worktree add -q --detach $wt $head || exit 2
  if ( cd $wt && git apply --3way "$p" >/dev/null 2>&1 && ! git diff --name-only --diff-filter=U | grep -q . && go build ./... 2>/dev/null && git add -A && git diff --cached $head > "$p.new" ); then
    mv "$p.new" "$p"; echo "rebased $p"
  else
    rm -f "$p.new"; echo "CONFLICT $p"; ( cd $wt && git diff --diff-filter=U | grep -n '^[ +-]*<<<<<<<\|^[ +-]*>>>>>>>' | head -4 )
  fi
  git -C /repo worktree remove --force $wt
done
