#!/bin/bash
# usage: tools/cross.sh [jobs] [benign-dir ...as one quoted glob] — development aid: applies every seeded change ON TOP OF every behaviour-preserving
# refactoring (where both patches apply and the result builds) and checks that the seed's property check still
# fires. Guards against helper transparency turning a rule vacuous on refactored code. Scratch copies live in /tmp
# and are removed.
cd "$(dirname "$0")/.."
. ./env.sh
jobs="${1:-8}"
work=$(mktemp -d /tmp/ergocross.XXXXXX)
trap 'rm -rf "$work"' EXIT
one() {
  b="$1"; s="$2"; work="$3"
  bn=$(basename "$b"); sn=$(basename "$s")
  prop=${sn%%-*}
  d="$work/$bn-$sn"
  mkdir -p "$d"; rsync -a --exclude .git /repo/ "$d/"
  ( cd "$d" && patch -p1 -s --no-backup-if-mismatch < "/verif/$b/patch.diff" >/dev/null 2>&1 ) || { echo "$bn $sn benign-does-not-apply"; rm -rf "$d"; return; }
  ( cd "$d" && patch -p1 -s --no-backup-if-mismatch < "/verif/$s/patch.diff" >/dev/null 2>&1 ) || { echo "$bn $sn conflict"; rm -rf "$d"; return; }
  ( cd "$d" && GOFLAGS=-mod=readonly go build ./... >/dev/null 2>&1 ) || { echo "$bn $sn does-not-build"; rm -rf "$d"; return; }
  o="$work/out-$bn-$sn"; mkdir -p "$o/evidence/violations"; ln -s /verif/KNOWN_FINDINGS.txt "$o/KNOWN_FINDINGS.txt"; ln -s /verif/checker "$o/checker"
  out=$(/verif/bin/ergocheck -property "$prop" -repo "$d" -out "$o" 2>&1)
  rm -rf "$o"
  if echo "$out" | grep -q "^VIOLATION"; then echo "$bn $sn detected"; else echo "$bn $sn MISSED"; fi
  rm -rf "$d"
}
export -f one
for b in ${2:-benign/*/}; do for s in seeded/*/; do echo "${b%/} ${s%/}"; done; done | xargs -P "$jobs" -n 2 bash -c 'one "$0" "$1" '"$work" | sort > /tmp/cross-result.txt
awk '{print $3}' /tmp/cross-result.txt | sort | uniq -c
grep MISSED /tmp/cross-result.txt
