#!/bin/bash
# usage: tools/rebase_over_batch_fix.sh <patch.diff>... — development aid used once, when fix 7ef47d7 (batches of more
# than one event go through temp+rename) changed appendEvents, which many older seeded/benign patches (diffs against
# ed997ae or c7d350d) have in their context: applies the patch to a scratch worktree of ed997ae, applies the fix's own
# edit where the patched file still has the line it changes (`if unterminated {` -> `if unterminated || len(events) > 1 {`,
# comments likewise), and re-diffs against 7ef47d7. Prints NOFIXLINE when the patch rewrote that line (manual merge).
for p in "$@"; do
  p=$(readlink -f "$p"); wt=/tmp/rebasewt
  git -C /repo worktree remove --force $wt 2>/dev/null
  git -C /repo worktree add -q --detach $wt ed997ae || exit 2
  ( cd $wt && git apply "$p" && python3 - <<'PY'
import re,sys,glob
hit=False
for f in glob.glob('internal/ergo/*.go'):
    s=open(f).read(); o=s
    s=s.replace("\tif unterminated {\n","\t// A batch of several events must reach the log as a whole. A plain append\n\t// cannot promise that: on a full disk (or at a file-size limit) write(2)\n\t// stores a prefix and the rest fails, or the process dies in between, and a\n\t// complete first event (a claim without its state) would stay behind. Such\n\t// batches therefore go through the temp-file + rename path as well.\n\tif unterminated || len(events) > 1 {\n",1)
    s=s.replace("\t// One write for the whole batch: a command's events reach the log\n\t// together, so a process killed between system calls cannot leave a\n\t// multi-event command (e.g. claim + state) half recorded.\n","\t// At most one event from here on: a short or interrupted write leaves a\n\t// torn final line, which readers drop and the next writer repairs.\n",1)
    if s!=o:
        open(f,'w').write(s)
        if 'len(events) > 1' in s: hit=True
sys.exit(0 if hit else 3)
PY
  ) ; rc=$?
  if [ $rc -eq 0 ] && ( cd $wt && go build ./... && git add -A && git diff --cached 7ef47d7 > "$p.new" ); then mv "$p.new" "$p"; echo "rebased $p"
  elif [ $rc -eq 3 ]; then echo "NOFIXLINE $p"
  else rm -f "$p.new"; echo "FAILED $p"; fi
  git -C /repo worktree remove --force $wt
done
