#!/bin/bash
# usage: tools/rebase_over_linelimit_fix.sh <patch.diff>... — development aid used once, when fix f074c60 (newEvent refuses
# an event longer than the reader's limit; the limit became a package-level constant) changed lines older patches have in
# their context: tries a 3-way apply on f074c60 first; otherwise applies the patch to a scratch worktree of 7ef47d7, ports
# the fix's edit (local const removed, package const added where the file-name constants live, check added to newEvent)
# and re-diffs against f074c60. Prints MANUAL when neither works.
for p in "$@"; do
  p=$(readlink -f "$p"); wt=/tmp/rebasewt
  git -C /repo worktree remove --force $wt 2>/dev/null
  git -C /repo worktree add -q --detach $wt f074c60 || exit 2
  if ( cd $wt && git apply --3way "$p" >/dev/null 2>&1 && ! git diff --name-only --diff-filter=U | grep -q . && go build ./... 2>/dev/null && git add -A && git diff --cached f074c60 > "$p.new" ); then
    mv "$p.new" "$p"; echo "rebased(3way) $p"; git -C /repo worktree remove --force $wt; continue
  fi
  git -C /repo worktree remove --force $wt; git -C /repo worktree add -q --detach $wt 7ef47d7 || exit 2
  ( cd $wt && git apply "$p" && python3 - <<'PY'
import glob,re,sys
files=glob.glob('internal/ergo/*.go')
src={f:open(f).read() for f in files}
# 1. local const in the reader -> removed
for f,s in src.items():
    s2=re.sub(r'\n\tconst maxEventLineBytes = 10 \* 1024 \* 1024\n\n','\n',s,count=1)
    src[f]=s2
# 2. package-level constant next to the legacy file name constant (unless the patch already made one)
if not any(re.search(r'^(const |\t)maxEventLineBytes\s*=', s, re.M) for s in src.values()):
    done=False
    for f,s in src.items():
        m=re.search(r'(\toldEventsFileName\s*= "events.jsonl"[^\n]*\n)', s)
        if m:
            src[f]=s.replace(m.group(1), m.group(1)+"\n\t// maxEventLineBytes is the longest log line readEvents accepts. newEvent\n\t// refuses to build an event that would become a longer line: a line no\n\t// reader can take in makes every later command fail.\n\tmaxEventLineBytes = 10 * 1024 * 1024\n",1); done=True; break
    if not done: sys.exit(4)
# 3. the check in newEvent
ok=False
for f,s in src.items():
    if 'func newEvent(' not in s: continue
    m=re.search(r"\treturn (Event\{Type: eventType, TS: formatTime\(ts\), Data: \w+[^\n]*\}), nil\n\}\n", s)
    if not m: continue
    new="\tevent := "+m.group(1)+"\n\t// The event becomes one line of the log. A line longer than the reader's\n\t// limit would be written without complaint and then make every later\n\t// command fail, so it is refused here, before anything is recorded.\n\tline, err := json.Marshal(event)\n\tif err != nil {\n\t\treturn Event{}, err\n\t}\n\tif len(line)+1 > maxEventLineBytes {\n\t\treturn Event{}, fmt.Errorf(\"%s event is too large to record: %d bytes as a log line, the limit is %d\", eventType, len(line)+1, maxEventLineBytes)\n\t}\n\treturn event, nil\n}\n"
    s=s.replace(m.group(0),new,1)
    for imp in ('"encoding/json"','"fmt"'):
        if imp not in s:
            s=re.sub(r'import \(\n', 'import (\n\t'+imp+'\n', s, count=1)
    src[f]=s; ok=True
if not ok: sys.exit(5)
for f,s in src.items(): open(f,'w').write(s)
PY
  ) && ( cd $wt && go build ./... && git add -A && git diff --cached f074c60 > "$p.new" ) && mv "$p.new" "$p" && echo "rebased(port) $p" || { rm -f "$p.new"; echo "MANUAL $p"; }
  git -C /repo worktree remove --force $wt
done
