#!/bin/bash
# usage: tools/run_benign.sh — behaviour-preserving refactorings (benign/<name>/patch.diff, written by sub-agents that saw
# nothing of /verif) applied to scratch copies of /repo; the checker must stay silent (beyond the listed known findings).
cd "$(dirname "$0")/.."
for d in benign/*/; do
  name=$(basename "$d")
  out=$(tools/runmut.sh "$d/patch.diff" all 2>&1 | grep -v "^RD3\|^OU1 .*\(RunQuickstart\|printVersion\|UsageText\|init#9\)\|^DT10 .*field Graph.Tombstones\|^rules=")
  # a patch written to preserve ONE property may rightly trip a rule of another: listed, with the reason, in expected.txt
  if [ -f "$d/expected.txt" ]; then
    for r in $(awk '{print $1}' "$d/expected.txt"); do out=$(echo "$out" | grep -v "^$r "); done
  fi
  n=$(echo "$out" | grep -c "violated\|undecided")
  echo "$name alarms=$n $(echo "$out" | awk '$2=="violated"||$2=="undecided"{print $1}' | sort | uniq -c | awk '{printf "%s×%s ", $2, $1}')"
done
