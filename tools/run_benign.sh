#!/bin/bash
# usage: tools/run_benign.sh [-j N] — behaviour-preserving refactorings and correct new features (benign/<name>/patch.diff,
# written by sub-agents that saw nothing of /verif) applied to scratch copies of /repo; the checker must stay silent
# (beyond the listed known findings). Runs N patches at a time (default 8); output is sorted by name.
cd "$(dirname "$0")/.."
J=8
[ "$1" = "-j" ] && J="$2"
one() {
  d="$1"; name=$(basename "$d")
  out=$(tools/runmut.sh "$d/patch.diff" all 2>&1 | grep -v "^RD3\|^OU1 .*\(RunQuickstart\|printVersion\|UsageText\|init#9\)\|^DT10 .*field Graph.Tombstones\|^WR13 .*prefix-bytes-preserved\|^rules=")
  # a patch written to preserve ONE property may rightly trip a rule of another: listed, with the reason, in expected.txt
  if [ -f "$d/expected.txt" ]; then
    for r in $(awk '{print $1}' "$d/expected.txt"); do out=$(echo "$out" | grep -v "^$r "); done
  fi
  n=$(echo "$out" | grep -c "violated\|undecided\|DOES-NOT\|PATCH-DOES")
  echo "$name alarms=$n $(echo "$out" | awk '$2=="violated"||$2=="undecided"{print $1}' | sort | uniq -c | awk '{printf "%s×%s ", $2, $1}')$(echo "$out" | grep -o 'DOES-NOT-COMPILE\|PATCH-DOES-NOT-APPLY' | head -1)"
}
export -f one
ls -d benign/*/ | sed 's#/$##' | xargs -P "$J" -I{} bash -c 'one {}' | sort -V
