#!/bin/bash
# usage: tools/run_seeds.sh — for every seeded/<name>/: apply patch.diff to /repo, run the seeded property's quick
# check, undo the patch straight away. Prints one line per seed. /repo is left clean.
cd "$(dirname "$0")/.."
if [ -n "$(git -C /repo status --porcelain)" ]; then echo "/repo is not clean; refusing"; exit 2; fi
for d in seeded/*/; do
  name=$(basename "$d"); prop=$(python3 -c "import json;print(json.load(open('$d/meta.json'))['property'])")
  if ! git -C /repo apply "$(readlink -f $d/patch.diff)" 2>/dev/null; then echo "$name $prop PATCH-DOES-NOT-APPLY"; continue; fi
  out=$(./check "$prop" quick 2>&1); rc=$?
  git -C /repo checkout -- . ; git -C /repo clean -fdq
  nv=$(echo "$out" | grep -c '^VIOLATION')
  rules=$(echo "$out" | grep -E '^  (violated|undecided)' | awk '{print $2}' | cut -d'|' -f1 | sort -u | tr '\n' ' ')
  echo "$name $prop rc=$rc violations=$nv rules=$rules"
done
git -C /repo status --porcelain | head -3
