#!/bin/bash
# usage: tools/verify_round.sh <round> — confirms every delivered seed of a round (development aid).
# For each /tmp/seedwork/out<round>-Cxx with patch.diff + demo.sh and no result yet, runs verify_seed.sh and
# stores the JSON summary next to it.
cd "$(dirname "$0")/.."
r="$1"
for i in $(seq -w 1 20); do
  d=/tmp/seedwork/out$r-C$i
  id=$(basename "$d" | sed "s/out$r-//")
  [ -f "$d/patch.diff" ] || continue
  [ -f "$d/verify.json" ] && continue
  if [ ! -f "$d/demo.sh" ]; then echo "{\"id\":\"$id\",\"note\":\"no demo.sh\"}" > "$d/verify.json"; continue; fi
  tools/verify_seed.sh "$id" "$d" 2>/dev/null | tail -1 > "$d/verify.json"
  cat "$d/verify.json"
done
