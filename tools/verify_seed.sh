#!/bin/bash
# usage: tools/verify_seed.sh <property-id> <dir with patch.diff and demo.sh>
# Confirms a seeded change independently: applies to a fresh scratch worktree of /repo HEAD, builds, runs the
# full test suite (expects 389 pass + the baseline's 1 always-fail), runs the demo on the unchanged and on the
# changed tree, and runs the property's quick check against the changed tree (via -repo, /repo is never touched).
# Prints a JSON summary on the last line. The worktree and its build output are removed.
set -u
id="$1"; dir="$(readlink -f "$2")"
wt=/tmp/seedverify-$id
git -C /repo worktree remove --force "$wt" 2>/dev/null; rm -rf "$wt"
git -C /repo worktree add -q --detach "$wt" HEAD || exit 2
cleanup(){ git -C /repo worktree remove --force "$wt" 2>/dev/null; rm -rf "$wt" /tmp/seedtmp-$id; }
trap cleanup EXIT
# demos keep their scratch files under /tmp/seedtmp-<prop>r<round>/ and some expect that directory to exist
sd=$(basename "$dir"); case "$sd" in C[0-9][0-9]-round*) mkdir -p "/tmp/seedtmp-${sd%%-*}r${sd##*round}";; esac
run_demo(){ cwd=$(mktemp -d /tmp/seedcwd.XXXXXX); ( cd "$cwd" && timeout 900 bash "$dir/demo.sh" "$wt" >"/tmp/seedverify-$id.$1.log" 2>&1 ); rc=$?; rm -rf "$cwd"; echo $rc; }
demo_unchanged=$(run_demo unchanged)
applies=yes
( cd "$wt" && git apply "$dir/patch.diff" ) || applies=no
build=fail; pass=0; fail=0; failed=""
if [ $applies = yes ]; then
  ( cd "$wt" && go build ./... ) && build=ok
  res=$( cd "$wt" && go test -vet=off -count=1 -json ./... 2>/dev/null | python3 -c "
import sys,json
p=f=0;fails=[]
for l in sys.stdin:
    try:e=json.loads(l)
    except: continue
    if e.get('Test') and e.get('Action')=='pass':p+=1
    if e.get('Test') and e.get('Action')=='fail':f+=1;fails.append(e['Test'])
print(p,f,','.join(fails))")
  pass=$(echo $res | cut -d' ' -f1); fail=$(echo $res | cut -d' ' -f2); failed=$(echo $res | cut -d' ' -f3)
fi
demo_changed=$(run_demo changed)
# checker on the changed tree
cd /verif; . ./env.sh
out=$(bin/ergocheck -rules all -repo "$wt" 2>&1)
fired=$(echo "$out" | grep -v 'field Graph.Tombstones\|prefix-bytes-preserved' | awk '$2=="violated"||$2=="undecided"{print $1}' | sort -u | grep -v '^RD3$\|^OU1$' | tr '\n' ' ')
ou1=$(echo "$out" | awk '$2=="violated"&&$1=="OU1"' | grep -v 'RunQuickstart\|printVersion\|UsageText\|init#9' | wc -l)
[ "$ou1" -gt 0 ] && fired="$fired OU1"
echo "{\"id\":\"$id\",\"applies\":\"$applies\",\"build\":\"$build\",\"tests_pass\":$pass,\"tests_fail\":$fail,\"failed\":\"$failed\",\"demo_unchanged_rc\":$demo_unchanged,\"demo_changed_rc\":$demo_changed,\"rules_fired\":\"$fired\"}"
