#!/bin/bash
# usage: tools/run_seeds_par.sh [-j N] — like run_seeds.sh, but every seed is applied to its own scratch copy of /repo
# (tools/check_patch.sh) and N run at a time. Development aid; run_seeds.sh (which patches /repo itself) is the reference.
cd "$(dirname "$0")/.."
J=10
[ "$1" = "-j" ] && J="$2"
one() {
  d="$1"; name=$(basename "$d"); prop=$(python3 -c "import json;print(json.load(open('$d/meta.json'))['property'])")
  echo "$name $(tools/check_patch.sh "$prop" "$d/patch.diff" 2>&1 | tail -1)"
}
export -f one
ls -d seeded/*/ | sed 's#/$##' | xargs -P "$J" -I{} bash -c 'one {}' | sort -V
