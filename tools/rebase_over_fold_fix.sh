#!/bin/bash
# usage: tools/rebase_over_fold_fix.sh <patch.diff>... — development aid used once, when fix ed997ae (per-field change
# times folded with maxTime) changed four lines of replay that older seeded/benign patches (diffs against c7d350d) have
# in their context: applies the patch to a scratch worktree of c7d350d, brings every remaining plain
# `x.Last<Field>At = ts` (LastClaimAt excepted) to the folded form, and re-diffs against ed997ae.
for p in "$@"; do
  p=$(readlink -f "$p"); wt=/tmp/rebasewt
  git -C /repo worktree remove --force $wt 2>/dev/null
  git -C /repo worktree add -q --detach $wt c7d350d || exit 2
  ( cd $wt && git apply "$p" &&
    sed -E -i 's/^(\s*)([A-Za-z_.]+)\.Last([A-Za-z]+)At = ([A-Za-z_.]+)$/\1\2.Last\3At = maxTime(\2.Last\3At, \4)/' internal/ergo/*.go &&
    sed -E -i 's/LastClaimAt = maxTime\([A-Za-z_.]*LastClaimAt, ([A-Za-z_.]*)\)/LastClaimAt = \1/' internal/ergo/*.go &&
    go build ./... && git add -A && git diff --cached ed997ae > "$p.new" )
  rc=$?
  if [ $rc -eq 0 ]; then mv "$p.new" "$p"; echo "rebased $p"; else rm -f "$p.new"; echo "FAILED $p"; fi
  git -C /repo worktree remove --force $wt
done
