#!/bin/sh
# usage: tools/runmut.sh <patch.diff> [rule-list|all]
# Applies a patch to a scratch copy of /repo (outside /repo and /verif), runs the checker's rules on it,
# prints every non-discharged obligation, and removes the copy. Development aid; never gates a check.
set -e
cd "$(dirname "$0")/.."
. ./env.sh
patch="$(readlink -f "$1")"; rules="${2:-all}"
tmp=$(mktemp -d /tmp/ergomut.XXXXXX)
trap 'rm -rf "$tmp"' EXIT
rsync -a --exclude .git /repo/ "$tmp/"
if ! (cd "$tmp" && patch -p1 -s --no-backup-if-mismatch < "$patch" >/dev/null 2>&1); then echo "PATCH-DOES-NOT-APPLY $patch"; exit 3; fi
if ! (cd "$tmp" && GOFLAGS=-mod=readonly go build ./... 2>/dev/null); then echo "DOES-NOT-COMPILE $patch"; exit 4; fi
${ERGOCHECK:-bin/ergocheck} -rules "$rules" -repo "$tmp" | grep -v ' discharged ' | sed "s#$tmp/##g"
