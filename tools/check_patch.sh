#!/bin/bash
# usage: tools/check_patch.sh <property> <patch.diff> — development aid: applies the patch to a scratch copy of /repo and
# runs that property's own check on it (never touches /repo); prints the rules that fired and DETECTED / MISSED.
cd "$(dirname "$0")/.."
. ./env.sh
prop="$1"; patch="$(readlink -f "$2")"
d=$(mktemp -d /tmp/ergochk.XXXXXX); o=$(mktemp -d /tmp/ergochkout.XXXXXX)
trap 'rm -rf "$d" "$o"' EXIT
rsync -a --exclude .git /repo/ "$d/"
( cd "$d" && patch -p1 -s --no-backup-if-mismatch < "$patch" >/dev/null 2>&1 ) || { echo "$prop does-not-apply"; exit 3; }
( cd "$d" && GOFLAGS=-mod=readonly go build ./... >/dev/null 2>&1 ) || { echo "$prop does-not-build"; exit 4; }
mkdir -p "$o/evidence/violations"; ln -s /verif/KNOWN_FINDINGS.txt "$o/KNOWN_FINDINGS.txt"; ln -s /verif/checker "$o/checker"
out=$(${ERGOCHECK:-bin/ergocheck} -property "$prop" -repo "$d" -out "$o" 2>&1)
rules=$(ls "$o/evidence/violations" 2>/dev/null | sed 's/[-_.].*//' | sort -u | tr '\n' ' ')
if echo "$out" | grep -q "^VIOLATION"; then echo "$prop DETECTED $(echo "$out" | grep -o 'rule=[A-Z0-9]*' | sort -u | tr '\n' ' ')"; else echo "$prop MISSED"; fi
