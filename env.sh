# Environment for building and running the checker (offline, pinned toolchain).
export PATH=/opt/veriftools/go1.26.8/bin:$PATH
export GOTOOLCHAIN=local GOFLAGS=-mod=mod GOPROXY=off GOSUMDB=off
unset GOWORK
export GOWORK=off
