package main

// Rules and clauses added in seed round 12 (input/output schema, argument handling): OU19 looked-up items are checked
// before use, OU17's index-result clause lives in rules_ou17.go, VD15's input-not-rewritten and OU18's argv clause here.

import (
	"fmt"
	"go/token"
	"go/types"
	"strings"

	"golang.org/x/tools/go/ssa"
)

func init() {
	register(&Rule{ID: "OU19", Min: 5, Run: ruleOU19,
		Doc: "looked-up-items-are-checked-before-use: an item fetched from one of the replayed graph's maps of pointers (graph.Tasks[id], graph.Meta[id]) is dereferenced only where the lookup is known to have succeeded: behind the ok of a comma-ok lookup or a nil test of the value. The maps are keyed by ids that other records name (a task's epic, a dependency, a result's task), and a log cut short by a crash - a prune killed between the tombstone of an epic and that of its last child - or a hand-merged log can name an id that is not there; an unchecked `graph.Tasks[x].Field` then panics in every command that reads the log, where the unchanged code shows the state"})
}

// ------------------------------------------------------------------ OU19

func ruleOU19(c *Ctx) {
	n := 0
	for _, f := range c.Fns {
		if !c.InModule(f) || f.Blocks == nil || Outermost(f).Pkg != c.Ergo {
			continue
		}
		k := 0
		eachInstr(f, func(r instrRef) {
			lk, ok := r.In.(*ssa.Lookup)
			if !ok {
				return
			}
			mt, isMap := lk.X.Type().Underlying().(*types.Map)
			if !isMap {
				return
			}
			pt, isPtr := mt.Elem().Underlying().(*types.Pointer)
			if !isPtr {
				return
			}
			tn := namedTypeName(pt)
			if tn != "ergo.Task" && tn != "ergo.TaskMeta" {
				return
			}
			// the looked-up pointer and the ok flag
			var val ssa.Value = lk
			var okv ssa.Value
			if lk.CommaOk {
				val = nil
				for _, u := range *lk.Referrers() {
					if ex, isEx := u.(*ssa.Extract); isEx {
						if ex.Index == 0 {
							val = ex
						} else {
							okv = ex
						}
					}
				}
			}
			if val == nil {
				return
			}
			// an item this very function has just created (the id was minted here and its create event is in the list
			// replayed to compute the reply) is there by construction
			if ns := c.F.Anchors["newShortID"]; ns != nil && c.mintedInCallback(lk.Index, ns) {
				return
			}
			// dereferences of the value (through local variables)
			var derefs []ssa.Instruction
			seen := map[ssa.Value]bool{}
			var walk func(v ssa.Value, d int)
			walk = func(v ssa.Value, d int) {
				if seen[v] || d > 6 || v.Referrers() == nil {
					return
				}
				seen[v] = true
				for _, u := range *v.Referrers() {
					switch x := u.(type) {
					case *ssa.FieldAddr:
						if x.X == v {
							derefs = append(derefs, x)
						}
					case *ssa.UnOp:
						if x.Op == token.MUL && x.X == v {
							derefs = append(derefs, x)
						}
					case *ssa.Phi:
						// merged with other values: judged at the merge's own uses only when every edge is this lookup
					case *ssa.Store:
						if al, isAl := x.Addr.(*ssa.Alloc); isAl && x.Val == v && !al.Heap {
							sts := 0
							for _, lr := range *al.Referrers() {
								if st, isSt := lr.(*ssa.Store); isSt && st.Addr == ssa.Value(al) {
									sts++
								}
							}
							if sts == 1 {
								for _, lr := range *al.Referrers() {
									if ld, isLd := lr.(*ssa.UnOp); isLd && ld.Op == token.MUL {
										walk(ld, d+1)
									}
								}
							}
						}
					}
				}
			}
			walk(val, 0)
			if len(derefs) == 0 {
				return
			}
			k++
			n++
			construct := fmt.Sprintf("lookup %s#%d", strings.TrimPrefix(tn, "ergo."), k)
			// edges on which the lookup is known to have succeeded
			good := edgesWhere(f, func(a Atom, holds bool) bool {
				if len(a.Env) > 0 {
					return false
				}
				switch a.Kind {
				case "bool":
					return holds && okv != nil && strip(a.X) == okv
				case "nil":
					if holds {
						return false
					}
					x := strip(a.X)
					return x == val || seen[x] || holdsValue(x, val)
				}
				return false
			})
			bad := ""
			for _, d := range derefs {
				if d.Block() == nil {
					continue
				}
				if len(good) == 0 || !mustPassEdges(f, d.Block(), good) {
					bad = c.Pos(d.Pos())
					break
				}
			}
			c.check(bad == "", c.Name(f), construct, c.Pos(lk.Pos()), "dereferenced only where the lookup is known to have succeeded",
				"the item looked up here is dereferenced at "+bad+" without a check that it was found: an id that names no live item (an epic tombstoned by a prune that was killed before its last child's tombstone, a dangling reference in a merged log) makes this command panic instead of showing the state")
		})
	}
	if n == 0 {
		c.unk("<module>", "lookups", "-", "no dereferenced lookup in a map of *Task/*TaskMeta found")
	}
}

// ------------------------------------------------------------------ shared: stores into decoded input

// inputRewrites: stores that change a decoded input document (a field of PlanInput/PlanTaskInput/TaskInput, or an element
// of a slice read from one) outside its construction.
func (c *Ctx) inputRewrites(typeNames map[string]bool) []string {
	var out []string
	for _, f := range c.Fns {
		if !c.InModule(f) || f.Blocks == nil {
			continue
		}
		if f.Name() == "UnmarshalJSON" || f.Name() == "UnmarshalText" {
			continue // the decoder itself
		}
		eachInstr(f, func(r instrRef) {
			st, ok := r.In.(*ssa.Store)
			if !ok {
				return
			}
			switch a := st.Addr.(type) {
			case *ssa.FieldAddr:
				if !typeNames[namedTypeName(a.X.Type())] {
					return
				}
				if al, isAl := strip(a.X).(*ssa.Alloc); isAl && al.Parent() == f {
					return // a literal or a local value under construction
				}
				out = append(out, fmt.Sprintf("%s.%s is assigned in %s at %s", namedTypeName(a.X.Type()), fieldName(a.X.Type(), a.Field), c.Name(f), c.Pos(st.Pos())))
			case *ssa.IndexAddr:
				// an element of a slice that was read from a field of the input
				base := strip(a.X)
				if ld, isLd := base.(*ssa.UnOp); isLd && ld.Op == token.MUL {
					if fa, isFA := ld.X.(*ssa.FieldAddr); isFA && typeNames[namedTypeName(fa.X.Type())] {
						// elements of a slice of sub-documents are reached through IndexAddr + FieldAddr (handled above); a
						// direct store replaces a scalar element (After[j] = ...)
						if _, isStruct := st.Val.Type().Underlying().(*types.Struct); !isStruct {
							out = append(out, fmt.Sprintf("an element of %s.%s is overwritten in %s at %s", namedTypeName(fa.X.Type()), fieldName(fa.X.Type(), fa.Field), c.Name(f), c.Pos(st.Pos())))
						}
					}
				}
			}
		})
	}
	return out
}

// ------------------------------------------------------------------ DT17

func init() {
	register(&Rule{ID: "DT17", Min: 1, Run: ruleDT17,
		Doc: "shown-change-times-are-re-emitted: replay keeps, per item, the time of the last claim/state/title/body/epic change (TaskMeta.Last*At); compaction writes the corresponding event back only under a condition (the value differs from the created one, the item is claimed, the time is later than creation). A command that shows one of these times must show nothing in exactly the cases where compaction writes nothing: every way round compaction's emission of the event carrying that time passes a test under which the observer prints nothing (claimed_at is shown only for a claimed task, and the claim event is re-emitted exactly for claimed tasks). Otherwise the time is visible before `compact` and gone (or different) after it"})
}

func ruleDT17(c *Ctx) {
	ce := c.anchor("compactEvents")
	re := c.anchor("replayEvents")
	if ce == nil || re == nil {
		return
	}
	inUnit := map[*ssa.Function]bool{}
	for _, root := range []*ssa.Function{ce, re} {
		inUnit[root] = true
		for _, g := range c.unitOf(root) {
			inUnit[g] = true
		}
		for g := range c.F.TransitiveCallees(root) {
			if c.onlyCalledFrom(g, root) {
				inUnit[g] = true
			}
		}
	}
	// label of a branch fact in terms of Task/TaskMeta fields; "" when it is about something else
	label := func(a Atom) string {
		switch a.Kind {
		case "const":
			if b, n, ok := fieldLoad(resolveEnv(a.X, a.Env)); ok && a.C != nil {
				tn := namedTypeName(b.Type())
				if tn == "ergo.Task" || tn == "ergo.TaskMeta" {
					return tn + "." + n + "==" + constStr(a.C)
				}
			}
		case "bool":
			if cl, _ := callOf(a.X); cl != nil && calleeFullName(&cl.Call) == "(time.Time).IsZero" && len(cl.Call.Args) == 1 {
				for _, m := range []string{"LastStateAt", "LastClaimAt", "LastTitleAt", "LastBodyAt", "LastEpicAt"} {
					if derivesFromField(cl.Call.Args[0], m) {
						return "IsZero(" + m + ")"
					}
				}
			}
		}
		return ""
	}
	// the labelled facts of a function: its own tests and what a predicate helper's answer implies (task.isClaimed())
	type lfact struct {
		e     edge
		l     string
		holds bool
	}
	labelled := func(fn *ssa.Function) []lfact {
		var out []lfact
		for _, bf := range branchFacts(fn) {
			if l := label(bf.A); l != "" {
				out = append(out, lfact{bf.E, l, bf.Holds})
			}
			if len(bf.Alts) == 1 {
				for _, fa := range bf.Alts[0] {
					if l := label(fa.A); l != "" {
						out = append(out, lfact{bf.E, l, fa.Holds})
					}
				}
			}
		}
		curEnv = nil
		return out
	}
	n := 0
	diag := c.diagnosticFns()
	for _, g := range c.Fns {
		if !c.InModule(g) || g.Blocks == nil || inUnit[g] || inUnit[Outermost(g)] {
			continue
		}
		if diag[Outermost(g)] {
			continue // a trace helper: what it reads reaches stderr only, not a view a reader relies on
		}
		// the change times this function reads
		reads := map[string]ssa.Instruction{}
		eachInstr(g, func(r instrRef) {
			var tn, fn string
			switch x := r.In.(type) {
			case *ssa.FieldAddr:
				tn, fn = namedTypeName(x.X.Type()), fieldName(x.X.Type(), x.Field)
			case *ssa.Field:
				tn, fn = namedTypeName(x.X.Type()), fieldName(x.X.Type(), x.Field)
			default:
				return
			}
			if tn == "ergo.TaskMeta" && strings.HasPrefix(fn, "Last") && strings.HasSuffix(fn, "At") {
				if _, seen := reads[fn]; !seen {
					reads[fn] = r.In
				}
			}
		})
		var fields []string
		for f := range reads {
			fields = append(fields, f)
		}
		sortStrings(fields)
		for _, m := range fields {
			n++
			construct := "shows TaskMeta." + m
			pos := c.Pos(reads[m].Pos())
			// where the time leaves the function: returns deriving from it (or, failing that, the read itself)
			var showBlocks []*ssa.BasicBlock
			for _, r := range returnsOf(g) {
				for _, res := range r.Results {
					if derivesFromField(res, m) {
						showBlocks = append(showBlocks, r.Block())
					}
				}
			}
			if len(showBlocks) == 0 {
				showBlocks = []*ssa.BasicBlock{reads[m].Block()}
			}
			// what must hold for the time to be shown
			need := map[string]bool{} // label -> truth required
			for _, lf := range labelled(g) {
				all := true
				for _, sb := range showBlocks {
					if !mustPassEdges(g, sb, map[edge]bool{lf.e: true}) {
						all = false
					}
				}
				if all {
					need[lf.l] = lf.holds
				}
			}
			// compaction's emission carrying this time
			var em *Emission
			for _, e := range c.emissions() {
				if !(e.Fn == ce || inUnit[e.Fn]) || c.inUnit(e.Fn, re) {
					continue
				}
				if ts := e.Fields["TS"]; ts != nil && derivesFromField(ts, m) {
					em = e
				}
			}
			if em == nil {
				c.bad(c.Name(g), construct, pos, "TaskMeta."+m+" is shown here but no event compaction emits carries it: the time is gone after `compact`")
				continue
			}
			f := em.Fn
			be := em.Call.Block()
			hdr := enclosingLoopHeader(be)
			// ways round the emission: paths from the loop header back to it that avoid the emission's block and every edge
			// on which the observer shows nothing
			removed := map[edge]bool{}
			for _, lf := range labelled(f) {
				if want, ok := need[lf.l]; ok && lf.holds != want {
					removed[lf.e] = true
				}
			}
			skip := false
			if hdr != nil {
				rs := reach(hdr, removed, map[*ssa.BasicBlock]bool{be: true})
				for _, p := range hdr.Preds {
					if hdr.Dominates(p) && rs[p] {
						skip = true
					}
				}
			} else {
				// the events of one item are built by a helper of their own: a way round is a path from its entry to a
				// successful return
				rs := reach(f.Blocks[0], removed, map[*ssa.BasicBlock]bool{be: true})
				for _, r := range c.nonFailingReturns(f) {
					if rs[r.Block()] {
						skip = true
					}
				}
			}
			var needs []string
			for l, v := range need {
				needs = append(needs, fmt.Sprintf("%s:%v", l, v))
			}
			sortStrings(needs)
			c.check(!skip, c.Name(g), construct, pos,
				"shown only where compaction re-emits the event carrying it (observer requires "+strings.Join(needs, ", ")+")",
				"TaskMeta."+m+" is shown here (when "+strings.Join(needs, ", ")+"), but compaction can skip the event that carries it ("+em.construct(em.Types[len(em.Types)-1])+" at "+c.Pos(em.Call.Pos())+") in cases where it is shown - the event is re-emitted only when the value differs from the created one or the time is later than creation - so the time is visible before `compact` and gone after it")
		}
	}
	if n == 0 {
		c.unk("<module>", "observers", "-", "no function outside replay/compaction reads a TaskMeta.Last*At time (claimed_at no longer shown?)")
	}
}

func sortStrings(xs []string) {
	for i := 1; i < len(xs); i++ {
		for j := i; j > 0 && xs[j] < xs[j-1]; j-- {
			xs[j], xs[j-1] = xs[j-1], xs[j]
		}
	}
}

// ------------------------------------------------------------------ OU20

func init() {
	register(&Rule{ID: "OU20", Min: 1, Run: ruleOU20,
		Doc: "quiet-selects-output-not-outcome: --quiet suppresses summaries and hints; it never decides how a command ends. In the command functions (Run* and their private helpers that return an error) no successful return is reachable only across the true edge of a test of the Quiet option: a shortcut taken `because nothing more will be printed anyway` skips whatever the rest of the path does for every mode - the documented empty-state sentence of a view without rows, the one JSON value owed under --json"})
}

func ruleOU20(c *Ctx) {
	sentences := map[string]bool{}
	if ss, err := c.documentedSentences(); err == nil {
		for _, s := range ss {
			sentences[s] = true
		}
	}
	wj := c.ErgoFn("writeJSON")
	n := 0
	for _, f := range c.Fns {
		if !c.InModule(f) || f.Blocks == nil || Outermost(f).Pkg != c.Ergo {
			continue
		}
		res := f.Signature.Results()
		if res.Len() == 0 || res.At(res.Len()-1).Type().String() != "error" {
			continue
		}
		quiet := edgesWhere(f, func(a Atom, holds bool) bool {
			if a.Kind != "bool" || !holds {
				return false
			}
			// the option itself, or a copy kept in a printer/settings struct (p.quiet)
			_, nme, ok := fieldLoad(resolveEnv(a.X, a.Env))
			return ok && (nme == "Quiet" || nme == "quiet")
		})
		if len(quiet) == 0 {
			continue
		}
		n++
		bad := ""
		for e := range quiet {
			// a successful return taken only across this edge ...
			var dominated []*ssa.Return
			for _, r := range successReturns(f) {
				if r.Block().Comment != "recover" && mustPassEdges(f, r.Block(), map[edge]bool{e: true}) {
					dominated = append(dominated, r)
				}
			}
			// ... is fine when all it skips is text that --quiet is there to suppress: what can follow the test but cannot
			// lead to that return must contain no JSON reply, no documented empty-state sentence and no change of the store
			for _, dr := range dominated {
				leadsToR := map[*ssa.BasicBlock]bool{}
				for _, b := range f.Blocks {
					if reach(b, nil, nil)[dr.Block()] {
						leadsToR[b] = true
					}
				}
				for blk := range reach(e.From, nil, nil) {
					if leadsToR[blk] {
						continue
					}
					for _, in := range blk.Instrs {
						call, ok := in.(ssa.CallInstruction)
						if !ok {
							continue
						}
						if cal := calleeOf(call.Common()); cal != nil && wj != nil && cal == wj {
							bad = "the JSON reply written at " + c.Pos(call.Pos())
						}
						for _, s := range stringConstsIn(call) {
							if sentences[s] {
								bad = fmt.Sprintf("the documented sentence %q printed at %s", s, c.Pos(call.Pos()))
							}
						}
						if ef := c.F.byCall[call]; ef != nil && commitEffectClass(ef.Class) {
							bad = "the store operation at " + c.Pos(call.Pos())
						}
						if cal := calleeOf(call.Common()); cal != nil && c.InModule(cal) {
							for g := range c.F.TransitiveCallees(cal) {
								if c.F.isLockFn(g) {
									bad = "the locked step reached through " + c.Name(cal) + " at " + c.Pos(call.Pos())
								}
							}
						}
					}
				}
			}
		}
		c.check(bad == "", c.Name(f), "quiet-ends-nothing", c.FnPos(f), "a return taken under --quiet skips nothing but suppressible text",
			"a successful return is taken only when --quiet is set, and it skips "+bad+": the flag that suppresses summaries and hints decides what the command does, not just what it prints")
	}
	if n == 0 {
		c.unk("<module>", "quiet-tests", "-", "no test of GlobalOptions.Quiet found in a command function")
	}
}
