package main

// OU1: --json stdout discipline, by assumption-pruned interprocedural reachability (E5):
// the world is analysed with every load of GlobalOptions.JSON fixed to true, bool
// parameters bound at their call sites (constants, opts.JSON, the caller's own binding).

import (
	"fmt"
	"go/token"
	"go/types"
	"os"
	"sort"
	"strings"

	"golang.org/x/tools/go/ssa"
)

func init() {
	register(&Rule{ID: "OU1", Min: 10, Run: ruleOU1,
		Doc: "json-stdout-discipline: with GlobalOptions.JSON assumed true (and bool parameters bound at their call sites), from every cobra command entry (a) no text writer to stdout is reachable, (b) no path writes more than one JSON value, (c) no success return is reachable without exactly one JSON write"})
}

type tri int

const (
	triU tri = iota
	triT
	triF
)

type ou1Site struct {
	fn   *ssa.Function
	call ssa.CallInstruction
	what string
}

type ou1Summary struct {
	texts      []ou1Site
	minJ, maxJ int
	canSucceed bool
	jsonSites  []ou1Site
	// the most JSON values on a path that ends in a success return / in a failing return (a helper that writes the JSON
	// error object and then hands back the error: its one value belongs to the failing outcome only)
	maxJSucc, maxJFail int
	split              bool
}

type ou1 struct {
	c     *Ctx
	memo  map[string]*ou1Summary
	stack map[string]bool
}

// a bool field of a struct parameter (a request object: setRequest{Quiet: opts.JSON}) is bound like a bool parameter; it
// is keyed by a synthetic parameter object
type ou1FieldKey struct {
	p *ssa.Parameter
	f string
}

var (
	ou1Synth     = map[ou1FieldKey]*ssa.Parameter{}
	ou1SynthName = map[*ssa.Parameter]string{}
)

func ou1FieldParam(p *ssa.Parameter, f string) *ssa.Parameter {
	k := ou1FieldKey{p, f}
	if sp := ou1Synth[k]; sp != nil {
		return sp
	}
	sp := &ssa.Parameter{}
	ou1Synth[k] = sp
	ou1SynthName[sp] = p.Parent().Name() + "." + p.Name() + "." + f
	return sp
}

// paramOfBase: the parameter a struct value or pointer is (also when the parameter was spilled to a local because a
// closure captures it, and seen from inside that closure).
func paramOfBase(v ssa.Value, d int) *ssa.Parameter {
	if v == nil || d > 5 {
		return nil
	}
	switch x := strip(v).(type) {
	case *ssa.Parameter:
		return x
	case *ssa.FreeVar:
		return paramOfBase(bindingOf(x), d+1)
	case *ssa.Alloc:
		sts := cellStores(x)
		if len(sts) == 1 {
			return paramOfBase(sts[0].Val, d+1)
		}
	case *ssa.UnOp:
		if x.Op == token.MUL {
			return paramOfBase(x.X, d+1)
		}
	}
	return nil
}

// structFieldStore: the one value stored into field idx of the struct value handed as arg (a composite literal built in a
// local right before the call), nil when there is none or more than one.
func structFieldStore(arg ssa.Value, idx int) ssa.Value {
	a := strip(arg)
	if ld, ok := a.(*ssa.UnOp); ok && ld.Op == token.MUL {
		a = ld.X
	}
	al, ok := a.(*ssa.Alloc)
	if !ok || al.Referrers() == nil {
		return nil
	}
	var val ssa.Value
	for _, r := range *al.Referrers() {
		fa, ok := r.(*ssa.FieldAddr)
		if !ok || fa.Field != idx || fa.Referrers() == nil {
			continue
		}
		for _, u := range *fa.Referrers() {
			if st, ok := u.(*ssa.Store); ok && st.Addr == ssa.Value(fa) {
				if val != nil {
					return nil
				}
				val = st.Val
			}
		}
	}
	return val
}

func bindKey(fn *ssa.Function, binds map[*ssa.Parameter]tri) string {
	var ks []string
	for p, v := range binds {
		if v != triU {
			if nme, synth := ou1SynthName[p]; synth {
				ks = append(ks, fmt.Sprintf("%s=%d", nme, v))
				continue
			}
			ks = append(ks, fmt.Sprintf("%s.%s=%d", p.Parent().Name(), p.Name(), v))
		}
	}
	sort.Strings(ks)
	return fn.String() + "|" + strings.Join(ks, ",")
}

// boolValue evaluates a condition operand under the assumption.
func (o *ou1) boolValue(v ssa.Value, binds map[*ssa.Parameter]tri) tri {
	if base, n, ok := fieldLoad(strip(v)); ok {
		if p := paramOfBase(base, 0); p != nil {
			if sp := ou1Synth[ou1FieldKey{p, n}]; sp != nil {
				if t, bound := binds[sp]; bound {
					return t
				}
			}
		}
	}
	v = resolve(v)
	if b, ok := constBool(v); ok {
		if b {
			return triT
		}
		return triF
	}
	if base, n, ok := fieldLoad(v); ok && n == "JSON" && namedTypeName(base.Type()) == "ergo.GlobalOptions" {
		return triT
	}
	if n, ok := optionsFieldLoad(v); ok && n == "JSON" {
		return triT // the flag inside an option group (opts.Output.JSON)
	}
	if p, ok := v.(*ssa.Parameter); ok {
		return binds[p]
	}
	return triU
}

func (o *ou1) eval(fn *ssa.Function, binds map[*ssa.Parameter]tri) *ou1Summary {
	key := bindKey(fn, binds)
	if s, ok := o.memo[key]; ok {
		return s
	}
	if o.stack[key] {
		return &ou1Summary{canSucceed: true}
	}
	o.stack[key] = true
	defer delete(o.stack, key)
	c := o.c
	s := &ou1Summary{}
	// pruned CFG
	removed := map[edge]bool{}
	for _, bf := range branchFacts(fn) {
		curEnv = bf.A.Env
		if bf.A.Kind != "bool" {
			continue
		}
		switch o.boolValue(bf.A.X, binds) {
		case triT:
			if !bf.Holds {
				removed[bf.E] = true
			}
		case triF:
			if bf.Holds {
				removed[bf.E] = true
			}
		}
	}
	live := reach(fn.Blocks[0], removed, nil)
	wMin := make([]int, len(fn.Blocks))
	wMax := make([]int, len(fn.Blocks))
	ewMax := map[edge]int{}
	for _, b := range fn.Blocks {
		if !live[b] {
			continue
		}
		for _, in := range b.Instrs {
			call, ok := in.(ssa.CallInstruction)
			if !ok {
				continue
			}
			if df, isDefer := call.(*ssa.Defer); isDefer {
				// a deferred call runs at every exit reachable from here: whatever it may write is added to those exits
				var dfn *ssa.Function
				if mc, ok := resolve(df.Call.Value).(*ssa.MakeClosure); ok {
					dfn, _ = mc.Fn.(*ssa.Function)
				} else if cal := calleeOf(&df.Call); cal != nil && c.InModule(cal) && cal.Blocks != nil {
					dfn = cal
				}
				if dfn != nil {
					sub := o.eval(dfn, binds)
					if sub.maxJ > 0 || len(sub.texts) > 0 {
						after := reach(b, removed, nil)
						for _, r := range returnsOf(fn) {
							if after[r.Block()] && live[r.Block()] {
								// may run or not (conditions inside the closure): counts towards the maximum only
								s.texts = append(s.texts, sub.texts...)
								s.jsonSites = append(s.jsonSites, sub.jsonSites...)
								if sub.maxJ >= inf {
									wMax[r.Block().Index] = inf
								} else if wMax[r.Block().Index] < inf {
									wMax[r.Block().Index] += sub.maxJ
								}
							}
						}
					}
				}
				continue
			}
			cc := call.Common()
			name := calleeFullName(cc)
			cal := calleeOf(cc)
			switch {
			case strings.HasPrefix(name, "fmt.Print"):
				s.texts = append(s.texts, ou1Site{fn, call, name})
			case strings.HasPrefix(name, "fmt.Fprint"):
				if isGlobalLoad(cc.Args[0], "Stderr") {
					break
				}
				if isStringsBuilder(cc.Args[0]) {
					break
				}
				s.texts = append(s.texts, ou1Site{fn, call, name})
			case cal != nil && (cal == c.F.Anchors["writeJSON"] || cal.Name() == "WriteJSON"):
				if len(cc.Args) > 0 {
					w := cc.Args[0]
					if cal.Name() == "WriteJSON" && len(cc.Args) > 1 {
						w = cc.Args[1]
					}
					if isGlobalLoad(w, "Stderr") {
						break
					}
				}
				s.jsonSites = append(s.jsonSites, ou1Site{fn, call, name})
				wMin[b.Index]++
				wMax[b.Index]++
			case cal != nil && c.F.isLockFn(cal):
				for _, ls := range c.F.LockSites {
					if ls.Call == call && ls.Callback != nil {
						sub := o.eval(ls.Callback, binds)
						o.merge(s, sub, b, wMin, wMax)
					}
				}
			case cal != nil && c.InModule(cal) && cal.Blocks != nil:
				nb := map[*ssa.Parameter]tri{}
				for k, v := range binds {
					nb[k] = v
				}
				for i, prm := range cal.Params {
					if i < len(cc.Args) && prm.Type().String() == "bool" {
						nb[prm] = o.boolValue(cc.Args[i], binds)
					}
					if i >= len(cc.Args) {
						continue
					}
					// a request object: its bool fields are bound like bool parameters
					pt := prm.Type()
					if ptr, isPtr := pt.Underlying().(*types.Pointer); isPtr {
						pt = ptr.Elem()
					}
					st, isStruct := pt.Underlying().(*types.Struct)
					if !isStruct || !strings.HasPrefix(namedTypeName(pt), "ergo.") || namedTypeName(pt) == "ergo.GlobalOptions" {
						continue
					}
					for fi := 0; fi < st.NumFields(); fi++ {
						if st.Field(fi).Type().String() != "bool" {
							continue
						}
						fname := st.Field(fi).Name()
						if val := structFieldStore(cc.Args[i], fi); val != nil {
							nb[ou1FieldParam(prm, fname)] = o.boolValue(val, binds)
						} else if cp := paramOfBase(cc.Args[i], 0); cp != nil {
							// the caller's own request object handed on
							if sp := ou1Synth[ou1FieldKey{cp, fname}]; sp != nil {
								if t, bound := binds[sp]; bound {
									nb[ou1FieldParam(prm, fname)] = t
								}
							}
						}
					}
				}
				sub := o.eval(cal, nb)
				// a helper whose error is tested right here: what it wrote counts per outcome
				if cv, isCall := call.(*ssa.Call); isCall && sub.split && sub.maxJSucc != sub.maxJFail && sub.maxJ < inf {
					nn := nonNilErrEdges(fn, cv)
					if len(nn) > 0 {
						for e := range nn {
							ewMax[e] += sub.maxJFail
							for i := range e.From.Succs {
								if i != e.Succ {
									ewMax[edge{e.From, i}] += sub.maxJSucc
								}
							}
						}
						s.texts = append(s.texts, sub.texts...)
						s.jsonSites = append(s.jsonSites, sub.jsonSites...)
						if sub.canSucceed && sub.minJ < inf {
							wMin[b.Index] += sub.minJ
						}
						break
					}
				}
				o.merge(s, sub, b, wMin, wMax)
			case cal == nil && !cc.IsInvoke():
				if mc, ok := resolve(cc.Value).(*ssa.MakeClosure); ok {
					sub := o.eval(mc.Fn.(*ssa.Function), binds)
					o.merge(s, sub, b, wMin, wMax)
				}
			}
		}
	}
	// success returns
	succ := map[*ssa.BasicBlock]bool{}
	for _, r := range returnsOf(fn) {
		if !live[r.Block()] || r.Block().Comment == "recover" {
			continue
		}
		if !o.definitelyFails(fn, r) {
			succ[r.Block()] = true
		}
	}
	s.canSucceed = len(succ) > 0
	// longest / shortest weighted path over the live, pruned CFG
	cyc := false
	for _, b := range fn.Blocks {
		if live[b] && wMax[b.Index] > 0 {
			for i, sc := range b.Succs {
				if removed[edge{b, i}] {
					continue
				}
				if sc == b || reach(sc, removed, nil)[b] {
					cyc = true
				}
			}
		}
	}
	if cyc {
		s.maxJ = inf
	} else {
		memo := map[*ssa.BasicBlock]int{}
		vis := map[*ssa.BasicBlock]bool{}
		var lp func(b *ssa.BasicBlock) int
		lp = func(b *ssa.BasicBlock) int {
			if v, ok := memo[b]; ok {
				return v
			}
			if vis[b] {
				return 0
			}
			vis[b] = true
			mx := 0
			for i, sc := range b.Succs {
				if removed[edge{b, i}] {
					continue
				}
				if v := lp(sc) + ewMax[edge{b, i}]; v > mx {
					mx = v
				}
			}
			memo[b] = mx + wMax[b.Index]
			return memo[b]
		}
		s.maxJ = lp(fn.Blocks[0])
	}
	// the same maximum, separately for paths that end in a success return and in a failing one
	if !cyc && len(fn.Signature.Results().String()) > 0 {
		res := fn.Signature.Results()
		if res.Len() > 0 && res.At(res.Len()-1).Type().String() == "error" {
			longestTo := func(target func(b *ssa.BasicBlock) bool) int {
				memo := map[*ssa.BasicBlock]int{}
				vis := map[*ssa.BasicBlock]bool{}
				const none = -1 << 30
				var lp func(b *ssa.BasicBlock) int
				lp = func(b *ssa.BasicBlock) int {
					if v, ok := memo[b]; ok {
						return v
					}
					if vis[b] {
						return none
					}
					vis[b] = true
					best := none
					if len(b.Succs) == 0 && target(b) {
						best = 0
					}
					for i, sc := range b.Succs {
						if removed[edge{b, i}] {
							continue
						}
						if v := lp(sc); v > none && v+ewMax[edge{b, i}] > best {
							best = v + ewMax[edge{b, i}]
						}
					}
					if best > none {
						best += wMax[b.Index]
					}
					memo[b] = best
					return best
				}
				if v := lp(fn.Blocks[0]); v > none {
					return v
				}
				return 0
			}
			isRet := func(b *ssa.BasicBlock) bool {
				_, ok := b.Instrs[len(b.Instrs)-1].(*ssa.Return)
				return ok && b.Comment != "recover"
			}
			s.maxJSucc = longestTo(func(b *ssa.BasicBlock) bool { return isRet(b) && succ[b] })
			s.maxJFail = longestTo(func(b *ssa.BasicBlock) bool { return isRet(b) && !succ[b] })
			s.split = true
		}
	}
	// shortest path to a success return (Dijkstra-free: weights small, relax by BFS over (block) with Bellman-Ford)
	dist := map[*ssa.BasicBlock]int{fn.Blocks[0]: wMin[0]}
	changed := true
	for it := 0; changed && it < len(fn.Blocks)+2; it++ {
		changed = false
		for _, b := range fn.Blocks {
			d, ok := dist[b]
			if !ok {
				continue
			}
			for i, sc := range b.Succs {
				if removed[edge{b, i}] {
					continue
				}
				nd := d + wMin[sc.Index]
				if od, ok := dist[sc]; !ok || nd < od {
					dist[sc] = nd
					changed = true
				}
			}
		}
	}
	s.minJ = inf
	for b := range succ {
		if d, ok := dist[b]; ok && d < s.minJ {
			s.minJ = d
		}
		if os.Getenv("DBGOU1") != "" {
			fmt.Fprintf(os.Stderr, "DBG %s succ block %d dist=%v pos=%s\n", c.Name(fn), b.Index, dist[b], c.Pos(b.Instrs[len(b.Instrs)-1].Pos()))
		}
	}
	if !s.canSucceed {
		s.minJ = 0
	}
	o.memo[key] = s
	return s
}

func (o *ou1) merge(s, sub *ou1Summary, b *ssa.BasicBlock, wMin, wMax []int) {
	s.texts = append(s.texts, sub.texts...)
	s.jsonSites = append(s.jsonSites, sub.jsonSites...)
	if sub.maxJ >= inf {
		wMax[b.Index] = inf
	} else if wMax[b.Index] < inf {
		wMax[b.Index] += sub.maxJ
	}
	if sub.canSucceed && sub.minJ < inf {
		wMin[b.Index] += sub.minJ
	}
}

// definitelyFails: the returned error is freshly built or is some call's error on that call's non-nil edge.
func (o *ou1) definitelyFails(fn *ssa.Function, r *ssa.Return) bool {
	return o.c.definitelyFails(fn, r)
}

// definitelyFails: the return hands back an error that is non-nil on every path reaching it.
func (c *Ctx) definitelyFails(fn *ssa.Function, r *ssa.Return) bool {
	if len(r.Results) == 0 {
		return false
	}
	last := r.Results[len(r.Results)-1]
	if !isErrorType(last) {
		return false
	}
	// the returned value itself was tested non-nil on the way here
	rv := strip(returnedValue(r, len(r.Results)-1))
	tested := edgesWhere(fn, func(a Atom, holds bool) bool {
		return a.Kind == "nil" && !holds && len(a.Env) == 0 && (strip(a.X) == rv || holdsValue(rv, strip(a.X)))
	})
	if len(tested) > 0 && mustPassEdges(fn, r.Block(), tested) {
		return true
	}
	// a named result: the value tested and the value returned are two loads of the same result variable, with no
	// assignment to it in between
	if ld, ok := rv.(*ssa.UnOp); ok && ld.Op == token.MUL {
		if cell := cellOf(ld.X); cell != nil {
			var stores []*ssa.Store
			for _, st := range cellStores(cell) {
				if st.Parent() != fn {
					continue
				}
				// `return err` on a named result stores the variable to itself
				if sl, ok := strip(st.Val).(*ssa.UnOp); ok && sl.Op == token.MUL && cellOf(sl.X) == cell {
					continue
				}
				stores = append(stores, st)
			}
			sameCell := map[edge]bool{}
			for _, bf := range directFacts(fn) {
				if bf.A.Kind != "nil" || bf.Holds {
					continue
				}
				tl, ok := strip(bf.A.X).(*ssa.UnOp)
				if !ok || tl.Op != token.MUL || cellOf(tl.X) != cell {
					continue
				}
				// no store to the variable between the test's outcome and the return
				region := reach(bf.E.To(), nil, nil)
				clean := true
				for _, st := range stores {
					if region[st.Block()] && reach(st.Block(), nil, nil)[r.Block()] {
						clean = false
					}
				}
				if clean {
					sameCell[bf.E] = true
				}
			}
			if len(sameCell) > 0 && mustPassEdges(fn, r.Block(), sameCell) {
				return true
			}
		}
	}
	srcs := errorSourceValues(r)
	if len(srcs) == 0 {
		return false
	}
	for _, sv := range srcs {
		cl, ok := sv.(*ssa.Call)
		if !ok {
			if u, ok := sv.(*ssa.UnOp); ok {
				if g, ok := u.X.(*ssa.Global); ok && isSentinelErrorVar(g) {
					continue
				}
				if _, isStruct := u.Type().Underlying().(*types.Struct); isStruct && isErrorImpl(u.Type()) {
					continue // a typed error value (validationError{...})
				}
			}
			if al, ok := sv.(*ssa.Alloc); ok && isErrorImpl(al.Type()) {
				continue // the address of a typed error literal (&usageError{...})
			}
			return false
		}
		n := calleeFullName(&cl.Call)
		if n == "errors.New" || n == "fmt.Errorf" || strings.HasSuffix(n, ".GoError") || strings.HasSuffix(n, "prunedErr") {
			continue
		}
		if h := calleeOf(&cl.Call); h != nil && c.InModule(h) && alwaysFails(h, 0) {
			continue
		}
		if mustPassEdges(fn, r.Block(), nonNilErrEdges(fn, cl)) {
			continue
		}
		return false
	}
	return true
}

func isStringsBuilder(v ssa.Value) bool {
	v = strip(v)
	return strings.Contains(v.Type().String(), "strings.Builder") || strings.Contains(v.Type().String(), "bytes.Buffer")
}

func ruleOU1(c *Ctx) {
	o := &ou1{c: c, memo: map[string]*ou1Summary{}, stack: map[string]bool{}}
	// roots: cobra Run/RunE closures and the help function in package main
	var roots []*ssa.Function
	for _, fn := range c.Fns {
		if Outermost(fn).Pkg != c.Main || fn.Parent() == nil {
			continue
		}
		sig := fn.Signature
		if sig.Params().Len() == 2 && strings.Contains(sig.Params().At(0).Type().String(), "cobra.Command") {
			roots = append(roots, fn)
		}
	}
	if len(roots) == 0 {
		c.bad("main", "command-roots", "-", "no cobra command closures found")
		return
	}
	// what cobra runs around every command (PersistentPreRunE ...) is not a command of its own: it must not print text
	// under --json, any JSON value it writes counts towards every command's one value, and it need not write one itself
	hook := map[*ssa.Function]bool{}
	handler := map[*ssa.Function]bool{}
	for _, r := range c.cobraRegistrations() {
		if isHookField(r.Field) {
			hook[r.Fn] = true
		} else if r.Field == "Run" || r.Field == "RunE" {
			handler[r.Fn] = true
		}
	}
	hookJ := 0
	for _, root := range roots {
		if hook[root] && !handler[root] {
			if s := o.eval(root, map[*ssa.Parameter]tri{}); s.maxJ > 0 {
				if hookJ += s.maxJ; hookJ > inf {
					hookJ = inf
				}
			}
		}
	}
	seenText := map[string]bool{}
	for _, root := range roots {
		s := o.eval(root, map[*ssa.Parameter]tri{})
		// name the command by the internal/ergo entry it calls, for stable keys
		name := c.Name(root)
		for _, call := range callsIn(root) {
			if cal := calleeOf(call.Common()); cal != nil && (cal.Pkg == c.Ergo || cal.Pkg == c.Main) && c.InModule(cal) {
				name = c.Name(cal)
			}
		}
		// (a)
		cnt := map[string]int{}
		for _, t := range s.texts {
			k := c.Name(t.fn) + "|" + t.what
			cnt[k]++
			key := fmt.Sprintf("%s|a:text-stdout %s#%d", c.Name(t.fn), t.what, cnt[k])
			if seenText[key] {
				continue
			}
			seenText[key] = true
			c.bad(c.Name(t.fn), fmt.Sprintf("a:text-stdout %s#%d", t.what, cnt[k]), c.Pos(t.call.Pos()),
				"under --json this text write to stdout is reachable (from "+name+"): stdout is no longer a single JSON value")
		}
		c.check(len(s.texts) == 0, name, "a:no-text-under-json", c.FnPos(root), "no text stdout writer reachable under --json", fmt.Sprintf("%d text writes to stdout reachable under --json", len(s.texts)))
		if hook[root] && !handler[root] {
			continue
		}
		if handler[root] && hookJ > 0 {
			if s.maxJ += hookJ; s.maxJ > inf {
				s.maxJ = inf
			}
		}
		// (b)
		c.check(s.maxJ <= 1, name, "b:at-most-one-json", c.FnPos(root), fmt.Sprintf("at most %s JSON value on any path", fmtCount(s.maxJ)),
			fmt.Sprintf("up to %s JSON values can be written to stdout on one path", fmtCount(s.maxJ)))
		// (c)
		c.check(!s.canSucceed || s.minJ >= 1, name, "c:success-writes-json", c.FnPos(root), "every success return has written one JSON value",
			"a success return is reachable under --json without any JSON value written to stdout")
	}
	c.ok("<module>", "activations", "-", fmt.Sprintf("%d command roots, %d (function, binding) activations analysed under JSON=true", len(roots), len(o.memo)))
}

// isErrorImpl: the type has an Error() string method (it is used as an error).
func isErrorImpl(t types.Type) bool {
	ms := types.NewMethodSet(t)
	for i := 0; i < ms.Len(); i++ {
		if ms.At(i).Obj().Name() == "Error" {
			return true
		}
	}
	return false
}
