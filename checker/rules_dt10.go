package main

// DT10: every piece of replayed state a command looks at is state compaction carries over.

import (
	"fmt"
	"sort"
	"strings"

	"golang.org/x/tools/go/ssa"
)

func init() {
	register(&Rule{ID: "DT10", Min: 5, Run: ruleDT10,
		Doc: "replayed-fields-survive-compaction: compaction rebuilds the log from the replayed graph, so a field of Task or TaskMeta, or a part of the Graph itself, that replay (replayEvents and what it calls) assigns and that any command, predicate or renderer reads must also be read by compaction (compactEvents and its private helpers) - otherwise the information exists only in the uncompacted history and every decision taken from it (claim order, readiness, what show prints) changes when `compact` runs. Fields nobody outside replay reads are bookkeeping of replay itself and are listed"})
}

func ruleDT10(c *Ctx) {
	rm := c.replay()
	ce := c.anchor("compactEvents")
	if rm == nil || ce == nil {
		if rm == nil {
			c.unk("<module>", "replay", "-", "replay model not identified")
		}
		return
	}
	inReplay := map[*ssa.Function]bool{}
	for _, g := range rm.Unit {
		inReplay[g] = true
	}
	for g := range c.F.TransitiveCallees(rm.Root) {
		if c.InModule(g) {
			inReplay[g] = true
		}
	}
	inCompact := map[*ssa.Function]bool{ce: true}
	for _, g := range c.unitOf(ce) {
		inCompact[g] = true
	}
	for g := range c.F.TransitiveCallees(ce) {
		// helpers compaction calls that are not replay's (formatters, sorters, per-item emitters)
		if c.InModule(g) && !inReplay[g] {
			inCompact[g] = true
		}
	}
	type key struct{ typ, field string }
	stored := map[key]ssa.Instruction{}
	compactReads := map[key]bool{}
	otherReads := map[key][]string{}
	derivedFrom := map[key]map[string]bool{}
	plain := map[key]bool{}
	graphReads := map[string]bool{}
	tracked := func(t string) bool { return t == "ergo.Task" || t == "ergo.TaskMeta" }
	for _, fn := range c.Fns {
		if !c.InModule(fn) || fn.Blocks == nil {
			continue
		}
		o := Outermost(fn)
		eachInstr(fn, func(r instrRef) {
			switch x := r.In.(type) {
			case *ssa.MapUpdate:
				if n, ok := graphFieldOf(x.Map, 0); ok && inReplay[o] {
					k := key{"ergo.Graph", strings.TrimSuffix(n, "[..]")}
					if _, seen := stored[k]; !seen {
						stored[k] = x
					}
					plain[k] = true
				}
			case *ssa.Store:
				fa, ok := x.Addr.(*ssa.FieldAddr)
				if ok && namedTypeName(fa.X.Type()) == "ergo.Graph" && inReplay[o] {
					// a part of the graph that is more than a map filled event by event (an order slice, a counter)
					if _, isMake := resolve(x.Val).(*ssa.MakeMap); !isMake {
						k := key{"ergo.Graph", fieldName(fa.X.Type(), fa.Field)}
						if _, seen := stored[k]; !seen {
							stored[k] = x
						}
						plain[k] = true
					}
					return
				}
				if !ok || !tracked(namedTypeName(fa.X.Type())) || !inReplay[o] {
					return
				}
				k := key{namedTypeName(fa.X.Type()), fieldName(fa.X.Type(), fa.Field)}
				if _, seen := stored[k]; !seen {
					stored[k] = x
				}
				// a view of another part of the replayed state (Task.Deps = sorted keys of Graph.Deps[id])
				if gf := graphFieldsIn(x.Val); len(gf) > 0 && !rm.inCase(x) {
					// (only what is computed once the events have been folded: a value copied while handling an event
					// is a piece of history)
					if derivedFrom[k] == nil {
						derivedFrom[k] = map[string]bool{}
					}
					for f := range gf {
						derivedFrom[k][f] = true
					}
				} else {
					plain[k] = true
				}
			case *ssa.UnOp:
				fa, ok := x.X.(*ssa.FieldAddr)
				if ok && namedTypeName(fa.X.Type()) == "ergo.Graph" {
					gk := key{"ergo.Graph", fieldName(fa.X.Type(), fa.Field)}
					switch {
					case inCompact[o]:
						graphReads[gk.field] = true
					case inReplay[o]:
					default:
						otherReads[gk] = append(otherReads[gk], c.Name(o))
					}
				}
				if !ok || !tracked(namedTypeName(fa.X.Type())) {
					return
				}
				k := key{namedTypeName(fa.X.Type()), fieldName(fa.X.Type(), fa.Field)}
				switch {
				case inCompact[o]:
					compactReads[k] = true
				case inReplay[o]:
				default:
					otherReads[k] = append(otherReads[k], c.Name(o))
				}
			case *ssa.Field:
				if !tracked(namedTypeName(x.X.Type())) {
					return
				}
				k := key{namedTypeName(x.X.Type()), fieldName(x.X.Type(), x.Field)}
				switch {
				case inCompact[o]:
					compactReads[k] = true
				case inReplay[o]:
				default:
					otherReads[k] = append(otherReads[k], c.Name(o))
				}
			}
		})
	}
	// parts of the graph replay derives from other parts (RDeps is Deps reversed): covered when their sources are
	mapSources := map[string]map[string]bool{}
	mapPlain := map[string]bool{}
	for g := range inReplay {
		if g.Blocks == nil {
			continue
		}
		eachInstr(g, func(r instrRef) {
			mu, ok := r.In.(*ssa.MapUpdate)
			if !ok {
				return
			}
			n, ok := graphFieldOf(mu.Map, 0)
			if !ok {
				return
			}
			n = strings.TrimSuffix(n, "[..]")
			src := graphFieldsIn(mu.Key)
			delete(src, n)
			if len(src) == 0 || rm.inCase(mu) {
				mapPlain[n] = true
				return
			}
			if mapSources[n] == nil {
				mapSources[n] = map[string]bool{}
			}
			for f := range src {
				mapSources[n][f] = true
			}
		})
	}
	for changed := true; changed; {
		changed = false
		for n, src := range mapSources {
			if !graphReads[n] && !mapPlain[n] && allIn(src, graphReads) {
				graphReads[n] = true
				changed = true
			}
		}
	}
	var keys []key
	for k := range stored {
		keys = append(keys, k)
	}
	sort.Slice(keys, func(i, j int) bool { return keys[i].typ+keys[i].field < keys[j].typ+keys[j].field })
	for _, k := range keys {
		name := strings.TrimPrefix(k.typ, "ergo.") + "." + k.field
		pos := c.Pos(stored[k].Pos())
		readers := uniq(otherReads[k])
		sort.Strings(readers)
		if k.typ == "ergo.Graph" && graphReads[k.field] {
			compactReads[k] = true
		}
		switch {
		case len(readers) == 0:
			c.ok("ergo.replayEvents", "field "+name, pos, "assigned by replay and read by nobody outside replay/compaction")
		case !compactReads[k] && !plain[k] && len(derivedFrom[k]) > 0 && allIn(derivedFrom[k], graphReads):
			c.ok("ergo.replayEvents", "field "+name, pos, "a view replay derives from Graph."+strings.Join(setKeys(derivedFrom[k]), ", Graph.")+", which compaction reads")
		case compactReads[k]:
			c.ok("ergo.replayEvents", "field "+name, pos, fmt.Sprintf("read by %d function(s) outside replay and by compaction", len(readers)))
		default:
			show := readers
			if len(show) > 3 {
				show = show[:3]
			}
			c.bad("ergo.replayEvents", "field "+name, pos, name+" is assigned by replay and read by "+strings.Join(show, ", ")+" but never by compaction: what it records is lost when the log is compacted, and whatever is decided from it changes with `compact`")
		}
	}
	if len(keys) == 0 {
		c.bad("ergo.replayEvents", "fields", c.FnPos(rm.Root), "replay assigns no field of Task/TaskMeta (replay not recognised)")
	}
}

func allIn(a, b map[string]bool) bool {
	for k := range a {
		if !b[k] {
			return false
		}
	}
	return true
}

func setKeys(m map[string]bool) []string {
	var ks []string
	for k := range m {
		ks = append(ks, k)
	}
	sort.Strings(ks)
	return ks
}

// graphFieldsIn: the fields of the replayed Graph that v is computed from (within its function, through helper calls'
// arguments).
func graphFieldsIn(v ssa.Value) map[string]bool {
	out := map[string]bool{}
	seen := map[ssa.Value]bool{}
	var walk func(x ssa.Value, d int)
	walk = func(x ssa.Value, d int) {
		if x == nil || d > 30 || seen[x] {
			return
		}
		seen[x] = true
		switch y := x.(type) {
		case *ssa.Parameter, *ssa.Const, *ssa.Global, *ssa.Function, *ssa.Builtin:
			return
		case *ssa.FreeVar:
			if b := bindingOf(y); b != nil {
				walk(b, d+1)
			}
			return
		case *ssa.FieldAddr:
			if namedTypeName(y.X.Type()) == "ergo.Graph" {
				out[fieldName(y.X.Type(), y.Field)] = true
				return
			}
		case *ssa.Field:
			if namedTypeName(y.X.Type()) == "ergo.Graph" {
				out[fieldName(y.X.Type(), y.Field)] = true
				return
			}
		case *ssa.UnOp:
			if cell := cellOf(y.X); cell != nil {
				for _, st := range cellStores(cell) {
					walk(st.Val, d+1)
				}
				return
			}
		case *ssa.Alloc:
			for _, st := range cellStores(y) {
				walk(st.Val, d+1)
			}
			return
		}
		if in, ok := x.(ssa.Instruction); ok {
			for _, op := range in.Operands(nil) {
				if op != nil && *op != nil {
					walk(*op, d+1)
				}
			}
		}
	}
	walk(v, 0)
	return out
}
