package main

// Mapping of properties to the rules that decide their structural clauses (DESIGN.md section 5).
var propertyRules = map[string][]string{}

// propertyScope: one sentence per property saying which clauses are decided and which are not.
var propertyScope = map[string]string{}
