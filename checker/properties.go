package main

// Mapping of properties to the rules that decide their structural clauses (DESIGN.md section 5).
// A rule listed for several properties runs once per process; its obligations count for each of them.
var propertyRules = map[string][]string{
	"C01": {"LK1", "LK2", "LK3", "LK4", "LK5", "LK8", "LK6", "RD1", "RD2", "VD2", "VD3", "OU3", "WR3", "WR5", "ST1"},
	"C02": {"LK1", "LK2", "LK3", "LK4", "LK5", "LK8", "LK6", "WR1", "WR2", "WR3", "WR5", "DT4", "VD1", "ST1"},
	"C03": {"DT8", "WR1", "WR2", "WR3", "WR4", "WR5", "WR6", "WR7", "LK1", "LK3"},
	"C04": {"WR3", "LK5", "LK8", "WR1", "VD1"},
	"C05": {"DT5", "DT4", "DT6", "WR1", "LK2", "LK4", "OU4", "DT7"},
	"C06": {"VD2", "VD3", "VD4", "VD1", "VD11", "VD12", "VD14", "DT5", "LK4", "LK8"},
	"C07": {"VD5", "VD16", "VD6", "DT7", "LK2", "LK3", "LK4", "LK5", "LK8", "VD1", "VD13", "VD15"},
	"C08": {"RD1", "RD2", "RD4", "RD5", "VD6", "WR5"},
	"C09": {"VD7", "RD4", "VD6", "VD8", "VD10", "LK4", "DT2", "DT5", "DT7", "WR1", "WR2", "WR4"},
	"C10": {"VD1", "LK5", "LK8", "WR1", "WR3", "WR5", "WR7", "VD11", "VD12", "VD14"},
	"C11": {"VD12", "VD13", "VD15", "VD1", "VD5", "VD10", "LK2", "LK3", "LK4", "LK5", "LK8", "WR1", "WR2", "OU3", "OU4"},
	"C12": {"DT8", "DT1", "DT2", "DT3", "DT4", "DT6", "WR2", "WR6", "LK6", "DT7", "OU11"},
	"C13": {"LK7", "WR1", "WR3", "WR6", "DT2"},
	"C14": {"VD8", "VD7", "VD13", "DT5", "DT7"},
	"C15": {"RD3", "RD2", "VD5", "VD16", "VD13", "VD8"},
	"C16": {"OU1", "OU2", "OU3", "WR5", "VD1", "VD10", "VD11"},
	"C17": {"OU4", "OU10", "WR6", "VD12", "VD15", "DT4", "DT6", "DT5", "VD13"},
	"C18": {"ST1", "ST2", "ST3", "ST4", "LK1", "LK2", "WR1", "WR2"},
	"C19": {"RD5", "OU5", "OU6", "OU7", "OU8", "OU9", "OU11", "RD4", "VD8", "DT1"},
	"C20": {"OU12", "VD9", "VD1", "ST2", "DT4", "DT6", "DT5", "LK4", "WR5", "WR7"},
}

// propertyScope: which clauses are decided and which are not (repeated in MANIFEST level_note).
var propertyScope = map[string]string{
	"C01": "Decided: the claim's read-select-append runs inside one exclusive non-blocking flock section on the store's lock file, re-reading the log after acquisition, with no asynchronous effect; selection is element 0 of the oldest-first tasks-only ready list; the emitted pair is claim(agent)+state(doing) for the chosen id and the reply carries the same values; commit errors propagate. Not decided: flock semantics of the OS/filesystem; the full readiness truth table (C08).",
	"C02": "Decided: every log mutation is reachable only under the exclusive fail-fast lock with the log re-read inside; one commit per command; no truncating or unlocked writer; history only grows; storage errors propagate; no failure after a commit. Not decided: equivalence to a serial order for arbitrary command multisets beyond what these clauses imply for single-commit commands.",
	"C03": "Decided: rewrite = truncated temp + checked flush + rename (never in place); append inspects the tail and rewrites a torn one; the reader tolerates an unterminated final line based on the scanned bytes only; missing lock file recreated non-destructively. Not decided: enumeration of byte offsets; power loss; ENOSPC mid-rename.",
	"C04": "Decided: one write(2) per commit on the append path (no loop, no buffered writer); one commit per command; plan/compact commit by rename. Not decided: atomicity of a single large write(2) against SIGKILL at page granularity (a torn line is C03's business).",
	"C05": "Decided: every observable field is read by compaction; payload literals complete; only live ids emitted; update events emitted whenever current differs from created; claim before state; results re-emitted from the end; compaction's commit is the atomic replace under the lock. Not decided: equality of the round trip for all histories (timestamps, idempotence) — value level.",
	"C06": "Decided: every state event is dominated by the transition and claim-invariant validators on the recorded value and then recorded; claim/unclaim emissions are followed or preceded by the invariant check on every feasible success path and confined to non-epics; the five claim/state tables agree with the property's sets; no failure after commit; compaction re-emits state and claim so that the rewritten log replays to the same (state, claimant) pairs. Not decided: that the 6x6 table is the intended one beyond the documented rows.",
	"C07": "Decided: every link emission is dominated by existence, self, kind and cycle checks on the emitted ids against the graph loaded in the same lock section, the in-memory graph is extended per accepted edge; replay guards tombstoned ids; plan edges are between ids minted in the callback; the cycle search never answers false from inside its loop and never reads mutable item state. Not decided: full correctness of the reachability search (that every path is explored); that unlink removes exactly one edge (value level).",
	"C08": "Decided: the structure of isReady/isBlocked/isEpicComplete/areEpicDepsComplete (every return's dominating conditions against the definition), the satisfied-state sets of all four siblings, the claim's selection (kind, filter, element 0, oldest-first total comparator). Not decided: the truth table over all graphs as values.",
	"C09": "Decided: eligibility sets and counters of the prune policy, commit behind apply, tombstones = reported plan, replay's tombstone guards and unconditional application, id generator consults live ids and tombstones, dry run is pure, compaction emits only live ids. Not decided: every later command sequence beyond these guards.",
	"C10": "Decided: no error return after a commit inside any lock section; no error exit after a committing call in any command (other than reply I/O); one commit per command; every consumed update key is recorded; strict parse and validation before the first commit. Not decided: failures of the reply write itself (EPIPE) — inherent.",
	"C11": "Decided: strict decode (unknown keys, single value), validation before commit, one epic + one todo task per entry inside that epic with verbatim text, edges guarded by self/cycle checks, reply ids = committed ids, single atomic prefix-preserving commit. Not decided: the validation logic for all DAG shapes and Unicode title equality.",
	"C12": "Decided: map-iteration order never reaches output/event order unsorted; read commands reach no file mutation; located parse errors; emitted event types = replayed types and all payload fields replayed; history only grows; no exit/panic in the library. Not decided: totality over arbitrary byte strings (no panic/hang) — value level.",
	"C13": "Decided: list/show cannot reach the lock; rewrites are temp+rename; a command's lines appear with one write; the reader is one sequential scan tolerating a torn tail from the scanned bytes. Not decided: the full reader-start x writer-step schedule space.",
	"C14": "Decided: every recorded epic reference is dominated by a live-epic check in the same lock section (or provably absent); epics are pruned only when childless. Not decided: hand-merged logs that carry dangling references.",
	"C15": "Decided: whether the cycle guard can see the effective waits-for relation at all (its read-set) and whether epic moves / creation in an epic are guarded; the cycle search does not depend on mutable item state (a reopened task cannot close a cycle after the fact). Not decided: acyclicity of the effective relation after a hypothetical repair.",
	"C16": "Decided: under --json no text reaches stdout, at most one JSON value is written per path and no success return skips it; errors reach exitErr, stderr and a non-zero exit; replies carry the committed values; ids come from the collision-checked generator. Not decided: equality of every reply field with the next read for all states.",
	"C17": "Decided: titles and bodies flow from the input to the recorded events through loads/stores/map entries only (TrimSpace only on the documented title paths); strict decode; title/body payload fields replayed and re-emitted by compaction. Not decided: encoding/json and bufio behaviour on all Unicode (trusted).",
	"C18": "Decided: one chooser for the log file with the documented preference, used by every command including init; absolute start of the upward search and absolute repoDir; every caller of the upward search derives its start the same way; lock file recreated non-destructively; lock and log belong to the same directory. Not decided: nested-project layouts beyond the walk's structure.",
	"C19": "Decided: renderers never byte-slice strings at non-rune offsets; the documented empty-state sentences are what is printed; tasks are only ever filed under live epics (so none is orphaned); rows are shortened only behind a display-width comparison and id-column padding never derives from a truncation budget. Not decided: the remaining width arithmetic, glyph placement, summary counts — numeric.",
	"C20": "Decided: the result emission is dominated by the task/summary/path validators, stores the cleaned path and the evidence of that same file; the path validator's accepting return is dominated by every confinement check incl. regular-file; repoDir absolute; all result fields replayed and re-emitted in agreeing order. Not decided: symlink resolution; ordering over all later histories as values.",
}
