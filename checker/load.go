package main

// Loading /repo's current working tree: go/packages (type-checked syntax), go/ssa,
// and the per-run indexes every rule uses. Nothing is cached between runs.

import (
	"fmt"
	"go/token"
	"go/types"
	"os"
	"sort"
	"strings"

	"golang.org/x/tools/go/packages"
	"golang.org/x/tools/go/ssa"
	"golang.org/x/tools/go/ssa/ssautil"
)

const modPath = "github.com/sandover/ergo"
const ergoPath = modPath + "/internal/ergo"
const mainPath = modPath + "/cmd/ergo"

// BuildConfig is one configuration the tree is analysed under.
type BuildConfig struct {
	Name string
	Env  []string // extra environment (GOOS, GOARCH, CGO_ENABLED)
	Tags string
}

var quickConfigs = []BuildConfig{{Name: "linux/amd64"}}

var thoroughConfigs = []BuildConfig{
	{Name: "linux/amd64"},
	{Name: "linux/arm64", Env: []string{"GOOS=linux", "GOARCH=arm64", "CGO_ENABLED=0"}},
	{Name: "darwin/amd64", Env: []string{"GOOS=darwin", "GOARCH=amd64", "CGO_ENABLED=0"}},
	{Name: "darwin/arm64", Env: []string{"GOOS=darwin", "GOARCH=arm64", "CGO_ENABLED=0"}},
	{Name: "linux/386", Env: []string{"GOOS=linux", "GOARCH=386", "CGO_ENABLED=0"}},
	{Name: "linux/amd64+verif", Tags: "verif"},
}

// Prog is the analysed program plus indexes.
type Prog struct {
	Repo   string
	Config BuildConfig
	Fset   *token.FileSet
	Pkgs   []*packages.Package
	SSA    *ssa.Program
	Ergo   *ssa.Package // internal/ergo
	Main   *ssa.Package // cmd/ergo
	Fns    []*ssa.Function
	byName map[string]*ssa.Function
	// closures[f] = anonymous functions created (transitively) inside f, in source order
	callers      map[*ssa.Function][]callSite // static call sites per module callee
	diagMemo     map[*ssa.Function]bool       // diagnostic (stderr-only) functions, see diagnosticFns
	pureMemo     map[*ssa.Function]bool       // effect-free functions, see pureFns
	mentioned    map[*ssa.Function]bool       // functions that occur as an operand anywhere (lazily filled)
	nCalls       int
	canonEnv     env // parameter substitution in effect while canonE runs
	factMemo     map[*ssa.Function][]branchFact
	RoleNotes    []string
	knownMethods map[string]bool
	opaque       map[*ssa.Function]bool // domain anchors: never expanded into facts when called
	roleOf       map[*ssa.Function]string
	// boundRecv: receiver parameter of a module method that is only ever used as one bound method value
	// (withLock(..., claim.commit)) -> the value it is bound to at that site
	boundRecv   map[*ssa.Parameter]ssa.Value
	boundMethod map[*ssa.Function]*ssa.Function // synthetic $bound wrapper -> method
	// implOf: thin forwarding wrapper (func hasCycle(g, a, b) bool { return g.hasCycle(a, b) }) -> the function it forwards to
	defaultOf    map[*ssa.Function]*ssa.Function
	constSets    map[*ssa.Global][]string
	constSetsBad map[*ssa.Global]bool
	nilViewOf    map[*ssa.Function]*ssa.Function // predicate -> the function whose non-nil result it tests
	inlinedInto  map[string]string               // role name -> the caller it was merged into
	fwdOf        map[*ssa.Function]*fwdInfo
	roleNames    map[string]bool
	implOf       map[*ssa.Function]*ssa.Function
}

type callSite struct {
	Fn   *ssa.Function
	Call ssa.CallInstruction
}

type loadError struct{ msg string }

func (e *loadError) Error() string { return e.msg }

func loadProgram(repo string, cfg BuildConfig) (*Prog, error) {
	p, err := loadProgramRaw(repo, cfg)
	if err != nil {
		return nil, err
	}
	if rolesFile != "" {
		p.RoleNotes = resolveRenamedRoles(p, rolesFile)
	}
	return p, nil
}

func loadProgramRaw(repo string, cfg BuildConfig) (*Prog, error) {
	if gw := os.Getenv("GOWORK"); gw != "" && gw != "off" {
		return nil, &loadError{"GOWORK is set (" + gw + "); refusing to analyse a workspace-altered build"}
	}
	env := append(os.Environ(), "GOFLAGS=-mod=readonly", "GOWORK=off")
	env = append(env, cfg.Env...)
	pc := &packages.Config{
		Mode:  packages.LoadAllSyntax,
		Dir:   repo,
		Tests: false,
		Env:   env,
	}
	if cfg.Tags != "" {
		pc.BuildFlags = []string{"-tags=" + cfg.Tags}
	}
	pkgs, err := packages.Load(pc, "./...")
	if err != nil {
		return nil, &loadError{"go/packages: " + err.Error()}
	}
	if len(pkgs) == 0 {
		return nil, &loadError{"go/packages returned zero packages"}
	}
	var errs []string
	packages.Visit(pkgs, nil, func(p *packages.Package) {
		for _, e := range p.Errors {
			errs = append(errs, e.Error())
		}
	})
	if len(errs) > 0 {
		sort.Strings(errs)
		if len(errs) > 8 {
			errs = errs[:8]
		}
		return nil, &loadError{"type/parse errors: " + strings.Join(errs, "; ")}
	}
	prog, _ := ssautil.AllPackages(pkgs, ssa.InstantiateGenerics)
	prog.Build()
	p := &Prog{Repo: repo, Config: cfg, Fset: pkgs[0].Fset, Pkgs: pkgs, SSA: prog,
		byName: map[string]*ssa.Function{}, roleOf: map[*ssa.Function]string{}, callers: map[*ssa.Function][]callSite{}}
	for _, sp := range prog.AllPackages() {
		switch sp.Pkg.Path() {
		case ergoPath:
			p.Ergo = sp
		case mainPath:
			p.Main = sp
		}
	}
	if p.Ergo == nil || p.Main == nil {
		return nil, &loadError{"packages internal/ergo and cmd/ergo not both found"}
	}
	for f := range ssautil.AllFunctions(prog) {
		if p.InModule(f) && f.Blocks != nil && (f.Synthetic == "" || strings.HasPrefix(f.Synthetic, "range-over-func")) {
			// (the body of a range-over-func loop is a synthetic yield function: it is code of the module like any closure)
			p.Fns = append(p.Fns, f)
		}
	}
	// package initialisers are synthetic but carry var initialisers (validStates, cobra commands)
	for _, sp := range []*ssa.Package{p.Ergo, p.Main} {
		if init := sp.Func("init"); init != nil && init.Blocks != nil {
			p.Fns = append(p.Fns, init)
		}
	}
	sort.Slice(p.Fns, func(i, j int) bool {
		a, b := p.Fns[i], p.Fns[j]
		if a.Pos() != b.Pos() {
			pa, pb := p.Fset.Position(a.Pos()), p.Fset.Position(b.Pos())
			if pa.Filename != pb.Filename {
				return pa.Filename < pb.Filename
			}
			if pa.Offset != pb.Offset {
				return pa.Offset < pb.Offset
			}
		}
		return a.String() < b.String()
	})
	for _, f := range p.Fns {
		p.byName[p.Name(f)] = f
	}
	for _, f := range p.Fns {
		for _, b := range f.Blocks {
			for _, in := range b.Instrs {
				if c, ok := in.(ssa.CallInstruction); ok {
					p.nCalls++
					if cal := c.Common().StaticCallee(); cal != nil && p.InModule(cal) {
						p.callers[cal] = append(p.callers[cal], callSite{f, c})
					}
				}
			}
		}
	}
	// calls through a func-typed parameter: G(..., build) where G, or a closure of G, calls `build(...)`. Each static
	// call site of G that passes a module function or closure makes the call inside G a call site of that function
	// (template-method helpers: the locked step shared by several commands with the per-command part handed in).
	for _, g := range p.Fns {
		if g.Blocks == nil || !p.InModule(g) {
			continue
		}
		for idx, prm := range g.Params {
			if _, ok := prm.Type().Underlying().(*types.Signature); !ok {
				continue
			}
			sites := dynCallsOfParam(g, prm)
			if len(sites) == 0 {
				continue
			}
			for _, cs := range p.callers[g] {
				args := cs.Call.Common().Args
				if idx >= len(args) || cs.Call.Common().StaticCallee() != g {
					continue
				}
				var target *ssa.Function
				switch a := args[idx].(type) {
				case *ssa.MakeClosure:
					target, _ = a.Fn.(*ssa.Function)
				case *ssa.Function:
					target = a
				}
				if target == nil || !p.InModule(target) || target.Blocks == nil {
					continue
				}
				p.callers[target] = append(p.callers[target], sites...)
			}
		}
	}
	// thin forwarding wrappers
	p.implOf = map[*ssa.Function]*ssa.Function{}
	for _, f := range p.Fns {
		if impl := thinWrapperTarget(p, f); impl != nil {
			p.implOf[f] = impl
		}
	}
	// constructing wrappers (isReady(t, g) = newEvaluator(g).isReady(t)) and memo wrappers (cache lookup around F(k))
	for _, f := range p.Fns {
		if p.implOf[f] == nil {
			if impl := constructingWrapperTarget(p, f); impl != nil {
				p.implOf[f] = impl
			} else if impl := memoWrapperTarget(p, f); impl != nil {
				p.implOf[f] = impl
			}
		}
	}
	// chains (wrapper -> method -> memo -> implementation) collapse to their end
	for f := range p.implOf {
		seenW := map[*ssa.Function]bool{f: true}
		for t := p.implOf[f]; p.implOf[t] != nil && !seenW[p.implOf[t]]; t = p.implOf[f] {
			seenW[t] = true
			p.implOf[f] = p.implOf[t]
		}
	}
	// nil-test views: a predicate kept as `return G(params...) != nil` after G started to return what it found
	p.nilViewOf = map[*ssa.Function]*ssa.Function{}
	for _, f := range p.Fns {
		if g := nilViewTarget(p, f); g != nil {
			p.nilViewOf[f] = g
		}
	}
	// defaulting wrappers: the old name kept as `return g(params..., <constants>)` after the implementation gained
	// a parameter; only the role lookup (ErgoFn) follows these, call sites keep their own callee
	p.defaultOf = map[*ssa.Function]*ssa.Function{}
	for _, f := range p.Fns {
		if p.implOf[f] == nil {
			if impl := defaultingWrapperTarget(p, f); impl != nil {
				p.defaultOf[f] = impl
			}
		}
	}
	// field-forwarding methods of a store object: l.read() = readEvents(l.path)
	p.fwdOf = map[*ssa.Function]*fwdInfo{}
	for _, f := range p.Fns {
		if p.implOf[f] == nil && p.defaultOf[f] == nil {
			if fi := fieldForwarder(p, f); fi != nil {
				p.fwdOf[f] = fi
			}
		}
	}
	for w, impl := range p.implOf {
		// calls through the wrapper count as calls of the implementation
		for _, cs := range p.callers[w] {
			p.callers[impl] = append(p.callers[impl], cs)
		}
	}
	// bound method values
	p.boundRecv, p.boundMethod = map[*ssa.Parameter]ssa.Value{}, map[*ssa.Function]*ssa.Function{}
	sitesOf := map[*ssa.Function][]*ssa.MakeClosure{}
	for _, f := range p.Fns {
		for _, b := range f.Blocks {
			for _, in := range b.Instrs {
				mc, ok := in.(*ssa.MakeClosure)
				if !ok {
					continue
				}
				w, _ := mc.Fn.(*ssa.Function)
				if w == nil || w.Synthetic == "" || !strings.HasSuffix(w.Name(), "$bound") || len(mc.Bindings) != 1 {
					continue
				}
				var m *ssa.Function
				for _, wb := range w.Blocks {
					for _, wi := range wb.Instrs {
						if c, ok := wi.(ssa.CallInstruction); ok {
							if cal := c.Common().StaticCallee(); cal != nil && p.InModule(cal) {
								m = cal
							}
						}
					}
				}
				if m != nil && len(m.Params) > 0 {
					p.boundMethod[w] = m
					sitesOf[m] = append(sitesOf[m], mc)
				}
			}
		}
	}
	for m, sites := range sitesOf {
		if len(sites) == 1 && len(p.callers[m]) == 0 {
			p.boundRecv[m.Params[0]] = sites[0].Bindings[0]
		}
	}
	return p, nil
}

// InModule reports whether f (or the function it is nested in) belongs to sandover/ergo.
func (p *Prog) InModule(f *ssa.Function) bool {
	for f != nil {
		if f.Pkg != nil {
			return strings.HasPrefix(f.Pkg.Pkg.Path(), modPath)
		}
		if f.Parent() == nil {
			// methods of instantiated generics etc.
			if o := f.Object(); o != nil && o.Pkg() != nil {
				return strings.HasPrefix(o.Pkg().Path(), modPath)
			}
			return false
		}
		f = f.Parent()
	}
	return false
}

// Name gives the stable short name used in keys: "ergo.withLock", "ergo.RunPlan$1",
// "ergo.(*ValidationError).GoError", "main.exitErr".
func (p *Prog) Name(f *ssa.Function) string {
	if f == nil {
		return "<nil>"
	}
	s := f.String()
	if role, ok := p.roleOf[Outermost(f)]; ok {
		// renamed function (or function turned method) resolved by fingerprint: keys keep the recorded role name
		s = ergoPath + "." + role + strings.TrimPrefix(s, Outermost(f).String())
	}
	s = strings.ReplaceAll(s, ergoPath+".", "ergo.")
	s = strings.ReplaceAll(s, mainPath+".", "main.")
	s = strings.ReplaceAll(s, "command-line-arguments.", "main.")
	return s
}

// Fn looks a module function up by short name ("ergo.withLock"); nil if absent.
func (p *Prog) Fn(name string) *ssa.Function { return p.byName[name] }

// FnImpl: the function of that full name, or - when the name survives only as a thin or defaulting wrapper
// ((*PlanInput).Validate() = p.validate(defaultLimit)) - the implementation behind it.
func (p *Prog) FnImpl(name string) *ssa.Function {
	f := p.byName[name]
	if f == nil {
		return nil
	}
	if impl := p.implOf[f]; impl != nil {
		return impl
	}
	if impl := p.defaultOf[f]; impl != nil {
		return impl
	}
	return f
}

// ErgoFn looks up a package-level function of internal/ergo by identifier.
func (p *Prog) ErgoFn(ident string) *ssa.Function {
	f := p.byName["ergo."+ident]
	if f != nil {
		if impl := p.implOf[f]; impl != nil {
			// the name is a thin forwarding wrapper: the role is played by what it forwards to (keys keep the role name)
			if _, named := p.roleOf[impl]; !named {
				p.roleOf[impl] = ident
			}
			return impl
		}
		if impl := p.defaultOf[f]; impl != nil && impl.Pkg == p.Ergo && !p.roleNames[impl.Name()] {
			// (an implementation that is a recorded role of its own - runPrune under RunPrunePlan - is a different role)
			if _, named := p.roleOf[impl]; !named {
				p.roleOf[impl] = ident
			}
			return impl
		}
	}
	return f
}

// Pos renders a position relative to the repository root.
func (p *Prog) Pos(pos token.Pos) string {
	if !pos.IsValid() {
		return "-"
	}
	q := p.Fset.Position(pos)
	fn := strings.TrimPrefix(q.Filename, p.Repo+"/")
	return fmt.Sprintf("%s:%d", fn, q.Line)
}

// FnPos is the position of the function's declaration.
func (p *Prog) FnPos(f *ssa.Function) string { return p.Pos(f.Pos()) }

// Outermost returns the named function a closure is (transitively) defined in.
func Outermost(f *ssa.Function) *ssa.Function {
	for f.Parent() != nil {
		f = f.Parent()
	}
	return f
}

// Closures returns the anonymous functions nested directly or indirectly in f.
func Closures(f *ssa.Function) []*ssa.Function {
	var out []*ssa.Function
	var walk func(g *ssa.Function)
	walk = func(g *ssa.Function) {
		for _, a := range g.AnonFuncs {
			out = append(out, a)
			walk(a)
		}
	}
	walk(f)
	return out
}

// calleeFullName names the static callee of a call ("os.OpenFile", "(*os.File).Write",
// "invoke io.Writer.Write", "builtin append", "dynamic").
func calleeFullName(c *ssa.CallCommon) string {
	if c.IsInvoke() {
		return "invoke " + c.Method.FullName()
	}
	if f := c.StaticCallee(); f != nil {
		if o := f.Object(); o != nil {
			if fn, ok := o.(*types.Func); ok {
				return fn.FullName()
			}
		}
		if f.Origin() != nil {
			if o := f.Origin().Object(); o != nil {
				if fn, ok := o.(*types.Func); ok {
					return fn.FullName()
				}
			}
		}
		return f.String()
	}
	if b, ok := c.Value.(*ssa.Builtin); ok {
		return "builtin " + b.Name()
	}
	return "dynamic"
}

// thinWrapperTarget: f's whole body is `return g(params...)` with exactly its own parameters as arguments (in any
// order, each once): f is another name for g.
func thinWrapperTarget(p *Prog, f *ssa.Function) *ssa.Function {
	if f.Parent() != nil || len(f.Blocks) != 1 || len(f.Params) == 0 {
		return nil
	}
	var call *ssa.Call
	for _, in := range f.Blocks[0].Instrs {
		switch x := in.(type) {
		case *ssa.Call:
			if call != nil {
				return nil
			}
			call = x
		case *ssa.Return, *ssa.DebugRef, *ssa.Extract:
		default:
			return nil
		}
	}
	if call == nil {
		return nil
	}
	g := call.Call.StaticCallee()
	if g == nil || g == f || !p.InModule(g) || g.Blocks == nil || len(call.Call.Args) != len(f.Params) {
		return nil
	}
	// each parameter is handed on exactly once; a function turned into a method may move its receiver to the front, but a
	// wrapper that exchanges two parameters of the same type (hasCycle(g, to, from)) is not an alias
	used := map[*ssa.Parameter]bool{}
	var moved []*ssa.Parameter
	for i, a := range call.Call.Args {
		prm, ok := a.(*ssa.Parameter)
		if !ok || prm.Parent() != f || used[prm] {
			return nil
		}
		used[prm] = true
		if prm != f.Params[i] {
			moved = append(moved, prm)
		}
	}
	for i := range moved {
		for j := i + 1; j < len(moved); j++ {
			if types.Identical(moved[i].Type(), moved[j].Type()) {
				return nil
			}
		}
	}
	// results handed back unchanged
	ret, ok := f.Blocks[0].Instrs[len(f.Blocks[0].Instrs)-1].(*ssa.Return)
	if !ok {
		return nil
	}
	exact := true
	for i, r := range ret.Results {
		if r == ssa.Value(call) {
			continue
		}
		if ex, ok := r.(*ssa.Extract); ok && ex.Tuple == ssa.Value(call) && ex.Index == i {
			continue
		}
		exact = false
	}
	if exact {
		return g
	}
	// a projection: the old name kept after the implementation gained a result (readEvents(path) = events, err of
	// readEventsInfo(path) = events, tornTail, err): the results handed back are results of the call, in their order, the
	// last one (the error) included
	last := -1
	gres := g.Signature.Results().Len()
	for _, r := range ret.Results {
		ex, ok := r.(*ssa.Extract)
		if !ok || ex.Tuple != ssa.Value(call) || ex.Index <= last {
			return nil
		}
		last = ex.Index
	}
	if len(ret.Results) == 0 || last != gres-1 {
		return nil
	}
	return g
}

// defaultingWrapperTarget: f's whole body is `return g(a1..an)` where its own parameters appear in their own order, each
// once, and every other argument is a constant or a zero value: f is g with defaults filled in.
func defaultingWrapperTarget(p *Prog, f *ssa.Function) *ssa.Function {
	if f.Parent() != nil || len(f.Blocks) != 1 {
		return nil
	}
	var call *ssa.Call
	for _, in := range f.Blocks[0].Instrs {
		switch x := in.(type) {
		case *ssa.Call:
			if call != nil {
				return nil
			}
			call = x
		case *ssa.Return, *ssa.DebugRef, *ssa.Extract:
		case *ssa.Alloc, *ssa.UnOp:
			// the zero value of a struct type (time.Time{}) is a load of a fresh local
		default:
			return nil
		}
	}
	if call == nil {
		return nil
	}
	g := call.Call.StaticCallee()
	if g == nil || g == f || !p.InModule(g) || g.Blocks == nil || g.Parent() != nil || len(call.Call.Args) <= len(f.Params) {
		return nil
	}
	next := 0
	for _, a := range call.Call.Args {
		switch x := a.(type) {
		case *ssa.Parameter:
			if next >= len(f.Params) || x != f.Params[next] {
				return nil
			}
			next++
		case *ssa.Const:
		case *ssa.UnOp:
			if _, isGlobal := x.X.(*ssa.Global); isGlobal && x.Op == token.MUL {
				continue // a package-level default (defaultBodyLimit)
			}
			al, ok := x.X.(*ssa.Alloc)
			if !ok || x.Op != token.MUL {
				return nil
			}
			for _, r := range *al.Referrers() {
				if r != ssa.Instruction(x) {
					if _, dbg := r.(*ssa.DebugRef); !dbg {
						return nil
					}
				}
			}
		default:
			return nil
		}
	}
	if next != len(f.Params) {
		return nil
	}
	ret, ok := f.Blocks[0].Instrs[len(f.Blocks[0].Instrs)-1].(*ssa.Return)
	if !ok {
		return nil
	}
	for i, r := range ret.Results {
		if r == ssa.Value(call) {
			continue
		}
		if ex, ok := r.(*ssa.Extract); ok && ex.Tuple == ssa.Value(call) && ex.Index == i {
			continue
		}
		return nil
	}
	return g
}

// constructingWrapperTarget: f's whole body is `return Ctor(p...).Method(q...)` where Ctor is a module constructor (its
// result is the receiver), and every argument of both calls is one of f's own parameters, each used once: f is the
// method evaluated on a fresh object built from its parameters.
func constructingWrapperTarget(p *Prog, f *ssa.Function) *ssa.Function {
	if f.Parent() != nil || len(f.Blocks) != 1 || len(f.Params) == 0 {
		return nil
	}
	var calls []*ssa.Call
	for _, in := range f.Blocks[0].Instrs {
		switch x := in.(type) {
		case *ssa.Call:
			calls = append(calls, x)
		case *ssa.Return, *ssa.DebugRef, *ssa.Extract:
		default:
			return nil
		}
	}
	if len(calls) != 2 {
		return nil
	}
	ctor, meth := calls[0], calls[1]
	cf, mf := ctor.Call.StaticCallee(), meth.Call.StaticCallee()
	if cf == nil || mf == nil || !p.InModule(cf) || !p.InModule(mf) || cf.Blocks == nil || mf.Blocks == nil || mf == f || mf.Signature.Recv() == nil {
		return nil
	}
	if len(meth.Call.Args) == 0 || meth.Call.Args[0] != ssa.Value(ctor) {
		return nil
	}
	if _, isPtr := cf.Signature.Results().At(0).Type().Underlying().(*types.Pointer); cf.Signature.Results().Len() != 1 || !isPtr {
		return nil
	}
	used := map[*ssa.Parameter]bool{}
	for _, a := range append(append([]ssa.Value{}, ctor.Call.Args...), meth.Call.Args[1:]...) {
		prm, ok := a.(*ssa.Parameter)
		if !ok || prm.Parent() != f || used[prm] {
			return nil
		}
		used[prm] = true
	}
	ret, ok := f.Blocks[0].Instrs[len(f.Blocks[0].Instrs)-1].(*ssa.Return)
	if !ok {
		return nil
	}
	for i, r := range ret.Results {
		if r == ssa.Value(meth) {
			continue
		}
		if ex, ok := r.(*ssa.Extract); ok && ex.Tuple == ssa.Value(meth) && ex.Index == i {
			continue
		}
		return nil
	}
	return mf
}

// memoWrapperTarget: f is `if v, ok := cache[k]; ok { return v }; v := F(k); cache[k] = v; return v` with cache a map
// field of the receiver that no other function touches: f is F remembered, i.e. F for every purpose of the rules.
func memoWrapperTarget(p *Prog, f *ssa.Function) *ssa.Function {
	if f.Parent() != nil || len(f.Blocks) != 3 || f.Signature.Recv() == nil || f.Signature.Results().Len() != 1 {
		return nil
	}
	var lk *ssa.Lookup
	var mu *ssa.MapUpdate
	var call *ssa.Call
	for _, b := range f.Blocks {
		for _, in := range b.Instrs {
			switch x := in.(type) {
			case *ssa.Lookup:
				if lk != nil || !x.CommaOk {
					return nil
				}
				lk = x
			case *ssa.MapUpdate:
				if mu != nil {
					return nil
				}
				mu = x
			case *ssa.Call:
				if call != nil {
					return nil
				}
				call = x
			case *ssa.FieldAddr, *ssa.UnOp, *ssa.Extract, *ssa.If, *ssa.Return, *ssa.DebugRef, *ssa.Jump:
			default:
				return nil
			}
		}
	}
	if lk == nil || mu == nil || call == nil {
		return nil
	}
	g := call.Call.StaticCallee()
	if g == nil || g == f || !p.InModule(g) || g.Blocks == nil {
		return nil
	}
	// same cache (a field of the receiver), same key (a parameter), the computed value is what is stored and returned
	cacheField := func(v ssa.Value) (*ssa.Parameter, int) {
		u, ok := v.(*ssa.UnOp)
		if !ok {
			return nil, -1
		}
		fa, ok := u.X.(*ssa.FieldAddr)
		if !ok {
			return nil, -1
		}
		prm, ok := fa.X.(*ssa.Parameter)
		if !ok || prm != f.Params[0] {
			return nil, -1
		}
		return prm, fa.Field
	}
	r1, f1 := cacheField(lk.X)
	r2, f2 := cacheField(mu.Map)
	if r1 == nil || r2 == nil || f1 != f2 {
		return nil
	}
	key, ok := lk.Index.(*ssa.Parameter)
	if !ok || key.Parent() != f || mu.Key != ssa.Value(key) || mu.Value != ssa.Value(call) {
		return nil
	}
	keyPassed := false
	for _, a := range call.Call.Args {
		if a == ssa.Value(key) {
			keyPassed = true
		} else if prm, ok := a.(*ssa.Parameter); !ok || prm.Parent() != f {
			return nil
		}
	}
	if !keyPassed {
		return nil
	}
	nRet := 0
	for _, b := range f.Blocks {
		ret, ok := b.Instrs[len(b.Instrs)-1].(*ssa.Return)
		if !ok {
			continue
		}
		nRet++
		v := ret.Results[0]
		if v == ssa.Value(call) {
			continue
		}
		if ex, ok := v.(*ssa.Extract); ok && ex.Tuple == ssa.Value(lk) && ex.Index == 0 {
			continue
		}
		return nil
	}
	if nRet != 2 {
		return nil
	}
	// nobody else reads or writes the cache
	st := f.Params[0].Type()
	for _, other := range p.Fns {
		if other == f {
			continue
		}
		bad := false
		for _, b := range other.Blocks {
			for _, in := range b.Instrs {
				if fa, ok := in.(*ssa.FieldAddr); ok && fa.Field == f1 && types.Identical(fa.X.Type(), st) {
					// the constructor's initialisation (a store of a fresh map) is fine
					for _, r := range *fa.Referrers() {
						if s, ok := r.(*ssa.Store); ok && s.Addr == ssa.Value(fa) {
							if _, isMake := s.Val.(*ssa.MakeMap); isMake {
								continue
							}
						}
						bad = true
					}
				}
			}
		}
		if bad {
			return nil
		}
	}
	return g
}

// nilViewTarget: f's whole body is `return G(params in their order) != nil` (f is bool-valued): f(args) holds exactly when
// G(args) is not nil.
func nilViewTarget(p *Prog, f *ssa.Function) *ssa.Function {
	if f.Parent() != nil || len(f.Blocks) != 1 || len(f.Params) == 0 || f.Signature.Results().Len() != 1 || f.Signature.Results().At(0).Type().String() != "bool" {
		return nil
	}
	var call *ssa.Call
	var cmp *ssa.BinOp
	for _, in := range f.Blocks[0].Instrs {
		switch x := in.(type) {
		case *ssa.Call:
			if call != nil {
				return nil
			}
			call = x
		case *ssa.BinOp:
			if cmp != nil {
				return nil
			}
			cmp = x
		case *ssa.Return, *ssa.DebugRef:
		default:
			return nil
		}
	}
	if call == nil || cmp == nil || cmp.Op != token.NEQ {
		return nil
	}
	if !((cmp.X == ssa.Value(call) && isNilConst(cmp.Y)) || (cmp.Y == ssa.Value(call) && isNilConst(cmp.X))) {
		return nil
	}
	g := call.Call.StaticCallee()
	if g == nil || g == f || !p.InModule(g) || g.Blocks == nil || len(call.Call.Args) != len(f.Params) {
		return nil
	}
	for i, a := range call.Call.Args {
		if a != ssa.Value(f.Params[i]) {
			return nil
		}
	}
	ret, ok := f.Blocks[0].Instrs[len(f.Blocks[0].Instrs)-1].(*ssa.Return)
	if !ok || len(ret.Results) != 1 || ret.Results[0] != ssa.Value(cmp) {
		return nil
	}
	return g
}

// fwdInfo describes a forwarding method: its whole body is `return Target(a1..an)` where every argument is one of its
// own parameters or a field of one (the receiver): a call of the method is a call of Target with those arguments.
type fwdInfo struct {
	Target *ssa.Function
	Args   []fwdArg
}

// fwdArg: argument i of the forwarded call is parameter Param of the forwarder (Field < 0) or its field Field.
type fwdArg struct {
	Param int
	Field int
}

func fieldForwarder(p *Prog, f *ssa.Function) *fwdInfo {
	if f.Parent() != nil || len(f.Blocks) != 1 || len(f.Params) == 0 {
		return nil
	}
	var call *ssa.Call
	for _, in := range f.Blocks[0].Instrs {
		switch x := in.(type) {
		case *ssa.Call:
			if call != nil {
				return nil
			}
			call = x
		case *ssa.Return, *ssa.DebugRef, *ssa.Extract, *ssa.Alloc, *ssa.FieldAddr, *ssa.UnOp, *ssa.Field:
		case *ssa.Store:
			// the spill of a by-value receiver / parameter into its local copy
			if _, isPrm := x.Val.(*ssa.Parameter); !isPrm {
				return nil
			}
		default:
			return nil
		}
	}
	if call == nil {
		return nil
	}
	g := call.Call.StaticCallee()
	if g == nil || g == f || !p.InModule(g) || g.Blocks == nil || call.Call.IsInvoke() {
		return nil
	}
	fi := &fwdInfo{Target: g}
	anyField := false
	for _, a := range call.Call.Args {
		switch x := a.(type) {
		case *ssa.Parameter:
			fi.Args = append(fi.Args, fwdArg{paramIndex(x), -1})
		case *ssa.UnOp:
			fa, ok := x.X.(*ssa.FieldAddr)
			if !ok || x.Op != token.MUL {
				return nil
			}
			var prm *ssa.Parameter
			switch b := fa.X.(type) {
			case *ssa.Parameter:
				prm = b
			case *ssa.Alloc:
				if w, ok := plainCopyOf(b).(*ssa.Parameter); ok {
					prm = w
				}
			}
			if prm == nil || prm.Parent() != f {
				return nil
			}
			fi.Args = append(fi.Args, fwdArg{paramIndex(prm), fa.Field})
			anyField = true
		case *ssa.Field:
			prm, ok := x.X.(*ssa.Parameter)
			if !ok || prm.Parent() != f {
				return nil
			}
			fi.Args = append(fi.Args, fwdArg{paramIndex(prm), x.Field})
			anyField = true
		default:
			return nil
		}
	}
	if !anyField {
		return nil
	}
	ret, ok := f.Blocks[0].Instrs[len(f.Blocks[0].Instrs)-1].(*ssa.Return)
	if !ok {
		return nil
	}
	for i, r := range ret.Results {
		if r == ssa.Value(call) {
			continue
		}
		if ex, ok := r.(*ssa.Extract); ok && ex.Tuple == ssa.Value(call) && ex.Index == i {
			continue
		}
		return nil
	}
	return fi
}

// vArg is an argument seen through a forwarding method: the value V, or (Field >= 0) field Field of the struct V.
type vArg struct {
	V     ssa.Value
	Field int
}

// forwardedCall: when the callee of cc is a forwarding method, the function it forwards to and that call's arguments in
// terms of cc's own arguments.
func forwardedCall(cc *ssa.CallCommon) (*ssa.Function, []vArg) {
	if curProg == nil {
		return nil, nil
	}
	f := cc.StaticCallee()
	fi := curProg.fwdOf[f]
	if fi == nil {
		return nil, nil
	}
	var out []vArg
	for _, a := range fi.Args {
		if a.Param < 0 || a.Param >= len(cc.Args) {
			return nil, nil
		}
		out = append(out, vArg{cc.Args[a.Param], a.Field})
	}
	return fi.Target, out
}

// calleeOf is StaticCallee with thin forwarding wrappers resolved to their implementation.
func calleeOf(cc *ssa.CallCommon) *ssa.Function {
	f := cc.StaticCallee()
	if f != nil && curProg != nil {
		if impl := curProg.implOf[f]; impl != nil {
			return impl
		}
	}
	return f
}

// dynCallsOfParam: the calls, in g and in the closures g creates, whose callee value is g's func-typed parameter prm
// (directly, or through the cell the parameter was spilled into for capture - written exactly once).
func dynCallsOfParam(g *ssa.Function, prm *ssa.Parameter) []callSite {
	var out []callSite
	var cell *ssa.Alloc
	if refs := prm.Referrers(); refs != nil {
		for _, r := range *refs {
			if st, ok := r.(*ssa.Store); ok && st.Val == ssa.Value(prm) {
				if al, ok := st.Addr.(*ssa.Alloc); ok {
					n := 0
					for _, u := range *al.Referrers() {
						if s2, ok := u.(*ssa.Store); ok && s2.Addr == ssa.Value(al) {
							n++
						}
					}
					if n == 1 {
						cell = al
					}
				}
			}
		}
	}
	isPrm := func(f *ssa.Function, v ssa.Value, holder map[*ssa.FreeVar]bool) bool {
		if v == ssa.Value(prm) {
			return true
		}
		if u, ok := v.(*ssa.UnOp); ok && u.Op == token.MUL {
			if cell != nil && u.X == ssa.Value(cell) {
				return true
			}
			if fv, ok := u.X.(*ssa.FreeVar); ok && holder[fv] {
				return true
			}
		}
		if fv, ok := v.(*ssa.FreeVar); ok && holder[fv] {
			return true
		}
		return false
	}
	var scan func(f *ssa.Function, holder map[*ssa.FreeVar]bool, d int)
	scan = func(f *ssa.Function, holder map[*ssa.FreeVar]bool, d int) {
		if d > 3 {
			return
		}
		for _, b := range f.Blocks {
			for _, in := range b.Instrs {
				switch x := in.(type) {
				case ssa.CallInstruction:
					cc := x.Common()
					if cc.Method == nil && cc.StaticCallee() == nil && isPrm(f, cc.Value, holder) {
						out = append(out, callSite{f, x})
					}
				}
				if mc, ok := in.(*ssa.MakeClosure); ok {
					cf, _ := mc.Fn.(*ssa.Function)
					if cf == nil {
						continue
					}
					h := map[*ssa.FreeVar]bool{}
					for j, bnd := range mc.Bindings {
						if j >= len(cf.FreeVars) {
							break
						}
						if bnd == ssa.Value(prm) || cell != nil && bnd == ssa.Value(cell) {
							h[cf.FreeVars[j]] = true
						} else if fv, ok := bnd.(*ssa.FreeVar); ok && holder[fv] {
							h[cf.FreeVars[j]] = true
						}
					}
					if len(h) > 0 {
						scan(cf, h, d+1)
					}
				}
			}
		}
	}
	scan(g, nil, 0)
	return out
}
