package main

import (
	"fmt"
	"go/types"

	"golang.org/x/tools/go/ssa"
)

// ---------------------------------------------------------------- blank-run helpers (round 14)
//
// A blank-run helper is a module function func(int) string every result of which is "", strings.Repeat(<constant>, ...)
// or a slice of a constant run of ASCII blanks (`spaces(n)` slicing a package-level strings.Repeat(" ", 256)). Calls to it
// are padding exactly as calls to strings.Repeat are (OU9, OU11); slicing the constant run is not a rune-boundary risk
// (OU5); and the helper owes what strings.Repeat gives by definition: exactly the asked number of blanks.

// asciiRun: v is a string all of whose bytes are ASCII whatever its length: a constant, strings.Repeat of such a constant,
// or the load of a package-level variable the initialiser alone sets to one of those.
func (p *Prog) asciiRun(v ssa.Value) bool {
	v = strip(v)
	if s, ok := constString(v); ok {
		for i := 0; i < len(s); i++ {
			if s[i] >= 0x80 {
				return false
			}
		}
		return true
	}
	if call, ok := v.(*ssa.Call); ok && calleeFullName(call.Common()) == "strings.Repeat" {
		return p.asciiRun(call.Common().Args[0])
	}
	ld, ok := v.(*ssa.UnOp)
	if !ok {
		return false
	}
	g, ok := ld.X.(*ssa.Global)
	if !ok || g.Pkg == nil {
		return false
	}
	init := g.Pkg.Func("init")
	if init == nil {
		return false
	}
	var val ssa.Value
	n := 0
	for _, f := range p.Fns {
		for _, b := range f.Blocks {
			for _, in := range b.Instrs {
				if st, isSt := in.(*ssa.Store); isSt && st.Addr == ssa.Value(g) {
					if f != init {
						return false
					}
					n++
					val = st.Val
				}
			}
		}
	}
	if n != 1 {
		return false
	}
	if _, isLoad := strip(val).(*ssa.UnOp); isLoad {
		return false
	}
	return p.asciiRun(val)
}

// blankRunHelper: the count parameter of f when f is a blank-run helper, nil otherwise.
func (p *Prog) blankRunHelper(f *ssa.Function) *ssa.Parameter {
	if f == nil || f.Blocks == nil || f.Signature.Recv() != nil || len(f.Params) != 1 || f.Signature.Results().Len() != 1 {
		return nil
	}
	if b, ok := f.Params[0].Type().Underlying().(*types.Basic); !ok || b.Info()&types.IsInteger == 0 {
		return nil
	}
	if b, ok := f.Signature.Results().At(0).Type().Underlying().(*types.Basic); !ok || b.Info()&types.IsString == 0 {
		return nil
	}
	runs := 0
	for _, v := range p.blankRunResults(f) {
		switch x := v.(type) {
		case *ssa.Const:
			if s, ok := constString(x); !ok || s != "" {
				return nil
			}
		case *ssa.Call:
			if calleeFullName(x.Common()) != "strings.Repeat" || !p.asciiRun(x.Common().Args[0]) {
				return nil
			}
			runs++
		case *ssa.Slice:
			if !p.asciiRun(x.X) {
				return nil
			}
			runs++
		default:
			return nil
		}
	}
	if runs == 0 {
		return nil
	}
	return f.Params[0]
}

func (p *Prog) blankRunResults(f *ssa.Function) []ssa.Value {
	var out []ssa.Value
	seen := map[ssa.Value]bool{}
	var add func(v ssa.Value)
	add = func(v ssa.Value) {
		v = strip(v)
		if v == nil || seen[v] {
			return
		}
		seen[v] = true
		if phi, ok := v.(*ssa.Phi); ok {
			for _, e := range phi.Edges {
				add(e)
			}
			return
		}
		out = append(out, v)
	}
	for _, b := range f.Blocks {
		if r, ok := b.Instrs[len(b.Instrs)-1].(*ssa.Return); ok && len(r.Results) == 1 {
			add(returnedValue(r, 0))
		}
	}
	return out
}

// paddingCalls: the calls in f that produce a run of blanks - strings.Repeat and calls to blank-run helpers - with the
// count argument of each.
func (c *Ctx) paddingCalls(f *ssa.Function) (calls []ssa.CallInstruction, counts []ssa.Value) {
	for _, call := range callsIn(f) {
		if calleeFullName(call.Common()) == "strings.Repeat" {
			calls = append(calls, call)
			counts = append(counts, call.Common().Args[1])
			continue
		}
		if cal := calleeOf(call.Common()); cal != nil && cal.Pkg == c.Ergo && c.blankRunHelper(cal) != nil && len(call.Common().Args) == 1 {
			calls = append(calls, call)
			counts = append(counts, call.Common().Args[0])
		}
	}
	return
}

// blankRunExact: every blank-run helper hands back exactly the asked number of blanks: the count of its strings.Repeat, or
// the upper bound of its slice of the constant run (taken from offset 0), is the parameter itself - not a clamped copy
// (min(n, len(run))): a caller computing a gap of 300 columns on a wide terminal would get 256 and the id column of that
// row leaves its place.
func (c *Ctx) blankRunExact() {
	for _, f := range c.Fns {
		if f.Pkg != c.Ergo {
			continue
		}
		par := c.blankRunHelper(f)
		if par == nil {
			continue
		}
		k := 0
		for _, v := range c.blankRunResults(f) {
			var cnt, low ssa.Value
			switch x := v.(type) {
			case *ssa.Call:
				cnt = x.Common().Args[1]
			case *ssa.Slice:
				cnt, low = x.High, x.Low
			default:
				continue
			}
			k++
			exact := cnt != nil && strip(cnt) == ssa.Value(par)
			if low != nil {
				if kv, ok := constInt(low); !ok || kv != 0 {
					exact = false
				}
			}
			c.check(exact, c.Name(f), fmt.Sprintf("blank-run-exact#%d", k), c.Pos(v.Pos()), "the run handed back has exactly the asked length (the count is the parameter itself)",
				"this padding helper does not hand back the asked number of blanks (its count is "+c.canon(cnt)+", not the parameter): a gap wider than the helper's limit - a wide terminal, a short title - comes out short and the id column of that row leaves its place")
		}
	}
}
