package main

import (
	"fmt"
	"go/token"
	"go/types"
	"sort"
	"strings"

	"golang.org/x/tools/go/ssa"
)

// ---------------------------------------------------------------- blank-run helpers (round 14)
//
// A blank-run helper is a module function func(int) string every result of which is "", strings.Repeat(<constant>, ...)
// or a slice of a constant run of ASCII blanks (`spaces(n)` slicing a package-level strings.Repeat(" ", 256)). Calls to it
// are padding exactly as calls to strings.Repeat are (OU9, OU11); slicing the constant run is not a rune-boundary risk
// (OU5); and the helper owes what strings.Repeat gives by definition: exactly the asked number of blanks.

// asciiRun: v is a string all of whose bytes are ASCII whatever its length: a constant, strings.Repeat of such a constant,
// or the load of a package-level variable the initialiser alone sets to one of those.
func (p *Prog) asciiRun(v ssa.Value) bool {
	v = strip(v)
	if s, ok := constString(v); ok {
		for i := 0; i < len(s); i++ {
			if s[i] >= 0x80 {
				return false
			}
		}
		return true
	}
	if call, ok := v.(*ssa.Call); ok && calleeFullName(call.Common()) == "strings.Repeat" {
		return p.asciiRun(call.Common().Args[0])
	}
	ld, ok := v.(*ssa.UnOp)
	if !ok {
		return false
	}
	g, ok := ld.X.(*ssa.Global)
	if !ok || g.Pkg == nil {
		return false
	}
	init := g.Pkg.Func("init")
	if init == nil {
		return false
	}
	var val ssa.Value
	n := 0
	for _, f := range p.Fns {
		for _, b := range f.Blocks {
			for _, in := range b.Instrs {
				if st, isSt := in.(*ssa.Store); isSt && st.Addr == ssa.Value(g) {
					if f != init {
						return false
					}
					n++
					val = st.Val
				}
			}
		}
	}
	if n != 1 {
		return false
	}
	if _, isLoad := strip(val).(*ssa.UnOp); isLoad {
		return false
	}
	return p.asciiRun(val)
}

// blankRunHelper: the count parameter of f when f is a blank-run helper, nil otherwise.
func (p *Prog) blankRunHelper(f *ssa.Function) *ssa.Parameter {
	if f == nil || f.Blocks == nil || f.Signature.Recv() != nil || len(f.Params) != 1 || f.Signature.Results().Len() != 1 {
		return nil
	}
	if b, ok := f.Params[0].Type().Underlying().(*types.Basic); !ok || b.Info()&types.IsInteger == 0 {
		return nil
	}
	if b, ok := f.Signature.Results().At(0).Type().Underlying().(*types.Basic); !ok || b.Info()&types.IsString == 0 {
		return nil
	}
	runs := 0
	for _, v := range p.blankRunResults(f) {
		switch x := v.(type) {
		case *ssa.Const:
			if s, ok := constString(x); !ok || s != "" {
				return nil
			}
		case *ssa.Call:
			if calleeFullName(x.Common()) != "strings.Repeat" || !p.asciiRun(x.Common().Args[0]) {
				return nil
			}
			runs++
		case *ssa.Slice:
			if !p.asciiRun(x.X) {
				return nil
			}
			runs++
		default:
			return nil
		}
	}
	if runs == 0 {
		return nil
	}
	return f.Params[0]
}

func (p *Prog) blankRunResults(f *ssa.Function) []ssa.Value {
	var out []ssa.Value
	seen := map[ssa.Value]bool{}
	var add func(v ssa.Value)
	add = func(v ssa.Value) {
		v = strip(v)
		if v == nil || seen[v] {
			return
		}
		seen[v] = true
		if phi, ok := v.(*ssa.Phi); ok {
			for _, e := range phi.Edges {
				add(e)
			}
			return
		}
		out = append(out, v)
	}
	for _, b := range f.Blocks {
		if r, ok := b.Instrs[len(b.Instrs)-1].(*ssa.Return); ok && len(r.Results) == 1 {
			add(returnedValue(r, 0))
		}
	}
	return out
}

// blankWriterHelper: the count parameter of f when f writes a run of blanks into a builder/writer it is handed
// (writePadding(sb, n)): one integer parameter, no result (or an error), and every write in it is of ASCII-run material.
func (p *Prog) blankWriterHelper(f *ssa.Function) *ssa.Parameter {
	if f == nil || f.Blocks == nil || len(f.Params) < 2 || f.Signature.Results().Len() > 1 {
		return nil
	}
	var cnt *ssa.Parameter
	for _, prm := range f.Params {
		if b, ok := prm.Type().Underlying().(*types.Basic); ok && b.Info()&types.IsInteger != 0 {
			if cnt != nil {
				return nil
			}
			cnt = prm
		}
	}
	if cnt == nil {
		return nil
	}
	writes := 0
	for _, call := range callsIn(f) {
		n := calleeFullName(call.Common())
		switch n {
		case "(*strings.Builder).WriteString", "(*bytes.Buffer).WriteString", "io.WriteString", "(*bufio.Writer).WriteString":
			a := call.Common().Args[len(call.Common().Args)-1]
			if sl, ok := strip(a).(*ssa.Slice); ok {
				a = sl.X
			}
			if !p.asciiRun(a) {
				return nil
			}
			writes++
		case "(*strings.Builder).WriteByte", "(*bytes.Buffer).WriteByte", "(*bufio.Writer).WriteByte":
			if k, ok := constInt(call.Common().Args[1]); !ok || k >= 0x80 {
				return nil
			}
			writes++
		case "builtin min", "builtin len":
		default:
			return nil
		}
	}
	if writes == 0 {
		return nil
	}
	return cnt
}

// blankWriterExact: the helper writes exactly n blanks. Two loop forms are understood: chunks (`for n > 0 { k := min(n,
// len(chunk)); w(chunk[:k]); n -= k }`) and one blank per round (`for i := 0; i < n; i++ { w(' ') }`).
func (c *Ctx) blankWriterExact(f *ssa.Function, cnt *ssa.Parameter) (bool, string) {
	for _, call := range callsIn(f) {
		if !inCycle(call.Block()) {
			return false, "a write outside the loop adds blanks that were not asked for"
		}
		args := call.Common().Args
		switch calleeFullName(call.Common()) {
		case "builtin min", "builtin len":
			continue
		}
		sl, isSlice := strip(args[len(args)-1]).(*ssa.Slice)
		if !isSlice {
			if _, isByte := constInt(args[len(args)-1]); isByte {
				// one blank per round: the loop runs while a counter from 0 stepping by 1 is below n
				ok := false
				for _, bf := range directFacts(f) {
					if bf.A.Kind == "cmp" && bf.A.Op == token.LSS && bf.Holds && strip(bf.A.Y) == ssa.Value(cnt) {
						if ph, isPhi := strip(bf.A.X).(*ssa.Phi); isPhi && len(ph.Edges) == 2 {
							if k, isK := constInt(ph.Edges[0]); isK && k == 0 {
								if st, isAdd := ph.Edges[1].(*ssa.BinOp); isAdd && st.Op == token.ADD && st.X == ssa.Value(ph) {
									if one, isK := constInt(st.Y); isK && one == 1 {
										ok = true
									}
								}
							}
						}
					}
				}
				if !ok {
					return false, "the loop writing one blank per round is not `for i := 0; i < n; i++`"
				}
				continue
			}
			return false, "a whole run is written per round, whatever is left to write"
		}
		k := sl.High
		if sl.Low != nil {
			if z, isK := constInt(sl.Low); !isK || z != 0 {
				return false, "the chunk is not sliced from its start"
			}
		}
		mn, isMin := strip(k).(*ssa.Call)
		if k == nil || !isMin || calleeFullName(&mn.Call) != "builtin min" || len(mn.Call.Args) != 2 {
			return false, "the length written per round is not min(left, len(chunk))"
		}
		var left *ssa.Phi
		for _, a := range mn.Call.Args {
			if ph, isPhi := strip(a).(*ssa.Phi); isPhi {
				left = ph
			}
		}
		if left == nil {
			return false, "the length written per round does not depend on what is left to write"
		}
		fromParam, stepped := false, false
		for _, e := range left.Edges {
			if strip(e) == ssa.Value(cnt) {
				fromParam = true
			}
			if sub, isSub := e.(*ssa.BinOp); isSub && sub.Op == token.SUB && sub.X == ssa.Value(left) && strip(sub.Y) == ssa.Value(mn) {
				stepped = true
			}
		}
		if !fromParam || !stepped {
			return false, "what is left to write does not start at n and go down by exactly what was written"
		}
		whilePos := false
		for _, bf := range directFacts(f) {
			if bf.A.Kind == "cmp" && bf.A.Op == token.GTR && bf.Holds && strip(bf.A.X) == ssa.Value(left) {
				if z, isK := constInt(bf.A.Y); isK && z == 0 {
					whilePos = true
				}
			}
		}
		if !whilePos {
			return false, "the loop does not run while something is left to write (n > 0)"
		}
	}
	return true, ""
}

// paddingCalls: the calls in f that produce a run of blanks - strings.Repeat and calls to blank-run helpers - with the
// count argument of each.
func (c *Ctx) paddingCalls(f *ssa.Function) (calls []ssa.CallInstruction, counts []ssa.Value) {
	for _, call := range callsIn(f) {
		if calleeFullName(call.Common()) == "strings.Repeat" {
			calls = append(calls, call)
			counts = append(counts, call.Common().Args[1])
			continue
		}
		if cal := calleeOf(call.Common()); cal != nil && cal.Pkg == c.Ergo && c.blankRunHelper(cal) != nil && len(call.Common().Args) == 1 {
			calls = append(calls, call)
			counts = append(counts, call.Common().Args[0])
		} else if cal != nil && cal.Pkg == c.Ergo {
			if prm := c.blankWriterHelper(cal); prm != nil && paramIndex(prm) < len(call.Common().Args) {
				calls = append(calls, call)
				counts = append(counts, call.Common().Args[paramIndex(prm)])
			}
		}
	}
	return
}

// blankRunExact: every blank-run helper hands back exactly the asked number of blanks: the count of its strings.Repeat, or
// the upper bound of its slice of the constant run (taken from offset 0), is the parameter itself - not a clamped copy
// (min(n, len(run))): a caller computing a gap of 300 columns on a wide terminal would get 256 and the id column of that
// row leaves its place.
func (c *Ctx) blankRunExact() {
	for _, f := range c.Fns {
		if f.Pkg != c.Ergo {
			continue
		}
		if wp := c.blankWriterHelper(f); wp != nil {
			ok, why := c.blankWriterExact(f, wp)
			c.check(ok, c.Name(f), "blank-run-exact#1", c.FnPos(f), "the helper writes exactly the asked number of blanks",
				"this padding helper does not write exactly the asked number of blanks ("+why+"): gaps come out short or long and the id column of those rows leaves its place")
			continue
		}
		par := c.blankRunHelper(f)
		if par == nil {
			continue
		}
		k := 0
		for _, v := range c.blankRunResults(f) {
			var cnt, low ssa.Value
			switch x := v.(type) {
			case *ssa.Call:
				cnt = x.Common().Args[1]
			case *ssa.Slice:
				cnt, low = x.High, x.Low
			default:
				continue
			}
			k++
			exact := cnt != nil && strip(cnt) == ssa.Value(par)
			if low != nil {
				if kv, ok := constInt(low); !ok || kv != 0 {
					exact = false
				}
			}
			c.check(exact, c.Name(f), fmt.Sprintf("blank-run-exact#%d", k), c.Pos(v.Pos()), "the run handed back has exactly the asked length (the count is the parameter itself)",
				"this padding helper does not hand back the asked number of blanks (its count is "+c.canon(cnt)+", not the parameter): a gap wider than the helper's limit - a wide terminal, a short title - comes out short and the id column of that row leaves its place")
		}
	}
}

// ------------------------------------------------------------------ OU21

func init() {
	register(&Rule{ID: "OU21", Min: 1, Run: ruleOU21,
		Doc: "summary-scope-follows-the-view: wherever list has established that the view is focused on one epic (on the non-empty edge of the EpicID option) the task list its summary statistics are computed from derives from that epic id (the epic's children, or a filter of them) - not from one of the store-wide collections: a summary that counts the whole store under an epic's rows contradicts `list --json --epic` and the rows above it. Decided per call site of the statistics function, following the list through closure and helper parameters to each caller"})
}

func ruleOU21(c *Ctx) {
	rl := c.ErgoFn("RunList")
	if rl == nil {
		c.unk("ergo.RunList", "anchor", "-", "RunList not found")
		return
	}
	unit := map[*ssa.Function]bool{}
	for _, g := range c.unitOf(rl) {
		unit[g] = true
	}
	isStats := func(f *ssa.Function) bool {
		if f == nil || !c.InModule(f) || len(f.Params) == 0 || f.Signature.Results().Len() != 1 {
			return false
		}
		if !strings.Contains(strings.ToLower(namedTypeName(f.Signature.Results().At(0).Type())), "stats") {
			return false
		}
		sl, ok := f.Params[0].Type().Underlying().(*types.Slice)
		return ok && strings.HasSuffix(sl.Elem().String(), "ergo.Task")
	}
	type site struct {
		fn   *ssa.Function
		call ssa.CallInstruction
		arg  ssa.Value
		via  string
	}
	var sites []site
	var expand func(fn *ssa.Function, call ssa.CallInstruction, arg ssa.Value, via string, d int)
	expand = func(fn *ssa.Function, call ssa.CallInstruction, arg ssa.Value, via string, d int) {
		if prm, ok := resolve(arg).(*ssa.Parameter); ok && d < 3 && len(c.callers[prm.Parent()]) > 0 {
			for _, cs := range c.callers[prm.Parent()] {
				i := paramIndex(prm)
				if i < len(cs.Call.Common().Args) {
					expand(cs.Fn, cs.Call, cs.Call.Common().Args[i], via+" via "+c.Name(prm.Parent()), d+1)
				}
			}
			return
		}
		sites = append(sites, site{fn, call, arg, via})
	}
	for g := range unit {
		for _, call := range callsIn(g) {
			if cal := calleeOf(call.Common()); isStats(cal) {
				expand(g, call, call.Common().Args[0], "", 0)
			}
		}
	}
	sort.SliceStable(sites, func(i, j int) bool { return sites[i].call.Pos() < sites[j].call.Pos() })
	isEpicOpt := func(v ssa.Value) bool {
		if _, n, ok := fieldLoad(strip(v)); ok && (n == "EpicID" || n == "EpicFlag") {
			return true
		}
		_, n, ok := fieldLoad(resolve(v))
		return ok && (n == "EpicID" || n == "EpicFlag")
	}
	var derives func(v ssa.Value, d int, seen map[ssa.Value]bool) bool
	derives = func(v ssa.Value, d int, seen map[ssa.Value]bool) bool {
		if v == nil || d > 14 || seen[v] {
			return false
		}
		seen[v] = true
		if isEpicOpt(v) {
			return true
		}
		switch x := v.(type) {
		case *ssa.Call:
			for _, a := range x.Call.Args {
				if derives(a, d+1, seen) {
					return true
				}
			}
			if mc, ok := x.Call.Value.(*ssa.MakeClosure); ok {
				for _, b := range mc.Bindings {
					if derives(b, d+1, seen) {
						return true
					}
				}
			}
		case *ssa.Phi:
			for _, e := range x.Edges {
				if derives(e, d+1, seen) {
					return true
				}
			}
		case *ssa.UnOp:
			if cell := cellOf(x.X); cell != nil && x.Op == token.MUL {
				for _, st := range cellStores(cell) {
					if derives(st.Val, d+1, seen) {
						return true
					}
				}
				return false
			}
			return derives(x.X, d+1, seen)
		case *ssa.Slice:
			return derives(x.X, d+1, seen)
		case *ssa.Extract:
			return derives(x.Tuple, d+1, seen)
		case *ssa.ChangeType:
			return derives(x.X, d+1, seen)
		case *ssa.FreeVar:
			if b := bindingOf(x); b != nil {
				return derives(b, d+1, seen)
			}
		case *ssa.Parameter:
			cs := c.callers[x.Parent()]
			if len(cs) == 0 {
				return false
			}
			for _, site := range cs {
				i := paramIndex(x)
				if i < 0 || i >= len(site.Call.Common().Args) || !derives(site.Call.Common().Args[i], d+1, map[ssa.Value]bool{}) {
					return false
				}
			}
			return true
		}
		return false
	}
	// focusedAt: blk of fn runs only where the EpicID option was found non-empty - in fn itself, or at every call of fn
	// (renderEpic(epicID, readyOnly) called under `if epicID != ""`)
	var focusedAt func(fn *ssa.Function, blk *ssa.BasicBlock, d int) bool
	focusedAt = func(fn *ssa.Function, blk *ssa.BasicBlock, d int) bool {
		focused := edgesWhere(fn, func(a Atom, holds bool) bool {
			return a.Kind == "const" && !holds && a.C.Value != nil && constStr(a.C) == "" && isEpicOpt(a.X)
		})
		if len(focused) > 0 && mustPassEdges(fn, blk, focused) {
			return true
		}
		if d >= 3 || len(c.callers[fn]) == 0 {
			return false
		}
		for _, cs := range c.callers[fn] {
			if !focusedAt(cs.Fn, cs.Call.Block(), d+1) {
				return false
			}
		}
		return true
	}
	n := 0
	ord := map[string]int{}
	for _, s := range sites {
		if !focusedAt(s.fn, s.call.Block(), 0) {
			continue
		}
		n++
		fn := c.Name(s.fn)
		ord[fn]++
		c.check(derives(s.arg, 0, map[ssa.Value]bool{}), fn, fmt.Sprintf("epic-view-summary#%d", ord[fn]), c.Pos(s.call.Pos()),
			"under an epic-focused view the summarised list derives from the epic id"+s.via,
			"this summary is printed under a view focused on one epic, but the list it counts ("+c.canon(s.arg)+s.via+") does not derive from the epic id: it counts tasks of the whole store, so the numbers disagree with the rows above them and with `list --json --epic`")
	}
	if n == 0 {
		c.unk(c.Name(rl), "epic-view-summary#0", c.FnPos(rl), "no summary statistics computed under the epic-focused branch of list (structure not recognised)")
	}
}
