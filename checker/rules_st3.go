package main

// ST3: every command starts the upward search for the store from the same place.

import (
	"fmt"
	"go/token"
	"sort"
	"strings"

	"golang.org/x/tools/go/ssa"
)

func init() {
	register(&Rule{ID: "ST3", Min: 2, Run: ruleST3,
		Doc: "discovery-starts-agree: every call site of the upward search (resolveErgoDir) derives its start directory from the same sources through the same transformations (--dir or the working directory, untransformed): `where` and the commands that read and write must not disagree about which store a spelling of the path belongs to"})
}

// startDerivation: sources ("src:...") and transformations ("via:...") on the backward slice of v.
func (c *Ctx) startDerivation(v ssa.Value, out map[string]bool, seen map[ssa.Value]bool, d int) {
	if v == nil || d > 24 || seen[v] {
		return
	}
	seen[v] = true
	if _, n, ok := fieldLoad(strip(v)); ok {
		out["src:field "+n] = true
		return
	}
	switch x := strip(v).(type) {
	case *ssa.Const:
		return // zero values / "" initialisers
	case *ssa.Phi:
		for _, e := range x.Edges {
			c.startDerivation(e, out, seen, d+1)
		}
	case *ssa.UnOp:
		if x.Op == token.MUL {
			if cell := cellOf(x.X); cell != nil {
				for _, st := range cellStores(cell) {
					c.startDerivation(st.Val, out, seen, d+1)
				}
				return
			}
		}
		out["via:"+x.Op.String()] = true
	case *ssa.Parameter:
		args := c.argValues(x.Parent(), paramIndex(x))
		if len(args) == 0 {
			out["src:parameter "+x.Name()] = true
		}
		for _, a := range args {
			c.startDerivation(a, out, seen, d+1)
		}
	case *ssa.FreeVar:
		if b := bindingOf(x); b != nil {
			c.startDerivation(b, out, seen, d+1)
		}
	case *ssa.Extract:
		c.startDerivation(x.Tuple, out, seen, d+1)
	case *ssa.Call:
		name := calleeFullName(&x.Call)
		if cal := x.Call.StaticCallee(); cal != nil && c.InModule(cal) && cal.Blocks != nil {
			// a module helper: what it returns
			for _, r := range returnsOf(cal) {
				if len(r.Results) > 0 {
					c.startDerivation(returnedValue(r, 0), out, seen, d+1)
				}
			}
			return
		}
		if name == "os.Getwd" {
			out["src:os.Getwd"] = true
			return
		}
		out["via:"+name] = true
		for _, a := range x.Call.Args {
			c.startDerivation(a, out, seen, d+1)
		}
	case *ssa.BinOp:
		out["via:"+x.Op.String()] = true
		c.startDerivation(x.X, out, seen, d+1)
		c.startDerivation(x.Y, out, seen, d+1)
	default:
		out[fmt.Sprintf("via:%T", x)] = true
	}
}

func ruleST3(c *Ctx) {
	red := c.anchor("resolveErgoDir")
	if red == nil {
		return
	}
	sites := c.callers[red]
	if len(sites) == 0 {
		c.bad(c.Name(red), "call-sites", c.FnPos(red), "the upward search has no caller")
		return
	}
	type siteSig struct {
		cs  callSite
		sig string
	}
	var sigs []siteSig
	count := map[string]int{}
	for _, cs := range sites {
		set := map[string]bool{}
		c.startDerivation(cs.Call.Common().Args[0], set, map[ssa.Value]bool{}, 0)
		var ks []string
		for k := range set {
			ks = append(ks, k)
		}
		sort.Strings(ks)
		sig := strings.Join(ks, " ")
		sigs = append(sigs, siteSig{cs, sig})
		count[sig]++
	}
	// the reference derivation is the most common one (ties: lexicographically smallest)
	ref, best := "", -1
	for s, n := range count {
		if n > best || n == best && s < ref {
			ref, best = s, n
		}
	}
	ord := map[string]int{}
	for _, ss := range sigs {
		fn := c.Name(Outermost(ss.cs.Fn))
		ord[fn]++
		c.check(ss.sig == ref, fn, fmt.Sprintf("start-derivation#%d", ord[fn]), c.Pos(ss.cs.Call.Pos()), "search starts from {"+ss.sig+"} like every other caller",
			"this caller starts the upward search from {"+ss.sig+"} while the other caller(s) use {"+ref+"}: for some spelling of the directory (a symlinked path, a relative --dir) `where` names one store and the commands that read and write use another")
	}
	// transformations are not expected at all: the search itself makes the start absolute
	for _, ss := range sigs {
		if strings.Contains(ss.sig, "via:") && len(count) == 1 {
			c.ok(c.Name(Outermost(ss.cs.Fn)), "start-transformations", c.Pos(ss.cs.Call.Pos()), "all callers apply the same transformations: "+ss.sig)
		}
	}
}
