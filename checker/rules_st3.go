package main

// ST3: every command starts the upward search for the store from the same place.

import (
	"fmt"
	"go/token"
	"sort"
	"strings"

	"golang.org/x/tools/go/ssa"
)

func init() {
	register(&Rule{ID: "ST3", Min: 2, Run: ruleST3,
		Doc: "discovery-starts-agree: every call site of the upward search (resolveErgoDir) derives its start directory from the same sources through the same transformations (--dir or the working directory, untransformed): `where` and the commands that read and write must not disagree about which store a spelling of the path belongs to"})
}

// startDerivation: sources ("src:...") and transformations ("via:...") on the backward slice of v.
func (c *Ctx) startDerivation(v ssa.Value, out map[string]bool, seen map[ssa.Value]bool, d int) {
	if v == nil || d > 24 || seen[v] {
		return
	}
	seen[v] = true
	if _, n, ok := fieldLoad(strip(v)); ok {
		out["src:field "+n] = true
		return
	}
	switch x := strip(v).(type) {
	case *ssa.Const:
		return // zero values / "" initialisers
	case *ssa.Phi:
		for _, e := range x.Edges {
			c.startDerivation(e, out, seen, d+1)
		}
	case *ssa.UnOp:
		if x.Op == token.MUL {
			if cell := cellOf(x.X); cell != nil {
				for _, st := range cellStores(cell) {
					c.startDerivation(st.Val, out, seen, d+1)
				}
				return
			}
		}
		out["via:"+x.Op.String()] = true
	case *ssa.Parameter:
		args := c.argValues(x.Parent(), paramIndex(x))
		if len(args) == 0 {
			out["src:parameter "+x.Name()] = true
		}
		for _, a := range args {
			c.startDerivation(a, out, seen, d+1)
		}
	case *ssa.FreeVar:
		if b := bindingOf(x); b != nil {
			c.startDerivation(b, out, seen, d+1)
		}
	case *ssa.Extract:
		c.startDerivation(x.Tuple, out, seen, d+1)
	case *ssa.Call:
		name := calleeFullName(&x.Call)
		if cal := calleeOf(&x.Call); cal != nil && c.InModule(cal) && cal.Blocks != nil {
			// a module helper: what it returns
			for _, r := range returnsOf(cal) {
				if len(r.Results) > 0 {
					c.startDerivation(returnedValue(r, 0), out, seen, d+1)
				}
			}
			return
		}
		if name == "os.Getwd" {
			out["src:os.Getwd"] = true
			return
		}
		out["via:"+name] = true
		for _, a := range x.Call.Args {
			c.startDerivation(a, out, seen, d+1)
		}
	case *ssa.BinOp:
		out["via:"+x.Op.String()] = true
		c.startDerivation(x.X, out, seen, d+1)
		c.startDerivation(x.Y, out, seen, d+1)
	default:
		out[fmt.Sprintf("via:%T", x)] = true
	}
}

func ruleST3(c *Ctx) {
	red := c.anchor("resolveErgoDir")
	if red == nil {
		return
	}
	sites := c.callers[red]
	if len(sites) == 0 {
		c.bad(c.Name(red), "call-sites", c.FnPos(red), "the upward search has no caller")
		return
	}
	type siteSig struct {
		cs  callSite
		sig string
	}
	var sigs []siteSig
	count := map[string]int{}
	for _, cs := range sites {
		set := map[string]bool{}
		c.startDerivation(cs.Call.Common().Args[0], set, map[ssa.Value]bool{}, 0)
		var ks []string
		for k := range set {
			ks = append(ks, k)
		}
		sort.Strings(ks)
		sig := strings.Join(ks, " ")
		sigs = append(sigs, siteSig{cs, sig})
		count[sig]++
	}
	// the reference derivation is the most common one (ties: lexicographically smallest)
	ref, best := "", -1
	for s, n := range count {
		if n > best || n == best && s < ref {
			ref, best = s, n
		}
	}
	ord := map[string]int{}
	for _, ss := range sigs {
		fn := c.Name(Outermost(ss.cs.Fn))
		ord[fn]++
		c.check(ss.sig == ref, fn, fmt.Sprintf("start-derivation#%d", ord[fn]), c.Pos(ss.cs.Call.Pos()), "search starts from {"+ss.sig+"} like every other caller",
			"this caller starts the upward search from {"+ss.sig+"} while the other caller(s) use {"+ref+"}: for some spelling of the directory (a symlinked path, a relative --dir) `where` names one store and the commands that read and write use another")
	}
	// --dir means "start the search here": the option is interpreted by the search alone. A command that builds a path
	// out of it by itself (Join(--dir, ".ergo")) disagrees with the search for the spellings the search accepts and it
	// does not (the .ergo directory itself, a directory below the project root)
	nLoads := 0
	for _, f := range c.Fns {
		if f.Pkg != c.Ergo || f.Blocks == nil {
			continue
		}
		k := 0
		eachInstr(f, func(r instrRef) {
			ld, ok := r.In.(*ssa.UnOp)
			if !ok || ld.Op != token.MUL {
				return
			}
			fa, ok := ld.X.(*ssa.FieldAddr)
			if !ok {
				return
			}
			if on, isOpt := optionsFieldAddr(fa); !isOpt || on != "StartDir" {
				return
			}
			k++
			nLoads++
			problems := c.startDirUses(ld, red)
			c.check(len(problems) == 0, c.Name(f), fmt.Sprintf("start-dir-use#%d", k), c.Pos(ld.Pos()), "--dir is only tested for emptiness and handed to the upward search",
				"the --dir option is interpreted outside the store search: "+strings.Join(uniq(problems), "; ")+" - the spellings the search accepts (the .ergo directory itself, a directory inside the project) name a different place here")
		})
	}
	if nLoads == 0 {
		c.bad(c.Name(red), "start-dir-use", c.FnPos(red), "no read of GlobalOptions.StartDir found in the package (the --dir option is ignored?)")
	}
	// transformations are not expected at all: the search itself makes the start absolute
	for _, ss := range sigs {
		if strings.Contains(ss.sig, "via:") && len(count) == 1 {
			c.ok(c.Name(Outermost(ss.cs.Fn)), "start-transformations", c.Pos(ss.cs.Call.Pos()), "all callers apply the same transformations: "+ss.sig)
		}
	}
}

// ------------------------------------------------------------------ ST4 / OU10

func init() {
	register(&Rule{ID: "ST4", Min: 1, Run: ruleST4,
		Doc: "discovered-dir-is-a-.ergo-component: every directory the upward search hands back is filepath.Join(<dir>, \".ergo\"), or a value whose last path component was compared equal to \".ergo\" (filepath.Base(v) == \".ergo\"); a suffix or substring test accepts `site.ergo` as the store and the same project then has two stores depending on where a command is started; and the walk probes every level, the file-system root included: every way out of the loop of the walk - found, error, no parent left - lies behind the probe of the directory in hand (walk-probes-every-level)"})
	register(&Rule{ID: "OU10", Min: 1, Run: ruleOU10,
		Doc: "read-path-rewrites-only-blank-titles: outside the per-event cases of replay, the read path stores into Task.Title / Task.Body only where the item's title was tested blank (the legacy migration); any wider condition rewrites text the user supplied on every read, and compact makes it permanent"})
}

func ruleST4(c *Ctx) {
	red := c.anchor("resolveErgoDir")
	if red == nil {
		return
	}
	c.probeErrorsReported(red)
	c.initNeverNests()
	n := 0
	var isErgoJoin func(x ssa.Value, d int) bool
	isErgoJoin = func(x ssa.Value, d int) bool {
		cl, isCall := resolve(x).(*ssa.Call)
		if !isCall || d > 2 {
			return false
		}
		if calleeFullName(&cl.Call) == "path/filepath.Join" {
			el := variadicElems(cl.Call.Args)
			if len(el) >= 2 {
				if s, isC := constString(el[len(el)-1]); isC && s == ".ergo" {
					return true
				}
			}
			return false
		}
		// a helper that does the joining (storeDirIn(dir) = filepath.Join(dir, dataDirName))
		if h := calleeOf(&cl.Call); h != nil && c.InModule(h) && h.Blocks != nil {
			rets := returnsOf(h)
			for _, hr := range rets {
				if len(hr.Results) != 1 || !isErgoJoin(returnedValue(hr, 0), d+1) {
					return false
				}
			}
			return len(rets) > 0
		}
		return false
	}
	for _, r := range c.nonFailingReturns(red) {
		if len(r.Results) < 1 {
			continue
		}
		n++
		v := resolve(returnedValue(r, 0))
		ok, how := false, ""
		if isErgoJoin(v, 0) {
			ok, how = true, "Join(dir, \".ergo\")"
		}
		if !ok {
			vc := c.canon(v)
			base := edgesWhere(red, func(a Atom, holds bool) bool {
				if a.Kind != "const" || !holds || constStr(a.C) != ".ergo" {
					return false
				}
				cl, _ := callOf(a.X)
				return cl != nil && calleeFullName(&cl.Call) == "path/filepath.Base" && c.canon(cl.Call.Args[0]) == vc
			})
			if len(base) > 0 && mustPassEdges(red, r.Block(), base) {
				ok, how = true, "filepath.Base(v) == \".ergo\""
			}
		}
		c.check(ok, c.Name(red), fmt.Sprintf("returned-dir#%d", n), c.Pos(r.Pos()), "the returned directory is a .ergo path component: "+how,
			"the upward search can return "+c.canon(v)+" without having established that its last component is `.ergo` (a suffix/substring test is not enough: `site.ergo` would be taken for the store)")
	}
	if n == 0 {
		c.bad(c.Name(red), "returned-dir#0", c.FnPos(red), "the upward search has no successful return")
	}
	// the walk probes every level, the last one (the file-system root) included: whatever leaves the loop of the walk -
	// found, error, or "no parent left" - does so after the directory in hand was probed. A walk whose "no parent left"
	// test sits in the loop condition, ahead of the probe, never looks at the root: a store at /.ergo (a container with
	// WORKDIR /, a chroot) is found from some spellings of the directory and not from others
	np := 0
	for _, call := range callsIn(red) {
		if !inCycle(call.Block()) {
			continue
		}
		probes := false
		for _, a := range call.Common().Args {
			if isErgoJoin(a, 0) {
				probes = true
			}
		}
		nme := calleeFullName(call.Common())
		if !probes || nme == "path/filepath.Join" {
			continue
		}
		// a probe asks the file system (os.Stat, or a module helper doing so); an observer callback handed the candidate
		// for tracing is not one
		asksFS := nme == "os.Stat" || nme == "os.Lstat"
		if cal := calleeOf(call.Common()); !asksFS && cal != nil && c.InModule(cal) && cal.Blocks != nil {
			if len(callsNamed(cal, "os.Stat", "os.Lstat")) > 0 {
				asksFS = true
			}
			for g := range c.F.TransitiveCallees(cal) {
				if g.Blocks != nil && len(callsNamed(g, "os.Stat", "os.Lstat")) > 0 {
					asksFS = true
				}
			}
		}
		if !asksFS {
			continue
		}
		np++
		pb := call.Block()
		fromP := reach(pb, nil, nil)
		unprobed := ""
		for _, b := range red.Blocks {
			if !fromP[b] || !reach(b, nil, nil)[pb] {
				continue // not in the loop
			}
			for _, sblk := range b.Succs {
				if fromP[sblk] && reach(sblk, nil, nil)[pb] {
					continue // stays in the loop
				}
				if !pb.Dominates(b) {
					unprobed = c.Pos(lastPos(b))
				}
			}
		}
		c.check(unprobed == "", c.Name(red), fmt.Sprintf("walk-probes-every-level#%d", np), c.Pos(call.Pos()), "every way out of the upward walk comes after the probe of the directory in hand",
			"the upward walk can be left at "+unprobed+" without the directory in hand having been probed: the last level (the file-system root) is never looked at, so a store at /.ergo is found for some spellings of the start directory and missed for others")
	}
	if np == 0 {
		c.unk(c.Name(red), "walk-probes-every-level#0", c.FnPos(red), "no probe of <dir>/.ergo inside a loop found in the upward search")
	}
}

func ruleOU10(c *Ctx) {
	rm := c.replay()
	lg := c.F.Anchors["loadGraph"]
	if rm == nil || lg == nil {
		c.unk("ergo.replayEvents", "replay-model", "-", "replay model or loadGraph not found")
		return
	}
	effect := map[*ssa.Function]bool{}
	for _, f := range rm.EffectFns {
		effect[f] = true
	}
	// the rest of the read path: replay's post-loop helpers and the loader
	var fns []*ssa.Function
	for _, f := range rm.Unit {
		if !effect[f] || f == rm.Switch {
			fns = append(fns, f)
		}
	}
	fns = append(fns, c.unitOf(lg)...)
	for _, f := range c.Fns {
		if f != lg && c.loaderKind(f) != "" {
			fns = append(fns, f) // the loader split into parts (loadGraphFrom)
			fns = append(fns, c.unitOf(f)...)
		}
	}
	n := 0
	seen := map[ssa.Instruction]bool{}
	for _, f := range fns {
		f := f
		eachInstr(f, func(r instrRef) {
			st, ok := r.In.(*ssa.Store)
			if !ok || seen[st] {
				return
			}
			fa, ok := st.Addr.(*ssa.FieldAddr)
			if !ok || namedTypeName(fa.X.Type()) != "ergo.Task" {
				return
			}
			fld := fieldName(fa.X.Type(), fa.Field)
			if fld != "Title" && fld != "Body" {
				return
			}
			if _, isLit := fa.X.(*ssa.Alloc); isLit {
				return
			}
			if f == rm.Switch && rm.inCase(st) {
				return // a per-event case: governed by DT6/DT7
			}
			seen[st] = true
			n++
			blank := edgesWhere(f, func(a Atom, holds bool) bool {
				if a.Kind != "const" || !holds || a.C.Value == nil || constStr(a.C) != "" {
					return false
				}
				x := a.X
				if cl, _ := callOf(x); cl != nil && calleeFullName(&cl.Call) == "strings.TrimSpace" {
					x = cl.Call.Args[0]
				}
				_, nme, ok := fieldLoad(x)
				return ok && nme == "Title"
			})
			c.check(len(blank) > 0 && mustPassEdges(f, st.Block(), blank), c.Name(f), fmt.Sprintf("store Task.%s#%d", fld, n), c.Pos(st.Pos()),
				"the read path rewrites "+fld+" only for items whose title is blank",
				"the read path overwrites Task."+fld+" without having established that the item's title is blank: a title or body the user supplied is altered on every read (and for good after compact)")
		})
	}
	if n == 0 {
		c.ok("<module>", "no-read-path-rewrite", "-", "no store into Task.Title/Body on the read path outside replay's event cases")
	}
}

// ------------------------------------------------------------------ DT8 / RD5 / OU12

func init() {
	register(&Rule{ID: "DT8", Min: 1, Run: ruleDT8,
		Doc: "loader-adds-no-rejections: the loader (loadGraph) fails only when the reader or the replay failed: every failing return hands back an error that comes from readEvents / replayEvents. An extra semantic check on the loaded graph (e.g. the claim invariant) rejects states that a torn prefix of a valid log legitimately replays to (a claim line without its state line) and bricks the store for every command"})
	register(&Rule{ID: "RD5", Min: 1, Run: ruleRD5,
		Doc: "blocked-predicate-not-on-epics: isBlocked judges tasks (its dependency test looks at the dependency's State, which an epic never changes); no call of it is made on a value already known to be an epic (on the true edge of isEpic(x) / x.IsEpic)"})
	register(&Rule{ID: "OU12", Min: 1, Run: ruleOU12,
		Doc: "file-url-path-is-data: deriveFileURL never hands text derived from the path to a URL *parser* (url.Parse and friends): `#`, `?` and `%` in a file name would be read as syntax and file_url would name another file; the URL is assembled from a url.URL value whose Path field is the absolute path"})
}

func ruleDT8(c *Ctx) {
	lg := c.anchor("loadGraph")
	if lg == nil {
		return
	}
	rd, re := c.F.Anchors["readEvents"], c.F.Anchors["replayEvents"]
	n := 0
	family := append([]*ssa.Function{lg}, c.unitOf(lg)...)
	inFamily := map[*ssa.Function]bool{lg: true}
	for _, f := range c.Fns {
		if f != lg && c.loaderKind(f) != "" {
			family = append(family, f)
			family = append(family, c.unitOf(f)...)
			inFamily[f] = true
		}
	}
	for _, g := range family {
		if g == rd || g == re || c.opaqueHelper(g) && !inFamily[g] {
			continue
		}
		for _, r := range returnsOf(g) {
			if len(r.Results) == 0 || !isErrorType(r.Results[len(r.Results)-1]) || isNilConst(returnedValue(r, len(r.Results)-1)) {
				continue
			}
			srcs := errorSourceValues(r)
			if len(srcs) == 0 {
				continue
			}
			n++
			bad := ""
			for _, sv := range srcs {
				cl, ok := sv.(*ssa.Call)
				if !ok {
					bad = c.canon(sv)
					continue
				}
				cal := calleeOf(&cl.Call)
				if cal == rd || cal == re || (cal != nil && (c.inUnit(cal, lg) || inFamily[cal])) {
					continue
				}
				if c.eventsLoaderKind(cal) != "" {
					continue // the reader behind a helper that adds no failure of its own
				}
				bad = calleeFullName(&cl.Call)
			}
			c.check(bad == "", c.Name(g), fmt.Sprintf("loader-error-source#%d", n), c.Pos(r.Pos()), "the loader's error comes from the reader or the replay",
				"the loader can fail with an error from "+bad+": it rejects a log that the reader and the replay accept (for instance the state a torn multi-event write leaves behind), and every command fails from then on")
		}
	}
	if n == 0 {
		c.bad(c.Name(lg), "loader-error-source#0", c.FnPos(lg), "the loader has no failing return: structure not recognised")
	}
}

func ruleRD5(c *Ctx) {
	isEpic := c.F.Anchors["isEpic"]
	n := 0
	// isReady is deliberately evaluated for epic rows as well (buildEpicTree stores it for display); only isBlocked,
	// whose "waits on an unfinished dependency" reading is wrong for epics, is confined to tasks
	for _, name := range []string{"isBlocked"} {
		pred := c.F.Anchors[name]
		if pred == nil {
			continue
		}
		cnt := map[*ssa.Function]int{}
		for _, cs := range c.callers[pred] {
			f := cs.Fn
			if f == pred || c.inUnit(f, pred) {
				continue
			}
			n++
			cnt[f]++
			// the task argument: the first *Task-typed argument
			var arg ssa.Value
			for _, a := range cs.Call.Common().Args {
				if namedTypeName(a.Type()) == "ergo.Task" {
					arg = a
					break
				}
			}
			if arg == nil {
				continue
			}
			ac := c.canon(arg)
			onEpic := edgesWhere(f, func(a Atom, holds bool) bool {
				if a.Kind != "bool" || !holds {
					return false
				}
				if cl, _ := callOf(a.X); cl != nil && isEpic != nil && calleeOf(&cl.Call) == isEpic && len(cl.Call.Args) > 0 && c.canon(cl.Call.Args[0]) == ac {
					return true
				}
				if b, nme, ok := fieldLoad(a.X); ok && nme == "IsEpic" && c.canon(b) == ac {
					return true
				}
				return false
			})
			c.check(len(onEpic) == 0 || !mustPassEdges(f, cs.Call.Block(), onEpic), c.Name(f), fmt.Sprintf("%s-not-on-epic#%d", name, cnt[f]), c.Pos(cs.Call.Pos()),
				name+" is not applied to a value known to be an epic",
				name+" is applied to an epic here: its dependency test reads the dependency's State, which an epic never leaves, so an epic with an epic dependency counts as blocked / not ready forever and its ready tasks drop out of the view")
		}
	}
	if n == 0 {
		c.bad("<module>", "predicate-calls", "-", "no call of isBlocked found")
	}
}

func ruleOU12(c *Ctx) {
	df := c.anchor("deriveFileURL")
	if df == nil {
		return
	}
	bad := ""
	for _, g := range append([]*ssa.Function{df}, c.unitOf(df)...) {
		for _, call := range callsNamed(g, "net/url.Parse", "net/url.ParseRequestURI", "(*net/url.URL).Parse", "(*net/url.URL).UnmarshalBinary") {
			bad = c.Pos(call.Pos())
		}
	}
	c.check(bad == "", c.Name(df), "no-url-parsing", c.FnPos(df), "the file URL is assembled from a url.URL value, never parsed from text",
		"the file URL is obtained by parsing text built from the path (at "+bad+"): `#`, `?` and `%` in a file or directory name are read as URL syntax, so file_url names a different (or no) file than the one whose sha256 was recorded")
	usesStruct := false
	for _, g := range append([]*ssa.Function{df}, c.unitOf(df)...) {
		if len(callsNamed(g, "(*net/url.URL).String", "(net/url.URL).String")) > 0 {
			usesStruct = true
		}
	}
	// the URL is a function of (repoDir, path) alone: nothing in the derivation asks the file system or the process
	// (EvalSymlinks, Abs, Stat, Getwd): file_url is "the URL of the recorded path's absolute spelling", not of whatever
	// that path resolves to at the moment somebody looks
	impure := ""
	for _, g := range append([]*ssa.Function{df}, c.unitOf(df)...) {
		for _, call := range callsIn(g) {
			n := calleeFullName(call.Common())
			if strings.HasPrefix(n, "os.") || strings.HasPrefix(n, "(*os.") || n == "path/filepath.EvalSymlinks" || n == "path/filepath.Abs" || n == "path/filepath.Glob" || n == "path/filepath.Walk" || n == "path/filepath.WalkDir" || strings.HasPrefix(n, "syscall.") {
				impure = n + " at " + c.Pos(call.Pos())
			}
		}
	}
	c.check(impure == "", c.Name(df), "pure-derivation", c.FnPos(df), "the file URL is computed from the project directory and the recorded path alone",
		"the file URL derivation consults the file system or the process ("+impure+"): file_url is no longer the URL of the recorded path under the project root - a symlinked project directory, a symlinked result or a link retargeted later gives a URL outside the root, or one that changes between two reads of the same log")
	c.check(usesStruct, c.Name(df), "url-from-struct", c.FnPos(df), "the URL text is (*url.URL).String() of a value carrying the path as data", "the file URL is not produced by url.URL.String(): path characters are not escaped as data")
	// the bytes of the path are data too: a textual rewrite of the path (strings.ReplaceAll/Replace/Map, a Replacer) is
	// something a POSIX file name does not survive - `a\b.txt` is one name, not a directory and a file. Such a rewrite is
	// acceptable only under a test that establishes what kind of path this is (a Windows drive path); filepath.ToSlash
	// is the platform's own, a no-op where the separator is already '/'
	rewrite := ""
	for _, g := range append([]*ssa.Function{df}, c.unitOf(df)...) {
		for _, call := range callsNamed(g, "strings.ReplaceAll", "strings.Replace", "strings.Map", "(*strings.Replacer).Replace", "strings.Trim", "strings.TrimLeft", "strings.TrimRight", "strings.ToLower", "strings.ToUpper") {
			guarded := false
			for _, bf := range branchFacts(g) {
				if len(bf.A.Env) == 0 && (bf.E.To() == call.Block() || bf.E.To().Dominates(call.Block())) && bf.E.From.Dominates(call.Block()) {
					guarded = true
				}
			}
			curEnv = nil
			if !guarded {
				rewrite = calleeFullName(call.Common()) + " at " + c.Pos(call.Pos())
			}
		}
	}
	c.check(rewrite == "", c.Name(df), "path-bytes-not-rewritten", c.FnPos(df), "no unconditional textual rewrite of the path on the way into the URL",
		"the path is rewritten unconditionally ("+rewrite+") before it becomes the URL: a byte that is part of a file name on this platform (a backslash on POSIX) is turned into something else, and file_url names a different file than the one whose sha256 was recorded")
}

// startDirUses follows the value of the --dir option forward (phis, local variables, helper parameters and results) and
// reports every use other than: a comparison with a constant, boxing for a log/debug message, the start argument of
// the upward search.
func (c *Ctx) startDirUses(src ssa.Value, search *ssa.Function) []string {
	var problems []string
	seen := map[ssa.Value]bool{}
	work := []ssa.Value{src}
	for len(work) > 0 && len(seen) < 400 {
		v := work[0]
		work = work[1:]
		if v == nil || seen[v] {
			continue
		}
		seen[v] = true
		refs := v.Referrers()
		if refs == nil {
			continue
		}
		for _, r := range *refs {
			switch x := r.(type) {
			case *ssa.DebugRef, *ssa.If:
			case *ssa.Phi:
				work = append(work, x)
			case *ssa.MakeInterface:
				// formatted into a message
			case *ssa.Store:
				if x.Val != v {
					continue
				}
				if cell := cellOf(x.Addr); cell != nil {
					for _, ld := range cellLoads(cell) {
						work = append(work, ld)
					}
					continue
				}
				if fa, isFA := x.Addr.(*ssa.FieldAddr); isFA {
					if on, isOpt := optionsFieldAddr(fa); isOpt && on == "StartDir" {
						continue // copied into the options' own start-directory field (a deprecated spelling folded into its group): read again from there
					}
				}
				problems = append(problems, "stored at "+c.Pos(x.Pos()))
			case *ssa.BinOp:
				if x.Op == token.EQL || x.Op == token.NEQ {
					continue
				}
				problems = append(problems, "operator "+x.Op.String()+" at "+c.Pos(x.Pos()))
			case *ssa.Return:
				fn := x.Parent()
				for i, res := range x.Results {
					if res != v {
						continue
					}
					for _, cs := range c.callers[fn] {
						val := cs.Call.Value()
						if val == nil {
							continue
						}
						if len(x.Results) == 1 {
							work = append(work, val)
							continue
						}
						for _, rr := range *val.Referrers() {
							if ex, ok := rr.(*ssa.Extract); ok && ex.Index == i {
								work = append(work, ex)
							}
						}
					}
				}
			case ssa.CallInstruction:
				cal := calleeOf(x.Common())
				for i, a := range x.Common().Args {
					if a != v {
						continue
					}
					if cal != nil && cal == search && i == 0 {
						continue
					}
					if cal != nil && c.InModule(cal) && cal.Blocks != nil && i < len(cal.Params) {
						work = append(work, cal.Params[i])
						continue
					}
					problems = append(problems, "handed to "+calleeFullName(x.Common())+" at "+c.Pos(x.Pos()))
				}
			default:
				problems = append(problems, fmt.Sprintf("used by %T at %s", r, c.Pos(r.Pos())))
			}
		}
	}
	return problems
}

// probeErrorsReported (a clause of ST4): the upward search may walk past a level only when the probe said "nothing
// there". A probe that failed for another reason - EACCES on the nearer .ergo, EIO on a dead mount - must end the
// search with that error; taking it for "not here" makes every command silently use an outer project's store. So for
// every os.Stat/Lstat in the search there is a test errors.Is(<that call's own error>, os.ErrNotExist) (or
// os.IsNotExist of it) whose false edge leads only to failing returns.
func (c *Ctx) probeErrorsReported(red *ssa.Function) {
	k := 0
	for _, g := range append([]*ssa.Function{red}, c.unitOf(red)...) {
		for _, call := range callsNamed(g, "os.Stat", "os.Lstat") {
			cv, ok := call.(*ssa.Call)
			if !ok {
				continue
			}
			k++
			var errv ssa.Value
			if refs := cv.Referrers(); refs != nil {
				for _, r := range *refs {
					if ex, ok := r.(*ssa.Extract); ok && ex.Index == 1 {
						errv = ex
					}
				}
			}
			okProbe := false
			for _, bf := range branchFacts(g) {
				if len(bf.A.Env) != 0 || bf.A.Kind != "bool" || bf.Holds || errv == nil {
					continue
				}
				cl, _ := callOf(bf.A.X)
				if cl == nil {
					continue
				}
				n := calleeFullName(&cl.Call)
				isNotExist := n == "os.IsNotExist" && len(cl.Call.Args) == 1 || n == "errors.Is" && len(cl.Call.Args) == 2 && isGlobalLoad(cl.Call.Args[1], "ErrNotExist")
				if !isNotExist || !(resolve(cl.Call.Args[0]) == resolve(errv) || holdsValue(cl.Call.Args[0], errv)) {
					continue
				}
				// the "some other error" edge only fails
				failing := true
				for b := range reach(bf.E.To(), nil, nil) {
					for _, in := range b.Instrs {
						if r, ok := in.(*ssa.Return); ok && !c.definitelyFails(g, r) {
							failing = false
						}
					}
				}
				// (the edge may rejoin the loop only through failing returns: a back edge to the walk means "keep going")
				if failing {
					okProbe = true
				}
			}
			curEnv = nil
			c.check(okProbe, c.Name(g), fmt.Sprintf("probe-error-reported#%d", k), c.Pos(cv.Pos()),
				"a probe that fails for a reason other than not-exist ends the search with an error",
				"the error of this probe is never tested against os.ErrNotExist with the other errors ending the search (the test that is there looks at another variable, or every failure is taken for `nothing here`): when the nearer .ergo cannot be examined (permission denied, I/O error) the walk goes on upwards and the command silently operates on an enclosing project's store")
		}
	}
}
