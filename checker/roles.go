package main

// Role fingerprints: the rules address domain functions by name (isReady, appendEvents, ...). A maintainer may
// rename an unexported function; to keep the rules attached to the right code, every package-level function of
// internal/ergo has a recorded fingerprint (types-only signature + a set of structural features: external callees,
// string constants, struct fields touched, globals read). When a name is missing, the unique unclaimed function with
// the same signature and a sufficiently similar feature set takes over the role. No match => the anchor stays
// missing and the rules that need it report undecided.

import (
	"encoding/json"
	"fmt"
	"go/constant"
	"os"
	"sort"
	"strings"

	"golang.org/x/tools/go/ssa"
)

type roleFingerprint struct {
	Sig      string   `json:"sig"`
	Features []string `json:"features"`
}

func computeFeatures(p *Prog, fn *ssa.Function, isRole func(string) bool) []string {
	set := map[string]bool{}
	seen := map[*ssa.Function]bool{}
	var visit func(f *ssa.Function, depth int)
	visit = func(f *ssa.Function, depth int) {
		if seen[f] || depth > 3 {
			return
		}
		seen[f] = true
		for _, g := range append([]*ssa.Function{f}, Closures(f)...) {
			eachInstr(g, func(r instrRef) {
				if call, ok := r.In.(ssa.CallInstruction); ok {
					cal := call.Common().StaticCallee()
					if cal == nil || !p.InModule(cal) {
						n := calleeFullName(call.Common())
						if n != "dynamic" {
							set["ext:"+n] = true
						}
					} else if cal.Parent() == nil && cal.Pkg == p.Ergo {
						// (methods are looked into as well - a store object whose methods forward to the storage
						// functions - but only plain functions are roles)
						if cal.Signature.Recv() == nil && isRole(cal.Name()) {
							set["call:"+cal.Name()] = true
						}
						// callee bodies count as the caller's (to a bounded depth): extracting or inlining a helper keeps the set
						visit(cal, depth+1)
					}
				}
				for _, op := range r.In.Operands(nil) {
					switch x := (*op).(type) {
					case *ssa.Const:
						if x.Value != nil && x.Value.Kind() == constant.String {
							s := constant.StringVal(x.Value)
							if len(s) > 0 && len(s) <= 48 {
								set["const:"+s] = true
							}
						}
					case *ssa.Global:
						set["glob:"+x.Name()] = true
					}
				}
				switch x := r.In.(type) {
				case *ssa.FieldAddr:
					set["field:"+namedTypeName(x.X.Type())+"."+fieldName(x.X.Type(), x.Field)] = true
				case *ssa.Field:
					set["field:"+namedTypeName(x.X.Type())+"."+fieldName(x.X.Type(), x.Field)] = true
				}
			})
		}
	}
	visit(fn, 0)
	for _, cs := range p.callers[fn] {
		o := Outermost(cs.Fn)
		if o.Pkg == p.Ergo && o.Signature.Recv() == nil && isRole(o.Name()) {
			set["by:"+o.Name()] = true
		}
	}
	var out []string
	for k := range set {
		out = append(out, k)
	}
	sort.Strings(out)
	return out
}

func dumpRoles(p *Prog, path string) error {
	out := map[string]roleFingerprint{}
	for _, fn := range p.Fns {
		if fn.Parent() != nil || fn.Pkg != p.Ergo || fn.Signature.Recv() != nil || fn.Name() == "init" {
			continue
		}
		out[fn.Name()] = roleFingerprint{Sig: typesOnly(fn.Signature.String()), Features: computeFeatures(p, fn, func(string) bool { return true })}
	}
	// methods present on this tree (so that a later function->method conversion can be told from an old method)
	for _, fn := range p.Fns {
		if fn.Parent() == nil && fn.Pkg == p.Ergo && fn.Signature.Recv() != nil && fn.Synthetic == "" {
			out["method:"+p.Name(fn)] = roleFingerprint{Sig: flatSig(fn)}
		}
	}
	data, err := json.MarshalIndent(out, "", " ")
	if err != nil {
		return err
	}
	return os.WriteFile(path, data, 0o644)
}

// flatSig: types-only signature with a method's receiver as first parameter.
func flatSig(fn *ssa.Function) string {
	sig := typesOnly(fn.Signature.String())
	if r := fn.Signature.Recv(); r != nil {
		rt := r.Type().String()
		if strings.HasPrefix(sig, "func()") {
			return "func(" + rt + ")" + sig[len("func()"):]
		}
		return "func(" + rt + "," + sig[len("func("):]
	}
	return sig
}

// methodKnown: the method is listed in the recorded fingerprints' method set (methods present on the fingerprinted tree).
func (p *Prog) methodKnown(fn *ssa.Function) bool {
	return p.knownMethods[p.Name(fn)]
}

func jaccard(a, b []string) float64 {
	sa := map[string]bool{}
	for _, x := range a {
		sa[x] = true
	}
	inter, union := 0, len(sa)
	for _, x := range b {
		if sa[x] {
			inter++
		} else {
			union++
		}
	}
	if union == 0 {
		return 1
	}
	return float64(inter) / float64(union)
}

// resolveRenamedRoles registers aliases in p.byName for recorded role names that no longer exist by name.
func resolveRenamedRoles(p *Prog, rolesPath string) []string {
	data, err := os.ReadFile(rolesPath)
	if err != nil {
		return nil
	}
	var roles map[string]roleFingerprint
	if json.Unmarshal(data, &roles) != nil {
		return nil
	}
	p.knownMethods = map[string]bool{}
	p.roleNames = map[string]bool{}
	for k := range roles {
		p.roleNames[k] = true
	}
	for k := range roles {
		if strings.HasPrefix(k, "method:") {
			p.knownMethods[strings.TrimPrefix(k, "method:")] = true
			delete(roles, k)
		}
	}
	// unclaimed candidates: package-level functions whose own name is not a recorded role
	var cands []*ssa.Function
	for _, fn := range p.Fns {
		if fn.Parent() != nil || fn.Pkg != p.Ergo || fn.Synthetic != "" {
			continue
		}
		if fn.Signature.Recv() != nil {
			// a function turned into a method of the type it works on is still a candidate, unless the method existed before
			if p.methodKnown(fn) {
				continue
			}
			cands = append(cands, fn)
			continue
		}
		if _, known := roles[fn.Name()]; !known {
			cands = append(cands, fn)
		}
	}
	isRole := func(n string) bool {
		_, ok := roles[n]
		return ok && p.byName["ergo."+n] != nil
	}
	var notes []string
	var names []string
	for n := range roles {
		names = append(names, n)
	}
	sort.Strings(names)
	taken := map[*ssa.Function]bool{}
	for _, name := range names {
		if p.byName["ergo."+name] != nil {
			continue
		}
		fp := roles[name]
		var best *ssa.Function
		bestS, secondS := 0.0, 0.0
		for _, fn := range cands {
			if taken[fn] {
				continue
			}
			s := jaccard(fp.Features, computeFeatures(p, fn, isRole))
			if fn.Name() == name && fn.Signature.Recv() != nil {
				s += 0.3 // the function became a method of the same name
			} else if flatSig(fn) == fp.Sig {
				s += 0.2
			} else if s < 0.7 {
				continue // a different signature needs a much closer body
			}
			if s > bestS {
				best, secondS, bestS = fn, bestS, s
			} else if s > secondS {
				secondS = s
			}
		}
		if best != nil && bestS >= 0.6 && bestS-secondS >= 0.15 {
			taken[best] = true
			p.byName["ergo."+name] = best
			p.roleOf[best] = name
			for _, c := range Closures(best) {
				p.byName[p.Name(c)] = c
			}
			notes = append(notes, name+" -> "+best.Name()+" (renamed; fingerprint similarity "+fmt.Sprintf("%.2f", bestS)+", +0.2 when the signature is unchanged)")
		}
	}
	// a role merged into its only caller (createTaskWithDir inlined into createTask): the caller now plays both roles
	for _, name := range names {
		if p.byName["ergo."+name] != nil {
			continue
		}
		fp := roles[name]
		var by []string
		for _, f := range fp.Features {
			if strings.HasPrefix(f, "by:") {
				by = append(by, strings.TrimPrefix(f, "by:"))
			}
		}
		if len(by) != 1 {
			continue
		}
		host := p.byName["ergo."+by[0]]
		if host == nil || host.Parent() != nil {
			continue
		}
		cur := map[string]bool{}
		for _, f := range computeFeatures(p, host, isRole) {
			cur[f] = true
		}
		if cur["call:"+name] {
			continue
		}
		in, total := 0, 0
		for _, f := range fp.Features {
			if strings.HasPrefix(f, "by:") {
				continue
			}
			total++
			if cur[f] {
				in++
			}
		}
		if total == 0 || float64(in)/float64(total) < 0.85 {
			continue
		}
		p.byName["ergo."+name] = host
		if p.inlinedInto == nil {
			p.inlinedInto = map[string]string{}
		}
		p.inlinedInto[name] = host.Name()
		notes = append(notes, name+" -> "+host.Name()+fmt.Sprintf(" (inlined into its only caller; %d of %d recorded features found there)", in, total))
	}
	return notes
}

// aliasKey rewrites an obligation key recorded for a function that has since been inlined into its only caller (known
// findings are keyed by function): "RD3|ergo.createTaskWithDir$1|..." -> "RD3|ergo.createTask$1|...".
func (p *Prog) aliasKey(key string) string {
	for from, to := range p.inlinedInto {
		for _, sep := range []string{"|", "$"} {
			key = strings.ReplaceAll(key, "|ergo."+from+sep, "|ergo."+to+sep)
		}
	}
	return key
}
