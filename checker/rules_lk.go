package main

// Lock-discipline rules LK1..LK7 (DESIGN.md section 4).

import (
	"fmt"
	"go/token"
	"go/types"
	"strings"

	"golang.org/x/tools/go/ssa"
)

func init() {
	register(&Rule{ID: "LK1", Min: 6, Run: ruleLK1,
		Doc: "lock-primitive typestate: in the function that acquires flock and invokes its callback parameter: (a) exactly one acquiring Flock whose op is param|LOCK_NB; (b) EWOULDBLOCK/EAGAIN maps to ErrLockBusy and the callback is unreachable from the Flock-error edge; (c) the callback call is dominated by the Flock-success edge on the fd opened from the path parameter; (d) no non-deferred unlock/close between acquire and callback; (e) a missing lock file is recreated by a non-destructive creator and re-opened (or created and opened in one step by os.OpenFile with O_CREATE and no O_TRUNC); (f) the callback's error is the function's result; (g) the lock file is never removed, truncated or renamed over. The descriptor may also be int(file.Fd()) of an *os.File opened from the path parameter, provided Fd() is taken in the primitive itself and the file object is still used after the callback (a deferred Close, a KeepAlive): a file object that becomes unreachable is finalized at the next garbage collection, its descriptor closed and the flock released in the middle of the critical section"})
	register(&Rule{ID: "LK2", Min: 3, Run: ruleLK2,
		Doc: "lock-call-args: every call of the lock primitive passes the constant LOCK_EX, a path that is filepath.Join(D,\"lock\"), and every loader/commit call inside its callback works on the log chosen for the same directory D"})
	register(&Rule{ID: "LK3", Min: 2, Run: ruleLK3,
		Doc: "mutations-under-lock: with the edges lock-primitive->callback removed from the call graph, no content-mutating file operation on a LOG-class path is reachable from any entry point or exported function"})
	register(&Rule{ID: "LK4", Min: 3, Run: ruleLK4,
		Doc: "read-inside-lock: in every lock callback that can commit, a loader call inside the callback dominates every commit call; no captured variable carrying graph/task/event data (by type or by derivation from a loader) is read inside the callback before being written there; the callback operand is a closure or named function"})
	register(&Rule{ID: "LK5", Min: 3, Run: ruleLK5,
		Doc: "single-commit-per-command: on every path of every entry point at most one commit (append-open, rename onto the log, or other visible mutation of a LOG path) executes; a commit in a CFG cycle counts as unbounded; reported at the innermost function whose own call sites exceed one. An identity rewrite - the replace primitive handed exactly what readEvents just returned for the same path (a tail repair) - changes nothing a reader can see and is not counted"})
	register(&Rule{ID: "LK6", Min: 3, Run: ruleLK6,
		Doc: "no-async / no-abort: no go statement, no timer callback or signal handler (time.AfterFunc, signal.Notify), no os/exec, raw syscalls, unsafe or cgo anywhere in the module; no os.Exit, log.Fatal or explicit panic in internal/ergo"})
	register(&Rule{ID: "LK7", Min: 2, Run: ruleLK7,
		Doc: "readers-lock-free: list, show, where and quickstart cannot reach the lock primitive or flock"})
}

// ------------------------------------------------------------------ LK1

// ruleLK1: the typestate is owed by every function that acquires the flock and runs a callback under it - a second
// primitive next to the first (a waiting variant selected by a setting) is held to the same standard.
func ruleLK1(c *Ctx) {
	if len(c.F.LockPrims) <= 1 {
		ruleLK1one(c, true)
		return
	}
	saved := c.F.LockPrim
	for i, lp := range c.F.LockPrims {
		c.F.LockPrim = lp
		ruleLK1one(c, i == 0)
	}
	c.F.LockPrim = saved
}

func ruleLK1one(c *Ctx, first bool) {
	lp := c.F.LockPrim
	if lp == nil {
		c.unk("<module>", "lock-primitive", "-", "no lock primitive found: "+strings.Join(c.F.Problems, "; "))
		return
	}
	name := c.Name(lp)
	LOCK_UN, LOCK_NB := c.F.sysConst["LOCK_UN"], c.F.sysConst["LOCK_NB"]
	var acquires []ssa.CallInstruction
	for _, call := range callsNamed(lp, "syscall.Flock") {
		if op, ok := constInt(call.Common().Args[1]); ok && op == LOCK_UN {
			continue
		}
		acquires = append(acquires, call)
	}
	// the acquiring Flock may live in a small wrapper (tryFlock(fd, lockType) error): `raw` is the Flock call itself,
	// rawFn the function it is in, rawEnv binds the wrapper's parameters to the arguments of its call in lp
	rawOf := map[ssa.CallInstruction]*ssa.Call{}
	for _, call := range callsIn(lp) {
		if h := calleeOf(call.Common()); h != nil && c.InModule(h) {
			if raw := c.F.acquireWrapper(h); raw != nil {
				acquires = append(acquires, call)
				rawOf[call] = raw
			}
		}
	}
	// callback invocation(s)
	var cbCalls []ssa.CallInstruction
	var cbParam *ssa.Parameter
	for _, call := range callsIn(lp) {
		if prm, ok := call.Common().Value.(*ssa.Parameter); ok && !call.Common().IsInvoke() {
			if _, isSig := prm.Type().Underlying().(*types.Signature); isSig {
				cbCalls = append(cbCalls, call)
				cbParam = prm
			}
		}
	}
	_ = cbParam
	// (a)
	if len(acquires) != 1 {
		c.bad(name, "a:single-nonblocking-acquire", c.FnPos(lp), fmt.Sprintf("%d acquiring Flock calls, expected exactly 1", len(acquires)))
	} else {
		acq := acquires[0]
		rawEnv := env{}
		var rawArgs []ssa.Value = acq.Common().Args
		if raw := rawOf[acq]; raw != nil {
			h := raw.Parent()
			for i, prm := range h.Params {
				if i < len(acq.Common().Args) {
					rawEnv[prm] = acq.Common().Args[i]
				}
			}
			rawArgs = raw.Call.Args
		}
		op := resolve(rawArgs[1])
		okNB := false
		why := ""
		switch x := op.(type) {
		case *ssa.BinOp:
			if x.Op == token.OR {
				var other ssa.Value
				if k, ok := constInt(x.Y); ok && k&LOCK_NB != 0 {
					other = x.X
				} else if k, ok := constInt(x.X); ok && k&LOCK_NB != 0 {
					other = x.Y
				}
				if other != nil {
					if prm, isParam := resolveEnv(other, rawEnv).(*ssa.Parameter); isParam && prm.Parent() == lp {
						okNB = true
					} else if k, ok := constInt(resolveEnv(other, rawEnv)); ok && k != LOCK_UN {
						okNB = true
					} else {
						why = "lock type operand is neither the lock-type parameter nor a constant"
					}
				} else {
					why = "op is an OR without the LOCK_NB bit"
				}
			} else {
				why = "op is not lockType|LOCK_NB"
			}
		case *ssa.Const:
			if k, ok := constInt(x); ok && k&LOCK_NB != 0 {
				okNB = true
			} else {
				why = "constant op lacks LOCK_NB: the acquisition blocks"
			}
		default:
			why = "op is not lockType|LOCK_NB (blocking acquisition possible)"
		}
		c.check(okNB, name, "a:single-nonblocking-acquire", c.Pos(acq.Pos()), "one Flock(fd, lockType|LOCK_NB)", why)
	}
	if len(acquires) != 1 || len(cbCalls) != 1 {
		c.bad(name, "c:callback-after-acquire", c.FnPos(lp), fmt.Sprintf("%d acquires, %d callback invocations: typestate not analysable", len(acquires), len(cbCalls)))
		return
	}
	acq, cb := acquires[0].(*ssa.Call), cbCalls[0]
	if acq == nil {
		c.bad(name, "c:callback-after-acquire", c.FnPos(lp), "acquire is deferred or spawned")
		return
	}
	// the Flock call itself and the function it lives in
	raw, rawFn := acq, lp
	if r := rawOf[acquires[0]]; r != nil {
		raw, rawFn = r, r.Parent()
		// wrapper soundness: it reports success only when Flock succeeded
		rawOK := edgesWhere(rawFn, func(a Atom, holds bool) bool {
			return a.Kind == "nil" && strip(a.X) == ssa.Value(raw) && holds
		})
		sound := true
		for _, r := range c.nonFailingReturns(rawFn) {
			if !mustPassEdges(rawFn, r.Block(), rawOK) {
				sound = false
			}
		}
		c.check(sound, name, "c:acquire-wrapper-faithful", c.Pos(raw.Pos()), c.Name(rawFn)+" returns nil only on the Flock-success edge",
			c.Name(rawFn)+" can return nil although Flock failed: the callback would run without the lock")
	}
	// (b) busy mapping
	errEdges := edgesWhere(lp, func(a Atom, holds bool) bool {
		return a.Kind == "nil" && strip(a.X) == ssa.Value(acq) && !holds
	})
	okEdges := edgesWhere(lp, func(a Atom, holds bool) bool {
		return a.Kind == "nil" && strip(a.X) == ssa.Value(acq) && holds
	})
	cbReachFromErr := false
	for e := range errEdges {
		if reach(e.To(), nil, nil)[cb.Block()] {
			cbReachFromErr = true
		}
	}
	busyOK := false
	isBusyTest := func(a Atom) bool {
		call, _ := callOf(a.X)
		if call == nil || calleeFullName(&call.Call) != "errors.Is" {
			return false
		}
		if resolveEnv(strip(call.Call.Args[0]), a.Env) != ssa.Value(raw) && strip(resolveEnv(call.Call.Args[0], a.Env)) != ssa.Value(raw) && !holdsValue(resolveEnv(call.Call.Args[0], a.Env), raw) {
			return false
		}
		return strings.Contains(call.Call.Args[1].Type().String(), "error")
	}
	for _, bf := range branchFacts(rawFn) {
		if bf.Derived || !bf.Holds {
			continue
		}
		ok := bf.A.Kind == "bool" && isBusyTest(bf.A)
		if !ok && len(bf.Alts) > 0 {
			// a predicate helper: every way it returns true tests errors.Is(flockErr, ...)
			ok = true
			for _, alt := range bf.Alts {
				any := false
				for _, fa := range alt {
					if fa.Holds && fa.A.Kind == "bool" && isBusyTest(fa.A) {
						any = true
					}
				}
				if !any {
					ok = false
				}
			}
		}
		if !ok {
			continue
		}
		// the true edge must lead to a block returning the sentinel
		for _, in := range bf.E.To().Instrs {
			if u, ok := in.(*ssa.UnOp); ok && u.Op == token.MUL {
				if g, ok := u.X.(*ssa.Global); ok && g.Name() == "ErrLockBusy" {
					busyOK = true
				}
			}
		}
	}
	c.check(len(errEdges) > 0 && !cbReachFromErr && busyOK, name, "b:busy-is-failfast", c.Pos(acq.Pos()),
		"Flock error never reaches the callback; errors.Is(err, EWOULDBLOCK|EAGAIN) returns ErrLockBusy",
		fmt.Sprintf("errEdges=%d callbackReachableFromErrorEdge=%v busySentinel=%v", len(errEdges), cbReachFromErr, busyOK))
	// (c) callback dominated by success edge, same fd, fd from Open(path param)
	dom := mustPassEdges(lp, cb.Block(), okEdges)
	fdOK, fdWhy := true, ""
	fdArg := acq.Call.Args[0]
	if raw != acq {
		// the wrapper's descriptor parameter, as bound at its call in lp
		if prm, ok := resolve(raw.Call.Args[0]).(*ssa.Parameter); ok && paramIndex(prm) < len(acq.Call.Args) {
			fdArg = acq.Call.Args[paramIndex(prm)]
		}
	}
	var fdCell *ssa.Alloc
	if u, ok := fdArg.(*ssa.UnOp); ok && u.Op == token.MUL {
		fdCell = cellOf(u.X)
	}
	// the opens the descriptor comes from (for (e): a create-open recreates a missing lock file in the same step)
	var lockOpens []*ssa.Call
	var checkOpenIn func(v ssa.Value, pathOK func(ssa.Value) bool, depth int)
	// fileOrigin: an *os.File handed back by os.OpenFile/os.Open(path) directly or by a helper every success return of
	// which does that with its own path parameter
	var fileOrigin func(v ssa.Value, pathOK func(ssa.Value) bool, depth int) bool
	fileOrigin = func(v ssa.Value, pathOK func(ssa.Value) bool, depth int) bool {
		call, _ := callOf(resolve(v))
		if call == nil {
			return false
		}
		switch calleeFullName(&call.Call) {
		case "os.OpenFile", "os.Open":
			if !pathOK(call.Call.Args[0]) {
				return false
			}
			lockOpens = append(lockOpens, call)
			return true
		}
		h := calleeOf(&call.Call)
		if h == nil || !c.InModule(h) || h.Blocks == nil || depth > 1 || len(call.Call.Args) == 0 || !pathOK(call.Call.Args[0]) {
			return false
		}
		n := 0
		for _, r := range c.nonFailingReturns(h) {
			if len(r.Results) < 1 {
				continue
			}
			n++
			vals := []ssa.Value{returnedValue(r, 0)}
			if ph, ok := vals[0].(*ssa.Phi); ok {
				vals = ph.Edges
			}
			for _, x := range vals {
				if !fileOrigin(x, func(pv ssa.Value) bool {
					prm, ok := resolve(pv).(*ssa.Parameter)
					return ok && prm.Parent() == h && paramIndex(prm) == 0
				}, depth+1) {
					return false
				}
			}
		}
		return n > 0
	}
	checkOpenIn = func(v ssa.Value, pathOK func(ssa.Value) bool, depth int) {
		// int(file.Fd()): the descriptor of an *os.File. It is the file object that owns it: when the object becomes
		// unreachable its finalizer closes the descriptor at the next garbage collection, and closing the only descriptor
		// of the open file description drops the flock - in the middle of the critical section
		sv := strip(v)
		if cv, ok := sv.(*ssa.Convert); ok {
			sv = strip(cv.X)
		}
		if fdc, ok := sv.(*ssa.Call); ok && calleeFullName(&fdc.Call) == "(*os.File).Fd" {
			file := fdc.Call.Args[0]
			if !fileOrigin(file, pathOK, depth) {
				fdOK, fdWhy = false, "the lock descriptor is the Fd() of a file not opened from the path parameter"
				return
			}
			if fdc.Parent() != lp {
				fdOK, fdWhy = false, "the lock descriptor is taken with Fd() from an *os.File inside "+c.Name(fdc.Parent())+" and only the integer is handed back: the file object is unreachable from then on, its finalizer closes the descriptor at the next garbage collection and the flock is released in the middle of the critical section"
				return
			}
			alive := false
			for _, u := range handleUsers(resolve(file)) {
				switch {
				case u == ssa.Instruction(fdc):
				case u.Parent() == lp:
					if _, isDefer := u.(*ssa.Defer); isDefer {
						alive = true // e.g. defer file.Close(): the defer record keeps the object reachable until lp returns
					} else if u.Block() != nil && reach(cb.Block(), nil, nil)[u.Block()] && (u.Block() != cb.Block() || instrIndex(u) > instrIndex(cb)) {
						alive = true
					}
				case u.Parent() != nil && u.Parent().Parent() == lp:
					alive = true // used by a closure of lp (a deferred clean-up)
				}
			}
			if !alive {
				fdOK, fdWhy = false, "the *os.File owning the lock descriptor is not used after the callback (no deferred Close, no KeepAlive): once unreachable its finalizer closes the descriptor at the next garbage collection and the flock is released in the middle of the critical section"
			}
			return
		}
		call, idx := callOf(v)
		if call == nil || idx != 0 {
			fdOK, fdWhy = false, "fd is not the result of syscall.Open"
			return
		}
		if calleeFullName(&call.Call) == "syscall.Open" {
			if !pathOK(call.Call.Args[0]) {
				fdOK, fdWhy = false, "fd opened from something other than the path parameter"
			}
			return
		}
		// a helper that opens the lock file: every fd it hands back on success comes from syscall.Open(its path parameter)
		h := calleeOf(&call.Call)
		if h == nil || !c.InModule(h) || h.Blocks == nil || depth > 1 || len(call.Call.Args) == 0 || !pathOK(call.Call.Args[0]) {
			fdOK, fdWhy = false, "fd is not the result of syscall.Open"
			return
		}
		n := 0
		for _, r := range successReturns(h) {
			if len(r.Results) < 1 {
				continue
			}
			n++
			rv := r.Results[0]
			vals := []ssa.Value{rv}
			if ph, ok := rv.(*ssa.Phi); ok {
				vals = ph.Edges
			}
			if u, ok := rv.(*ssa.UnOp); ok && u.Op == token.MUL {
				if cell := cellOf(u.X); cell != nil {
					vals = nil
					for _, st := range cellStores(cell) {
						vals = append(vals, st.Val)
					}
				}
			}
			for _, x := range vals {
				checkOpenIn(x, func(pv ssa.Value) bool {
					prm, ok := resolve(pv).(*ssa.Parameter)
					return ok && prm.Parent() == h && paramIndex(prm) == 0
				}, depth+1)
			}
		}
		if n == 0 {
			fdOK, fdWhy = false, "the lock-file helper has no success return"
		}
	}
	checkOpen := func(v ssa.Value) {
		checkOpenIn(v, func(pv ssa.Value) bool { _, isParam := resolve(pv).(*ssa.Parameter); return isParam }, 0)
	}
	if fdCell != nil {
		for _, st := range cellStores(fdCell) {
			checkOpen(st.Val)
		}
	} else {
		checkOpen(fdArg)
	}
	c.check(dom && fdOK, name, "c:callback-after-acquire", c.Pos(cb.Pos()),
		"callback runs only on the Flock-success edge, on the fd opened from the path parameter",
		fmt.Sprintf("dominatedBySuccessEdge=%v fd:%s", dom, fdWhy))
	// (d) no early release
	early := ""
	for _, call := range callsIn(lp) {
		if _, isDefer := call.(*ssa.Defer); isDefer {
			continue
		}
		n := calleeFullName(call.Common())
		isRelease := n == "syscall.Close"
		if n == "(*os.File).Close" {
			for _, oc := range lockOpens {
				if fv, _ := callOf(resolve(call.Common().Args[0])); fv == oc {
					isRelease = true
				}
			}
		}
		if n == "syscall.Flock" {
			if op, ok := constInt(call.Common().Args[1]); ok && op == LOCK_UN {
				isRelease = true
			}
		}
		if isRelease && canReachInstr(acq, call) && canReachInstr(call, cb) {
			early = c.Pos(call.Pos())
		}
	}
	c.check(early == "", name, "d:no-early-release", c.Pos(cb.Pos()), "unlock/close happen only in deferred calls", "lock released at "+early+" before the callback runs")
	// (e) missing lock file recreated non-destructively
	recreated, reopen := false, false
	var why []string
	for _, lpu := range c.unitOf(lp) {
		for _, bf := range directFacts(lpu) {
			if bf.A.Kind != "bool" || !bf.Holds {
				continue
			}
			call, _ := callOf(bf.A.X)
			if call == nil {
				continue
			}
			if n := calleeFullName(&call.Call); n != "os.IsNotExist" && !(n == "errors.Is") {
				continue
			}
			region := reach(bf.E.To(), nil, nil)
			for _, cc := range callsIn(lpu) {
				if !region[cc.Block()] {
					continue
				}
				if cal := calleeOf(cc.Common()); cal != nil && c.InModule(cal) {
					// creator helper: transitive effects must be non-destructive and must create
					creates, destroys := false, ""
					for g := range c.F.TransitiveCallees(cal) {
						for _, e := range c.F.Effects {
							if e.Fn != g {
								continue
							}
							if e.Class == "create-open" {
								creates = true
							}
							if contentMutator(e.Class) {
								destroys = e.Class + " at " + c.Pos(e.Call.Pos())
							}
						}
					}
					if creates && destroys == "" {
						recreated = true
					} else if destroys != "" {
						why = append(why, "creator "+c.Name(cal)+" can destroy content: "+destroys)
					}
				}
				if calleeFullName(cc.Common()) == "syscall.Open" && cc.Block() != lpu.Blocks[0] {
					reopen = true
				}
			}
		}
	}
	for _, oc := range lockOpens {
		// os.OpenFile(path, O_RDONLY|O_CREATE, mode): created when missing and opened in one step, never truncated
		if e := c.F.byCall[oc]; e != nil && e.Class == "create-open" {
			recreated, reopen = true, true
		}
	}
	c.check(recreated && reopen, name, "e:recreate-missing-lockfile", c.FnPos(lp),
		"missing lock file is created without truncation and re-opened", fmt.Sprintf("recreated=%v reopened=%v %s", recreated, reopen, strings.Join(why, "; ")))
	// (f) callback error is the result
	resOK := false
	cbv, _ := cb.(*ssa.Call)
	if cbv != nil {
		blk := cb.Block()
		if r, ok := blk.Instrs[len(blk.Instrs)-1].(*ssa.Return); ok && len(r.Results) == 1 {
			if strip(r.Results[0]) == ssa.Value(cbv) || strip(returnedValue(r, 0)) == ssa.Value(cbv) {
				resOK = true
			} else if u, ok := r.Results[0].(*ssa.UnOp); ok && u.Op == token.MUL {
				// last store to the result cell in this block before the return
				var last *ssa.Store
				for _, in := range blk.Instrs {
					if st, ok := in.(*ssa.Store); ok && st.Addr == u.X {
						last = st
					}
				}
				if last != nil && strip(last.Val) == ssa.Value(cbv) {
					resOK = true
				}
			}
		}
	}
	c.check(resOK, name, "f:callback-error-propagates", c.Pos(cb.Pos()), "the callback's error is returned", "the callback's error is not the function's result")
	if !first {
		return
	}
	// (g) the lock file keeps its inode: a flock belongs to the file that was opened, so whoever removes, renames over or
	// recreates .ergo/lock by another name hands the next command a different file to lock while a holder of the old one
	// is still inside its critical section
	nrep := 0
	for _, e := range c.F.Effects {
		if e.Path == nil {
			continue
		}
		switch e.Class {
		case "remove", "rename", "truncate", "link":
		default:
			continue
		}
		if !c.pathClass(e.Path)[classLOCK] {
			continue
		}
		nrep++
		c.bad(c.Name(e.Fn), fmt.Sprintf("g:lock-inode-replaced %s#%d", calleeFullName(e.Call.Common()), nrep), c.Pos(e.Call.Pos()),
			"the lock file is removed/replaced ("+e.Class+"): a command already holding its flock keeps the old inode, every later command locks the new one, and both run their critical sections at once")
	}
	// renames whose destination is the lock file
	for _, rs := range c.renameSites() {
		if len(rs.Call.Common().Args) >= 2 && c.pathClass(rs.Call.Common().Args[1])[classLOCK] {
			nrep++
			c.bad(c.Name(rs.Fn), fmt.Sprintf("g:lock-inode-replaced rename-onto#%d", nrep), c.Pos(rs.Call.Pos()),
				"a file is renamed over the lock file: a command already holding its flock keeps the old inode and mutual exclusion is lost")
		}
	}
	c.check(nrep == 0, "<module>", "g:lock-inode-stable", "-", "the lock file is never removed, truncated or renamed over", fmt.Sprintf("%d operations replace the lock file", nrep))
}

// ------------------------------------------------------------------ LK2

// loaderAndCommitNames: module functions taking the log path or the store directory.
func (c *Ctx) isLoader(fn *ssa.Function) bool {
	return fn != nil && (fn == c.F.Anchors["loadGraph"] || fn == c.F.Anchors["readEvents"] || c.loaderKind(fn) != "")
}

// loaderKind: fn belongs to the loader family - a module function handing back a *Graph every non-nil value of which is
// read off replayEvents of readEvents' result (directly, or through another member): loadGraph(dir) and whatever it is
// split into (loadGraphFrom(logPath)). "dir" when the member chooses the log file for a directory itself, "path" when it
// is handed the log path, "" for everything else.
func (c *Ctx) loaderKind(fn *ssa.Function) string {
	if fn == nil || fn.Blocks == nil || !c.InModule(fn) {
		return ""
	}
	if c.loaderMemo == nil {
		c.loaderMemo = map[*ssa.Function]string{}
	}
	if k, ok := c.loaderMemo[fn]; ok {
		return k
	}
	c.loaderMemo[fn] = ""
	res := fn.Signature.Results()
	if res.Len() < 1 || namedTypeName(res.At(0).Type()) != "ergo.Graph" || c.commitFuncs()[fn] {
		return ""
	}
	rd, re := c.F.Anchors["readEvents"], c.F.Anchors["replayEvents"]
	if fn == re || rd == nil || re == nil {
		return ""
	}
	kind := ""
	n := 0
	for _, r := range returnsOf(fn) {
		if len(r.Results) == 0 {
			return ""
		}
		v := resolve(returnedValue(r, 0))
		if isNilConst(v) {
			continue
		}
		n++
		cl, idx := callOf(v)
		if cl == nil || idx > 0 {
			return ""
		}
		cal := calleeOf(&cl.Call)
		switch {
		case cal == re:
			// replayEvents(readEvents(X))
			var src *ssa.Call
			viaLoader := ""
			for _, a := range cl.Call.Args {
				if rc, ri := callOf(resolve(a)); rc != nil && ri <= 0 && calleeOf(&rc.Call) == rd {
					src = rc
				} else if rc != nil {
					if k := c.eventsLoaderKind(calleeOf(&rc.Call)); k != "" {
						src, viaLoader = rc, k
					}
				}
			}
			if src == nil || len(src.Call.Args) == 0 {
				return ""
			}
			if viaLoader == "dir" {
				// replayEvents(loadEvents(dir)): the helper chooses the file for the directory it is handed
				if _, isPrm := resolve(src.Call.Args[0]).(*ssa.Parameter); !isPrm {
					return ""
				}
				kind = "dir"
				continue
			}
			if _, isCh := c.chooserDir(src.Call.Args[0], env{}); isCh {
				kind = "dir"
			} else if _, isPrm := resolve(src.Call.Args[0]).(*ssa.Parameter); isPrm {
				kind = "path"
			} else {
				return ""
			}
		case cal != nil && cal != fn && c.loaderKind(cal) != "":
			inner := c.loaderKind(cal)
			if len(cl.Call.Args) == 0 {
				return ""
			}
			a0 := cl.Call.Args[0]
			if inner == "path" {
				if _, isCh := c.chooserDir(a0, env{}); isCh {
					kind = "dir"
				} else if _, isPrm := resolve(a0).(*ssa.Parameter); isPrm {
					kind = "path"
				} else {
					return ""
				}
			} else {
				if _, isPrm := resolve(a0).(*ssa.Parameter); !isPrm {
					return ""
				}
				kind = "dir"
			}
		default:
			return ""
		}
	}
	if n == 0 {
		return ""
	}
	c.loaderMemo[fn] = kind
	return kind
}

// eventsLoaderKind: h hands back the events read from the log (as one of its results) and nothing else of its own making:
// every non-nil []Event it returns is the result of readEvents(P) with P the chooser's file for its directory parameter
// ("dir") or its path parameter ("path"), and every error it returns is readEvents' (loadEvents(dir) = (path, events, err)).
func (c *Ctx) eventsLoaderKind(h *ssa.Function) string {
	rd := c.F.Anchors["readEvents"]
	if h == nil || h == rd || rd == nil || h.Blocks == nil || !c.InModule(h) || len(h.Params) == 0 || c.commitFuncs()[h] {
		return ""
	}
	res := h.Signature.Results()
	ei := -1
	for i := 0; i < res.Len(); i++ {
		if sl, ok := res.At(i).Type().Underlying().(*types.Slice); ok && namedTypeName(sl.Elem()) == "ergo.Event" {
			ei = i
		}
	}
	if ei < 0 || res.At(res.Len()-1).Type().String() != "error" {
		return ""
	}
	kind := ""
	for _, r := range returnsOf(h) {
		if r.Block().Comment == "recover" || len(r.Results) != res.Len() {
			continue
		}
		// the error: nil, or readEvents' own
		ev := returnedValue(r, res.Len()-1)
		if !isNilConst(ev) {
			for _, sv := range errorSourceValues(r) {
				cl, ok := sv.(*ssa.Call)
				if !ok || calleeOf(&cl.Call) != rd {
					return ""
				}
			}
		}
		v := resolve(returnedValue(r, ei))
		if isNilConst(v) {
			continue
		}
		cl, idx := callOf(v)
		if cl == nil || idx != 0 || calleeOf(&cl.Call) != rd || len(cl.Call.Args) == 0 {
			return ""
		}
		if d, isCh := c.chooserDir(cl.Call.Args[0], env{}); isCh {
			if _, isPrm := resolve(d).(*ssa.Parameter); !isPrm {
				return ""
			}
			kind = "dir"
		} else if _, isPrm := resolve(cl.Call.Args[0]).(*ssa.Parameter); isPrm {
			kind = "path"
		} else {
			return ""
		}
	}
	return kind
}

func ruleLK2(c *Ctx) {
	if c.F.LockPrim == nil {
		c.unk("<module>", "lock-primitive", "-", "no lock primitive")
		return
	}
	commit := c.commitFuncs()
	LOCK_EX := c.F.sysConst["LOCK_EX"]
	for _, ls := range c.F.LockSites {
		fn := c.Name(ls.Fn)
		site := fmt.Sprintf("call withLock#%d", ls.Ordinal)
		pos := c.Pos(ls.Call.Pos())
		args := []ssa.Value{ls.PathArg, ls.TypeArg}
		if ls.PathArg == nil || ls.TypeArg == nil {
			c.unk(fn, site+"|operands", pos, "lock path / lock type operands not identified")
			continue
		}
		// lock type
		lt, ok := constInt(resolveEnv(args[1], ls.WEnv))
		c.check(ok && lt == LOCK_EX, fn, site+"|locktype", pos, "lock type is the constant LOCK_EX",
			fmt.Sprintf("lock type is not LOCK_EX (const=%v value=%d): writers are not mutually excluded", ok, lt))
		// path and directory per context
		for ci, e := range c.contexts(ls.Fn) {
			ctxTag := ""
			if ci > 0 {
				ctxTag = fmt.Sprintf("@ctx%d", ci)
			}
			if len(ls.WEnv) > 0 {
				// through a lock wrapper: its parameters are this call's arguments, themselves read in context e
				ne := env{}
				for k, v := range e {
					ne[k] = v
				}
				for k, v := range ls.WEnv {
					ne[k] = resolveEnv(v, e)
				}
				e = ne
			}
			D, ok := c.joinLockDir(args[0], e)
			if !ok {
				c.bad(fn, site+"|lockpath"+ctxTag, pos, "lock path is not filepath.Join(<dir>, \"lock\"): "+c.canonEnv(args[0], e))
				continue
			}
			dcanon := c.canonEnv(D, e)
			c.ok(fn, site+"|lockpath"+ctxTag, pos, "lock path is Join("+dcanon+", \"lock\")")
			if ls.Callback == nil {
				continue
			}
			// loader / commit calls directly in the callback
			n := 0
			bad := ""
			// the section: the callback and the private helpers its body is split into (their parameters are read
			// through the arguments of the call that enters them)
			type secCall struct {
				call ssa.CallInstruction
				e    env
			}
			var secCalls []secCall
			var visit func(g *ssa.Function, ge env, d int)
			visit = func(g *ssa.Function, ge env, d int) {
				for _, call := range callsIn(g) {
					cal := calleeOf(call.Common())
					if cal == nil || !c.InModule(cal) {
						continue
					}
					isFwd := false
					if tgt, _ := forwardedCall(call.Common()); tgt != nil && (c.isLoader(tgt) || commit[tgt]) {
						isFwd = true // a forwarding method of the store object: the primitive call inside is read with the receiver bound
					}
					if d < 2 && (isFwd || commit[cal] && !c.isLoader(cal) && !c.opaqueHelper(cal) && c.inUnit(cal, ls.Callback) && !c.hasOwnCommitEffect(cal)) {
						ne := env{}
						for k, v := range ge {
							ne[k] = v
						}
						for i, prm := range cal.Params {
							if i < len(call.Common().Args) {
								ne[prm] = resolveEnv(call.Common().Args[i], ge)
							}
						}
						visit(cal, ne, d+1)
						continue
					}
					secCalls = append(secCalls, secCall{call, ge})
				}
			}
			visit(ls.Callback, e, 0)
			for _, sc := range secCalls {
				call, e := sc.call, sc.e
				cal := calleeOf(call.Common())
				if !(c.isLoader(cal) || commit[cal]) || len(call.Common().Args) == 0 {
					continue
				}
				a0 := call.Common().Args[0]
				n++
				if cal == c.F.Anchors["loadGraph"] || c.loaderKind(cal) == "dir" {
					a0v, a0e := c.throughObjectField(a0, e)
					if got := c.canonEnv(a0v, a0e); got != dcanon {
						bad = fmt.Sprintf("%s at %s reads directory %s, lock is on %s", c.Name(cal), c.Pos(call.Pos()), got, dcanon)
					}
					continue
				}
				pd, ok := c.chooserDir(a0, e)
				if !ok {
					if cal.Signature.Params().Len() > 0 && cal.Signature.Params().At(0).Type().String() == "string" {
						bad = fmt.Sprintf("%s at %s: path %s is not the chooser's result for the locked directory", c.Name(cal), c.Pos(call.Pos()), c.canonEnv(a0, e))
					}
					continue
				}
				if got := c.canonEnv(pd, e); got != dcanon {
					bad = fmt.Sprintf("%s at %s works on the log of %s, lock is on %s", c.Name(cal), c.Pos(call.Pos()), got, dcanon)
				}
			}
			c.check(bad == "", fn, site+"|same-store"+ctxTag, pos, fmt.Sprintf("%d loader/commit calls in the callback use the locked directory's log", n), bad)
		}
	}
}

// ------------------------------------------------------------------ LK3

func ruleLK3(c *Ctx) {
	seen, pred := c.F.Reach(c.F.Roots, func(from *ssa.Function, e cgEdge) bool { return e.Kind == "lock-callback" })
	sites := c.logMutatorSites()
	ord := map[string]int{}
	for _, e := range sites {
		k := c.Name(e.Fn) + "|" + e.Class
		ord[k]++
		construct := fmt.Sprintf("%s %s#%d", e.Class, calleeFullName(e.Call.Common()), ord[k])
		cls := "unanalysable"
		if e.Path != nil {
			cls = c.pathClass(e.Path).String()
		}
		if seen[e.Fn] {
			c.bad(c.Name(e.Fn), construct, c.Pos(e.Call.Pos()),
				fmt.Sprintf("content-mutating %s on a %s path is reachable without holding the lock", e.Class, cls), c.PathTo(e.Fn, pred)...)
		} else {
			c.ok(c.Name(e.Fn), construct, c.Pos(e.Call.Pos()), fmt.Sprintf("%s on %s path reachable only through lock callbacks", e.Class, cls))
		}
	}
	// coverage equality: every content mutator is classified LOG/LOCK/OTHER
	n := 0
	for _, e := range c.F.Effects {
		if contentMutator(e.Class) {
			n++
		}
	}
	c.ok("<module>", "classified-mutators", "-", fmt.Sprintf("%d content-mutating call sites in the module, %d on LOG-class paths", n, len(sites)))
}

// ------------------------------------------------------------------ LK4

var graphishTypes = []string{"ergo.Graph", "ergo.Task", "ergo.TaskMeta", "ergo.Event", "ergo.PrunePlan", "ergo.PruneItem", "ergo.Result", "ergo.TombstoneInfo"}

func mentionsGraphish(t types.Type) bool {
	s := strings.ReplaceAll(t.String(), ergoPath, "ergo")
	for _, g := range graphishTypes {
		if strings.Contains(s, g+"]") || strings.Contains(s, g+",") || strings.HasSuffix(s, g) || strings.Contains(s, g+" ") || strings.Contains(s, g+")") || strings.Contains(s, g+"}") {
			return true
		}
	}
	return false
}

// loadsBeforeCommits: h is not itself a write primitive, and every committing call inside it is dominated by a read of
// the log inside it (or happens in a helper for which the same holds).
func (c *Ctx) loadsBeforeCommits(h *ssa.Function, commit map[*ssa.Function]bool, d int) bool {
	if h == nil || h.Blocks == nil || d > 2 || c.opaqueHelper(h) {
		return false
	}
	for _, e := range c.F.Effects {
		if e.Fn == h && commitEffectClass(e.Class) {
			return false // a primitive
		}
	}
	var loads, commits []ssa.CallInstruction
	for _, call := range callsIn(h) {
		cal := calleeOf(call.Common())
		if cal == nil {
			continue
		}
		if c.isLoader(cal) {
			loads = append(loads, call)
		}
		if commit[cal] {
			commits = append(commits, call)
		}
	}
	if len(commits) == 0 {
		return false
	}
	for _, cm := range commits {
		ok := false
		for _, ld := range loads {
			if instrDominates(ld, cm) {
				ok = true
			}
		}
		if !ok && !c.loadsBeforeCommits(calleeOf(cm.Common()), commit, d+1) {
			return false
		}
	}
	return true
}

// readsLogOnSuccess: h is a non-committing module helper with an error result every successful return of which lies behind
// the success of a loader call made in h itself (it cannot succeed without having read the log).
func (c *Ctx) readsLogOnSuccess(h *ssa.Function) bool {
	if h == nil || h.Blocks == nil || !c.InModule(h) || c.commitFuncs()[h] {
		return false
	}
	res := h.Signature.Results()
	if res.Len() == 0 || res.At(res.Len()-1).Type().String() != "error" {
		return false
	}
	pass := map[edge]bool{}
	for _, call := range callsIn(h) {
		cv, ok := call.(*ssa.Call)
		if !ok {
			continue
		}
		if cal := calleeOf(&cv.Call); cal != nil && c.isLoader(cal) {
			for e := range nilErrEdges(h, cv) {
				pass[e] = true
			}
		}
	}
	if len(pass) == 0 {
		return false
	}
	n := 0
	for _, r := range c.nonFailingReturns(h) {
		if r.Block().Comment == "recover" {
			continue
		}
		n++
		if !mustPassEdges(h, r.Block(), pass) {
			return false
		}
	}
	return n > 0
}

// hasOwnCommitEffect: fn itself performs a committing file operation (it is a write primitive, not a section helper).
func (c *Ctx) hasOwnCommitEffect(fn *ssa.Function) bool {
	for _, e := range c.F.Effects {
		if e.Fn == fn && commitEffectClass(e.Class) {
			return true
		}
	}
	return false
}

func ruleLK4(c *Ctx) {
	commit := c.commitFuncs()
	loaders := map[*ssa.Function]bool{}
	for _, n := range []string{"loadGraph", "readEvents", "replayEvents"} {
		if fn := c.F.Anchors[n]; fn != nil {
			loaders[fn] = true
		}
	}
	for _, ls := range c.F.LockSites {
		fn := c.Name(ls.Fn)
		site := fmt.Sprintf("call withLock#%d", ls.Ordinal)
		pos := c.Pos(ls.Call.Pos())
		if ls.Callback == nil {
			c.bad(fn, site+"|callback-literal", pos, "the callback operand is not a closure or named function: the critical section cannot be identified")
			continue
		}
		c.ok(fn, site+"|callback-literal", pos, "callback is "+c.Name(ls.Callback))
		cb := ls.Callback
		var loads, commits []ssa.CallInstruction
		for _, call := range callsIn(cb) {
			cal := calleeOf(call.Common())
			if cal == nil {
				continue
			}
			if c.isLoader(cal) {
				loads = append(loads, call)
			} else if tgt, _ := forwardedCall(call.Common()); tgt != nil && c.isLoader(tgt) {
				loads = append(loads, call) // l.read(): a method of the store object forwarding to the loader
			} else if c.readsLogOnSuccess(cal) {
				loads = append(loads, call) // planSetUpdates(...): read, validate and build in one helper; it succeeds only having read
			}
			if commit[cal] {
				commits = append(commits, call)
			}
		}
		// commits reached through helpers (not direct)
		indirect := ""
		for g := range c.F.TransitiveCallees(cb) {
			if g == cb || !commit[g] {
				continue
			}
			direct := false
			for _, cm := range commits {
				if calleeOf(cm.Common()) == g || c.F.TransitiveCallees(calleeOf(cm.Common()))[g] {
					direct = true
				}
			}
			if !direct {
				indirect = c.Name(g)
			}
		}
		if len(commits) == 0 && indirect == "" {
			c.ok(fn, site+"|load-dominates-commit", pos, "callback cannot commit")
		} else {
			bad := ""
			for _, cm := range commits {
				dominated := false
				for _, ld := range loads {
					if instrDominates(ld, cm) {
						dominated = true
					}
				}
				if !dominated && c.loadsBeforeCommits(calleeOf(cm.Common()), commit, 0) {
					dominated = true // the body of the critical section lives in a helper that reads the log before it commits
				}
				if !dominated {
					bad = fmt.Sprintf("commit %s at %s is not preceded, inside the critical section, by a read of the log", c.Name(calleeOf(cm.Common())), c.Pos(cm.Pos()))
				}
			}
			if indirect != "" && bad == "" {
				c.unk(fn, site+"|load-dominates-commit", pos, "commit "+indirect+" is reached through a helper; load-before-commit not decided")
			} else {
				c.check(bad == "", fn, site+"|load-dominates-commit", pos, fmt.Sprintf("%d commit call(s), each dominated by a loader call in the callback", len(commits)), bad)
			}
		}
		// captured cells
		bad := ""
		for _, fv := range cb.FreeVars {
			cell := cellOf(fv)
			if cell == nil {
				continue
			}
			elem := cell.Type().(*types.Pointer).Elem()
			graphish := mentionsGraphish(elem)
			derived := false
			if _, isFunc := elem.Underlying().(*types.Signature); isFunc && graphish {
				// a function value is code; what matters is the data the closures it can hold have captured
				if clean, decided := c.funcCellCapturesNoSnapshot(cell, loaders); decided && clean {
					graphish = false
				}
			}
			var outside []*ssa.Store
			for _, st := range cellStores(cell) {
				if st.Parent() != cb && !isNested(st.Parent(), cb) {
					outside = append(outside, st)
				}
			}
			for _, st := range outside {
				for ld := range loaders {
					if valueDerivesFromCallTo(st.Val, ld) {
						derived = true
					}
				}
			}
			if !graphish && !derived {
				continue
			}
			// every load inside the callback must be dominated by a store inside the callback
			var inStores []*ssa.Store
			for _, st := range cellStores(cell) {
				if st.Parent() == cb {
					inStores = append(inStores, st)
				}
			}
			for _, ld := range cellLoads(cell) {
				if ld.Parent() != cb {
					continue
				}
				dominated := false
				for _, st := range inStores {
					if instrDominates(st, ld) {
						dominated = true
					}
				}
				if !dominated {
					how := "type " + elem.String()
					if derived {
						how = "value derived from a log read taken before the lock"
					}
					bad = fmt.Sprintf("captured variable %s (%s) is read at %s inside the critical section before being written there: decision on a pre-lock snapshot", fv.Name(), how, c.Pos(ld.Pos()))
				}
			}
		}
		c.check(bad == "", fn, site+"|no-prelock-snapshot", pos, "no graph/task/event data flows from before the lock into the critical section", bad)
	}
}

func isNested(f, in *ssa.Function) bool {
	for f != nil {
		if f == in {
			return true
		}
		f = f.Parent()
	}
	return false
}

// valueDerivesFromCallTo: v's backward slice contains a call to fn.
func valueDerivesFromCallTo(v ssa.Value, fn *ssa.Function) bool {
	seen := map[ssa.Value]bool{}
	var walk func(x ssa.Value, d int) bool
	walk = func(x ssa.Value, d int) bool {
		if x == nil || d > 30 || seen[x] {
			return false
		}
		seen[x] = true
		if call, ok := x.(*ssa.Call); ok && calleeOf(&call.Call) == fn {
			return true
		}
		// a helper whose own result is read off a call of fn (loadGraphFrom hands back replayEvents' graph)
		if call, idx := callOf(x); call != nil && d < 12 && curProg != nil {
			if h := calleeOf(&call.Call); h != nil && h != fn && h.Blocks != nil && curProg.InModule(h) && !curProg.opaque[h] {
				if idx < 0 {
					idx = 0
				}
				all, any := true, false
				for _, r := range returnsOf(h) {
					if idx >= len(r.Results) {
						all = false
						break
					}
					rv := returnedValue(r, idx)
					if isNilConst(rv) || failureConvention(r, idx) {
						continue // `return "", err`: nothing is handed back
					}
					any = true
					if !walk(rv, d+6) {
						all = false
						break
					}
				}
				if all && any {
					return true
				}
			}
		}
		if u, ok := x.(*ssa.UnOp); ok && u.Op == token.MUL {
			if cell := cellOf(u.X); cell != nil {
				for _, st := range cellStores(cell) {
					if walk(st.Val, d+1) {
						return true
					}
				}
			}
		}
		if u, ok := x.(*ssa.UnOp); ok && u.Op == token.MUL {
			if _, isField := u.X.(*ssa.FieldAddr); isField {
				if os, ok := fieldOrigins(u, 0); ok && len(os) > 0 {
					for _, o := range os {
						if walk(o.V, d+1) {
							return true
						}
					}
					return false
				}
			}
		}
		if prm, ok := x.(*ssa.Parameter); ok && curProg != nil && d < 20 {
			// a helper's parameter: the value comes from its callers
			for _, cs := range curProg.callers[prm.Parent()] {
				if i := paramIndex(prm); i < len(cs.Call.Common().Args) {
					if walk(cs.Call.Common().Args[i], d+5) {
						return true
					}
				}
			}
			return false
		}
		if fv, ok := x.(*ssa.FreeVar); ok {
			if b := bindingOf(fv); b != nil {
				return walk(b, d+1)
			}
			return false
		}
		if al, ok := x.(*ssa.Alloc); ok {
			// a struct/array cell: whole-value stores and field stores
			for _, st := range cellStores(al) {
				if walk(st.Val, d+1) {
					return true
				}
			}
			for _, r := range *al.Referrers() {
				if fa, ok := r.(*ssa.FieldAddr); ok {
					for _, u := range *fa.Referrers() {
						if st, ok := u.(*ssa.Store); ok && st.Addr == fa && walk(st.Val, d+1) {
							return true
						}
					}
				}
			}
		}
		in, ok := x.(ssa.Instruction)
		if !ok {
			return false
		}
		for _, op := range in.Operands(nil) {
			if *op != nil && walk(*op, d+1) {
				return true
			}
		}
		return false
	}
	return walk(v, 0)
}

// ------------------------------------------------------------------ LK5

const inf = 1 << 20

type commitSummary struct {
	max   int
	sites []string // own call sites with weight > 0
	own   int      // max on a path counting each own site's callee as min(weight,1)
	loop  string
}

func ruleLK5(c *Ctx) {
	memo := map[*ssa.Function]*commitSummary{}
	onStack := map[*ssa.Function]bool{}
	isCommitEffect := func(call ssa.CallInstruction) bool {
		e := c.F.byCall[call]
		if e == nil || !commitEffectClass(e.Class) {
			return false
		}
		if e.Path == nil {
			return true
		}
		if !c.pathClass(e.Path)[classLOG] {
			return false
		}
		if e.Class != "rename" && c.isTempOfLog(e.Path) {
			return false
		}
		return true
	}
	var summ func(f *ssa.Function) *commitSummary
	summ = func(f *ssa.Function) *commitSummary {
		if s, ok := memo[f]; ok {
			return s
		}
		if onStack[f] {
			return &commitSummary{}
		}
		onStack[f] = true
		defer func() { onStack[f] = false }()
		w := make([]int, len(f.Blocks))
		w1 := make([]int, len(f.Blocks))
		s := &commitSummary{}
		for _, b := range f.Blocks {
			for _, in := range b.Instrs {
				call, ok := in.(ssa.CallInstruction)
				if !ok {
					continue
				}
				n, what := 0, ""
				cal := calleeOf(call.Common())
				switch {
				case c.identityRewriteCall(call):
					// the log replaced by exactly what was read from it: no observable state changes, so a death between
					// this and the command's real commit leaves the state before the command
				case isCommitEffect(call):
					n, what = 1, calleeFullName(call.Common())
				case cal != nil && c.F.isLockFn(cal):
					for _, ls := range c.F.LockSites {
						if ls.Call == call && ls.Callback != nil {
							n = summ(ls.Callback).max
							what = "withLock{" + c.Name(ls.Callback) + "}"
						}
					}
				case cal != nil && c.InModule(cal):
					n, what = summ(cal).max, c.Name(cal)
				default:
					// closures invoked through variables inside the function: count closures created here that are called dynamically
					if _, isParam := call.Common().Value.(*ssa.Parameter); !isParam && cal == nil && !call.Common().IsInvoke() {
						if mc, ok := resolve(call.Common().Value).(*ssa.MakeClosure); ok {
							n, what = summ(mc.Fn.(*ssa.Function)).max, c.Name(mc.Fn.(*ssa.Function))
						}
					}
				}
				if n > 0 {
					if w[b.Index] < inf {
						w[b.Index] += n
					}
					w1[b.Index]++
					s.sites = append(s.sites, fmt.Sprintf("%s(%s) at %s", what, fmtCount(n), c.Pos(call.Pos())))
				}
			}
		}
		for _, b := range f.Blocks {
			if w[b.Index] > 0 && inCycle(b) {
				s.loop = fmt.Sprintf("commit inside a loop (block %d)", b.Index)
			}
		}
		longest := func(wt []int) int {
			m := map[*ssa.BasicBlock]int{}
			vis := map[*ssa.BasicBlock]bool{}
			var lp func(b *ssa.BasicBlock) int
			lp = func(b *ssa.BasicBlock) int {
				if v, ok := m[b]; ok {
					return v
				}
				if vis[b] {
					return 0
				}
				vis[b] = true
				mx := 0
				for _, sc := range b.Succs {
					if v := lp(sc); v > mx {
						mx = v
					}
				}
				r := mx + wt[b.Index]
				if r > inf {
					r = inf
				}
				m[b] = r
				return r
			}
			return lp(f.Blocks[0])
		}
		if s.loop != "" {
			s.max, s.own = inf, inf
		} else {
			s.max, s.own = longest(w), longest(w1)
		}
		memo[f] = s
		return s
	}
	// evaluate every root; report innermost offenders
	reported := map[*ssa.Function]bool{}
	for _, fn := range c.Fns {
		s := summ(fn)
		if s.max > 1 && s.own > 1 && !reported[fn] {
			reported[fn] = true
			why := fmt.Sprintf("up to %s commits on one path: %s", fmtCount(s.max), strings.Join(s.sites, "; "))
			if s.loop != "" {
				why = s.loop + ": " + strings.Join(s.sites, "; ")
			}
			c.bad(c.Name(fn), "commits-per-path", c.FnPos(fn), why+" — a second lock acquisition can fail or the process can die between the two, leaving the command half applied")
		}
	}
	for _, e := range c.F.Roots {
		if e.Pkg != c.Ergo {
			continue
		}
		s := summ(e)
		if s.max <= 1 {
			c.ok(c.Name(e), "commits-per-path", c.FnPos(e), fmt.Sprintf("at most %d commit on any path", s.max))
		} else if !reported[e] {
			// inherited from a reported callee: discharged here, reported there
			c.ok(c.Name(e), "commits-per-path", c.FnPos(e), "excess inherited from a callee that is reported separately")
		}
	}
}

func fmtCount(n int) string {
	if n >= inf {
		return "unbounded"
	}
	return fmt.Sprint(n)
}

// ------------------------------------------------------------------ LK6

func ruleLK6(c *Ctx) {
	nGo, nForbidden, nExit, nPanic := 0, 0, 0, 0
	for _, fn := range c.Fns {
		inErgo := Outermost(fn).Pkg == c.Ergo
		eachInstr(fn, func(r instrRef) {
			switch x := r.In.(type) {
			case *ssa.Go:
				nGo++
				c.bad(c.Name(fn), fmt.Sprintf("go-statement#%d", nGo), c.Pos(x.Pos()), "goroutine started: effects can escape the critical section / outlive the command")
			case ssa.CallInstruction:
				// a timer callback or a signal channel is a goroutine by another name: what it does (print, exit) happens at a
				// moment unrelated to the command's commit
				switch n := calleeFullName(x.Common()); n {
				case "time.AfterFunc", "os/signal.Notify", "os/signal.NotifyContext", "context.AfterFunc":
					nGo++
					c.bad(c.Name(fn), fmt.Sprintf("async-callback %s#%d", n, nGo), c.Pos(x.Pos()), "an asynchronous callback is armed ("+n+"): whatever it does - ending the process with its own exit status included - happens at a moment unrelated to the command's commit, so a command can be reported as failed after its events were recorded")
				}
			case *ssa.Panic:
				if inErgo && x.Pos().IsValid() {
					nPanic++
					c.bad(c.Name(fn), fmt.Sprintf("panic#%d", nPanic), c.Pos(x.Pos()), "explicit panic in the library: a command can die between commit and acknowledgement, or crash on input")
				}
			}
		})
	}
	for _, e := range c.F.Effects {
		switch e.Class {
		case "forbidden":
			nForbidden++
			c.bad(c.Name(e.Fn), fmt.Sprintf("forbidden-call %s#%d", calleeFullName(e.Call.Common()), nForbidden), c.Pos(e.Call.Pos()), "exec/raw syscall/unsafe: unanalysable effect")
		case "exit":
			if Outermost(e.Fn).Pkg == c.Ergo {
				nExit++
				c.bad(c.Name(e.Fn), fmt.Sprintf("exit-call %s#%d", calleeFullName(e.Call.Common()), nExit), c.Pos(e.Call.Pos()), "process exit inside the library bypasses error propagation and deferred unlock")
			}
		}
	}
	// cgo / linkname: files importing "C" or unsafe in the module
	nUnsafe := 0
	for _, pkg := range c.Pkgs {
		if !strings.HasPrefix(pkg.PkgPath, modPath) {
			continue
		}
		for imp := range pkg.Imports {
			if imp == "unsafe" || imp == "C" || imp == "os/exec" || imp == "plugin" {
				nUnsafe++
				c.bad(pkg.PkgPath, "import "+imp, "-", "module package imports "+imp)
			}
		}
	}
	c.check(nGo == 0, "<module>", "no-go-statements", "-", "0 go statements, timer callbacks or signal handlers in the module", fmt.Sprintf("%d go statements / asynchronous callbacks", nGo))
	c.check(nForbidden == 0 && nUnsafe == 0, "<module>", "no-exec-unsafe", "-", "no exec/raw syscall/unsafe/cgo", fmt.Sprintf("%d forbidden calls, %d forbidden imports", nForbidden, nUnsafe))
	c.check(nExit == 0 && nPanic == 0, "<module>", "no-exit-panic-in-library", "-", "no os.Exit/log.Fatal/panic in internal/ergo", fmt.Sprintf("%d exit calls, %d panics", nExit, nPanic))
}

// ------------------------------------------------------------------ LK7

var readerEntries = []string{"RunList", "RunShow", "RunWhere", "RunQuickstart"}

func ruleLK7(c *Ctx) {
	for _, n := range readerEntries {
		fn := c.ErgoFn(n)
		if fn == nil {
			if n == "RunList" || n == "RunShow" {
				c.unk("ergo."+n, "anchor", "-", "reader entry point not found")
			}
			continue
		}
		seen, pred := c.F.Reach([]*ssa.Function{fn}, nil)
		bad := ""
		var path []string
		for g := range seen {
			if c.F.isLockFn(g) {
				bad = "reaches the lock primitive " + c.Name(g)
				path = c.PathTo(g, pred)
			}
			for _, e := range c.F.Effects {
				if e.Fn == g && e.Class == "flock" {
					bad = "reaches flock at " + c.Pos(e.Call.Pos())
					path = c.PathTo(g, pred)
				}
			}
		}
		if bad == "" {
			c.ok(c.Name(fn), "lock-free", c.FnPos(fn), fmt.Sprintf("%d reachable module functions, none takes the lock", len(seen)))
		} else {
			c.bad(c.Name(fn), "lock-free", c.FnPos(fn), "reader "+bad+": it fails with `lock busy` whenever a writer is active", path...)
		}
	}
}

// ------------------------------------------------------------------ LK8 (single lock acquisition per command)

func init() {
	register(&Rule{ID: "LK8", Min: 3, Run: ruleLK8,
		Doc: "single-lock-acquisition: on every path of every entry point the fail-fast lock is acquired at most once (an acquisition in a loop counts as unbounded): a second acquisition can fail with `lock busy` after the first section has already committed, or expose an intermediate state to other writers"})
}

func ruleLK8(c *Ctx) {
	if c.F.LockPrim == nil {
		c.unk("<module>", "lock-primitive", "-", "no lock primitive")
		return
	}
	memo := map[*ssa.Function]int{}
	onStack := map[*ssa.Function]bool{}
	var sites = map[*ssa.Function][]string{}
	var summ func(f *ssa.Function) int
	summ = func(f *ssa.Function) int {
		if v, ok := memo[f]; ok {
			return v
		}
		if onStack[f] || c.F.isLockFn(f) {
			return 0
		}
		onStack[f] = true
		defer func() { onStack[f] = false }()
		w := make([]int, len(f.Blocks))
		loop := false
		for _, b := range f.Blocks {
			for _, in := range b.Instrs {
				call, ok := in.(ssa.CallInstruction)
				if !ok {
					continue
				}
				n := 0
				cal := calleeOf(call.Common())
				switch {
				case cal != nil && c.F.isLockFn(cal):
					n = 1
					for _, ls := range c.F.LockSites {
						if ls.Call == call && ls.Callback != nil {
							n += summ(ls.Callback)
						}
					}
				case cal != nil && c.InModule(cal):
					n = summ(cal)
				}
				if n > 0 {
					w[b.Index] += n
					sites[f] = append(sites[f], fmt.Sprintf("%s(%s) at %s", calleeFullName(call.Common()), fmtCount(n), c.Pos(call.Pos())))
					if inCycle(b) {
						loop = true
					}
				}
			}
		}
		res := 0
		if loop {
			res = inf
		} else {
			m := map[*ssa.BasicBlock]int{}
			vis := map[*ssa.BasicBlock]bool{}
			var lp func(b *ssa.BasicBlock) int
			lp = func(b *ssa.BasicBlock) int {
				if v, ok := m[b]; ok {
					return v
				}
				if vis[b] {
					return 0
				}
				vis[b] = true
				mx := 0
				for _, sc := range b.Succs {
					if v := lp(sc); v > mx {
						mx = v
					}
				}
				m[b] = mx + w[b.Index]
				return m[b]
			}
			res = lp(f.Blocks[0])
		}
		if res > inf {
			res = inf
		}
		memo[f] = res
		return res
	}
	for _, e := range c.F.Roots {
		if e.Pkg != c.Ergo {
			continue
		}
		n := summ(e)
		c.check(n <= 1, c.Name(e), "lock-acquisitions-per-path", c.FnPos(e), fmt.Sprintf("at most %d lock acquisition on any path", n),
			fmt.Sprintf("up to %s lock acquisitions on one path (%s): the later one can fail with `lock busy` after the earlier section committed", fmtCount(n), strings.Join(sites[e], "; ")))
	}
}

// funcCellCapturesNoSnapshot: every function value the func-typed cell can hold is a module function or a closure
// none of whose captured variables carries graph/task/event data (by type or by derivation from a loader).
// decided=false when a stored value cannot be resolved to function values.
func (c *Ctx) funcCellCapturesNoSnapshot(cell *ssa.Alloc, loaders map[*ssa.Function]bool) (clean, decided bool) {
	var vals []ssa.Value
	for _, st := range cellStores(cell) {
		vals = append(vals, st.Val)
	}
	if len(vals) == 0 {
		return false, false
	}
	seen := map[ssa.Value]bool{}
	for d := 0; len(vals) > 0 && d < 64; d++ {
		v := vals[0]
		vals = vals[1:]
		if seen[v] {
			continue
		}
		seen[v] = true
		switch x := v.(type) {
		case *ssa.Function:
		case *ssa.MakeClosure:
			for _, b := range x.Bindings {
				bc := cellOf(b)
				if bc == nil {
					if mentionsGraphish(b.Type()) {
						return false, true
					}
					continue
				}
				el := bc.Type().(*types.Pointer).Elem()
				if _, isFunc := el.Underlying().(*types.Signature); isFunc {
					for _, st := range cellStores(bc) {
						vals = append(vals, st.Val)
					}
					continue
				}
				if mentionsGraphish(el) {
					return false, true
				}
				for _, st := range cellStores(bc) {
					for ld := range loaders {
						if valueDerivesFromCallTo(st.Val, ld) {
							return false, true
						}
					}
				}
			}
		case *ssa.Parameter:
			args := c.argValues(x.Parent(), paramIndex(x))
			if len(args) == 0 {
				return false, false
			}
			vals = append(vals, args...)
		case *ssa.Const:
			if !x.IsNil() {
				return false, false
			}
		default:
			return false, false
		}
	}
	return true, true
}
