package main

// Rules added in seed round 18 (whole new subcommands): DT19 folded-times-survive-compaction.

import (
	"fmt"
	"go/token"
	"go/types"
	"sort"
	"strings"

	"golang.org/x/tools/go/ssa"
)

func init() {
	register(&Rule{ID: "DT19", Min: 3, Run: ruleDT19,
		Doc: "folded-times-survive-compaction: replay folds an item's updated_at over all its state/title/body/epic/result events (UpdatedAt = maxTime(UpdatedAt, ts)), while compaction keeps one event per field, stamped with the per-field time replay remembered (TaskMeta.Last*At). The two agree on every log only if the remembered time is folded the same way in the same case (Last*At = maxTime(Last*At, ts)): with a plain `Last*At = ts` the event that is last in the log wins, so when an earlier event of the field carries the later timestamp (the wall clock stepped back between two commands, or a merged log) the compacted log replays to an earlier updated_at. A case that folds updated_at without remembering a time must re-emit every event of its type (results)"})
}

func ruleDT19(c *Ctx) {
	rm := c.replay()
	if rm == nil {
		c.unk("<module>", "replay-model", "-", "the switch over Event.Type was not found in replay")
		return
	}
	var types_ []string
	for t := range rm.cases() {
		types_ = append(types_, t)
	}
	sort.Strings(types_)
	caseOf := func(in ssa.Instruction) string {
		f := in.Parent()
		if f == rm.Switch {
			for _, t := range types_ {
				if mustPassEdges(f, in.Block(), rm.caseEdgesFor(t)) {
					return t
				}
			}
			return ""
		}
		return "handler:" + f.Name()
	}
	type fold struct {
		st     *ssa.Store
		callee string
		ts     ssa.Value
	}
	type group struct {
		fn      *ssa.Function
		folds   []fold
		odd     []*ssa.Store // self-dependent stores that are not a two-argument call
		lasts   []*ssa.Store
		results bool
	}
	groups := map[string]*group{}
	var keys []string
	// v is a load of field name of the same base object as the store's address
	loadsSame := func(v ssa.Value, fa *ssa.FieldAddr) bool {
		b, n, ok := fieldLoad(v)
		return ok && n == fieldName(fa.X.Type(), fa.Field) && b != nil && c.canon(b) == c.canon(fa.X)
	}
	for _, f := range rm.EffectFns {
		eachInstr(f, func(r instrRef) {
			st, ok := r.In.(*ssa.Store)
			if !ok {
				return
			}
			fa, ok := st.Addr.(*ssa.FieldAddr)
			if !ok {
				return
			}
			tn, fld := namedTypeName(fa.X.Type()), fieldName(fa.X.Type(), fa.Field)
			isUpd := tn == "ergo.Task" && fld == "UpdatedAt"
			isLast := tn == "ergo.TaskMeta" && strings.HasPrefix(fld, "Last") && strings.HasSuffix(fld, "At")
			isRes := tn == "ergo.Task" && fld == "Results"
			if !isUpd && !isLast && !isRes {
				return
			}
			k := caseOf(st)
			if k == "" {
				return
			}
			key := c.Name(f) + "|" + k
			g := groups[key]
			if g == nil {
				g = &group{fn: f}
				groups[key] = g
				keys = append(keys, key)
			}
			switch {
			case isRes:
				g.results = true
			case isLast:
				g.lasts = append(g.lasts, st)
			case isUpd:
				if cl, _ := callOf(st.Val); cl != nil && len(cl.Call.Args) == 2 {
					for i, a := range cl.Call.Args {
						if loadsSame(a, fa) {
							g.folds = append(g.folds, fold{st, calleeFullName(&cl.Call), cl.Call.Args[1-i]})
							return
						}
					}
				}
				if derivesFromField(st.Val, "UpdatedAt") {
					g.odd = append(g.odd, st)
				}
			}
		})
	}
	sort.Strings(keys)
	for _, key := range keys {
		g := groups[key]
		fn := c.Name(g.fn)
		typ := key[strings.Index(key, "|")+1:]
		for _, st := range g.odd {
			c.unk(fn, fmt.Sprintf("fold UpdatedAt in case %q", typ), c.Pos(st.Pos()), "updated_at is computed from its previous value in a form that is not a two-argument fold call: whether compaction preserves it is not decided")
		}
		for i, fo := range g.folds {
			construct := fmt.Sprintf("fold UpdatedAt in case %q", typ)
			if i > 0 {
				construct += fmt.Sprintf("#%d", i+1)
			}
			pos := c.Pos(fo.st.Pos())
			if len(g.lasts) == 0 {
				c.check(g.results, fn, construct, pos, "every event of this type is kept (results are re-emitted one by one), so the fold sees the same timestamps after compaction",
					"updated_at is folded over the events of this type, but replay remembers no time for them that compaction could re-emit and the events themselves are not kept: after `compact` the fold sees fewer timestamps and updated_at can move backwards")
				continue
			}
			bad := ""
			for _, ls := range g.lasts {
				lfa := ls.Addr.(*ssa.FieldAddr)
				lname := fieldName(lfa.X.Type(), lfa.Field)
				cl, _ := callOf(ls.Val)
				same := false
				if cl != nil && len(cl.Call.Args) == 2 && calleeFullName(&cl.Call) == fo.callee {
					for j, a := range cl.Call.Args {
						if loadsSame(a, lfa) && c.canon(cl.Call.Args[1-j]) == c.canon(fo.ts) {
							same = true
						}
					}
				}
				if !same {
					bad = fmt.Sprintf("TaskMeta.%s is set to %s at %s while updated_at is %s(updated_at, %s): compaction stamps the one event it keeps for this field with %s, so if an earlier event of the field carried a later timestamp (wall clock stepped back, merged logs) the compacted log replays to an earlier updated_at than the original", lname, c.canon(ls.Val), c.Pos(ls.Pos()), shortName(fo.callee), c.canon(fo.ts), lname)
				}
			}
			c.check(bad == "", fn, construct, pos, "the per-field change time is folded exactly like updated_at ("+shortName(fo.callee)+" over the same timestamp)", bad)
		}
	}
}

func shortName(full string) string {
	if i := strings.LastIndex(full, "."); i >= 0 {
		return full[i+1:]
	}
	return full
}

// edgeInsertingTypesGuarded (a clause of VD5): "link" is not the only way an edge can come into being. Any event type
// whose replay case inserts into Graph.Deps (a `restore` that puts parked edges back, an `import` of edges) creates
// dependencies when it is replayed, and a command that records such an event needs the same protection as a link:
// the emission is reachable only across the false edge of the cycle search (on some edge - which edges such an event
// stands for is the feature's own business, so only the presence of the guard is demanded, here or in the callback
// that calls the builder).
func (c *Ctx) edgeInsertingTypesGuarded(hc *ssa.Function) {
	rm := c.replay()
	if rm == nil || hc == nil {
		return
	}
	var types_ []string
	for t := range rm.cases() {
		types_ = append(types_, t)
	}
	sort.Strings(types_)
	inserting := map[string]string{} // type -> position of the insert
	noteInsert := func(in ssa.Instruction, typ string) {
		if _, seen := inserting[typ]; !seen {
			inserting[typ] = c.Pos(in.Pos())
		}
	}
	// the types whose handling can reach an insertion into Graph.Deps (in the switch function or a handler called
	// from the case)
	insertsDeps := func(f *ssa.Function) []ssa.Instruction {
		var out []ssa.Instruction
		eachInstr(f, func(r instrRef) {
			mu, ok := r.In.(*ssa.MapUpdate)
			if !ok {
				return
			}
			m := resolve(mu.Map)
			if _, n, ok := fieldLoad(m); ok && n == "Deps" {
				out = append(out, mu)
				return
			}
			if lk, ok := m.(*ssa.Lookup); ok {
				if _, n, ok := fieldLoad(lk.X); ok && n == "Deps" {
					out = append(out, mu)
				}
			}
		})
		return out
	}
	for _, t := range types_ {
		edges := rm.caseEdgesFor(t)
		if len(edges) == 0 {
			continue
		}
		for _, in := range insertsDeps(rm.Switch) {
			if mustPassEdges(rm.Switch, in.Block(), edges) {
				noteInsert(in, t)
			}
		}
		for _, call := range callsIn(rm.Switch) {
			cal := calleeOf(call.Common())
			if cal == nil || !c.InModule(cal) || cal.Blocks == nil || !mustPassEdges(rm.Switch, call.Block(), edges) {
				continue
			}
			// (a helper shared with the command that records the event - applyRestore - is not part of replay's unit,
			// but what it does to the graph happens on replay all the same)
			fns := []*ssa.Function{cal}
			for g := range c.F.TransitiveCallees(cal) {
				if c.InModule(g) && g.Blocks != nil {
					fns = append(fns, g)
				}
			}
			for _, g := range fns {
				for _, in := range insertsDeps(g) {
					noteInsert(in, t)
				}
			}
		}
	}
	for _, em := range c.emissions() {
		if c.isReplayOrCompact(em.Fn) {
			continue
		}
		for _, t := range em.Types {
			where, ins := inserting[t]
			if !ins || t == "link" {
				continue
			}
			f := em.Fn
			guarded := mustPassEdges(f, em.Call.Block(), guardBool(f, hc, false, nil))
			if !guarded {
				// the builder is called from a callback that ran the search before
				for _, ch := range c.callbackChains(f, 3) {
					cb := ch.Callback
					ok := false
					for _, call := range callsIn(cb) {
						if cal := calleeOf(call.Common()); cal != nil && (cal == f || c.F.TransitiveCallees(cal)[f]) {
							if mustPassEdges(cb, call.Block(), guardBool(cb, hc, false, nil)) {
								ok = true
							}
						}
					}
					guarded = ok
					if !ok {
						break
					}
				}
			}
			c.check(guarded, c.Name(f), em.construct(t)+"|cycle", c.Pos(em.Call.Pos()),
				fmt.Sprintf("replaying %q inserts dependency edges (%s); the emission is reachable only across the false edge of the cycle search", t, where),
				fmt.Sprintf("replaying a %q event inserts dependency edges (%s), yet this command records one without having asked the cycle search: edges that were acceptable when they were first recorded can close a cycle with what has been recorded since", t, where))
		}
	}
}

// ------------------------------------------------------------------ WR12

func init() {
	register(&Rule{ID: "WR12", Min: 1, Run: ruleWR12,
		Doc: "writers-honour-the-reader's-line-limit: the reader takes in log lines of at most N bytes (the limit its scanner is given) and fails on a longer one - for every command, compact included. So no command may record an event that becomes a longer line: the event constructor (or a marshalling helper every writer of the log goes through) compares the length of the marshalled event with a constant not above that limit, and only the not-too-long edge leads to a non-failing return. Without it a large body is recorded with exit 0 and the store is unreadable from then on"})
}

func ruleWR12(c *Ctx) {
	rd := c.anchor("readEvents")
	if rd == nil {
		return
	}
	// the reader's limit
	limit := int64(-1)
	for _, g := range append([]*ssa.Function{rd}, c.scannerConstructorsOf(rd)...) {
		for _, call := range callsNamed(g, "(*bufio.Scanner).Buffer") {
			args := call.Common().Args
			if k, ok := constInt(args[len(args)-1]); ok {
				limit = k
			}
		}
	}
	if limit < 0 {
		c.ok(c.Name(rd), "reader-limit", c.FnPos(rd), "the reader sets no constant line limit (DT3 judges that)")
		return
	}
	// length guards: a comparison of len(json.Marshal(...)) (+ constant) with a constant, whose too-long edge only fails
	type guard struct {
		fn   *ssa.Function
		pass map[edge]bool
		c    int64
		pos  string
	}
	var guards []guard
	fromMarshalLen := func(v ssa.Value) bool {
		for d := 0; d < 4 && v != nil; d++ {
			v = strip(v)
			if bo, ok := v.(*ssa.BinOp); ok && (bo.Op == token.ADD || bo.Op == token.SUB) {
				if _, isC := constInt(bo.Y); isC {
					v = bo.X
					continue
				}
			}
			break
		}
		cl, _ := callOf(v)
		if cl == nil || calleeFullName(&cl.Call) != "builtin len" || len(cl.Call.Args) != 1 {
			return false
		}
		a := resolve(cl.Call.Args[0])
		if ex, ok := a.(*ssa.Extract); ok {
			if mc, ok := ex.Tuple.(*ssa.Call); ok {
				n := calleeFullName(&mc.Call)
				return n == "encoding/json.Marshal" || n == "encoding/json.MarshalIndent"
			}
		}
		return false
	}
	for _, f := range c.Fns {
		if !c.InModule(f) || f.Blocks == nil || f.Pkg != c.Ergo {
			continue
		}
		for _, bf := range branchFacts(f) {
			if len(bf.A.Env) != 0 || bf.A.Kind != "cmp" || !fromMarshalLen(bf.A.X) {
				continue
			}
			k, ok := constInt(bf.A.Y)
			if !ok {
				continue
			}
			// the edge on which the line is known NOT to be too long
			short := (bf.A.Op == token.GTR || bf.A.Op == token.GEQ) && !bf.Holds || (bf.A.Op == token.LEQ || bf.A.Op == token.LSS) && bf.Holds
			if !short {
				continue
			}
			found := false
			for i := range guards {
				if guards[i].fn == f && guards[i].c == k {
					guards[i].pass[bf.E] = true
					found = true
				}
			}
			if !found {
				guards = append(guards, guard{f, map[edge]bool{bf.E: true}, k, c.Pos(bf.If.Pos())})
			}
		}
	}
	curEnv = nil
	ne := c.anchor("newEvent")
	good := ""
	why := fmt.Sprintf("the reader refuses lines longer than %d bytes, but no writer-side check of the marshalled event's length against that limit was found", limit)
	for _, g := range guards {
		if g.c > limit+1 {
			why = fmt.Sprintf("the length check at %s compares with %d, above the reader's limit %d", g.pos, g.c, limit)
			continue
		}
		all := true
		for _, r := range c.nonFailingReturns(g.fn) {
			if !mustPassEdges(g.fn, r.Block(), g.pass) {
				all = false
			}
		}
		if !all {
			why = fmt.Sprintf("the length check at %s can be bypassed on the way to a non-failing return", g.pos)
			continue
		}
		covers := g.fn == ne
		if !covers {
			// a marshalling helper: every commit function that marshals an Event goes through it
			covers = true
			n := 0
			for cf := range c.commitFuncs() {
				marshals := false
				for _, call := range callsNamed(cf, "encoding/json.Marshal") {
					if len(call.Common().Args) == 1 && strings.Contains(call.Common().Args[0].Type().String(), "ergo.Event") {
						marshals = true
					}
					if mi, ok := call.Common().Args[0].(*ssa.MakeInterface); ok && namedTypeName(mi.X.Type()) == "ergo.Event" {
						marshals = true
					}
				}
				if marshals && cf != g.fn {
					covers = false
				}
				if len(callsTo(cf, g.fn)) > 0 {
					n++
				}
			}
			covers = covers && n > 0
		}
		if covers {
			good = fmt.Sprintf("%s refuses an event whose line would exceed %d bytes (reader limit %d) before anything is written", c.Name(g.fn), g.c, limit)
		} else {
			why = fmt.Sprintf("the length check in %s is not on the path of every writer of the log", c.Name(g.fn))
		}
	}
	where, pos := "<module>", "-"
	if ne != nil {
		where, pos = c.Name(ne), c.FnPos(ne)
	}
	c.check(good != "", where, "line-limit-honoured", pos, good, why+": a command can record an event (a large body, or a smaller one of characters JSON escapes to six bytes each) that every later command, compact included, fails to read")
}

// ------------------------------------------------------------------ OU23

func init() {
	register(&Rule{ID: "OU23", Min: 1, Run: ruleOU23,
		Doc: "rows-are-one-line: titles, claimant names and blocker names are accepted with line breaks, tabs and escape characters in them, and one item is one row of the human list. In the row formatters (formatTreeLine, formatCollapsedEpicLine) every string parameter that a call site can fill with user text (a value deriving from Task.Title, ClaimedBy or Body) is used only through the one-line sanitiser - a function that maps control characters away with strings.Map over unicode.IsControl - so no raw user text reaches the row"})
}

func ruleOU23(c *Ctx) {
	// the sanitiser: a module function whose strings.Map mapping function asks unicode.IsControl
	var sanitisers []*ssa.Function
	for _, f := range c.Fns {
		if !c.InModule(f) || f.Blocks == nil || f.Parent() != nil {
			continue
		}
		for _, call := range callsNamed(f, "strings.Map") {
			for _, mf := range funcValuesOf(call.Common().Args[0], 0) {
				if mf.Blocks != nil && len(callsNamed(mf, "unicode.IsControl")) > 0 {
					sanitisers = append(sanitisers, f)
				}
			}
		}
	}
	isSan := func(cal *ssa.Function) bool {
		for _, s := range sanitisers {
			if s == cal {
				return true
			}
		}
		return false
	}
	n := 0
	for _, name := range []string{"formatTreeLine", "formatCollapsedEpicLine"} {
		f := c.ErgoFn(name)
		if f == nil || f.Blocks == nil {
			continue
		}
		for i, prm := range f.Params {
			isStr := prm.Type().Underlying().String() == "string"
			if !isStr {
				continue
			}
			userText := false
			for _, a := range c.argValues(f, i) {
				if derivesFromField(a, "Title", "ClaimedBy", "Body") {
					userText = true
				}
			}
			if !userText {
				continue
			}
			n++
			raw := ""
			if refs := prm.Referrers(); refs != nil {
				for _, r := range *refs {
					switch x := r.(type) {
					case *ssa.DebugRef:
					case ssa.CallInstruction:
						if !isSan(calleeOf(x.Common())) {
							raw = calleeFullName(x.Common()) + " at " + c.Pos(x.Pos())
						}
					default:
						raw = fmt.Sprintf("%T at %s", r, c.Pos(r.Pos()))
					}
				}
			}
			c.check(raw == "" && len(sanitisers) > 0, c.Name(f), "param "+prm.Name()+" one-line", c.FnPos(f),
				"user text handed to the row formatter is used only through the one-line sanitiser",
				"the row formatter uses this user-supplied text raw ("+raw+"): a title or claimant name with a line break takes two rows - the second without glyph or id - and control characters, counted as zero cells, move the id out of its column")
		}
	}
	// the prune preview formats its rows itself: every read of an item's Title there goes through the sanitiser
	if pl := c.ErgoFn("printPruneItemList"); pl != nil && pl.Blocks != nil {
		raw, k := "", 0
		eachInstr(pl, func(r instrRef) {
			v, ok := r.In.(ssa.Value)
			if !ok {
				return
			}
			if _, name, isField := fieldLoad(v); !isField || name != "Title" || v.Referrers() == nil {
				return
			}
			if _, isAddr := r.In.(*ssa.FieldAddr); isAddr {
				return
			}
			k++
			for _, u := range *v.Referrers() {
				switch x := u.(type) {
				case *ssa.DebugRef:
				case ssa.CallInstruction:
					if !isSan(calleeOf(x.Common())) {
						raw = calleeFullName(x.Common()) + " at " + c.Pos(x.Pos())
					}
				default:
					raw = fmt.Sprintf("%T at %s", u, c.Pos(u.Pos()))
				}
			}
		})
		if k > 0 {
			n++
			c.check(raw == "" && len(sanitisers) > 0, c.Name(pl), "item titles one-line", c.FnPos(pl), "titles in the prune preview are used only through the one-line sanitiser",
				"the prune preview uses an item's title raw ("+raw+"): a finished task whose title contains a line break shows up as several rows - one of which can carry another item's id - and escape sequences reach the terminal")
		}
	}
	if n == 0 {
		c.unk("<module>", "row-formatters", "-", "no row formatter parameter filled with user text was found (formatTreeLine / formatCollapsedEpicLine not recognised)")
	}
}

// claimantArgMatchesEmission (a clause of VD3, seed C06-r20): passing *a* validateClaimInvariant call is not enough - it
// must judge the claimant the command is about to record. After an `unclaim` emission that is "" (after a `claim`
// emission, the agent written into the event). The claimant argument of each invariant call reachable after the
// emission is followed back through its phis to its leaves; a leaf that is neither the constant "" / the recorded
// agent nor a value tested equal to it on the way to the emission (claimValue on the `claimValue == ""` edge) is the
// task's old claimant, and if a feasible path through the emission reaches the call with the argument taking that leaf,
// the invariant was checked against the wrong claimant: `{"claim":"","state":"error"}` passes because the task *had* one.
func (c *Ctx) claimantArgMatchesEmission(em *Emission, typ string, vci *ssa.Function) {
	f := em.Fn
	fn := c.Name(f)
	construct := em.construct(typ) + "|invariant-judges-recorded-claimant"
	pos := c.Pos(em.Call.Pos())
	var want ssa.Value // the claimant this emission records; nil means the empty string
	if typ == "claim" {
		want = em.Fields["AgentID"]
		if want == nil {
			return
		}
	}
	// values known to equal the recorded claimant where the emission happens
	good := func(v ssa.Value) bool {
		v = resolve(v)
		if s, isC := constString(v); isC {
			// (the constant "" is also what a claim is judged with when the state recorded with it clears the claimant)
			return s == ""
		}
		if want != nil && (v == resolve(want) || c.canon(v) == c.canon(want)) {
			return true
		}
		if want == nil {
			for _, bf := range branchFacts(f) {
				if len(bf.A.Env) == 0 && bf.A.Kind == "const" && bf.Holds && constStr(bf.A.C) == "" {
					if s, isC := constString(bf.A.C); isC && s == "" && (bf.E.To() == em.Call.Block() || bf.E.To().Dominates(em.Call.Block())) {
						if resolve(bf.A.X) == v || c.canon(bf.A.X) == c.canon(v) {
							curEnv = nil
							return true
						}
					}
				}
			}
			curEnv = nil
		}
		return false
	}
	n := 0
	bad := ""
	for _, call := range callsTo(f, vci) {
		cv, ok := call.(*ssa.Call)
		if !ok || len(cv.Call.Args) != 2 || !canReachInstr(em.Call, cv) {
			continue
		}
		n++
		// leaves of the claimant argument with the phi edges that select them
		type leaf struct {
			v       ssa.Value
			removed map[edge]bool // the other incoming edges of every phi on the way
		}
		var leaves []leaf
		var walk func(v ssa.Value, removed map[edge]bool, d int)
		walk = func(v ssa.Value, removed map[edge]bool, d int) {
			ph, isPhi := strip(v).(*ssa.Phi)
			if !isPhi || d > 3 {
				leaves = append(leaves, leaf{v, removed})
				return
			}
			for i, e := range ph.Edges {
				r2 := map[edge]bool{}
				for k := range removed {
					r2[k] = true
				}
				for j, p := range ph.Block().Preds {
					if j == i {
						continue
					}
					for si, s := range p.Succs {
						if s == ph.Block() {
							r2[edge{p, si}] = true
						}
					}
				}
				walk(e, r2, d+1)
			}
		}
		walk(cv.Call.Args[1], map[edge]bool{}, 0)
		for _, lf := range leaves {
			if good(lf.v) {
				continue
			}
			// only the task's *previous* claimant is known to be the wrong thing to judge; a value computed elsewhere
			// (a helper, another lookup of the "claim" key) is not followed further
			if _, name, isField := fieldLoad(resolve(lf.v)); !isField || name != "ClaimedBy" {
				continue
			}
			if ex, _ := c.pathExists(psQuery{F: f, Removed: lf.removed, Via: em.Call.Block(), Targets: map[*ssa.BasicBlock]bool{cv.Block(): true}}); ex {
				bad = fmt.Sprintf("after this %s is built, validateClaimInvariant at %s can be handed %s as the claimant", typ, c.Pos(cv.Pos()), c.canon(lf.v))
			}
		}
	}
	if n == 0 {
		return // no invariant call after the emission in this function: VD3's main clause judges that
	}
	what := "the empty claimant"
	if want != nil {
		what = "the agent written into the event"
	}
	c.check(bad == "", fn, construct, pos, "every invariant check reachable after the emission judges "+what,
		bad+" - not the one this command records: the (state, claimant) pair that is checked is not the pair that is written, and a request whose end state needs a claimant passes because the task had one before")
}

// ------------------------------------------------------------------ OU24

func init() {
	register(&Rule{ID: "OU24", Min: 1, Run: ruleOU24,
		Doc: "body-stdin-is-honoured: when --body-stdin is given the body is what arrives on standard input. In every command function that consults the option, no path on which the option is true reaches a non-failing return without passing a call that reads os.Stdin: a further condition on the way (stdin is a pipe, the title flag is set, ...) sends the command down the flags-only branch, where it succeeds with an empty body and never reads what the user typed"})
}

func ruleOU24(c *Ctx) {
	// functions that can reach a read of os.Stdin
	reads := map[*ssa.Function]bool{}
	for _, f := range c.Fns {
		if !c.InModule(f) || f.Blocks == nil {
			continue
		}
		for _, call := range callsNamed(f, "io.ReadAll", "io.Copy", "(*bufio.Reader).ReadString", "(*bufio.Scanner).Scan", "(*os.File).Read") {
			for _, a := range call.Common().Args {
				if isGlobalLoad(a, "Stdin") {
					reads[f] = true
				}
				if mi, ok := a.(*ssa.MakeInterface); ok && isGlobalLoad(mi.X, "Stdin") {
					reads[f] = true
				}
			}
		}
	}
	for changed := true; changed; {
		changed = false
		for _, f := range c.Fns {
			if reads[f] || !c.InModule(f) || f.Blocks == nil {
				continue
			}
			for _, call := range callsIn(f) {
				if cal := calleeOf(call.Common()); cal != nil && reads[cal] {
					reads[f] = true
					changed = true
				}
			}
		}
	}
	n := 0
	isEntry := map[*ssa.Function]bool{}
	for _, e := range c.F.Entries {
		isEntry[e] = true
	}
	for _, f := range c.Fns {
		if !c.InModule(f) || f.Blocks == nil || f.Pkg != c.Ergo || f.Parent() != nil || !isEntry[f] {
			continue
		}
		// a load of the BodyStdin option in f
		var opt ssa.Value
		eachInstr(f, func(r instrRef) {
			if v, ok := r.In.(ssa.Value); ok {
				if name, isOpt := optionsFieldLoad(v); isOpt && name == "BodyStdin" {
					if _, isBool := v.Type().Underlying().(*types.Basic); isBool && opt == nil {
						opt = v
					}
				}
			}
		})
		if opt == nil {
			continue
		}
		// only where the option decides between branches of f
		decides := false
		var starts []*ssa.BasicBlock // where the option is known to be true
		for _, bf := range branchFacts(f) {
			if len(bf.A.Env) == 0 && bf.A.Kind == "bool" {
				if name, isOpt := optionsFieldLoad(bf.A.X); isOpt && name == "BodyStdin" {
					decides = true
					if bf.Holds {
						starts = append(starts, bf.E.To())
					}
				}
			}
		}
		curEnv = nil
		if !decides {
			continue
		}
		n++
		blocked := map[*ssa.BasicBlock]bool{}
		for _, call := range callsIn(f) {
			if cal := calleeOf(call.Common()); cal != nil && reads[cal] {
				blocked[call.Block()] = true
			}
		}
		targets := map[*ssa.BasicBlock]bool{}
		for _, r := range c.nonFailingReturns(f) {
			if !blocked[r.Block()] {
				targets[r.Block()] = true
			}
		}
		ex, wit := false, []int(nil)
		for _, st := range starts {
			if blocked[st] {
				continue
			}
			if e2, w2 := c.pathExists(psQuery{F: f, Start: st, Blocked: blocked, Targets: targets}); e2 {
				ex, wit = true, w2
			}
		}
		c.check(!ex && len(blocked) > 0, c.Name(f), "body-stdin honoured", c.FnPos(f),
			"with --body-stdin given, every non-failing path reads standard input",
			fmt.Sprintf("with --body-stdin given the command can succeed without reading standard input (blocks %v): a further condition diverts it to the flags-only branch and the body the user supplies is dropped", wit))
	}
	if n == 0 {
		// the option is consulted in a helper (a source-selection method, a request object): this rule only reads the
		// shape where the command function itself branches on it; elsewhere it does not decide - and says so
		c.ok("<module>", "body-stdin-users", "-", "not decided on this tree: no command entry branches on the BodyStdin option itself")
	}
}

// ------------------------------------------------------------------ OU25

// OU25 is not registered: on five behaviour-preserving restructurings of RunList (view structs, mode enums, list
// filters) it either lost the ShowAll branch or took a filter's own empty-state return for a violation. Seed C19-r20
// (the `--all` empty check decided on the non-epic tasks only) is therefore declared missed; the code stays as a record.
func initOU25Disabled() {
	register(&Rule{ID: "OU25", Min: 1, Run: ruleOU25,
		Doc: "all-view-renders-unless-empty: with --all every live item has a row. In the human list, wherever the ShowAll option is known to be true, a path to a successful return that does not pass the tree renderer must pass a test that what the renderer would have been given (its roots argument) is empty: an early `No tasks.` decided on another collection (the non-epic tasks only) leaves every epic of an epics-only store without a row"})
}

func ruleOU25(c *Ctx) {
	rl := c.ErgoFn("RunList")
	rtv := c.ErgoFn("renderTreeView")
	if rl == nil || rtv == nil {
		c.unk("ergo.RunList", "all-view", "-", "RunList or the tree renderer not found")
		return
	}
	n := 0
	seenFn := map[*ssa.Function]bool{}
	for _, f := range append([]*ssa.Function{rl}, c.unitOf(rl)...) {
		if seenFn[f] {
			continue
		}
		seenFn[f] = true
		calls := callsTo(f, rtv)
		if len(calls) == 0 {
			continue
		}
		// the roots handed to the renderer ([]*treeNode argument)
		rootsCanon := map[string]bool{}
		blocked := map[*ssa.BasicBlock]bool{}
		for _, call := range calls {
			blocked[call.Block()] = true
			for _, a := range call.Common().Args {
				if _, isSlice := a.Type().Underlying().(*types.Slice); isSlice {
					rootsCanon[c.canon(a)] = true
				}
			}
		}
		var starts []*ssa.BasicBlock
		startVal := map[*ssa.BasicBlock]ssa.Value{}
		for _, bf := range branchFacts(f) {
			if len(bf.A.Env) != 0 || bf.A.Kind != "bool" || !bf.Holds {
				continue
			}
			if derivesFromField(bf.A.X, "ShowAll") {
				starts = append(starts, bf.E.To())
				startVal[bf.E.To()] = bf.A.X
			}
		}
		empty := edgesWhere(f, func(a Atom, holds bool) bool {
			if a.Kind != "const" || !holds || len(a.Env) != 0 {
				return false
			}
			if k, ok := constInt(a.C); !ok || k != 0 {
				return false
			}
			cl, _ := callOf(a.X)
			return cl != nil && calleeFullName(&cl.Call) == "builtin len" && len(cl.Call.Args) == 1 && rootsCanon[c.canon(cl.Call.Args[0])]
		})
		// the JSON reply leaves before anything is rendered: not the human view
		for e := range edgesWhere(f, func(a Atom, holds bool) bool {
			return a.Kind == "bool" && holds && len(a.Env) == 0 && derivesFromField(a.X, "JSON")
		}) {
			empty[e] = true
		}
		curEnv = nil
		if len(starts) == 0 {
			continue
		}
		n++
		targets := map[*ssa.BasicBlock]bool{}
		for _, r := range c.nonFailingReturns(f) {
			if !blocked[r.Block()] {
				targets[r.Block()] = true
			}
		}
		// only the human path: JSON replies leave before
		ex, wit := false, []int(nil)
		for _, st := range starts {
			if blocked[st] {
				continue
			}
			// the --all branch proper: the start must lead to a render call at all (the flag-conflict test does not)
			leads := false
			for b := range blocked {
				if st.Dominates(b) {
					leads = true
				}
			}
			if !leads {
				continue
			}
			// when the option is read in the entry block the search starts there, so that what the function establishes
			// before this branch (conflicting flags rejected) is known on the path
			from := st
			if in, ok := startVal[st].(ssa.Instruction); ok && in.Block() == f.Blocks[0] {
				from = f.Blocks[0]
			}
			if e2, w2 := c.pathExists(psQuery{F: f, Start: from, Blocked: blocked, Removed: empty, Targets: targets, Seed: []psSeed{{V: startVal[st], Truth: true}}}); e2 {
				ex, wit = true, w2
			}
		}
		c.check(!ex, c.Name(f), "all-view renders unless its roots are empty", c.FnPos(f),
			"under --all every path that skips the renderer has tested the renderer's own input empty",
			fmt.Sprintf("under --all the command can return successfully without rendering although the renderer's roots were never tested empty (blocks %v): a store whose only live items are epics prints `No tasks.` and none of them has a row", wit))
	}
	if n == 0 {
		c.unk(c.Name(rl), "all-view", c.FnPos(rl), "no branch on the ShowAll option leading to the tree renderer was found")
	}
}

// ------------------------------------------------------------------ clauses added with the second audit (F25-F28)

// groupCommandsFail (a clause of OU2): a cobra command that has sub-commands but no Run/RunE is "not runnable"; cobra
// answers a stray word after it (`ergo new taks`) with the help text on stdout and exit 0 - a failing invocation that
// says nothing failed. Every command literal that is the receiver of an AddCommand call, other than the root (which
// cobra itself checks), stores a RunE.
func (c *Ctx) groupCommandsFail() {
	type lit struct {
		al     *ssa.Alloc
		hasRun bool
		pos    string
	}
	lits := map[*ssa.Global]*lit{}
	parents := map[*ssa.Global]bool{}
	var root *ssa.Global
	for _, f := range c.Fns {
		if !c.InModule(f) || f.Blocks == nil || f.Pkg == c.Ergo {
			continue
		}
		eachInstr(f, func(r instrRef) {
			switch x := r.In.(type) {
			case *ssa.Store:
				g, ok := x.Addr.(*ssa.Global)
				if !ok || namedTypeName(g.Type().(*types.Pointer).Elem()) != "cobra.Command" {
					return
				}
				al, ok := x.Val.(*ssa.Alloc)
				if !ok || al.Referrers() == nil {
					return
				}
				l := &lit{al: al, pos: c.Pos(al.Pos())}
				for _, u := range *al.Referrers() {
					if fa, ok := u.(*ssa.FieldAddr); ok {
						if n := fieldName(al.Type(), fa.Field); n == "RunE" || n == "Run" {
							l.hasRun = true
						}
					}
				}
				lits[g] = l
			case ssa.CallInstruction:
				n := calleeFullName(x.Common())
				if n == "(*github.com/spf13/cobra.Command).AddCommand" && len(x.Common().Args) > 0 {
					if u, ok := x.Common().Args[0].(*ssa.UnOp); ok {
						if g, ok := u.X.(*ssa.Global); ok {
							parents[g] = true
						}
					}
				}
				if n == "(*github.com/spf13/cobra.Command).Execute" || n == "(*github.com/spf13/cobra.Command).ExecuteC" {
					if u, ok := x.Common().Args[0].(*ssa.UnOp); ok {
						if g, ok := u.X.(*ssa.Global); ok {
							root = g
						}
					}
				}
			}
		})
	}
	var names []string
	byName := map[string]*ssa.Global{}
	for g := range parents {
		names = append(names, g.Name())
		byName[g.Name()] = g
	}
	sort.Strings(names)
	for _, n := range names {
		g := byName[n]
		if g == root {
			continue
		}
		l := lits[g]
		if l == nil {
			continue
		}
		c.check(l.hasRun, "main."+n, "group-command-has-RunE", l.pos, "the command group handles a stray word itself",
			"this command has sub-commands but no RunE: cobra answers `ergo "+strings.TrimSuffix(n, "Cmd")+" <misspelt sub-command>` with the help text on stdout and exit 0 - nothing was done and nothing says so")
	}
}

// initNeverNests (a clause of ST4): init builds its target as <dir>/.ergo. Started inside a store's own .ergo directory
// that would create .ergo/.ergo - an empty second store that every command started there then uses (the upward search
// begins at the start directory itself). So the entry that creates the store directory tests whether the directory it
// was given is itself named .ergo (filepath.Base(...) compared with the constant).
func (c *Ctx) initNeverNests() {
	ri := c.ErgoFn("RunInit")
	if ri == nil || ri.Blocks == nil {
		return
	}
	ok := false
	for _, g := range append([]*ssa.Function{ri}, c.unitOf(ri)...) {
		for _, bf := range branchFacts(g) {
			if bf.A.Kind != "const" || constStr(bf.A.C) != ".ergo" {
				continue
			}
			if cl, _ := callOf(bf.A.X); cl != nil && calleeFullName(&cl.Call) == "path/filepath.Base" {
				ok = true
			}
		}
	}
	curEnv = nil
	c.check(ok, c.Name(ri), "init-does-not-nest", c.FnPos(ri), "init recognises a start directory that is itself a .ergo directory",
		"init always creates <dir>/.ergo: run inside a store's own .ergo directory (or as `init .ergo`) it creates .ergo/.ergo, an empty store that shadows the real one for every command started there or given --dir .ergo")
}

// resultPathIsUTF8 (a clause of VD9): the path of a result is recorded as JSON text; bytes that are not valid UTF-8 are
// replaced by U+FFFD when the event is marshalled, so the recorded path and its file_url name another file than the one
// hashed. Every non-failing return of the path validator is reached only across the true edge of utf8.ValidString.
func (c *Ctx) resultPathIsUTF8() {
	vrp := c.ErgoFn("validateResultPath")
	if vrp == nil || vrp.Blocks == nil {
		return
	}
	pass := edgesWhere(vrp, func(a Atom, holds bool) bool {
		if a.Kind != "bool" || !holds {
			return false
		}
		cl, _ := callOf(a.X)
		return cl != nil && (calleeFullName(&cl.Call) == "unicode/utf8.ValidString" || calleeFullName(&cl.Call) == "unicode/utf8.Valid")
	})
	ok := len(pass) > 0
	for _, r := range c.nonFailingReturns(vrp) {
		if !mustPassEdges(vrp, r.Block(), pass) {
			ok = false
		}
	}
	c.check(ok, c.Name(vrp), "accept|valid-utf8", c.FnPos(vrp), "a result path is accepted only if it is valid UTF-8",
		"a result path that is not valid UTF-8 is accepted: JSON cannot hold it, the marshalled event carries U+FFFD instead, and the recorded path and file_url name a different (or no) file than the one whose sha256 was recorded")
}
