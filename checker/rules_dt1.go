package main

// DT1: map-iteration order must not reach outputs, event order or error text (E7: order taint).
// Sources: every `range` over a map. A loop body may only have commutative effects; slices
// collected in such a loop are order-tainted until they pass a total sort; tainted slices may
// flow into commutative consumers (len, counting loops, further collectors) and normalisers.

import (
	"fmt"
	"go/token"
	"go/types"
	"sort"
	"strings"

	"golang.org/x/tools/go/ssa"
)

func init() {
	register(&Rule{ID: "DT1", Min: 20, Run: ruleDT1,
		Doc: "map-order-independence: for every range over a map, the loop body has only commutative effects (map/set updates, counters, per-element updates, constant early returns, calls without output/emission), and every slice collected in it passes a total-order sort (sort.Strings, or sort.Slice whose comparator ends in an ID/key < tie-break, or a normaliser function doing so) before any order-observing use (indexing, output, event construction, storing into a result, joining), directly or through the functions it is passed to / returned from"})
}

type dt1 struct {
	c        *Ctx
	pure     map[*ssa.Function]int // 1 pure (no output/emission/storage), 2 impure
	paramMem map[string]*taintSummary
	normMem  map[*ssa.Function]int
	depth    int
}

type taintSummary struct {
	problems      []string
	resultTainted bool
}

// ---- function classification

func (d *dt1) isPure(f *ssa.Function) bool {
	if v, ok := d.pure[f]; ok {
		return v == 1
	}
	d.pure[f] = 1
	c := d.c
	ne := c.F.Anchors["newEvent"]
	impure := false
	for g := range c.F.TransitiveCallees(f) {
		if g == ne {
			impure = true
		}
		for _, call := range callsIn(g) {
			n := calleeFullName(call.Common())
			if strings.HasPrefix(n, "fmt.Print") || strings.HasPrefix(n, "fmt.Fprint") {
				impure = true
			}
			if e := c.F.byCall[call]; e != nil && storageEffectClass(e.Class) {
				impure = true
			}
		}
	}
	if impure {
		d.pure[f] = 2
	}
	return !impure
}

// totalSort recognises an in-place total sort call and returns the sorted slice value.
func (d *dt1) totalSort(call ssa.CallInstruction) (ssa.Value, string) { return d.totalSortD(call, 0) }

func (d *dt1) totalSortD(call ssa.CallInstruction, depth int) (ssa.Value, string) {
	cc := call.Common()
	n := calleeFullName(cc)
	switch n {
	case "slices.Sorted":
		// consumes an iterator (maps.Keys(m)) and hands back a new, totally ordered slice
		if cv, ok := call.(*ssa.Call); ok {
			return cv, "total"
		}
	case "slices.SortedFunc", "slices.SortedStableFunc":
		if cv, ok := call.(*ssa.Call); ok && len(cc.Args) == 2 {
			for _, lf := range funcValuesOf(cc.Args[1], 0) {
				_, tie := d.c.comparatorShape(lf)
				if tie || d.elementCompare(lf) {
					return cv, "total"
				}
			}
			return cv, "partial"
		}
	case "sort.Strings", "sort.Ints", "slices.Sort":
		return cc.Args[0], "total"
	case "sort.Slice", "sort.SliceStable", "slices.SortFunc", "slices.SortStableFunc":
		arg := cc.Args[0]
		if mi, ok := arg.(*ssa.MakeInterface); ok {
			arg = mi.X
		}
		for _, lf := range funcValuesOf(cc.Args[1], 0) {
			_, tie := d.c.comparatorShape(lf)
			if tie || d.elementLess(lf) || d.elementCompare(lf) || d.positionOrder(lf) {
				return arg, "total"
			}
		}
		return arg, "partial"
	}
	// module normaliser sorting its parameter in place
	if cal := calleeOf(cc); cal != nil && d.c.InModule(cal) && depth == 0 {
		for i, prm := range cal.Params {
			if _, isSlice := prm.Type().Underlying().(*types.Slice); !isSlice {
				continue
			}
			for _, inner := range callsIn(cal) {
				if sv, kind := d.totalSortD(inner, depth+1); sv != nil && resolve(sv) == ssa.Value(prm) {
					if kind == "total" && len(callsIn(cal)) <= 2 && i < len(cc.Args) {
						return cc.Args[i], "total"
					}
					if i < len(cc.Args) {
						return cc.Args[i], kind
					}
				}
			}
		}
	}
	return nil, ""
}

// positionOrder: the comparator is `pos[s[i]] < pos[s[j]]` where pos maps each key to the index at which a slice loop
// first met it (pos[k] = i inside `for i, x := range xs`, the only insertion into pos): distinct keys carry distinct
// positions, so the order is total on them.
func (d *dt1) positionOrder(lf *ssa.Function) bool {
	rets := returnsOf(lf)
	if len(rets) != 1 || len(rets[0].Results) != 1 || len(lf.Params) != 2 {
		return false
	}
	b, ok := strip(rets[0].Results[0]).(*ssa.BinOp)
	if !ok || b.Op != token.LSS {
		return false
	}
	lx, ok1 := strip(b.X).(*ssa.Lookup)
	ly, ok2 := strip(b.Y).(*ssa.Lookup)
	if !ok1 || !ok2 || lx.CommaOk || ly.CommaOk || resolve(lx.X) != resolve(ly.X) {
		return false
	}
	if !derivesFrom(lx.Index, lf.Params[0]) || !derivesFrom(ly.Index, lf.Params[1]) {
		return false
	}
	// every origin of the map: a fresh map with a single insertion site whose value is a slice-range index
	var origins []*ssa.MakeMap
	seen := map[ssa.Value]bool{}
	var find func(v ssa.Value, depth int) bool
	find = func(v ssa.Value, depth int) bool {
		v = resolve(v)
		if seen[v] {
			return true
		}
		seen[v] = true
		if depth > 6 {
			return false
		}
		switch x := v.(type) {
		case *ssa.MakeMap:
			origins = append(origins, x)
			return true
		case *ssa.FreeVar:
			if bnd := bindingOf(x); bnd != nil {
				return find(bnd, depth+1)
			}
		case *ssa.Parameter:
			args := d.c.argValues(x.Parent(), paramIndex(x))
			if len(args) == 0 {
				return false
			}
			for _, a := range args {
				if !find(a, depth+1) {
					return false
				}
			}
			return true
		case *ssa.Phi:
			for _, e := range x.Edges {
				if !find(e, depth+1) {
					return false
				}
			}
			return true
		}
		return false
	}
	if !find(lx.X, 0) || len(origins) == 0 {
		return false
	}
	for _, mm := range origins {
		ups := d.c.mapUpdatesOf(mm)
		if len(ups) != 1 {
			return false
		}
		// the index of a slice loop: go/ssa lowers `for i := range xs` to i = phi(-1, i+1) (no Range instruction)
		ph, ok := strip(ups[0].Value).(*ssa.BinOp)
		var ind *ssa.Phi
		if ok && ph.Op == token.ADD {
			if p0, isPhi := ph.X.(*ssa.Phi); isPhi {
				if k, isK := constInt(ph.Y); isK && k == 1 {
					ind = p0
				}
			}
		} else if p0, isPhi := strip(ups[0].Value).(*ssa.Phi); isPhi {
			ind = p0
		}
		if ind == nil || len(ind.Edges) < 2 {
			return false
		}
		step := false
		for _, e := range ind.Edges {
			if bo, isB := e.(*ssa.BinOp); isB && bo.Op == token.ADD && bo.X == ssa.Value(ind) {
				if k, isK := constInt(bo.Y); isK && k == 1 {
					step = true
				}
			} else if _, isK := constInt(e); !isK {
				return false
			}
		}
		if !step {
			return false
		}
	}
	return true
}

// elementCompare: a three-way comparator that is cmp.Compare / strings.Compare of the two elements themselves.
func (d *dt1) elementCompare(lf *ssa.Function) bool {
	rets := returnsOf(lf)
	if len(rets) != 1 || len(rets[0].Results) != 1 || len(lf.Params) != 2 {
		return false
	}
	cl, _ := callOf(rets[0].Results[0])
	if cl == nil || len(cl.Call.Args) != 2 {
		return false
	}
	n := calleeFullName(&cl.Call)
	return (n == "cmp.Compare" || n == "strings.Compare") && resolve(cl.Call.Args[0]) == ssa.Value(lf.Params[0]) && resolve(cl.Call.Args[1]) == ssa.Value(lf.Params[1])
}

// elementLess: comparator of the form s[i] < s[j] on directly comparable elements (strings).
func (d *dt1) elementLess(lf *ssa.Function) bool {
	for _, r := range returnsOf(lf) {
		if len(r.Results) != 1 {
			continue
		}
		if b, ok := r.Results[0].(*ssa.BinOp); ok && b.Op == token.LSS {
			// the operands are the two elements themselves (s[i], s[j]; or a, b for slices.SortFunc-style helpers), not
			// something computed from them (len(s[i]) < len(s[j]) ties on equal lengths)
			isElem := func(v ssa.Value, prm *ssa.Parameter) bool {
				v = strip(v)
				if v == ssa.Value(prm) {
					return true
				}
				if u, ok := v.(*ssa.UnOp); ok && u.Op == token.MUL {
					if ia, ok := u.X.(*ssa.IndexAddr); ok && strip(ia.Index) == ssa.Value(prm) {
						return true
					}
				}
				if ix, ok := v.(*ssa.Index); ok && strip(ix.Index) == ssa.Value(prm) {
					return true
				}
				return false
			}
			if isBasic(b.X.Type()) && len(returnsOf(lf)) == 1 && len(lf.Params) == 2 && isElem(b.X, lf.Params[0]) && isElem(b.Y, lf.Params[1]) {
				return true
			}
		}
	}
	return false
}

// returnsNormalised: f's result does not depend on the order of its slice/map parameters: every returned slice
// is (a) passed through a total sort before the return, or (b) built only from picks out of a totally sorted queue
// (the frozen topological normaliser: every sort in it is total and it contains at least one).
func (d *dt1) returnsNormalised(f *ssa.Function) bool {
	if v, ok := d.normMem[f]; ok {
		return v == 1
	}
	d.normMem[f] = 2
	res := f.Signature.Results()
	if res.Len() != 1 {
		return false
	}
	if _, isSlice := res.At(0).Type().Underlying().(*types.Slice); !isSlice {
		return false
	}
	sorts, total := 0, true
	var sortCalls []ssa.CallInstruction
	for _, call := range callsIn(f) {
		if sv, kind := d.totalSort(call); sv != nil {
			sorts++
			sortCalls = append(sortCalls, call)
			if kind != "total" {
				total = false
			}
		}
	}
	if sorts == 0 || !total {
		return false
	}
	// every non-trivial return must be dominated by a total sort of the returned value, or the function is the
	// queue-based normaliser: all its sorts are on one queue value and the result is appended only from queue[0].
	okAll := true
	for _, r := range returnsOf(f) {
		rv := resolve(r.Results[0])
		if isNilConst(rv) {
			continue
		}
		if _, isParam := rv.(*ssa.Parameter); isParam {
			// early return of the (empty) input
			lenZero := edgesWhere(f, func(a Atom, holds bool) bool {
				if a.Kind != "const" || !holds {
					return false
				}
				cl, _ := callOf(a.X)
				return cl != nil && calleeFullName(&cl.Call) == "builtin len"
			})
			if mustPassEdges(f, r.Block(), lenZero) {
				continue
			}
			okAll = false
			continue
		}
		dominated := false
		for _, sc := range sortCalls {
			sv, _ := d.totalSort(sc)
			if instrDominates(sc, r) && (d.c.canon(sv) == d.c.canon(rv) || sameSliceVar(sv, rv)) && !grownAfter(sc, r, rv) {
				dominated = true
			}
		}
		if dominated {
			continue
		}
		// queue idiom: result = append(result, queue[0]) only
		if d.builtFromQueueHead(f, rv, sortCalls) {
			continue
		}
		okAll = false
	}
	if okAll {
		d.normMem[f] = 1
	}
	return okAll
}

func sameSliceVar(a, b ssa.Value) bool {
	a, b = resolve(a), resolve(b)
	if a == b {
		return true
	}
	// two loads of the same variable cell
	if ua, ok := a.(*ssa.UnOp); ok && ua.Op == token.MUL {
		if ub, ok := b.(*ssa.UnOp); ok && ub.Op == token.MUL {
			if ca, cb := cellOf(ua.X), cellOf(ub.X); ca != nil && ca == cb {
				return true
			}
		}
	}
	// phi of appends on the same variable: compare by underlying phi
	if pa, ok := a.(*ssa.Phi); ok {
		for _, e := range pa.Edges {
			if resolve(e) == b {
				return true
			}
		}
	}
	if pb, ok := b.(*ssa.Phi); ok {
		for _, e := range pb.Edges {
			if resolve(e) == a {
				return true
			}
		}
	}
	return false
}

// builtFromQueueHead: rv is a loop-carried slice whose only growth is append(rv, q[0]) where q is a value that is
// totally sorted (by one of sortCalls) on every path after its last append.
func (d *dt1) builtFromQueueHead(f *ssa.Function, rv ssa.Value, sortCalls []ssa.CallInstruction) bool {
	ph, ok := rv.(*ssa.Phi)
	if !ok {
		return false
	}
	grew := false
	for _, e := range ph.Edges {
		e = resolve(e)
		if isNilConst(e) || e == ssa.Value(ph) {
			continue
		}
		if ms, isMake := e.(*ssa.MakeSlice); isMake {
			// preallocated, still empty: make([]T, 0, n)
			if l, ok := constInt(ms.Len); ok && l == 0 {
				continue
			}
			return false
		}
		ap, ok := e.(*ssa.Call)
		if !ok || calleeFullName(&ap.Call) != "builtin append" {
			return false
		}
		elems := variadicElems(ap.Call.Args[1:])
		if len(elems) != 1 {
			return false
		}
		// element must be q[0]
		ld, ok := resolve(elems[0]).(*ssa.UnOp)
		if !ok || ld.Op != token.MUL {
			return false
		}
		ia, ok := ld.X.(*ssa.IndexAddr)
		if !ok {
			return false
		}
		if k, ok := constInt(ia.Index); !ok || k != 0 {
			return false
		}
		// q must be the subject of every sort call
		for _, sc := range sortCalls {
			sv, _ := d.totalSort(sc)
			if !sameSliceVar(sv, ia.X) && !phiRelated(sv, ia.X) {
				return false
			}
		}
		grew = true
	}
	return grew
}

// phiRelated: a and b are versions of one loop-carried variable (connected through phis/appends/slices).
func phiRelated(a, b ssa.Value) bool {
	seen := map[ssa.Value]bool{}
	var reachv func(x ssa.Value, d int) bool
	reachv = func(x ssa.Value, d int) bool {
		x = resolve(x)
		if x == resolve(b) {
			return true
		}
		if d > 12 || seen[x] {
			return false
		}
		seen[x] = true
		switch y := x.(type) {
		case *ssa.Phi:
			for _, e := range y.Edges {
				if reachv(e, d+1) {
					return true
				}
			}
		case *ssa.Call:
			if calleeFullName(&y.Call) == "builtin append" {
				return reachv(y.Call.Args[0], d+1)
			}
		case *ssa.Slice:
			return reachv(y.X, d+1)
		}
		return false
	}
	if reachv(a, 0) {
		return true
	}
	seen = map[ssa.Value]bool{}
	a, b = b, a
	return reachv(a, 0)
}

// isExtremumSelector: f(a, b T) T hands back one of its two arguments, chosen by comparing them (maxTime, minInt): folding
// a collection with it gives the same result in every order. No effects, no other calls than the comparison.
func isExtremumSelector(f *ssa.Function) bool {
	if f == nil || f.Blocks == nil || len(f.Params) != 2 || f.Signature.Recv() != nil || f.Signature.Results().Len() != 1 {
		return false
	}
	if !types.Identical(f.Params[0].Type(), f.Params[1].Type()) || !types.Identical(f.Params[0].Type(), f.Signature.Results().At(0).Type()) {
		return false
	}
	isParam := func(v ssa.Value) bool {
		v = strip(v)
		if ld, ok := v.(*ssa.UnOp); ok && ld.Op == token.MUL {
			// a parameter spilled to a local because a method took its address
			if al, ok := ld.X.(*ssa.Alloc); ok {
				sts := cellStores(al)
				return len(sts) == 1 && (sts[0].Val == ssa.Value(f.Params[0]) || sts[0].Val == ssa.Value(f.Params[1]))
			}
		}
		return v == ssa.Value(f.Params[0]) || v == ssa.Value(f.Params[1])
	}
	compared := false
	for _, b := range f.Blocks {
		for _, in := range b.Instrs {
			switch x := in.(type) {
			case *ssa.Return:
				if len(x.Results) != 1 {
					return false
				}
				vals := []ssa.Value{x.Results[0]}
				if ph, ok := x.Results[0].(*ssa.Phi); ok {
					vals = ph.Edges
				}
				for _, v := range vals {
					if !isParam(v) {
						return false
					}
				}
			case *ssa.Call:
				switch calleeFullName(&x.Call) {
				case "(time.Time).After", "(time.Time).Before", "(time.Time).Compare", "cmp.Compare", "strings.Compare":
					for _, a := range x.Call.Args {
						if !isParam(a) {
							return false
						}
					}
					compared = true
				default:
					return false
				}
			case *ssa.BinOp:
				switch x.Op {
				case token.LSS, token.GTR, token.LEQ, token.GEQ:
					if !isParam(x.X) || !isParam(x.Y) {
						return false
					}
					compared = true
				}
			case *ssa.Store:
				if al, ok := x.Addr.(*ssa.Alloc); !ok || !isParam(x.Val) || al.Heap {
					return false
				}
			case *ssa.MapUpdate, *ssa.Go, *ssa.Defer, *ssa.Send:
				return false
			}
		}
	}
	return compared
}

// ---- loops

// loopBlocks: blocks of the loop headed by hdr (natural loop: hdr dominates them and they reach hdr).
func loopBlocks(hdr *ssa.BasicBlock) map[*ssa.BasicBlock]bool {
	// the natural loop: the blocks that reach a back edge into hdr without passing hdr again (a block after an inner
	// loop reaches the inner header again only through the enclosing loop's back edge - it is not part of the inner loop)
	out := map[*ssa.BasicBlock]bool{hdr: true}
	var work []*ssa.BasicBlock
	for _, p := range hdr.Preds {
		if hdr.Dominates(p) && !out[p] {
			out[p] = true
			work = append(work, p)
		}
	}
	for len(work) > 0 {
		b := work[len(work)-1]
		work = work[:len(work)-1]
		for _, p := range b.Preds {
			if !out[p] && hdr.Dominates(p) {
				out[p] = true
				work = append(work, p)
			}
		}
	}
	return out
}

// bodyEffects classifies the effects of a loop whose iteration order is tainted.
// elem: values that name the current element/key (may be nil). Returns problems and the collectors (tainted values).
func (d *dt1) bodyEffects(f *ssa.Function, blocks map[*ssa.BasicBlock]bool, what string) (problems []string, collectors []ssa.Value, mapCollectors []ssa.Value) {
	c := d.c
	for b := range blocks {
		for _, in := range b.Instrs {
			switch x := in.(type) {
			case *ssa.Phi:
				// loop-carried values at the header
				for _, e := range x.Edges {
					ein, ok := e.(ssa.Instruction)
					if !ok || !blocks[ein.Block()] {
						continue
					}
					switch y := e.(type) {
					case *ssa.Call:
						if calleeFullName(&y.Call) == "builtin append" {
							collectors = append(collectors, x)
						} else if isExtremumSelector(calleeOf(&y.Call)) {
							// max/min of the elements seen so far: the same whatever the order
						} else if !isBasic(x.Type()) {
							problems = append(problems, fmt.Sprintf("loop-carried value updated by %s at %s", calleeFullName(&y.Call), c.Pos(y.Pos())))
						}
					case *ssa.BinOp:
						if t, ok := x.Type().Underlying().(*types.Basic); ok && t.Info()&types.IsString != 0 {
							problems = append(problems, "string built up in iteration order at "+c.Pos(y.Pos()))
						}
					case *ssa.Phi, *ssa.Const:
					default:
						if _, isSlice := x.Type().Underlying().(*types.Slice); isSlice {
							collectors = append(collectors, x)
						}
					}
				}
			case *ssa.MapUpdate:
				if ap, ok := x.Value.(*ssa.Call); ok && calleeFullName(&ap.Call) == "builtin append" {
					mapCollectors = append(mapCollectors, x.Map)
				}
				// `out[key] = v` is commutative as long as distinct iterations write distinct keys. A key that is the
				// iteration's key on one path and something looked up or computed on another (renaming some keys on
				// the way) lets two iterations write the same entry: the later one wins, and which one is later is the
				// map's iteration order
				if ph, ok := strip(x.Key).(*ssa.Phi); ok && blocks[ph.Block()] {
					if _, isConst := x.Value.(*ssa.Const); !isConst {
						distinct := map[ssa.Value]bool{}
						fromLoop := false
						for _, e := range ph.Edges {
							e = strip(e)
							if e == ssa.Value(ph) {
								continue
							}
							distinct[e] = true
							if ein, ok := e.(ssa.Instruction); ok && blocks[ein.Block()] {
								fromLoop = true
							}
						}
						if len(distinct) > 1 && fromLoop {
							problems = append(problems, fmt.Sprintf("%s writes map entries under a key that is rewritten on some paths at %s: two iterations can write the same entry and the later one wins", what, c.Pos(x.Pos())))
						}
					}
				}
			case *ssa.Store:
				if cell := cellOf(x.Addr); cell != nil {
					// captured/escaping variable written in the loop
					if ap, ok := x.Val.(*ssa.Call); ok && calleeFullName(&ap.Call) == "builtin append" {
						collectors = append(collectors, cell)
						continue
					}
					if _, isConst := x.Val.(*ssa.Const); isConst {
						continue
					}
					if isBasic(x.Val.Type()) {
						if t := x.Val.Type().Underlying().(*types.Basic); t.Info()&types.IsString != 0 {
							problems = append(problems, "a string variable is overwritten per iteration at "+c.Pos(x.Pos())+" (last one wins)")
						}
						continue
					}
				}
			case ssa.CallInstruction:
				cc := x.Common()
				n := calleeFullName(cc)
				cal := calleeOf(cc)
				switch {
				case strings.HasPrefix(n, "builtin "):
				case cal != nil && c.InModule(cal):
					if cal == Outermost(f) || cal == f {
						continue // recursion: its effects are this function's own, classified here
					}
					if !d.isPure(cal) {
						problems = append(problems, fmt.Sprintf("%s calls %s (output/emission/storage) in map order at %s", what, c.Name(cal), c.Pos(x.Pos())))
					}
				case cal == nil && !cc.IsInvoke():
					if mc, ok := resolve(cc.Value).(*ssa.MakeClosure); ok {
						g := mc.Fn.(*ssa.Function)
						if !d.isPure(g) {
							problems = append(problems, fmt.Sprintf("%s calls closure %s with output in map order at %s", what, c.Name(g), c.Pos(x.Pos())))
						}
					}
				case strings.HasPrefix(n, "fmt.Print") || strings.HasPrefix(n, "fmt.Fprint"):
					problems = append(problems, fmt.Sprintf("%s prints in map order at %s", what, c.Pos(x.Pos())))
				case strings.HasPrefix(n, "(*strings.Builder).Write") || strings.HasPrefix(n, "(*bytes.Buffer).Write"):
					problems = append(problems, fmt.Sprintf("%s writes to a buffer in map order at %s", what, c.Pos(x.Pos())))
				}
			case *ssa.Return:
				for _, rv := range x.Results {
					rv = resolve(rv)
					if _, ok := rv.(*ssa.Const); ok {
						continue
					}
					if isErrorType(rv) || isBasic(rv.Type()) {
						// first-match return of a computed value: which element is reported depends on the order
						if cl, _ := callOf(rv); cl != nil {
							problems = append(problems, fmt.Sprintf("%s returns a value built from the first matching element at %s", what, c.Pos(x.Pos())))
						}
					}
				}
			}
		}
	}
	return
}

// ---- uses of a tainted value

// taintedUses examines every use of tainted value v inside f. Returns problems; resultTainted if v (or something
// derived from it) is returned.
func (d *dt1) taintedUses(f *ssa.Function, v ssa.Value, label string, depth int) *taintSummary {
	c := d.c
	sum := &taintSummary{}
	if depth > 6 {
		sum.problems = append(sum.problems, label+": taint followed too deep; undecided")
		return sum
	}
	type use struct {
		in   ssa.Instruction
		desc string
	}
	var sorts []ssa.CallInstruction
	var observers []use
	seen := map[ssa.Value]bool{}
	var follow func(x ssa.Value)
	follow = func(x ssa.Value) {
		if x == nil || seen[x] {
			return
		}
		seen[x] = true
		refs := x.Referrers()
		if refs == nil {
			return
		}
		for _, r := range *refs {
			switch y := r.(type) {
			case *ssa.DebugRef:
			case *ssa.Phi:
				follow(y)
			case *ssa.MakeInterface:
				follow(y)
			case *ssa.Slice:
				follow(y)
			case *ssa.UnOp:
				if y.Op == token.MUL {
					follow(y) // load of a cell holding the slice
				}
			case *ssa.Store:
				if y.Val == x {
					if cell := cellOf(y.Addr); cell != nil {
						for _, ld := range cellLoads(cell) {
							follow(ld)
						}
						continue
					}
					// a field of a local context struct (view.allTasks = ...): every read of that field, in this function
					// or in the methods/helpers the struct is handed to, carries the taint on
					if fa, ok := y.Addr.(*ssa.FieldAddr); ok {
						if base := cellOf(fa.X); base != nil {
							if _, isStruct := base.Type().Underlying().(*types.Pointer).Elem().Underlying().(*types.Struct); isStruct {
								escapes := false
								for _, alias := range cellAliases(base) {
									arefs := alias.Referrers()
									if arefs == nil {
										continue
									}
									for _, ar := range *arefs {
										switch esc := ar.(type) {
										case *ssa.UnOp:
											if esc.Op == token.MUL && esc.X == alias {
												escapes = true // the struct is copied out as a whole (returned, passed by value)
											}
										case *ssa.Return, *ssa.MakeInterface:
											escapes = true
										case *ssa.Store:
											if esc.Val == alias {
												if _, local := esc.Addr.(*ssa.Alloc); !local {
													escapes = true
												}
											}
										case ssa.CallInstruction:
											if cal := calleeOf(esc.Common()); cal == nil || !c.InModule(cal) {
												escapes = true
											}
										}
										fa2, ok := ar.(*ssa.FieldAddr)
										if !ok || fa2.Field != fa.Field || fa2.Referrers() == nil {
											continue
										}
										for _, lr := range *fa2.Referrers() {
											ld, ok := lr.(*ssa.UnOp)
											if !ok || ld.Op != token.MUL {
												continue
											}
											if ld.Parent() == f {
												follow(ld)
												continue
											}
											key := fmt.Sprintf("field:%s@%d", ld.Parent().String(), ld.Pos())
											ps, ok := d.paramMem[key]
											if !ok {
												d.paramMem[key] = &taintSummary{}
												ps = d.taintedUses(ld.Parent(), ld, label+" (read back from "+fieldName(fa.X.Type(), fa.Field)+" in "+c.Name(ld.Parent())+")", depth+1)
												d.paramMem[key] = ps
											}
											for _, p := range ps.problems {
												observers = append(observers, use{y, p})
											}
											if ps.resultTainted {
												observers = append(observers, use{y, "is stored into a structure whose field is returned by " + c.Name(ld.Parent())})
											}
										}
									}
								}
								if escapes {
									observers = append(observers, use{y, "is stored into a structure that leaves the function"})
								}
								continue
							}
						}
					}
					observers = append(observers, use{y, "is stored into a structure"})
				}
			case *ssa.MapUpdate:
				if y.Value == x {
					// values of this map are tainted: follow lookups
					if mrefs := y.Map.Referrers(); mrefs != nil {
						for _, mr := range *mrefs {
							if lk, ok := mr.(*ssa.Lookup); ok {
								follow(lk)
							}
						}
					}
				}
			case *ssa.Lookup:
				follow(y)
			case *ssa.Extract:
				follow(y)
			case *ssa.Return:
				sum.resultTainted = true
				observers = append(observers, use{y, "return"})
			case *ssa.IndexAddr, *ssa.Index:
				var idx ssa.Value
				if ia, ok := y.(*ssa.IndexAddr); ok {
					idx = ia.Index
				} else {
					idx = y.(*ssa.Index).Index
				}
				if _, isConst := constInt(idx); isConst {
					observers = append(observers, use{y, "is indexed at a fixed position"})
					continue
				}
				// iteration: classify the loop this index lives in
				hdr := enclosingLoopHeader(y.Block())
				if hdr == nil {
					observers = append(observers, use{y, "is indexed"})
					continue
				}
				probs, cols, mcols := d.bodyEffects(f, loopBlocks(hdr), "a loop over "+label)
				for _, p := range probs {
					observers = append(observers, use{y, p})
				}
				for _, col := range cols {
					if al, ok := col.(*ssa.Alloc); ok {
						for _, ld := range cellLoads(al) {
							follow(ld)
						}
						continue
					}
					follow(col)
				}
				for _, mc := range mcols {
					if mrefs := mc.Referrers(); mrefs != nil {
						for _, mr := range *mrefs {
							if lk, ok := mr.(*ssa.Lookup); ok {
								follow(lk)
							}
						}
					}
				}
			case ssa.CallInstruction:
				cc := y.Common()
				n := calleeFullName(cc)
				if n == "builtin len" || n == "builtin cap" {
					continue
				}
				if n == "builtin append" {
					if cv, ok := y.(*ssa.Call); ok {
						follow(cv)
					}
					continue
				}
				if n == "builtin copy" {
					observers = append(observers, use{y, "is copied"})
					continue
				}
				// iterator consumers: sorting ones launder the order, collecting ones carry it on
				if n == "slices.Sorted" || n == "slices.SortedFunc" || n == "slices.SortedStableFunc" {
					if _, kind := d.totalSort(y); kind != "total" {
						observers = append(observers, use{y, "is sorted by a comparator that is not a total order (ties keep map order)"})
					}
					continue
				}
				if n == "slices.Collect" || n == "slices.AppendSeq" || n == "maps.Keys" || n == "maps.Values" {
					if cv, ok := y.(*ssa.Call); ok {
						follow(cv)
					}
					continue
				}
				if sv, kind := d.totalSort(y); sv != nil && seen[sv] || sv != nil && resolve(sv) == resolve(x) {
					if kind == "total" {
						sorts = append(sorts, y)
					} else {
						observers = append(observers, use{y, "is sorted by a comparator that is not a total order (ties keep map order)"})
					}
					continue
				}
				cal := calleeOf(cc)
				if cal != nil && c.InModule(cal) {
					if d.returnsNormalised(cal) {
						continue
					}
					idx := -1
					for i, a := range cc.Args {
						if a == x {
							idx = i
						}
					}
					if idx < 0 || idx >= len(cal.Params) {
						observers = append(observers, use{y, "is passed to " + c.Name(cal)})
						continue
					}
					key := fmt.Sprintf("%s#%d", cal.String(), idx)
					ps, ok := d.paramMem[key]
					if !ok {
						d.paramMem[key] = &taintSummary{}
						ps = d.taintedUses(cal, cal.Params[idx], label+" (as "+cal.Name()+"'s "+cal.Params[idx].Name()+")", depth+1)
						// inside the callee a `return` is not itself a problem
						var kept []string
						for _, p := range ps.problems {
							kept = append(kept, p)
						}
						ps.problems = kept
						d.paramMem[key] = ps
					}
					for _, p := range ps.problems {
						observers = append(observers, use{y, p})
					}
					if ps.resultTainted {
						if cv, ok := y.(*ssa.Call); ok {
							follow(cv)
						}
					}
					continue
				}
				if n == "strings.Join" || strings.HasPrefix(n, "fmt.") {
					observers = append(observers, use{y, "is rendered by " + n})
					continue
				}
				observers = append(observers, use{y, "is passed to " + n})
			}
		}
	}
	follow(v)
	// the block the tainted value comes into being in
	src := f.Blocks[0]
	if vin, ok := v.(ssa.Instruction); ok && vin.Block() != nil {
		src = vin.Block()
	}
	sortBlocks := map[*ssa.BasicBlock]bool{}
	for _, s := range sorts {
		sortBlocks[s.Block()] = true
	}
	cleanAt := func(o ssa.Instruction) bool {
		for _, s := range sorts {
			if !instrDominates(s, o) {
				continue
			}
			// the sort is on every path to the observer; it launders the order only if no map-ordered element can be
			// added AFTER it and reach the observer without passing it again (a second collecting loop below the sort)
			after := false
			if src == s.Block() {
				if vin, ok := v.(ssa.Instruction); ok {
					if _, isPhi := v.(*ssa.Phi); !isPhi && vin.Block() == src && instrIndex(vin) > instrIndex(s) {
						after = true
					}
				}
			} else if reach(s.Block(), nil, nil)[src] && (src == o.Block() || reach(src, nil, map[*ssa.BasicBlock]bool{s.Block(): true})[o.Block()]) {
				after = true
			}
			if !after {
				return true
			}
		}
		if len(sorts) == 0 {
			return false
		}
		// every path from where the value arises to the observer passes a sort
		if sortBlocks[src] {
			return true
		}
		return !reach(src, nil, sortBlocks)[o.Block()]
	}
	for _, o := range observers {
		if o.desc == "return" {
			continue
		}
		dominated := cleanAt(o.in)
		if !dominated {
			sum.problems = append(sum.problems, fmt.Sprintf("%s %s at %s", label, o.desc, c.Pos(o.in.Pos())))
		}
	}
	// returns dominated by a total sort are clean
	if sum.resultTainted {
		clean := true
		for _, o := range observers {
			if o.desc != "return" {
				continue
			}
			if !cleanAt(o.in) {
				clean = false
			}
		}
		if clean {
			sum.resultTainted = false
		}
	}
	return sum
}

func enclosingLoopHeader(b *ssa.BasicBlock) *ssa.BasicBlock {
	// the innermost block that dominates b, and that b can reach (a loop header)
	for cur := b; cur != nil; cur = cur.Idom() {
		if cur != b && isLoopHeader(cur) && cur.Dominates(b) && loopBlocks(cur)[b] {
			return cur
		}
		if cur == b && inCycle(b) {
			// b itself may be the header
			for _, p := range b.Preds {
				if b.Dominates(p) {
					return b
				}
			}
		}
	}
	return nil
}

// ---- the rule

func ruleDT1(c *Ctx) {
	d := &dt1{c: c, pure: map[*ssa.Function]int{}, paramMem: map[string]*taintSummary{}, normMem: map[*ssa.Function]int{}}
	type site struct {
		fn *ssa.Function
		rg *ssa.Range
	}
	var sites []site
	for _, fn := range c.Fns {
		eachInstr(fn, func(r instrRef) {
			if rg, ok := r.In.(*ssa.Range); ok {
				if _, isMap := rg.X.Type().Underlying().(*types.Map); isMap {
					sites = append(sites, site{fn, rg})
				}
			}
		})
	}
	sort.SliceStable(sites, func(i, j int) bool { return sites[i].rg.Pos() < sites[j].rg.Pos() })
	cnt := map[*ssa.Function]int{}
	// results of functions that return map-ordered slices: checked at every call site
	taintedResult := map[*ssa.Function]string{}
	for _, s := range sites {
		cnt[s.fn]++
		fn := c.Name(s.fn)
		construct := fmt.Sprintf("range-map#%d", cnt[s.fn])
		pos := c.Pos(s.rg.Pos())
		// the loop header is the block of the Next instruction
		var hdr *ssa.BasicBlock
		for _, r := range *s.rg.Referrers() {
			if nx, ok := r.(*ssa.Next); ok {
				hdr = nx.Block()
			}
		}
		if hdr == nil {
			c.unk(fn, construct, pos, "range without a next instruction")
			continue
		}
		if d.returnsNormalised(s.fn) {
			// the function as a whole is a normaliser: its internal map loops feed a total sort
			c.ok(fn, construct, pos, "inside a normaliser: the function's result passes a total sort")
			continue
		}
		label := "the slice collected from the map at " + pos
		probs, cols, mcols := d.bodyEffects(s.fn, loopBlocks(hdr), "the loop over the map")
		var all []string
		all = append(all, probs...)
		for _, col := range cols {
			var ts *taintSummary
			if al, ok := col.(*ssa.Alloc); ok {
				ts = &taintSummary{}
				// the comparator of a total sort of this very slice reads it while it is being put in order: not a use
				comparators := map[*ssa.Function]bool{}
				for _, ld := range cellLoads(al) {
					var users []ssa.Instruction
					if ld.Referrers() != nil {
						for _, r := range *ld.Referrers() {
							users = append(users, r)
							if mi, ok := r.(*ssa.MakeInterface); ok && mi.Referrers() != nil {
								users = append(users, *mi.Referrers()...)
							}
						}
					}
					for _, u := range users {
						call, ok := u.(ssa.CallInstruction)
						if !ok || len(call.Common().Args) < 2 {
							continue
						}
						if sv, kind := d.totalSort(call); sv != nil && kind == "total" && resolve(sv) == resolve(ld) {
							for _, lf := range funcValuesOf(call.Common().Args[1], 0) {
								comparators[lf] = true
							}
						}
					}
				}
				for _, ld := range cellLoads(al) {
					if loopBlocks(hdr)[ld.Block()] || comparators[ld.Parent()] {
						continue
					}
					sub := d.taintedUses(ld.Parent(), ld, label, 0)
					ts.problems = append(ts.problems, sub.problems...)
					ts.resultTainted = ts.resultTainted || sub.resultTainted
				}
			} else {
				ts = d.taintedUses(s.fn, col, label, 0)
			}
			all = append(all, ts.problems...)
			if ts.resultTainted {
				taintedResult[s.fn] = label
			}
		}
		for _, mc := range mcols {
			if mrefs := mc.Referrers(); mrefs != nil {
				for _, mr := range *mrefs {
					lk, ok := mr.(*ssa.Lookup)
					if !ok || loopBlocks(hdr)[lk.Block()] {
						continue
					}
					ts := d.taintedUses(s.fn, lk, "a slice grouped from the map at "+pos, 0)
					all = append(all, ts.problems...)
					if ts.resultTainted {
						taintedResult[s.fn] = label
					}
				}
			}
		}
		all = uniq(all)
		c.check(len(all) == 0, fn, construct, pos, fmt.Sprintf("commutative body; %d collected slice(s) sorted or consumed order-independently", len(cols)+len(mcols)),
			"map iteration order can reach an observable result: "+strings.Join(all, "; "))
	}
	// iterator sources: maps.Keys / maps.Values / maps.All walk the map in its iteration order
	icnt := map[*ssa.Function]int{}
	for _, fn := range c.Fns {
		for _, call := range callsNamed(fn, "maps.Keys", "maps.Values", "maps.All") {
			cv, ok := call.(*ssa.Call)
			if !ok {
				continue
			}
			icnt[fn]++
			name := c.Name(fn)
			construct := fmt.Sprintf("iter-map#%d", icnt[fn])
			pos := c.Pos(cv.Pos())
			if d.returnsNormalised(fn) {
				c.ok(name, construct, pos, "inside a normaliser: the function's result passes a total sort")
				continue
			}
			label := "the sequence walked from the map at " + pos
			ts := d.taintedUses(fn, cv, label, 0)
			if ts.resultTainted {
				taintedResult[fn] = label
			}
			c.check(len(ts.problems) == 0, name, construct, pos, "the map-ordered sequence is sorted or consumed order-independently",
				"map iteration order can reach an observable result: "+strings.Join(uniq(ts.problems), "; "))
		}
	}
	// call sites of functions whose result is a map-ordered slice
	var tfs []*ssa.Function
	for f := range taintedResult {
		tfs = append(tfs, f)
	}
	sort.Slice(tfs, func(i, j int) bool { return c.Name(tfs[i]) < c.Name(tfs[j]) })
	done := map[*ssa.Function]bool{}
	for len(tfs) > 0 {
		f := tfs[0]
		tfs = tfs[1:]
		if done[f] {
			continue
		}
		done[f] = true
		for i, cs := range c.callers[f] {
			cv, ok := cs.Call.(*ssa.Call)
			if !ok {
				continue
			}
			label := "the unordered result of " + c.Name(f)
			if d.orderFreeSearch(cs.Fn) {
				c.ok(c.Name(cs.Fn), fmt.Sprintf("uses-unordered %s#%d", f.Name(), i+1), c.Pos(cs.Call.Pos()), "consumed by a pure yes/no search over a worklist: the answer is the same whatever order the elements are examined in")
				continue
			}
			ts := d.taintedUses(cs.Fn, cv, label, 0)
			c.check(len(ts.problems) == 0, c.Name(cs.Fn), fmt.Sprintf("uses-unordered %s#%d", f.Name(), i+1), c.Pos(cs.Call.Pos()),
				"the map-ordered result is only counted, filtered, sorted or normalised", "map iteration order can reach an observable result: "+strings.Join(uniq(ts.problems), "; "))
			if ts.resultTainted && !done[cs.Fn] {
				taintedResult[cs.Fn] = label
				tfs = append(tfs, cs.Fn)
			}
		}
	}
	c.ok("<module>", "map-range-sites", "-", fmt.Sprintf("%d map range sites classified", len(sites)))
}

// orderFreeSearch: g answers a yes/no question by working through a collection (a worklist filled from map-ordered
// sources): it has one bool result, every return hands back a constant, every return inside a loop hands back the same
// constant (found / refuted), and it has no effect other than on values it made itself (the stack, the visited set). The
// order in which such a search meets the elements cannot change its answer.
func (d *dt1) orderFreeSearch(g *ssa.Function) bool {
	c := d.c
	res := g.Signature.Results()
	if g.Blocks == nil || res.Len() != 1 || res.At(0).Type().Underlying().String() != "bool" {
		return false
	}
	inLoop := map[bool]int{}
	for _, r := range returnsOf(g) {
		b, isC := constBool(returnedValue(r, 0))
		if !isC {
			return false
		}
		if inCycle(r.Block()) || enclosingLoopHeader(r.Block()) != nil {
			inLoop[b]++
		}
	}
	if len(inLoop) > 1 {
		return false // both answers can be given from inside the loop: which element comes first can matter
	}
	ok := true
	eachInstr(g, func(r instrRef) {
		switch x := r.In.(type) {
		case *ssa.Store:
			if cellOf(x.Addr) == nil {
				if ia, isIA := x.Addr.(*ssa.IndexAddr); isIA {
					if _, local := strip(ia.X).(*ssa.Alloc); local {
						return
					}
				}
				ok = false
			}
		case *ssa.MapUpdate:
			if _, local := resolve(x.Map).(*ssa.MakeMap); !local {
				ok = false
			}
		case ssa.CallInstruction:
			n := calleeFullName(x.Common())
			if strings.HasPrefix(n, "builtin ") {
				return
			}
			if cal := calleeOf(x.Common()); cal != nil && c.InModule(cal) && d.isPure(cal) {
				return
			}
			ok = false
		case *ssa.Go, *ssa.Defer, *ssa.Send:
			ok = false
		}
	})
	return ok
}

// grownAfter: the returned slice rv is (a version of) the variable the sort sc ordered, but an append to it can execute
// after the sort and before the return r: the elements added there - a second collecting loop below the sort - are not
// ordered by it.
func grownAfter(sc ssa.CallInstruction, r *ssa.Return, rv ssa.Value) bool {
	seen := map[ssa.Value]bool{}
	var walk func(x ssa.Value, d int) bool
	walk = func(x ssa.Value, d int) bool {
		x = resolve(x)
		if x == nil || d > 16 || seen[x] {
			return false
		}
		seen[x] = true
		switch y := x.(type) {
		case *ssa.Phi:
			for _, e := range y.Edges {
				if walk(e, d+1) {
					return true
				}
			}
		case *ssa.Call:
			if calleeFullName(&y.Call) == "builtin append" {
				if canReachInstr(sc, y) && canReachInstr(y, r) {
					return true
				}
				return walk(y.Call.Args[0], d+1)
			}
		case *ssa.Slice:
			return walk(y.X, d+1)
		case *ssa.UnOp:
			if y.Op == token.MUL {
				if cell := cellOf(y.X); cell != nil {
					for _, st := range cellStores(cell) {
						if walk(st.Val, d+1) {
							return true
						}
					}
				}
			}
		}
		return false
	}
	return walk(rv, 0)
}
