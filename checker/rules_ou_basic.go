package main

// Output rules that need no interprocedural assumption: OU2 (exit discipline), OU5 (UTF-8 safe
// truncation in human renderers), OU6 (documented strings are what is printed).

import (
	"fmt"
	"go/constant"
	"go/token"
	"go/types"
	"os"
	"path/filepath"
	"regexp"
	"strings"

	"golang.org/x/tools/go/ssa"
)

func init() {
	register(&Rule{ID: "OU2", Min: 5, Run: ruleOU2,
		Doc: "exit-discipline: every cobra RunE returns the internal/ergo callee's error unchanged; execute hands a non-nil error to exitErr; every path of exitErr writes to os.Stderr first and ends in os.Exit with a non-zero constant; the root command silences cobra's own error/usage printing"})
	register(&Rule{ID: "OU5", Min: 1, Run: ruleOU5,
		Doc: "utf8-safe-truncation: in the functions reachable from the human list/prune renderers (excluding the log loader) no string is byte-sliced or byte-indexed unless the bound comes from a rune iteration, a strings.Index* result, or is the constant 0/len"})
	register(&Rule{ID: "OU6", Min: 7, Run: ruleOU6,
		Doc: "doc-string-agreement: each empty-state sentence listed under 'Exact empty-state strings' in docs/spec.md, and the claim reminder's 'Exact value', is a constant operand of a stdout write in list / claim"})
}

// ------------------------------------------------------------------ OU2

func ruleOU2(c *Ctx) {
	// RunE closures: functions in package main whose signature is func(*cobra.Command, []string) error
	n := 0
	for _, fn := range c.Fns {
		if Outermost(fn).Pkg != c.Main || fn.Parent() == nil {
			continue
		}
		sig := fn.Signature
		if sig.Params().Len() != 2 || sig.Results().Len() != 1 || sig.Results().At(0).Type().String() != "error" {
			continue
		}
		if !strings.Contains(sig.Params().At(0).Type().String(), "cobra.Command") {
			continue
		}
		n++
		// every return is nil, or the direct result of a call into internal/ergo, or a usage error built here
		bad := ""
		callsErgo := false
		for _, r := range returnsOf(fn) {
			v := returnedValue(r, 0)
			if isNilConst(v) {
				// a nil return is fine only if no ergo call's error was dropped on the way: checked below
				continue
			}
			for _, sv := range errorSourceValues(r) {
				cl, ok := sv.(*ssa.Call)
				if !ok {
					// an error handed in and handed back (a flag-error hook returning the error it was given) is propagation
					if prm, isPrm := sv.(*ssa.Parameter); isPrm && prm.Type().String() == "error" {
						continue
					}
					bad = "returns a value that is not a call result"
					continue
				}
				if cal := calleeOf(&cl.Call); cal != nil && cal.Pkg == c.Ergo {
					callsErgo = true
					continue
				}
				// any other call's error handed back is still a failure of the command (a pre-run hook returning
				// os.Chdir's error, a flag parser's error): propagation, not loss
				_ = calleeFullName(&cl.Call)
			}
		}
		// dropped errors: a call into internal/ergo returning error whose result is unused
		for _, call := range callsIn(fn) {
			cal := calleeOf(call.Common())
			if cal == nil || cal.Pkg != c.Ergo {
				continue
			}
			res := cal.Signature.Results()
			if res.Len() == 0 || res.At(res.Len()-1).Type().String() != "error" {
				continue
			}
			cv, ok := call.(*ssa.Call)
			if !ok || cv.Referrers() == nil || len(*cv.Referrers()) == 0 {
				bad = "drops the error of " + c.Name(cal)
			}
		}
		_ = callsErgo
		c.check(bad == "", c.Name(fn), "RunE-propagates", c.FnPos(fn), "returns the command's error unchanged", "RunE "+bad+": a failing command can exit 0")
	}
	if n == 0 {
		c.bad("main", "RunE-closures", "-", "no cobra RunE closures found")
	}
	c.groupCommandsFail()
	// execute -> exitErr
	ex, ee := c.Fn("main.execute"), c.Fn("main.exitErr")
	if ex == nil || ee == nil {
		c.unk("main", "execute/exitErr", "-", "execute or exitErr not found")
		return
	}
	okEx := false
	for _, call := range callsTo(ex, ee) {
		// dominated by Execute() != nil edge
		var execCall *ssa.Call
		for _, c2 := range callsIn(ex) {
			if n := calleeFullName(c2.Common()); strings.HasSuffix(n, "cobra.Command).Execute") || strings.HasSuffix(n, "cobra.Command).ExecuteC") {
				execCall, _ = c2.(*ssa.Call)
			}
		}
		if execCall == nil {
			continue
		}
		// the error value: the call itself (Execute) or its second result (ExecuteC)
		var errVal ssa.Value = execCall
		if execCall.Call.Signature().Results().Len() == 2 {
			errVal = nil
			for _, r := range *execCall.Referrers() {
				if exx, ok := r.(*ssa.Extract); ok && exx.Index == 1 {
					errVal = exx
				}
			}
		}
		if errVal == nil {
			continue
		}
		nonNil := edgesWhere(ex, func(a Atom, holds bool) bool { return a.Kind == "nil" && !holds && strip(a.X) == errVal })
		if len(nonNil) > 0 && mustPassEdges(ex, call.Block(), nonNil) && strip(call.Common().Args[0]) == errVal {
			okEx = true
		}
	}
	// and the error edge cannot bypass exitErr
	c.check(okEx, "main.execute", "error-goes-to-exitErr", c.FnPos(ex), "a non-nil Execute() error is handed to exitErr", "execute does not hand Execute()'s error to exitErr")
	// exitErr: all paths end in os.Exit(nonzero), stderr write first
	var exits []ssa.CallInstruction
	for _, call := range callsNamed(ee, "os.Exit") {
		exits = append(exits, call)
	}
	okExit := len(exits) > 0
	// the status is a non-zero constant, or a value that can only be one (a parameter handed such constants at every
	// call, the result of a helper that returns nothing else)
	var nonZero func(v ssa.Value, d int) bool
	nonZero = func(v ssa.Value, d int) bool {
		if v == nil || d > 6 {
			return false
		}
		if k, ok := constInt(v); ok {
			return k != 0
		}
		switch x := resolve(v).(type) {
		case *ssa.Phi:
			for _, e := range x.Edges {
				if !nonZero(e, d+1) {
					return false
				}
			}
			return len(x.Edges) > 0
		case *ssa.Parameter:
			args := c.argValues(x.Parent(), paramIndex(x))
			for _, a := range args {
				if !nonZero(a, d+1) {
					return false
				}
			}
			return len(args) > 0
		case *ssa.Call:
			cal := calleeOf(&x.Call)
			if cal == nil || !c.InModule(cal) || cal.Blocks == nil {
				return false
			}
			rets := returnsOf(cal)
			for _, r := range rets {
				if len(r.Results) != 1 || !nonZero(returnedValue(r, 0), d+1) {
					return false
				}
			}
			return len(rets) > 0
		}
		return false
	}
	for _, x := range exits {
		if !nonZero(x.Common().Args[0], 0) {
			okExit = false
		}
	}
	// no return reachable without passing an exit block
	blocked := map[*ssa.BasicBlock]bool{}
	for _, x := range exits {
		blocked[x.Block()] = true
	}
	region := reach(ee.Blocks[0], nil, blocked)
	for _, r := range returnsOf(ee) {
		if region[r.Block()] && !blocked[r.Block()] {
			okExit = false
		}
	}
	c.check(okExit, "main.exitErr", "always-exits-nonzero", c.FnPos(ee), "every path ends in os.Exit with a non-zero constant", "exitErr can return or exit with status 0: a failing command reports success")
	okStderr := false
	for _, call := range callsNamed(ee, "fmt.Fprintln", "fmt.Fprintf", "fmt.Fprint") {
		if !isGlobalLoad(call.Common().Args[0], "Stderr") {
			continue
		}
		// unconditional: no exit is reachable from the entry without passing this write
		without := reach(ee.Blocks[0], nil, map[*ssa.BasicBlock]bool{call.Block(): true})
		all := call.Block() == ee.Blocks[0] || len(exits) > 0
		for _, x := range exits {
			if call.Block() != ee.Blocks[0] && without[x.Block()] {
				all = false
			}
		}
		if all {
			okStderr = true
		}
	}
	// text on stdout is not an explanation channel; one JSON error object under --json is (C16 allows at most one)
	nStdout := 0
	jsonFlag := func(blk *ssa.BasicBlock) bool {
		g := edgesWhere(ee, func(a Atom, holds bool) bool {
			if a.Kind != "bool" || !holds {
				return false
			}
			_, n, ok := fieldLoad(a.X)
			return ok && n == "JSON"
		})
		return len(g) > 0 && mustPassEdges(ee, blk, g)
	}
	nJSON := 0
	for _, call := range callsIn(ee) {
		nme := calleeFullName(call.Common())
		if strings.HasPrefix(nme, "fmt.Print") {
			nStdout++
		}
		if strings.HasPrefix(nme, "fmt.Fprint") && !isGlobalLoad(call.Common().Args[0], "Stderr") {
			nStdout++
		}
		// a module JSON writer handed os.Stdout: fine behind the --json flag, once
		if cal := calleeOf(call.Common()); cal != nil && c.InModule(cal) {
			toStdout := false
			for _, a := range call.Common().Args {
				if mi, ok := a.(*ssa.MakeInterface); ok && isGlobalLoad(mi.X, "Stdout") || isGlobalLoad(a, "Stdout") {
					toStdout = true
				}
			}
			if toStdout {
				if jsonFlag(call.Block()) && !inCycle(call.Block()) {
					nJSON++
				} else {
					nStdout++
				}
			}
		}
	}
	if nJSON > 1 {
		nStdout += nJSON - 1
	}
	c.check(okStderr && nStdout == 0, "main.exitErr", "explains-on-stderr", c.FnPos(ee), "the error is written to os.Stderr unconditionally; stdout gets nothing but at most one JSON error object behind --json", fmt.Sprintf("stderr-first=%v stdout-writes=%d", okStderr, nStdout))
	// SilenceErrors / SilenceUsage on the command object whose Execute runs: set where the object is built (a
	// package-level literal finished in init, or a constructor function)
	silE, silU := false, false
	rootObjs := map[ssa.Value]bool{}
	var objectsOf func(v ssa.Value, d int)
	objectsOf = func(v ssa.Value, d int) {
		if v == nil || d > 6 {
			return
		}
		v = strip(v)
		switch x := v.(type) {
		case *ssa.Alloc:
			rootObjs[x] = true
		case *ssa.UnOp:
			if g, ok := x.X.(*ssa.Global); ok && x.Op == token.MUL {
				for _, f := range c.Fns {
					eachInstr(f, func(r instrRef) {
						if st, ok := r.In.(*ssa.Store); ok && st.Addr == ssa.Value(g) {
							objectsOf(st.Val, d+1)
						}
					})
				}
			} else if cell := cellOf(x.X); cell != nil {
				for _, st := range cellStores(cell) {
					objectsOf(st.Val, d+1)
				}
			}
		case *ssa.Phi:
			for _, e := range x.Edges {
				objectsOf(e, d+1)
			}
		case *ssa.Call:
			if cal := calleeOf(&x.Call); cal != nil && c.InModule(cal) && cal.Blocks != nil {
				for _, r := range returnsOf(cal) {
					if len(r.Results) > 0 {
						objectsOf(returnedValue(r, 0), d+1)
					}
				}
			}
		}
	}
	for _, f := range c.Fns {
		if Outermost(f).Pkg != c.Main {
			continue
		}
		for _, call := range callsIn(f) {
			switch calleeFullName(call.Common()) {
			case "(*github.com/spf13/cobra.Command).Execute", "(*github.com/spf13/cobra.Command).ExecuteC", "(*github.com/spf13/cobra.Command).ExecuteContext":
				if len(call.Common().Args) > 0 {
					objectsOf(call.Common().Args[0], 0)
				}
			}
		}
	}
	for _, f := range c.Fns {
		if Outermost(f).Pkg != c.Main {
			continue
		}
		eachInstr(f, func(r instrRef) {
			st, ok := r.In.(*ssa.Store)
			if !ok {
				return
			}
			fa, ok := st.Addr.(*ssa.FieldAddr)
			if !ok || !rootObjs[strip(fa.X)] {
				return
			}
			b, isB := constBool(st.Val)
			switch fieldName(fa.X.Type(), fa.Field) {
			case "SilenceErrors":
				silE = isB && b
			case "SilenceUsage":
				silU = isB && b
			}
		})
	}
	c.check(silE && silU, "main.rootCmd", "cobra-silenced", "-", "SilenceErrors and SilenceUsage are true: nothing but exitErr prints on failure", fmt.Sprintf("SilenceErrors=%v SilenceUsage=%v: cobra prints usage/errors itself (to stdout under --json)", silE, silU))
}

func isGlobalLoad(v ssa.Value, name string) bool {
	v = strip(v)
	if u, ok := v.(*ssa.UnOp); ok {
		if g, ok := u.X.(*ssa.Global); ok && g.Name() == name {
			return true
		}
	}
	return false
}

// ------------------------------------------------------------------ OU5

func ruleOU5(c *Ctx) {
	var roots []*ssa.Function
	for _, n := range []string{"RunList", "RunPrune", "RunShow", "RunClaim", "RunClaimOldestReady"} {
		if f := c.ErgoFn(n); f != nil {
			roots = append(roots, f)
		}
	}
	lg, ed := c.F.Anchors["loadGraph"], c.F.Anchors["ergoDir"]
	seen, _ := c.F.Reach(roots, func(from *ssa.Function, e cgEdge) bool {
		if e.To == c.F.Anchors["readEvents"] || e.To == c.F.Anchors["appendEvents"] || e.To == c.F.Anchors["replaceEventsAtomically"] || e.Kind == "lock-callback" {
			return true
		}
		return e.To == lg || c.loaderKind(e.To) != "" || e.To == ed || c.F.isLockFn(e.To) || strings.HasPrefix(e.To.Name(), "Parse") || e.To.Name() == "applySetUpdates"
	})
	nSites, nFn := 0, 0
	for _, fn := range c.Fns {
		if !seen[fn] {
			continue
		}
		nFn++
		k := 0
		eachInstr(fn, func(r instrRef) {
			var what string
			var bounds []ssa.Value
			switch x := r.In.(type) {
			case *ssa.Slice:
				if b, ok := x.X.Type().Underlying().(*types.Basic); !ok || b.Info()&types.IsString == 0 {
					return
				}
				if c.asciiRun(x.X) {
					return // a run of ASCII bytes has a rune boundary at every offset
				}
				what = "byte-slices a string"
				bounds = []ssa.Value{x.Low, x.High}
			case *ssa.Convert:
				// a rune narrowed to one byte (sb.WriteByte(byte(r))): only ASCII survives that; anything from U+0080 up
				// comes out as a raw byte, which is not valid UTF-8
				dst, okD := x.Type().Underlying().(*types.Basic)
				src, okS := x.X.Type().Underlying().(*types.Basic)
				if !okD || !okS || dst.Kind() != types.Uint8 || (src.Kind() != types.Int32 && src.Kind() != types.UntypedRune) {
					return
				}
				if _, isConst := x.X.(*ssa.Const); isConst {
					return
				}
				nSites++
				k++
				ascii := edgesWhere(fn, func(a Atom, holds bool) bool {
					if a.Kind != "cmp" || a.Y == nil {
						return false
					}
					kc, isK := a.Y.(*ssa.Const)
					if !isK || strip(a.X) != strip(x.X) {
						return false
					}
					kv, okK := constInt(kc)
					if !okK {
						return false
					}
					switch a.Op {
					case token.LSS:
						return holds && kv <= 128
					case token.LEQ:
						return holds && kv <= 127
					case token.GEQ:
						return !holds && kv <= 128
					case token.GTR:
						return !holds && kv <= 127
					}
					return false
				})
				c.check(len(ascii) > 0 && mustPassEdges(fn, x.Block(), ascii), c.Name(fn), fmt.Sprintf("rune-to-byte#%d", k), c.Pos(x.Pos()),
					"the rune is narrowed to a byte only where it was compared below utf8.RuneSelf (0x80)",
					"a human renderer narrows a rune to a single byte without having established that it is ASCII (< 0x80): characters from U+0080 up (é, ü, ß ...) are written as one raw byte and the row is invalid UTF-8")
				return
			default:
				return
			}
			nSites++
			k++
			safe := true
			for _, b := range bounds {
				if b == nil {
					continue
				}
				if !safeStringBound(b) {
					safe = false
				}
			}
			c.check(safe, c.Name(fn), fmt.Sprintf("strslice#%d", k), c.Pos(r.In.Pos()), "bounds come from a rune iteration / strings.Index / constant 0",
				"a human renderer "+what+" at a byte offset not derived from rune boundaries: a multi-byte title, agent name or blocker annotation is cut inside a character and the row is invalid UTF-8")
		})
	}
	c.ok("<renderers>", "scanned", "-", fmt.Sprintf("%d renderer functions scanned, %d string byte-slices", nFn, nSites))
}

func safeStringBound(v ssa.Value) bool {
	st := &boundState{onStack: map[ssa.Value]bool{}}
	ok := st.safe(v)
	// a loop-carried offset (i = phi(0, i+k)) is only safe when every step is itself a rune size (utf8.DecodeRune*,
	// utf8.RuneLen): a byte counter stepping by a constant lands inside multi-byte characters
	return ok && !(st.cyclic && st.constStep)
}

type boundState struct {
	onStack   map[ssa.Value]bool
	cyclic    bool
	constStep bool
}

func (st *boundState) safe(v ssa.Value) bool {
	v = resolve(v)
	if k, ok := constInt(v); ok {
		return k == 0
	}
	if st.onStack[v] {
		st.cyclic = true
		return true
	}
	st.onStack[v] = true
	defer delete(st.onStack, v)
	switch x := v.(type) {
	case *ssa.Extract:
		if nx, ok := x.Tuple.(*ssa.Next); ok && nx.IsString {
			return true // index from `for i, r := range s`
		}
		if cl, ok := x.Tuple.(*ssa.Call); ok {
			n := calleeFullName(&cl.Call)
			return strings.HasPrefix(n, "unicode/utf8.")
		}
	case *ssa.Call:
		n := calleeFullName(&x.Call)
		if strings.HasPrefix(n, "strings.Index") || strings.HasPrefix(n, "strings.LastIndex") || strings.HasPrefix(n, "unicode/utf8.") {
			return true
		}
		if n == "builtin len" {
			return true
		}
	case *ssa.BinOp:
		if !st.safe(x.X) {
			return false
		}
		if st.safe(x.Y) {
			return true
		}
		if isSmallConst(x.Y) {
			st.constStep = true
			return true
		}
		return false
	case *ssa.Phi:
		for _, e := range x.Edges {
			if !st.safe(e) {
				return false
			}
		}
		return true
	}
	return false
}

func isSmallConst(v ssa.Value) bool {
	_, ok := constInt(v)
	return ok
}

// ------------------------------------------------------------------ OU6

var backtick = regexp.MustCompile("`([^`]+)`")

// documentedSentences: the exact empty-state strings docs/spec.md lists.
func (c *Ctx) documentedSentences() ([]string, error) {
	data, err := os.ReadFile(filepath.Join(c.Repo, "docs", "spec.md"))
	if err != nil {
		return nil, err
	}
	lines := strings.Split(string(data), "\n")
	var want []string
	in := false
	for _, ln := range lines {
		t := strings.TrimSpace(ln)
		if strings.Contains(t, "Exact empty-state strings") {
			in = true
			continue
		}
		if in {
			if strings.HasPrefix(ln, "  - ") || strings.HasPrefix(ln, "    - ") {
				if m := backtick.FindStringSubmatch(t); m != nil {
					want = append(want, m[1])
				}
				continue
			}
			in = false
		}
		if strings.Contains(t, "Exact value:") {
			if m := backtick.FindStringSubmatch(t); m != nil {
				want = append(want, m[1])
			}
		}
	}
	return want, nil
}

func ruleOU6(c *Ctx) {
	data, err := os.ReadFile(filepath.Join(c.Repo, "docs", "spec.md"))
	if err != nil {
		c.unk("docs/spec.md", "read", "-", "cannot read docs/spec.md: "+err.Error())
		return
	}
	lines := strings.Split(string(data), "\n")
	var want []string
	in := false
	for _, ln := range lines {
		t := strings.TrimSpace(ln)
		if strings.Contains(t, "Exact empty-state strings") {
			in = true
			continue
		}
		if in {
			if strings.HasPrefix(ln, "  - ") || strings.HasPrefix(ln, "    - ") {
				if m := backtick.FindStringSubmatch(t); m != nil {
					want = append(want, m[1])
				}
				continue
			}
			in = false
		}
		if strings.Contains(t, "Exact value:") {
			if m := backtick.FindStringSubmatch(t); m != nil {
				want = append(want, m[1])
			}
		}
	}
	if len(want) < 3 {
		c.unk("docs/spec.md", "documented-strings", "-", fmt.Sprintf("only %d documented strings found: section layout not recognised", len(want)))
		return
	}
	// string constants that are operands of stdout writes in RunList / RunClaim*
	printed := map[string]string{}
	for _, name := range []string{"RunList", "RunClaim", "RunClaimOldestReady"} {
		f := c.ErgoFn(name)
		if f == nil {
			continue
		}
		// the command and everything it reaches (helpers, methods of a view struct, closures)
		scope := map[*ssa.Function]bool{f: true}
		for g := range c.F.TransitiveCallees(f) {
			scope[g] = true
		}
		var fns []*ssa.Function
		for _, g := range c.Fns {
			if scope[g] || scope[Outermost(g)] {
				fns = append(fns, g)
			}
		}
		for _, g := range fns {
			for _, call := range callsIn(g) {
				n := calleeFullName(call.Common())
				isOut := strings.HasPrefix(n, "fmt.Print") || (strings.HasPrefix(n, "fmt.Fprint") && isGlobalLoad(call.Common().Args[0], "Stdout")) || n == ergoPath+".writeJSON"
				// a line printer of the module (printer.resultLine(a ...any) { fmt.Fprintln(os.Stdout, a...) }): what it is
				// handed is what it prints
				if !isOut {
					if h := calleeOf(call.Common()); h != nil && c.InModule(h) && h.Blocks != nil {
						for _, inner := range callsIn(h) {
							in := calleeFullName(inner.Common())
							if !(strings.HasPrefix(in, "fmt.Print") || (strings.HasPrefix(in, "fmt.Fprint") && len(inner.Common().Args) > 0 && isGlobalLoad(inner.Common().Args[0], "Stdout"))) {
								continue
							}
							cands := append([]ssa.Value{}, inner.Common().Args...)
							for i := range inner.Common().Args {
								cands = append(cands, variadicElems(inner.Common().Args[i:i+1])...)
							}
							for _, a := range cands {
								if p, ok := strip(a).(*ssa.Parameter); ok && p.Parent() == h {
									isOut = true
								}
							}
						}
					}
				}
				if !isOut {
					continue
				}
				for _, s := range stringConstsIn(call) {
					printed[s] = c.Pos(call.Pos())
				}
			}
		}
	}
	for i, w := range want {
		pos, ok := printed[w]
		c.check(ok, "docs/spec.md", fmt.Sprintf("documented-string#%d %q", i+1, w), pos, "printed verbatim at "+pos, "the documented sentence "+fmt.Sprintf("%q", w)+" is not a constant operand of any stdout write in list/claim: an empty view prints something else (or nothing)")
	}
}

// stringConstsIn: string constants among a call's (variadic) operands, including map/struct literal values one level deep.
func stringConstsIn(call ssa.CallInstruction) []string {
	var out []string
	seen := map[ssa.Value]bool{}
	var walk func(v ssa.Value, d int)
	walk = func(v ssa.Value, d int) {
		if v == nil || d > 6 || seen[v] {
			return
		}
		seen[v] = true
		v2 := resolve(v)
		if k, ok := v2.(*ssa.Const); ok && k.Value != nil && k.Value.Kind() == constant.String {
			out = append(out, constant.StringVal(k.Value))
			return
		}
		switch x := v2.(type) {
		case *ssa.MakeInterface:
			walk(x.X, d+1)
		case *ssa.Slice:
			walk(x.X, d+1)
		case *ssa.Alloc:
			for _, r := range *x.Referrers() {
				if ia, ok := r.(*ssa.IndexAddr); ok {
					for _, u := range *ia.Referrers() {
						if st, ok := u.(*ssa.Store); ok {
							walk(st.Val, d+1)
						}
					}
				}
			}
		case *ssa.MakeMap:
			for _, r := range *x.Referrers() {
				if mu, ok := r.(*ssa.MapUpdate); ok {
					walk(mu.Value, d+1)
				}
			}
		case *ssa.Phi:
			for _, e := range x.Edges {
				walk(e, d+1)
			}
		case *ssa.Call:
			// a helper that hands its argument back unchanged on some path (emptyMsg("No tasks.") qualifying the sentence
			// only when a filter is active)
			if h := calleeOf(&x.Call); h != nil && h.Blocks != nil && curProg != nil && curProg.InModule(h) {
				for _, r := range returnsOf(h) {
					if len(r.Results) == 0 {
						continue
					}
					var ps []ssa.Value
					if ph, ok := strip(returnedValue(r, 0)).(*ssa.Phi); ok {
						ps = ph.Edges
					} else {
						ps = []ssa.Value{returnedValue(r, 0)}
					}
					for _, pv := range ps {
						if p, ok := strip(pv).(*ssa.Parameter); ok && p.Parent() == h {
							if i := paramIndex(p); i >= 0 && i < len(x.Call.Args) {
								walk(x.Call.Args[i], d+1)
							}
						}
					}
				}
			}
		}
	}
	for _, a := range call.Common().Args {
		walk(a, 0)
	}
	return out
}

// ------------------------------------------------------------------ OU7

func init() {
	register(&Rule{ID: "OU7", Min: 4, Run: ruleOU7,
		Doc: "topological-normaliser-complete: the function every tree/list view sorts its rows with (topoSortTasks) returns every element it is given: the membership set is filled for every input, in-degrees count only dependencies inside that set, the work queue is seeded with exactly the elements of in-degree 0, and an element is re-queued exactly when its last in-set dependency has been emitted (Kahn's algorithm's completeness conditions)"})
}

// inLoopFacts: labelled outcomes of the branches that lie in the same loop nest as blk and must be passed to reach it.
func (c *Ctx) inLoopFacts(f *ssa.Function, blk *ssa.BasicBlock) map[string]bool {
	out := map[string]bool{}
	for _, bf := range branchFacts(f) {
		curEnv = bf.A.Env
		if !(reach(bf.E.From, nil, nil)[blk] && reach(blk, nil, nil)[bf.E.From]) {
			continue
		}
		if !mustPassEdges(f, blk, map[edge]bool{bf.E: true}) {
			continue
		}
		tf := "F"
		if bf.Holds {
			tf = "T"
		}
		l := c.atomLabel(bf.A)
		// lookups in local maps get a role by element type
		if lk, ok := strip(bf.A.X).(*ssa.Lookup); ok {
			if mt, ok := lk.X.Type().Underlying().(*types.Map); ok {
				l = "lookup[" + mt.Elem().String() + "]"
				if bf.A.Kind == "const" {
					l += "==" + bf.A.C.Value.ExactString()
				}
			}
		}
		out[l+":"+tf] = true
	}
	return out
}

func onlyFacts(facts map[string]bool, allowed ...string) string {
	for f := range facts {
		ok := strings.HasPrefix(f, "cmp:") || strings.HasPrefix(f, "range-ok")
		for _, a := range allowed {
			if f == a {
				ok = true
			}
		}
		if !ok {
			return f
		}
	}
	return ""
}

// sortsInPlace: a library sort call, or a call to a module helper that sorts one of its slice parameters in place.
func (c *Ctx) sortsInPlace(call ssa.CallInstruction, d int) bool {
	switch calleeFullName(call.Common()) {
	case "sort.Slice", "sort.SliceStable", "sort.Strings", "sort.Sort", "sort.Stable", "slices.Sort", "slices.SortFunc", "slices.SortStableFunc":
		return true
	}
	cal := calleeOf(call.Common())
	if cal == nil || !c.InModule(cal) || d > 1 || cal.Signature.Results().Len() != 0 {
		return false
	}
	for _, inner := range callsIn(cal) {
		if !c.sortsInPlace(inner, d+1) || len(inner.Common().Args) == 0 {
			continue
		}
		arg := inner.Common().Args[0]
		if mi, ok := arg.(*ssa.MakeInterface); ok {
			arg = mi.X
		}
		if _, isParam := resolve(arg).(*ssa.Parameter); isParam {
			return true
		}
	}
	return false
}

func ruleOU7(c *Ctx) {
	ts := c.ErgoFn("topoSortTasks")
	if ts == nil {
		c.unk("ergo.topoSortTasks", "anchor", "-", "the list normaliser topoSortTasks was not found")
		return
	}
	fn := c.Name(ts)
	var sortCalls []ssa.CallInstruction
	for _, call := range callsIn(ts) {
		if c.sortsInPlace(call, 0) {
			sortCalls = append(sortCalls, call)
		}
	}
	sourceOrder(sortCalls)
	if len(sortCalls) == 0 {
		c.bad(fn, "kahn", c.FnPos(ts), "normaliser contains no sort: structure not recognised")
		return
	}
	firstSort := sortCalls[0]
	nSet, nInc, nSeed, nDec := 0, 0, 0, 0
	eachInstr(ts, func(r instrRef) {
		switch x := r.In.(type) {
		case *ssa.MapUpdate:
			mt, ok := x.Map.Type().Underlying().(*types.Map)
			if !ok {
				return
			}
			_, keyField, isField := fieldLoad(x.Key)
			facts := c.inLoopFacts(ts, r.Blk)
			switch mt.Elem().String() {
			case "bool":
				if isField && keyField == "ID" {
					nSet++
					extra := onlyFacts(facts)
					c.check(extra == "", fn, fmt.Sprintf("membership-set#%d", nSet), c.Pos(x.Pos()), "every input element enters the membership set", "an input element enters the membership set only under "+extra)
				}
			case "int":
				// zero-init, increment or decrement
				if b, ok := x.Value.(*ssa.BinOp); ok {
					if _, isLk := b.X.(*ssa.Lookup); isLk {
						if b.Op == token.ADD {
							nInc++
							extra := onlyFacts(facts, "lookup[bool]:T")
							c.check(extra == "" && facts["lookup[bool]:T"], fn, fmt.Sprintf("in-degree-increment#%d", nInc), c.Pos(x.Pos()),
								"in-degree counts exactly the dependencies inside the sorted set", "in-degree is incremented under "+extra+" / not restricted to dependencies inside the sorted set: an element whose dependencies live in another group never reaches in-degree 0 and disappears from the view")
						} else if b.Op == token.SUB {
							nDec++
							extra := onlyFacts(facts, "lookup-ok:T", "lookup-ok:Deps:T", "E==nil:F", "lookup[map[string]struct{}]:F", "lookup[struct{}]:T", "bool:T")
							c.check(extra == "", fn, fmt.Sprintf("in-degree-decrement#%d", nDec), c.Pos(x.Pos()), "in-degree is decremented for every dependant of the emitted element", "in-degree decrement depends on "+extra)
						}
					}
				} else if k, ok := constInt(x.Value); ok && k == 0 {
					extra := onlyFacts(facts)
					c.check(extra == "", fn, "in-degree-init", c.Pos(x.Pos()), "every input element gets an in-degree entry", "in-degree entry is created only under "+extra)
				}
			}
		case *ssa.Call:
			if calleeFullName(&x.Call) != "builtin append" {
				return
			}
			// seeding: appends of an input element that happen before the first sort
			if !canReachInstr(x, firstSort) || canReachInstr(firstSort, x) {
				return
			}
			if _, isTaskSlice := x.Type().Underlying().(*types.Slice); !isTaskSlice {
				return
			}
			// an index kept beside the queue (dependents[dep] = append(dependents[dep], t)) is not the queue
			if _, fromMap := strip(x.Call.Args[0]).(*ssa.Lookup); fromMap {
				return
			}
			nSeed++
			facts := c.inLoopFacts(ts, r.Blk)
			extra := onlyFacts(facts, "lookup[int]==0:T")
			c.check(extra == "" && facts["lookup[int]==0:T"], fn, fmt.Sprintf("queue-seed#%d", nSeed), c.Pos(x.Pos()),
				"the queue is seeded with exactly the elements of in-degree 0", "the work queue is seeded under "+extra+" instead of exactly in-degree==0: elements that should start the order are never emitted (rows missing from list)")
		}
	})
	c.check(nSet >= 1 && nInc >= 1 && nSeed >= 1 && nDec >= 1, fn, "kahn-parts", c.FnPos(ts), "membership set, in-degree count, seeding and decrement all present",
		fmt.Sprintf("normaliser structure not recognised (set=%d inc=%d seed=%d dec=%d)", nSet, nInc, nSeed, nDec))
	// re-queue on reaching zero: an append after the first sort guarded by lookup[int]==0:T
	reQ := false
	eachInstr(ts, func(r instrRef) {
		if x, ok := r.In.(*ssa.Call); ok && calleeFullName(&x.Call) == "builtin append" && canReachInstr(firstSort, x) {
			if c.inLoopFacts(ts, r.Blk)["lookup[int]==0:T"] {
				reQ = true
			}
		}
	})
	c.check(reQ, fn, "requeue-on-zero", c.FnPos(ts), "an element is queued when its in-degree drops to 0", "no element is re-queued when its in-degree reaches 0")
}

// ------------------------------------------------------------------ OU8

func init() {
	register(&Rule{ID: "OU8", Min: 2, Run: ruleOU8,
		Doc: "truncation-decided-by-display-width: the row-shortening helpers (truncateToWidth, abbreviate) return their input unshortened only on a branch that compared its *display width* (visibleLen / runewidth) with the budget; a byte-length or rune-count test lets wide characters through and the row overflows the terminal"})
}

func ruleOU8(c *Ctx) {
	n := 0
	for _, name := range []string{"truncateToWidth", "abbreviate"} {
		f := c.ErgoFn(name)
		if f == nil {
			continue
		}
		var sp *ssa.Parameter
		for _, prm := range f.Params {
			if prm.Type().String() == "string" {
				sp = prm
				break
			}
		}
		if sp == nil {
			continue
		}
		isWidthCall := func(v ssa.Value) bool {
			cl, _ := callOf(v)
			if cl == nil {
				return false
			}
			nm := calleeFullName(&cl.Call)
			if cal := calleeOf(&cl.Call); cal != nil && cal.Name() == "visibleLen" {
				return true
			}
			return strings.Contains(nm, "runewidth.")
		}
		k := 0
		for _, r := range returnsOf(f) {
			if len(r.Results) != 1 || resolve(r.Results[0]) != ssa.Value(sp) {
				continue
			}
			k++
			n++
			blk := r.Block()
			// every way into this return must have passed a display-width comparison
			check := func(target *ssa.BasicBlock, extra *edge) bool {
				for _, bf := range branchFacts(f) {
					curEnv = bf.A.Env
					if bf.A.Kind != "cmp" || !(isWidthCall(bf.A.X) || isWidthCall(bf.A.Y)) {
						continue
					}
					if extra != nil && bf.E == *extra {
						return true
					}
					if mustPassEdges(f, target, map[edge]bool{bf.E: true}) {
						return true
					}
				}
				return false
			}
			ok := true
			if len(blk.Preds) > 1 {
				for _, pred := range blk.Preds {
					found := false
					for i, s := range pred.Succs {
						if s == blk {
							e := edge{pred, i}
							if check(pred, &e) {
								found = true
							}
						}
					}
					if !found {
						ok = false
					}
				}
			} else {
				ok = check(blk, nil)
			}
			c.check(ok, c.Name(f), fmt.Sprintf("returns-input-unshortened#%d", k), c.Pos(r.Pos()), "input is returned unshortened only after a display-width comparison",
				"the input can be returned unshortened on a path that did not compare its display width with the budget (byte/rune count instead): wide characters overflow the row")
		}
	}
	if n == 0 {
		c.bad("<renderers>", "truncation-helpers", "-", "no truncation helper returning its input found")
	}
}

// ------------------------------------------------------------------ OU9

func init() {
	register(&Rule{ID: "OU9", Min: 1, Run: ruleOU9,
		Doc: "padding-measured-not-assumed: in the row formatters, the amount of padding that places the id column (the count of strings.Repeat) never derives from a width *budget* handed to a truncating helper (truncateToWidth/abbreviate): a truncated text may come out narrower than its budget (a wide glyph does not fit the last column), so its width has to be measured after truncation, not assumed. Calls to a blank-run helper of the module (func(n int) string handing back \"\", strings.Repeat of a constant or a slice of a constant run of ASCII blanks) are padding like strings.Repeat, and such a helper owes exactly n blanks (blank-run-exact: the count it repeats or slices to is its parameter itself, not a clamped copy)"})
}

func ruleOU9(c *Ctx) {
	trunc := map[*ssa.Function]bool{}
	for _, n := range []string{"truncateToWidth", "abbreviate"} {
		if f := c.ErgoFn(n); f != nil {
			trunc[f] = true
		}
	}
	if len(trunc) == 0 {
		c.unk("ergo.truncateToWidth", "anchor", "-", "no truncating helper found")
		return
	}
	n := 0
	for _, f := range c.Fns {
		if trunc[f] {
			continue
		}
		var budgets []ssa.Value
		for _, call := range callsIn(f) {
			if cal := calleeOf(call.Common()); cal != nil && trunc[cal] {
				for i, a := range call.Common().Args {
					if i == 0 {
						continue // the text
					}
					if b, ok := a.Type().Underlying().(*types.Basic); ok && b.Info()&types.IsInteger != 0 {
						if _, isConst := a.(*ssa.Const); !isConst {
							budgets = append(budgets, a)
						}
					}
				}
			}
		}
		if len(budgets) == 0 {
			continue
		}
		reps, cnts := c.paddingCalls(f)
		for i, rep := range reps {
			n++
			cnt := cnts[i]
			bad := ""
			for _, b := range budgets {
				if arithDerives(cnt, b) {
					bad = c.canon(b)
				}
			}
			c.check(bad == "", c.Name(f), fmt.Sprintf("padding#%d", i+1), c.Pos(rep.Pos()), "padding count does not depend on a truncation budget",
				"the padding before a column is computed from the budget given to a truncating helper ("+bad+") instead of the measured width of what was written: when a wide character does not fit the last column the text is one column short and the id leaves its column")
		}
	}
	if n == 0 {
		c.bad("<module>", "padding#0", "-", "no row formatter combining truncation and padding found")
	}
	c.blankRunExact()
}

// arithDerives: v is computed from src by integer arithmetic alone (+, -, phi, locals, conversions); a call on the way
// (visibleLen(...), len(...)) is a measurement and ends the derivation.
func arithDerives(v, src ssa.Value) bool {
	seen := map[ssa.Value]bool{}
	var walk func(x ssa.Value, d int) bool
	walk = func(x ssa.Value, d int) bool {
		if x == nil || d > 40 || seen[x] {
			return false
		}
		if x == src {
			return true
		}
		seen[x] = true
		switch y := x.(type) {
		case *ssa.BinOp:
			return walk(y.X, d+1) || walk(y.Y, d+1)
		case *ssa.Phi:
			for _, e := range y.Edges {
				if walk(e, d+1) {
					return true
				}
			}
		case *ssa.Convert:
			return walk(y.X, d+1)
		case *ssa.ChangeType:
			return walk(y.X, d+1)
		case *ssa.UnOp:
			if y.Op == token.MUL {
				if cell := cellOf(y.X); cell != nil {
					for _, st := range cellStores(cell) {
						if walk(st.Val, d+1) {
							return true
						}
					}
				}
				return false
			}
			return walk(y.X, d+1)
		}
		return false
	}
	return walk(v, 0)
}

// ------------------------------------------------------------------ OU11

func init() {
	register(&Rule{ID: "OU11", Min: 1, Run: ruleOU11,
		Doc: "repeat-count-nonnegative: the count handed to strings.Repeat in the renderers is provably not negative (a constant, a length, a sum of such, a value clamped by `if x < k { x = k }` / max(x, k), or used only on the branch where it was compared positive): a negative count panics, and a panic in list/show on an unusual but valid log (a very long id, a narrow terminal) breaks 'every command terminates with output or an error message'"})
}

type nonNegCtx struct {
	c     *Ctx
	f     *ssa.Function
	facts []branchFact
	seen  map[ssa.Value]bool
}

// edgesEstablishing: edges on which a comparison of v with a constant implies v >= 0.
func (n *nonNegCtx) edgesEstablishing(v ssa.Value) map[edge]bool {
	out := map[edge]bool{}
	for _, bf := range n.facts {
		a := bf.A
		if a.Kind != "cmp" || a.Y == nil {
			continue
		}
		x, y, op := a.X, a.Y, a.Op
		if x != v && y == v {
			// k OP v  ==  v OP' k
			x, y = y, x
			switch op {
			case token.LSS:
				op = token.GTR
			case token.LEQ:
				op = token.GEQ
			case token.GTR:
				op = token.LSS
			case token.GEQ:
				op = token.LEQ
			}
		}
		if x != v {
			continue
		}
		k, isConst := constInt(y)
		kNonNeg := isConst && k >= 0
		if !isConst {
			kNonNeg = n.nonNeg(y, nil)
		}
		holds := bf.Holds
		ok := false
		switch op {
		case token.GEQ: // v >= k
			ok = holds && kNonNeg
		case token.GTR: // v > k
			ok = holds && (kNonNeg || (isConst && k >= -1))
		case token.LSS: // !(v < k)  =>  v >= k
			ok = !holds && kNonNeg
		case token.LEQ: // !(v <= k) =>  v > k
			ok = !holds && (kNonNeg || (isConst && k >= -1))
		}
		if ok {
			out[bf.E] = true
		}
	}
	return out
}

// nonNeg: v is not negative wherever it is used in block at (nil: anywhere).
func (n *nonNegCtx) nonNeg(v ssa.Value, at *ssa.BasicBlock) bool {
	if v == nil {
		return false
	}
	if k, ok := constInt(v); ok {
		return k >= 0
	}
	if n.seen[v] {
		return true // loop-carried: decided by the other edges
	}
	n.seen[v] = true
	defer delete(n.seen, v)
	if at != nil {
		if es := n.edgesEstablishing(v); len(es) > 0 && mustPassEdges(n.f, at, es) {
			return true
		}
	}
	switch x := v.(type) {
	case *ssa.Call:
		name := calleeFullName(&x.Call)
		switch name {
		case "builtin len", "builtin cap", "unicode/utf8.RuneCountInString", "unicode/utf8.RuneCount":
			return true
		case "builtin max":
			for _, a := range x.Call.Args {
				if n.nonNeg(a, at) {
					return true
				}
			}
			return false
		case "builtin min":
			for _, a := range x.Call.Args {
				if !n.nonNeg(a, at) {
					return false
				}
			}
			return true
		}
		if cal := calleeOf(&x.Call); cal != nil && (cal.Name() == "visibleLen" || strings.HasSuffix(name, "runewidth.StringWidth")) {
			return true
		}
		return false
	case *ssa.BinOp:
		switch x.Op {
		case token.ADD, token.MUL:
			return n.nonNeg(x.X, at) && n.nonNeg(x.Y, at)
		case token.QUO, token.REM:
			return n.nonNeg(x.X, at) && n.nonNeg(x.Y, at)
		}
		return false
	case *ssa.Phi:
		for i, e := range x.Edges {
			pred := x.Block().Preds[i]
			if n.nonNeg(e, pred) {
				continue
			}
			// established on the very edge pred -> phi block
			okEdge := false
			for ed := range n.edgesEstablishing(e) {
				if ed.From == pred && ed.To() == x.Block() {
					okEdge = true
				}
			}
			if !okEdge {
				return false
			}
		}
		return true
	case *ssa.Convert:
		return n.nonNeg(x.X, at)
	case *ssa.UnOp:
		if x.Op == token.MUL {
			if cell := cellOf(x.X); cell != nil {
				sts := cellStores(cell)
				if len(sts) == 0 {
					return false
				}
				for _, st := range sts {
					if !n.nonNeg(st.Val, st.Block()) {
						return false
					}
				}
				return true
			}
		}
	}
	return false
}

func ruleOU11(c *Ctx) {
	cnt := map[*ssa.Function]int{}
	for _, f := range c.Fns {
		if Outermost(f).Pkg != c.Ergo {
			continue
		}
		reps, cnts := c.paddingCalls(f)
		if len(reps) == 0 {
			continue
		}
		nn := &nonNegCtx{c: c, f: f, facts: directFacts(f), seen: map[ssa.Value]bool{}}
		for i, rep := range reps {
			cnt[f]++
			v := cnts[i]
			c.check(nn.nonNeg(v, rep.Block()), c.Name(f), fmt.Sprintf("repeat-count#%d", cnt[f]), c.Pos(rep.Pos()), "the repeat count is not negative",
				"the count of this strings.Repeat ("+c.canon(v)+") is not provably non-negative: with an id or prefix wider than the computed column (a long id in a merged log, a narrow terminal) it goes negative and the command panics instead of printing")
		}
	}
}
