package main

// Event emission sites: calls of newEvent(type, ts, payload) with the payload's composite
// literal decoded into field -> value, and the set of constant event types the site can emit.

import (
	"fmt"
	"go/constant"
	"go/token"
	"sort"

	"golang.org/x/tools/go/ssa"
)

type Emission struct {
	Fn      *ssa.Function
	Call    *ssa.Call
	Types   []string               // constant event types this site can emit (sorted); empty = unresolved
	Payload string                 // named payload type, e.g. "ergo.StateEvent"
	Fields  map[string]ssa.Value   // payload field -> stored value (composite literal)
	Stores  map[string][]ssa.Value // every value stored into the field (reassignments after the literal)
	Lit     *ssa.Alloc             // the literal's cell, if any
	Lifted  *ssa.Function          // non-nil: the event is built by this helper; Call is the call of the helper in Fn
	TypeV   ssa.Value              // the value naming the event type (an operand of newEvent, or what a lifting helper was handed for it)
	Env     env                    // lifted emissions: the helpers' parameters bound to the arguments at Call (for fields computed inside the helper)
	Ordinal map[string]int         // per event type: 1-based ordinal within Fn in source order
}

// emissions lists all newEvent call sites in module functions, in function/source order.
func (c *Ctx) emissions() []*Emission {
	if c.emMemo != nil {
		return c.emMemo
	}
	ne := c.F.Anchors["newEvent"]
	if ne == nil {
		return nil
	}
	var direct []*Emission
	for _, fn := range c.Fns {
		for _, call := range callsTo(fn, ne) {
			cv, ok := call.(*ssa.Call)
			if !ok {
				continue
			}
			em := &Emission{Fn: fn, Call: cv, Fields: map[string]ssa.Value{}, Stores: map[string][]ssa.Value{}, Ordinal: map[string]int{}}
			em.Types = c.constStrings(cv.Call.Args[0], 0, map[ssa.Value]bool{})
			em.TypeV = cv.Call.Args[0]
			if len(cv.Call.Args) >= 3 {
				em.decodePayload(cv.Call.Args[2])
			}
			direct = append(direct, em)
		}
	}
	// emission lifting: an event built by a small helper from its parameters (newStateEvent(id, state, now)) is an
	// emission of each of the helper's call sites, with the parameters replaced by the arguments
	var all []*Emission
	var lift func(em *Emission, depth int)
	lift = func(em *Emission, depth int) {
		h := em.Fn
		liftable := depth < 2 && h.Parent() == nil && c.F.Callbacks[h] == nil && len(c.callers[h]) > 0
		// (1) a generic emitter: the helper is handed the event type and/or the payload itself
		//     (collector.add(eventType, ts, payload)): every call site is an emission of what it passes
		var typePrm, payloadPrm *ssa.Parameter
		if liftable && em.Lifted == nil {
			if prm, ok := resolve(em.Call.Call.Args[0]).(*ssa.Parameter); ok && prm.Parent() == h {
				typePrm = prm
			}
			if len(em.Call.Call.Args) >= 3 {
				pv := em.Call.Call.Args[2]
				if mi, ok := pv.(*ssa.MakeInterface); ok {
					pv = mi.X
				}
				if prm, ok := resolve(pv).(*ssa.Parameter); ok && prm.Parent() == h {
					payloadPrm = prm
				}
			}
		}
		if liftable && payloadPrm != nil {
			for _, cs := range c.callers[h] {
				cv, ok := cs.Call.(*ssa.Call)
				if !ok {
					continue
				}
				le := &Emission{Fn: cs.Fn, Call: cv, Types: em.Types, Payload: em.Payload, Fields: map[string]ssa.Value{}, Stores: map[string][]ssa.Value{}, Ordinal: map[string]int{}, Lifted: h}
				if typePrm != nil {
					if i := paramIndex(typePrm); i < len(cv.Call.Args) {
						le.Types = c.constStrings(cv.Call.Args[i], 0, map[ssa.Value]bool{})
					}
				}
				if i := paramIndex(payloadPrm); i < len(cv.Call.Args) {
					le.decodePayload(cv.Call.Args[i])
				}
				lift(le, depth+1)
			}
			return
		}
		// (2) a constructor: the payload literal is built from the helper's parameters and the event handed straight back
		if liftable {
			liftable = false
			for _, v := range em.Fields {
				if _, ok := resolve(v).(*ssa.Parameter); ok {
					liftable = true
				}
			}
			// the helper must hand the event (or its error) straight back
			if liftable {
				returned := false
				for _, r := range returnsOf(h) {
					for _, res := range r.Results {
						if ex, ok := strip(res).(*ssa.Extract); ok && ex.Index == 0 && ex.Tuple == ssa.Value(em.Call) {
							returned = true
						}
					}
				}
				liftable = returned
			}
		}
		if !liftable {
			all = append(all, em)
			return
		}
		for _, cs := range c.callers[h] {
			cv, ok := cs.Call.(*ssa.Call)
			if !ok {
				continue
			}
			le := &Emission{Fn: cs.Fn, Call: cv, Types: em.Types, Payload: em.Payload, Fields: map[string]ssa.Value{}, Stores: map[string][]ssa.Value{}, Ordinal: map[string]int{}, Lifted: h, Env: env{}}
			for k, v := range em.Env {
				le.Env[k] = v
			}
			for i, prm := range h.Params {
				if i < len(cv.Call.Args) {
					le.Env[prm] = cv.Call.Args[i]
				}
			}
			sub := func(v ssa.Value) ssa.Value {
				if prm, ok := resolve(v).(*ssa.Parameter); ok && prm.Parent() == h {
					if i := paramIndex(prm); i < len(cv.Call.Args) {
						return cv.Call.Args[i]
					}
				}
				return v
			}
			// a constructor handed the event type (newDependsEvent(eventType, from, to)): each call site emits what it passes
			if em.TypeV != nil {
				le.TypeV = sub(em.TypeV)
				if le.TypeV != em.TypeV {
					le.Types = c.constStrings(le.TypeV, 0, map[ssa.Value]bool{})
				}
			}
			for k, v := range em.Fields {
				le.Fields[k] = sub(v)
			}
			for k, vs := range em.Stores {
				for _, v := range vs {
					le.Stores[k] = append(le.Stores[k], sub(v))
				}
			}
			lift(le, depth+1)
		}
	}
	for _, em := range direct {
		lift(em, 0)
	}
	// ordinals per function and type, in source order
	byFn := map[*ssa.Function][]*Emission{}
	for _, em := range all {
		byFn[em.Fn] = append(byFn[em.Fn], em)
	}
	var out []*Emission
	for _, fn := range c.Fns {
		ems := byFn[fn]
		sort.SliceStable(ems, func(i, j int) bool { return ems[i].Call.Pos() < ems[j].Call.Pos() })
		counts := map[string]int{}
		for _, em := range ems {
			for _, t := range em.Types {
				counts[t]++
				em.Ordinal[t] = counts[t]
			}
			out = append(out, em)
		}
	}
	c.emMemo = out
	return out
}

func (em *Emission) decodePayload(v ssa.Value) {
	mi, ok := v.(*ssa.MakeInterface)
	if !ok {
		return
	}
	em.Payload = namedTypeName(mi.X.Type())
	ld, ok := mi.X.(*ssa.UnOp)
	if !ok || ld.Op != token.MUL {
		return
	}
	lit, ok := ld.X.(*ssa.Alloc)
	if !ok {
		return
	}
	em.Lit = lit
	em.decodeLit(lit, 0)
}

// decodeLit collects field stores of a literal cell, first following whole-struct copies from another literal.
func (em *Emission) decodeLit(lit *ssa.Alloc, depth int) {
	if depth > 3 {
		return
	}
	for _, r := range *lit.Referrers() {
		if st, ok := r.(*ssa.Store); ok && st.Addr == lit {
			if ld, ok := st.Val.(*ssa.UnOp); ok && ld.Op == token.MUL {
				if src, ok := ld.X.(*ssa.Alloc); ok {
					em.decodeLit(src, depth+1)
				}
			}
		}
	}
	for _, r := range *lit.Referrers() {
		fa, ok := r.(*ssa.FieldAddr)
		if !ok {
			continue
		}
		name := fieldName(lit.Type(), fa.Field)
		for _, u := range *fa.Referrers() {
			if st, ok := u.(*ssa.Store); ok && st.Addr == fa {
				em.Fields[name] = st.Val
				em.Stores[name] = append(em.Stores[name], st.Val)
			}
		}
	}
}

// constStrings: the string constants a value can take (through phis and parameters of static callers).
func (c *Ctx) constStrings(v ssa.Value, d int, seen map[ssa.Value]bool) []string {
	set := map[string]bool{}
	unresolved := false
	var walk func(x ssa.Value, d int)
	walk = func(x ssa.Value, d int) {
		if x == nil || d > 12 || seen[x] {
			return
		}
		seen[x] = true
		if u, ok := strip(x).(*ssa.UnOp); ok && u.Op == token.MUL {
			if cell := cellOf(u.X); cell != nil {
				for _, st := range cellStores(cell) {
					walk(st.Val, d+1)
				}
				return
			}
		}
		x = resolve(x)
		switch y := x.(type) {
		case *ssa.Const:
			if y.Value != nil && y.Value.Kind() == constant.String {
				set[constant.StringVal(y.Value)] = true
			} else {
				unresolved = true
			}
		case *ssa.Phi:
			for _, e := range y.Edges {
				walk(e, d+1)
			}
		case *ssa.Parameter:
			args := c.argValues(y.Parent(), paramIndex(y))
			if len(args) == 0 {
				unresolved = true
			}
			for _, a := range args {
				walk(a, d+1)
			}
		case *ssa.Extract, *ssa.Call:
			// the constant is chosen by a module helper (creationNames(isEpic) -> ("new_epic","epic") | ("new_task","task"))
			idx := 0
			var cl *ssa.Call
			if ex, ok := y.(*ssa.Extract); ok {
				idx = ex.Index
				cl, _ = ex.Tuple.(*ssa.Call)
			} else {
				cl = y.(*ssa.Call)
			}
			var cal *ssa.Function
			if cl != nil {
				cal = calleeOf(&cl.Call)
			}
			if cal == nil || cal.Blocks == nil || !c.InModule(cal) {
				unresolved = true
				return
			}
			rets := returnsOf(cal)
			if res := cal.Signature.Results(); res.Len() > 0 && res.At(res.Len()-1).Type().String() == "error" {
				rets = c.nonFailingReturns(cal) // the value is only used when the helper succeeded
			}
			if len(rets) == 0 {
				unresolved = true
			}
			for _, r := range rets {
				if idx >= len(r.Results) {
					unresolved = true
					return
				}
				walk(returnedValue(r, idx), d+1)
			}
		default:
			unresolved = true
		}
	}
	walk(v, d)
	if unresolved {
		return nil
	}
	var out []string
	for s := range set {
		out = append(out, s)
	}
	sort.Strings(out)
	return out
}

func (em *Emission) has(t string) bool {
	for _, x := range em.Types {
		if x == t {
			return true
		}
	}
	return false
}

// construct names the site for keys: `emit "state"#2`.
func (em *Emission) construct(t string) string {
	return fmt.Sprintf("emit %q#%d", t, em.Ordinal[t])
}

// isReplayOrCompact: emission sites inside replay/compaction are exempt from command-side guards.
func (c *Ctx) isReplayOrCompact(fn *ssa.Function) bool {
	o := Outermost(fn)
	if o == c.F.Anchors["replayEvents"] || o == c.F.Anchors["compactEvents"] {
		return true
	}
	return c.inUnit(o, c.F.Anchors["replayEvents"]) || c.inUnit(o, c.F.Anchors["compactEvents"])
}

// successReturns: returns of f whose error result (last result) is the nil constant
// (looking through the named-result cell spill of deferred functions).
// nonFailingReturns: the returns of f that are not known to hand back a non-nil error.
func (c *Ctx) nonFailingReturns(f *ssa.Function) []*ssa.Return {
	var out []*ssa.Return
	for _, r := range returnsOf(f) {
		if r.Block().Comment == "recover" || c.definitelyFails(f, r) {
			continue
		}
		out = append(out, r)
	}
	return out
}

func successReturns(f *ssa.Function) []*ssa.Return {
	var out []*ssa.Return
	for _, r := range returnsOf(f) {
		if r.Block().Comment == "recover" {
			continue
		}
		if len(r.Results) == 0 {
			out = append(out, r)
			continue
		}
		last := r.Results[len(r.Results)-1]
		if !isErrorType(last) {
			out = append(out, r)
			continue
		}
		if isNilConst(returnedValue(r, len(r.Results)-1)) {
			out = append(out, r)
		}
	}
	return out
}

func isErrorType(v ssa.Value) bool {
	return v.Type().String() == "error"
}

// returnedValue resolves result i of r through a named-result cell written in the same block.
func returnedValue(r *ssa.Return, i int) ssa.Value {
	v := r.Results[i]
	if u, ok := v.(*ssa.UnOp); ok && u.Op == token.MUL {
		var last ssa.Value
		for _, in := range r.Block().Instrs {
			if st, ok := in.(*ssa.Store); ok && st.Addr == u.X {
				last = st.Val
			}
		}
		if last != nil {
			// a deferred closure that assigns the result variable (`defer func() { err = f.Close() }()`) runs between the
			// store and the return: what is returned is whatever the variable holds then
			if al, isAl := u.X.(*ssa.Alloc); isAl {
				for _, st := range cellStores(al) {
					if st.Parent() != r.Parent() {
						return v
					}
				}
			}
			// `err = f(); return err` on a named result stores the variable to itself: follow to the value assigned
			for i := 0; i < 4; i++ {
				nv := reachingDef(last)
				if nv == last {
					break
				}
				last = nv
			}
			return last
		}
	}
	return v
}

// errorReturnSources: for a return with a possibly non-nil error, the callee names the error comes from.
func (c *Ctx) errorSources(r *ssa.Return) []string {
	if len(r.Results) == 0 {
		return nil
	}
	v := returnedValue(r, len(r.Results)-1)
	if !isErrorType(r.Results[len(r.Results)-1]) {
		return nil
	}
	set := map[string]bool{}
	seen := map[ssa.Value]bool{}
	var walk func(x ssa.Value, d int)
	walk = func(x ssa.Value, d int) {
		if x == nil || d > 10 || seen[x] {
			return
		}
		seen[x] = true
		x = strip(x)
		if isNilConst(x) {
			return
		}
		switch y := x.(type) {
		case *ssa.Phi:
			for _, e := range y.Edges {
				walk(e, d+1)
			}
		case *ssa.Call:
			if cal := calleeOf(&y.Call); cal != nil && c.InModule(cal) {
				set[c.Name(cal)] = true
			} else {
				set[calleeFullName(&y.Call)] = true
			}
		case *ssa.Extract:
			walk(y.Tuple, d+1)
		case *ssa.UnOp:
			if y.Op == token.MUL {
				if g, ok := y.X.(*ssa.Global); ok {
					set["global "+g.Name()] = true
					return
				}
				if cell := cellOf(y.X); cell != nil {
					for _, st := range cellStores(cell) {
						walk(st.Val, d+1)
					}
					return
				}
			}
			set["?"] = true
		default:
			set[fmt.Sprintf("%T", x)] = true
		}
	}
	walk(v, 0)
	var out []string
	for s := range set {
		out = append(out, s)
	}
	sort.Strings(out)
	return out
}

// errorSourceValues: the non-nil values an error result can carry (calls, globals, others), through phis and cells.
func errorSourceValues(r *ssa.Return) []ssa.Value {
	if len(r.Results) == 0 {
		return nil
	}
	v := returnedValue(r, len(r.Results)-1)
	var out []ssa.Value
	seen := map[ssa.Value]bool{}
	var walk func(x ssa.Value, d int)
	walk = func(x ssa.Value, d int) {
		if x == nil || d > 10 || seen[x] {
			return
		}
		seen[x] = true
		x = strip(x)
		if isNilConst(x) {
			return
		}
		switch y := x.(type) {
		case *ssa.Phi:
			for _, e := range y.Edges {
				walk(e, d+1)
			}
		case *ssa.Extract:
			walk(y.Tuple, d+1)
		case *ssa.UnOp:
			if y.Op == token.MUL {
				if cell := cellOf(y.X); cell != nil {
					for _, st := range cellStores(cell) {
						walk(st.Val, d+1)
					}
					return
				}
			}
			out = append(out, x)
		default:
			out = append(out, x)
		}
	}
	walk(v, 0)
	return out
}
