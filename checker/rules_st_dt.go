package main

// Store-discovery rules ST1, ST2 and determinism/purity/table rules DT2..DT5.

import (
	"fmt"
	"go/constant"
	"go/token"
	"go/types"
	os_ "os"
	"sort"
	"strings"

	"golang.org/x/tools/go/ssa"
)

func init() {
	register(&Rule{ID: "ST1", Min: 4, Run: ruleST1,
		Doc: "single-log-chooser: the file-name constants plans.jsonl / events.jsonl are used only inside the chooser; every path handed to the reader, the append and the replace primitives (and to the create-if-absent helper) from command code is the chooser's result for a directory; the chooser returns plans.jsonl if it exists, else events.jsonl if it exists, else plans.jsonl"})
	register(&Rule{ID: "ST2", Min: 3, Run: ruleST2,
		Doc: "absolute-start: the directory the upward search for .ergo starts from, every directory it returns, and the repoDir reaching the file-URL derivation carry the absoluteness typestate (sources os.Getwd, filepath.Abs; preserved by Join/Dir/Clean of an absolute operand)"})
	register(&Rule{ID: "DT2", Min: 4, Run: ruleDT2,
		Doc: "read-purity: from list, show, where, quickstart and from prune's dry-run entry (with apply bound to false) no content-mutating file operation is reachable and no file creator other than the non-truncating creator on the LOCK-class path"})
	register(&Rule{ID: "DT3", Min: 4, Run: ruleDT3,
		Doc: "located-parse-errors: the error for a line that fails to parse is built from the reader's path parameter and the line counter; the scanner's buffer limit is set and its too-long error is converted into an error naming the path"})
	register(&Rule{ID: "DT4", Min: 3, Run: ruleDT4,
		Doc: "event-table-agreement: the set of constant event types passed to newEvent anywhere equals the set of case constants of the replay switch; every field of every emitted payload type is read in replay (frozen ignore: UnclaimEvent.TS, LinkEvent.Type's constant)"})
	register(&Rule{ID: "DT5", Min: 10, Run: ruleDT5,
		Doc: "compaction-coverage: (a) every Task/TaskMeta/Result field read by the observable builders is read by compaction (Task.Deps/RDeps via Graph.Deps); (b) every payload literal in compaction and the Result literal in replay assigns every field; (c) compaction emits only for ids ranged from graph.Tasks / graph.Deps; (d) replay prepends results and compaction walks them from the end; (e) for title, body, epic and state the update event is emitted whenever the current value differs from the created one, the claim event whenever a claimant is set, results unconditionally"})
}

// ------------------------------------------------------------------ ST1

func ruleST1(c *Ctx) {
	ch := c.F.Chooser
	if ch == nil {
		c.unk("<module>", "chooser", "-", "no log-path chooser found")
		return
	}
	// (a) constants
	n := 0
	for _, fn := range c.Fns {
		eachInstr(fn, func(r instrRef) {
			for _, op := range r.In.Operands(nil) {
				k, ok := (*op).(*ssa.Const)
				if !ok || k.Value == nil || k.Value.Kind() != constant.String || !isLogName(constant.StringVal(k.Value)) {
					continue
				}
				if fn == ch {
					continue
				}
				n++
				c.bad(c.Name(fn), fmt.Sprintf("log-file-name-constant#%d", n), c.Pos(r.In.Pos()), "builds a log file name itself ("+constant.StringVal(k.Value)+") instead of asking the chooser: on a store holding only the other file name this command reads or writes a different log than every other command")
			}
		})
	}
	c.check(n == 0, "<module>", "names-only-in-chooser", "-", "log file names appear only in "+c.Name(ch), fmt.Sprintf("%d uses of a log file name outside the chooser", n))
	// (b) path arguments of the storage functions called from command code
	storage := map[*ssa.Function]bool{}
	for _, name := range []string{"readEvents", "appendEvents", "replaceEventsAtomically", "appendEventsAtomically", "writeEventsFile", "hasUnterminatedTail"} {
		if f := c.ErgoFn(name); f != nil {
			storage[f] = true
			// ... and the private helpers a storage function is split into (they work on the path it was handed)
			for _, g := range c.unitOf(f) {
				storage[g] = true
			}
		}
	}
	ens := c.F.Anchors["ensureFileExists"]
	cnt := 0
	for _, fn := range c.Fns {
		if storage[Outermost(fn)] || fn == c.F.Anchors["loadGraph"] || c.loaderKind(Outermost(fn)) != "" {
			continue
		}
		if impl := c.implOf[fn]; impl != nil && storage[impl] {
			continue // the old name of a storage function kept as a thin wrapper: it hands on the path it was handed
		}
		if c.eventsLoaderKind(fn) != "" {
			continue // loadEvents(dir): chooses the file itself (judged by loads-chosen-log)
		}
		for _, call := range callsIn(fn) {
			cal := calleeOf(call.Common())
			if cal == nil || len(call.Common().Args) == 0 {
				continue
			}
			isEns := cal == ens
			if !storage[cal] && !isEns && c.loaderKind(cal) != "path" {
				continue
			}
			a0 := call.Common().Args[0]
			cls := c.pathClass(a0)
			if isEns && !cls[classLOG] {
				continue // lock file
			}
			cnt++
			okAll := true
			// a loop over the store's files (for _, p := range []string{eventsPath, lockPath}): each element on its own
			var elems []ssa.Value
			if u, isLd := strip(a0).(*ssa.UnOp); isLd && u.Op == token.MUL {
				if ia, isIA := u.X.(*ssa.IndexAddr); isIA {
					if es, ok := sliceElems(ia.X, 0, map[ssa.Value]bool{}); ok && len(es) > 0 {
						elems = es
					}
				}
			}
			if isEns && len(elems) > 0 {
				single := true
				for _, el := range elems {
					ecls := c.pathClass(el)
					if !ecls[classLOG] {
						continue // the lock file
					}
					if len(ecls) != 1 {
						single = false
					}
					for _, e := range c.contexts(fn) {
						if _, ok := c.chooserDir(el, e); !ok {
							okAll = false
						}
					}
				}
				c.check(okAll && single, c.Name(fn), fmt.Sprintf("log-path-arg %s#%d", cal.Name(), cnt), c.Pos(call.Pos()), "every log path in the list is the chooser's result", "a log path in the list handed to "+cal.Name()+" is not the chooser's result: the file created here need not be the one every other command reads and writes")
				continue
			}
			for _, e := range c.contexts(fn) {
				if _, ok := c.chooserDir(a0, e); !ok {
					okAll = false
				}
			}
			c.check(okAll && len(cls) == 1, c.Name(fn), fmt.Sprintf("log-path-arg %s#%d", cal.Name(), cnt), c.Pos(call.Pos()), "path is the chooser's result", "log path "+c.canon(a0)+" (class "+cls.String()+") is not the chooser's result")
		}
	}
	// loadGraph itself
	if lg := c.F.Anchors["loadGraph"]; lg != nil {
		ok := false
		for _, call := range callsIn(lg) {
			if cal := calleeOf(call.Common()); cal != nil && c.eventsLoaderKind(cal) == "dir" && len(call.Common().Args) > 0 {
				// loadEvents(dir) chooses and reads the file for the directory it is handed
				if _, isParam := resolve(call.Common().Args[0]).(*ssa.Parameter); isParam {
					ok = true
				}
			} else if cal == c.F.Anchors["readEvents"] || c.loaderKind(cal) == "path" {
				if d, isCh := c.chooserDir(call.Common().Args[0], env{}); isCh {
					if _, isParam := resolve(d).(*ssa.Parameter); isParam {
						ok = true
					}
				}
			}
		}
		c.check(ok, c.Name(lg), "loads-chosen-log", c.FnPos(lg), "loadGraph(dir) reads chooser(dir)", "loadGraph does not read the chooser's file for its directory")
	}
	// (c) chooser internals
	fn := c.Name(ch)
	// loop form: `for _, cand := range []string{Join(dir, A), Join(dir, B)} { if Stat(cand) == nil { return cand } }; return
	// Join(dir, D)`: the literal's order is the preference order
	if order, def, ok := c.chooserLoopForm(ch); ok {
		c.ok(fn, "returns-join", c.FnPos(ch), "every candidate and the default are Join(dir, <file name>)")
		c.check(len(order) == 2 && order[0] == "plans.jsonl" && order[1] == "events.jsonl" && def == "plans.jsonl", fn, "preference-order", c.FnPos(ch),
			"first existing of [plans.jsonl, events.jsonl], else plans.jsonl",
			fmt.Sprintf("the chooser's preference order changed (candidates %v, default %q): a store holding both (or only one) of the files can be read from one and written to the other", order, def))
		return
	}
	var plansRet, oldRet []*ssa.Return
	for _, r := range returnsOf(ch) {
		if len(r.Results) != 1 {
			continue
		}
		v := resolve(r.Results[0])
		cl, _ := callOf(v)
		if cl == nil || calleeFullName(&cl.Call) != "path/filepath.Join" {
			c.bad(fn, "returns-join", c.Pos(r.Pos()), "chooser returns something other than Join(dir, <file name>)")
			continue
		}
		el := variadicElems(cl.Call.Args)
		s, _ := constString(el[len(el)-1])
		_, dirParam := resolve(el[0]).(*ssa.Parameter)
		if !dirParam {
			c.bad(fn, "returns-join", c.Pos(r.Pos()), "chooser joins onto something other than its directory parameter")
		}
		if s == "plans.jsonl" {
			plansRet = append(plansRet, r)
		} else if s == "events.jsonl" {
			oldRet = append(oldRet, r)
		}
	}
	statOf := func(name string, wantNil bool) map[edge]bool {
		return edgesWhere(ch, func(a Atom, holds bool) bool {
			if a.Kind != "nil" || holds != wantNil {
				return false
			}
			cl, _ := callOf(a.X)
			if cl == nil || calleeFullName(&cl.Call) != "os.Stat" {
				return false
			}
			j, _ := callOf(resolveEnv(cl.Call.Args[0], a.Env))
			if j == nil || calleeFullName(&j.Call) != "path/filepath.Join" {
				return false
			}
			el := variadicElems(j.Call.Args)
			s, _ := constString(el[len(el)-1])
			return s == name
		})
	}
	okPref := len(plansRet) >= 1 && len(oldRet) == 1
	if okPref {
		// events.jsonl only when plans is absent and events exists
		okPref = mustPassEdges(ch, oldRet[0].Block(), statOf("events.jsonl", true))
		if okPref && !mustPassEdges(ch, oldRet[0].Block(), statOf("plans.jsonl", false)) {
			// "present" may ask more of the entry than that it exists (not a directory): then the legacy name is reached
			// either because Stat(plans) failed or because the entry found is not a log. What makes it the *second* choice
			// is the order: plans.jsonl is probed first - its probe dominates the probe of events.jsonl and the legacy
			// return - and a present plans.jsonl returns at once (checked below)
			probeOf := func(name string) *ssa.BasicBlock {
				for _, call := range callsNamed(ch, "os.Stat") {
					j, _ := callOf(resolve(call.Common().Args[0]))
					if j == nil || calleeFullName(&j.Call) != "path/filepath.Join" {
						continue
					}
					el := variadicElems(j.Call.Args)
					if sname, _ := constString(el[len(el)-1]); sname == name {
						return call.Block()
					}
				}
				return nil
			}
			pp, pe := probeOf("plans.jsonl"), probeOf("events.jsonl")
			okPref = pp != nil && pe != nil && pp != pe && pp.Dominates(pe) && pp.Dominates(oldRet[0].Block())
		}
		// some plans return is dominated by Stat(plans)==nil, another is the fallback
		hasExist := false
		for _, r := range plansRet {
			if mustPassEdges(ch, r.Block(), statOf("plans.jsonl", true)) {
				hasExist = true
			}
		}
		okPref = okPref && hasExist
	}
	c.check(okPref, fn, "preference-order", c.FnPos(ch), "plans.jsonl if present, else events.jsonl if present, else plans.jsonl", "the chooser's preference order changed: a store holding both (or only one) of the files can be read from one and written to the other")
}

// ------------------------------------------------------------------ ST2

type absState struct {
	c      *Ctx
	memo   map[ssa.Value]int              // 0 unknown/in progress, 1 abs, 2 not
	bind   []map[*ssa.Parameter]ssa.Value // parameters of the helpers being looked into, bound to the arguments of the call in hand
	inProg map[ssa.Value]bool
}

func (a *absState) isAbs(v ssa.Value, d int) bool {
	if v == nil || d > 14 {
		return false
	}
	// a field of a receiver/parameter bound to this call's argument (s.dir inside st.repoDir()): the field of the very
	// struct that argument is, read before the general resolution merges every object of the type
	if len(a.bind) > 0 {
		if ld, isLd := strip(v).(*ssa.UnOp); isLd && ld.Op == token.MUL {
			if fa, isFA := ld.X.(*ssa.FieldAddr); isFA {
				if prm, isPrm := strip(fa.X).(*ssa.Parameter); isPrm {
					for i := len(a.bind) - 1; i >= 0; i-- {
						arg, bound := a.bind[i][prm]
						if !bound {
							continue
						}
						addrOriginsWithEnv = true
						os, ok := fieldOfAddr(strip(arg), fa.Field, ld, 0)
						if !ok {
							os, ok = fieldOfAddr(resolve(arg), fa.Field, ld, 0)
						}
						addrOriginsWithEnv = false
						if !ok || len(os) == 0 {
							break
						}
						saved := a.bind
						a.bind = a.bind[:i]
						res := true
						for _, o := range os {
							if len(o.E) > 0 {
								b := map[*ssa.Parameter]ssa.Value{}
								for k, val := range o.E {
									b[k] = val
								}
								a.bind = append(a.bind, b)
								if !a.isAbs(o.V, d+1) {
									res = false
								}
								a.bind = a.bind[:len(a.bind)-1]
							} else if !a.isAbs(o.V, d+1) {
								res = false
							}
						}
						a.bind = saved
						return res
					}
				}
			}
		}
	}
	v = resolve(v)
	// inside a helper that is judged for one particular call (a path built by storeDirIn(dir)): its parameters are that
	// call's arguments, not everything any caller ever hands it
	if prm, ok := v.(*ssa.Parameter); ok {
		for i := len(a.bind) - 1; i >= 0; i-- {
			if arg, bound := a.bind[i][prm]; bound {
				saved := a.bind
				a.bind = a.bind[:i]
				res := a.isAbs(arg, d+1)
				a.bind = saved
				return res
			}
		}
	}
	if len(a.bind) > 0 {
		// context-dependent: not memoised, but loops (a directory variable walking up) are still cut optimistically
		if a.inProg == nil {
			a.inProg = map[ssa.Value]bool{}
		}
		if a.inProg[v] {
			return true
		}
		a.inProg[v] = true
		res := a.compute(v, d)
		delete(a.inProg, v)
		return res
	}
	if m, ok := a.memo[v]; ok {
		return m == 1 || m == 0 // in-progress cycles (loops walking up) are optimistic: decided by the other edges
	}
	a.memo[v] = 0
	res := a.compute(v, d)
	if res {
		a.memo[v] = 1
	} else {
		a.memo[v] = 2
	}
	return res
}

// callAbs: result idx of this call of a module function is absolute, with the callee's parameters bound to the call's
// arguments.
func (a *absState) callAbs(cl *ssa.Call, cal *ssa.Function, idx int, d int) bool {
	if len(a.bind) > 6 {
		return false
	}
	b := map[*ssa.Parameter]ssa.Value{}
	for i, prm := range cal.Params {
		if i < len(cl.Call.Args) {
			b[prm] = cl.Call.Args[i]
		}
	}
	a.bind = append(a.bind, b)
	res := a.returnsAbs(cal, idx, d)
	a.bind = a.bind[:len(a.bind)-1]
	return res
}

func (a *absState) compute(v ssa.Value, d int) bool {
	res := a.compute0(v, d)
	if !res && os_.Getenv("DBG_ABS") != "" {
		fmt.Fprintf(os_.Stderr, "DBG notabs d=%d bind=%d %T %s\n", d, len(a.bind), v, a.c.canon(v))
	}
	return res
}

func (a *absState) compute0(v ssa.Value, d int) bool {
	c := a.c
	switch x := v.(type) {
	case *ssa.Extract:
		cl, ok := x.Tuple.(*ssa.Call)
		if !ok {
			return false
		}
		n := calleeFullName(&cl.Call)
		if (n == "path/filepath.Abs" || n == "os.Getwd") && x.Index == 0 {
			return true
		}
		if cal := calleeOf(&cl.Call); cal != nil && c.InModule(cal) {
			return a.callAbs(cl, cal, x.Index, d)
		}
		return false
	case *ssa.Call:
		n := calleeFullName(&x.Call)
		switch n {
		case "path/filepath.Join":
			el := variadicElems(x.Call.Args)
			return len(el) > 0 && a.isAbs(el[0], d+1)
		case "path/filepath.Dir", "path/filepath.Clean":
			return a.isAbs(x.Call.Args[0], d+1)
		}
		if cal := calleeOf(&x.Call); cal != nil && c.InModule(cal) {
			return a.callAbs(x, cal, 0, d)
		}
		return false
	case *ssa.Phi:
		for _, e := range x.Edges {
			if !a.isAbs(e, d+1) {
				return false
			}
		}
		return true
	case *ssa.Parameter:
		args := c.argValues(x.Parent(), paramIndex(x))
		if len(args) == 0 {
			return c.deadFunction(x.Parent())
		}
		for _, arg := range args {
			if !a.isAbs(arg, d+1) {
				return false
			}
		}
		return true
	case *ssa.UnOp:
		if x.Op == token.MUL {
			if _, isField := x.X.(*ssa.FieldAddr); isField {
				// a field of a context struct: every value stored into it must be absolute
				var os []originVal
				ok := false
				// the field of a receiver/parameter that is bound to this call's argument: the struct that argument is
				if fa, isFA := x.X.(*ssa.FieldAddr); isFA {
					if prm, isPrm := strip(fa.X).(*ssa.Parameter); isPrm {
						for i := len(a.bind) - 1; i >= 0 && !ok; i-- {
							if arg, bound := a.bind[i][prm]; bound {
								addrOriginsWithEnv = true
								os, ok = fieldOfAddr(strip(arg), fa.Field, x, 0)
								if !ok {
									os, ok = fieldOfAddr(resolve(arg), fa.Field, x, 0)
								}
								addrOriginsWithEnv = false
							}
						}
					}
				}
				if !ok {
					os, ok = fieldOrigins(x, 0)
				}
				if !ok || len(os) == 0 {
					return false
				}
				for _, o := range os {
					// a value written inside a constructor is read with the constructor's parameters bound to its call
					if len(o.E) > 0 {
						b := map[*ssa.Parameter]ssa.Value{}
						for k, v := range o.E {
							b[k] = v
						}
						a.bind = append(a.bind, b)
						res := a.isAbs(o.V, d+1)
						a.bind = a.bind[:len(a.bind)-1]
						if !res {
							return false
						}
						continue
					}
					if !a.isAbs(o.V, d+1) {
						return false
					}
				}
				return true
			}
			if cell := cellOf(x.X); cell != nil {
				sts := cellStores(cell)
				if len(sts) == 0 {
					return false
				}
				for _, st := range sts {
					if !a.isAbs(st.Val, d+1) {
						return false
					}
				}
				return true
			}
		}
	}
	return false
}

func (a *absState) returnsAbs(f *ssa.Function, idx int, d int) bool {
	any := false
	for _, r := range returnsOf(f) {
		if r.Block().Comment == "recover" {
			continue // the block a deferred recover() would resume in: taken only after a panic
		}
		if idx >= len(r.Results) {
			return false
		}
		v := returnedValue(r, idx)
		if k, ok := v.(*ssa.Const); ok && k.Value != nil && k.Value.Kind() == constant.String && constant.StringVal(k.Value) == "" {
			continue // error paths return ""
		}
		if !a.isAbs(v, d+1) {
			return false
		}
		any = true
	}
	return any
}

func ruleST2(c *Ctx) {
	red := c.anchor("resolveErgoDir")
	if red == nil {
		return
	}
	// relative spellings (--dir .., a relative start) are made absolute against the working directory: that only
	// names one place if the process never changes its working directory
	chdir := ""
	for _, f := range c.Fns {
		for _, call := range callsNamed(f, "os.Chdir", "syscall.Chdir", "syscall.Fchdir", "(*os.File).Chdir") {
			chdir = c.Name(f) + " at " + c.Pos(call.Pos())
		}
	}
	c.check(chdir == "", "<module>", "cwd-never-changed", "-", "no call changes the process working directory",
		"the working directory is changed ("+chdir+"): a relative --dir is then resolved against the new directory (`--dir ..` starts two levels up), so the same spelling names different stores for different commands")
	a := &absState{c: c, memo: map[ssa.Value]int{}}
	fn := c.Name(red)
	// the walk: the value joined with ".ergo" and Stat'ed must be absolute
	okWalk := false
	n := 0
	var stats []ssa.CallInstruction
	for _, g := range c.unitOf(red) {
		stats = append(stats, callsNamed(g, "os.Stat")...)
	}
	for _, call := range stats {
		n++
		if a.isAbs(call.Common().Args[0], 0) {
			okWalk = true
		} else {
			okWalk = false
			break
		}
	}
	c.check(okWalk && n > 0, fn, "walk-is-absolute", c.FnPos(red), "every directory probed by the upward search is absolute", "the upward search walks a path that is not known to be absolute: for a relative start such as `.` filepath.Dir never leaves the spelling it was given and the search stops early")
	c.check(a.returnsAbs(red, 0, 0), fn, "returns-absolute", c.FnPos(red), "every directory returned is absolute", "resolveErgoDir can return a relative directory")
	// deriveFileURL callers
	if dfu := c.anchor("deriveFileURL"); dfu != nil {
		for i, cs := range c.callers[dfu] {
			ok := a.isAbs(cs.Call.Common().Args[1], 0)
			c.check(ok, c.Name(cs.Fn), fmt.Sprintf("file-url-base#%d", i+1), c.Pos(cs.Call.Pos()), "repoDir reaching deriveFileURL is absolute", "repoDir "+c.canon(cs.Call.Common().Args[1])+" reaching deriveFileURL is not known to be absolute: file_url can come out as file://../x")
		}
		// and deriveFileURL joins repoDir first
		ok := false
		for _, call := range callsNamed(dfu, "path/filepath.Join") {
			el := variadicElems(call.Common().Args)
			if len(el) == 2 {
				p0, ok0 := resolve(el[0]).(*ssa.Parameter)
				p1, ok1 := resolve(el[1]).(*ssa.Parameter)
				if ok0 && ok1 && paramIndex(p0) == 1 && paramIndex(p1) == 0 {
					ok = true
				}
			}
		}
		c.check(ok, c.Name(dfu), "url-of-joined-path", c.FnPos(dfu), "file URL is built from Join(repoDir, relPath)", "file URL is not built from Join(repoDir, relPath)")
	}
	// the result-evidence path uses the same repoDir = Dir(ergo dir)
	for _, name := range []string{"validateResultPath", "captureResultEvidence"} {
		f := c.ErgoFn(name)
		if f == nil {
			continue
		}
		for i, cs := range c.callers[f] {
			c.check(a.isAbs(cs.Call.Common().Args[0], 0), c.Name(cs.Fn), fmt.Sprintf("%s-base#%d", name, i+1), c.Pos(cs.Call.Pos()), "repoDir is absolute", "repoDir passed to "+name+" is not known to be absolute")
		}
	}
}

// ------------------------------------------------------------------ DT2

func ruleDT2(c *Ctx) {
	roots := []string{"RunList", "RunShow", "RunWhere", "RunQuickstart", "RunPrunePlan"}
	for _, name := range roots {
		root := c.ErgoFn(name)
		if root == nil {
			if name == "RunList" || name == "RunShow" {
				c.unk("ergo."+name, "anchor", "-", "read entry point not found")
			}
			continue
		}
		// bool parameters bound to the constant false along this root: prune call sites they dominate
		falseParams := map[*ssa.Parameter]bool{}
		for g := range c.F.TransitiveCallees(root) {
			for i, prm := range g.Params {
				if prm.Type().String() != "bool" {
					continue
				}
				all, any := true, false
				for _, cs := range c.callers[g] {
					if !c.F.TransitiveCallees(root)[cs.Fn] && cs.Fn != root {
						continue
					}
					any = true
					if b, ok := constBool(cs.Call.Common().Args[i]); !ok || b {
						all = false
					}
				}
				if any && all {
					falseParams[prm] = true
				}
			}
		}
		skip := func(from *ssa.Function, e cgEdge) bool {
			blk := e.Site.Block()
			if blk == nil {
				return false
			}
			pass := edgesWhere(from, func(a Atom, holds bool) bool {
				if a.Kind != "bool" || !holds {
					return false
				}
				v := resolve(a.X)
				if prm, ok := v.(*ssa.Parameter); ok && falseParams[prm] {
					return true
				}
				return false
			})
			return len(pass) > 0 && mustPassEdges(from, blk, pass)
		}
		seen, pred := c.F.Reach([]*ssa.Function{root}, skip)
		bad := 0
		for _, e := range c.F.Effects {
			if !seen[e.Fn] {
				continue
			}
			// effect sites behind a false-bound guard inside a reached function
			if skip(e.Fn, cgEdge{Site: e.Call}) {
				continue
			}
			isCreator := e.Class == "create-open" || e.Class == "mkdir"
			if !contentMutator(e.Class) && !isCreator {
				continue
			}
			cls := classSet{"?": true}
			if e.Path != nil {
				cls = c.pathClass(e.Path)
			}
			if isCreator && len(cls) == 1 && cls[classLOCK] {
				continue
			}
			if isCreator && cls[classLOCK] {
				// the shared create-if-absent helper: the call chain from this root must hand it the LOCK path only
				onlyLock := true
				for cur := e.Fn; cur != nil; {
					pr := pred[cur]
					if pr == nil {
						break
					}
					if call, ok := pr.E.Site.(ssa.CallInstruction); ok && len(call.Common().Args) > 0 && cur == e.Fn {
						k := c.pathClass(call.Common().Args[0])
						if !(len(k) == 1 && k[classLOCK]) {
							onlyLock = false
						}
					}
					cur = pr.From
					break
				}
				if onlyLock {
					continue
				}
			}
			bad++
			c.bad(c.Name(root), fmt.Sprintf("reaches %s %s#%d", e.Class, calleeFullName(e.Call.Common()), bad), c.Pos(e.Call.Pos()),
				fmt.Sprintf("a read-only command can reach a %s on a %s path: reads are not pure", e.Class, cls.String()), c.PathTo(e.Fn, pred)...)
		}
		c.check(bad == 0, c.Name(root), "pure", c.FnPos(root), fmt.Sprintf("%d reachable module functions: no file mutation, no creation other than the lock file", len(seen)), fmt.Sprintf("%d file-changing operations reachable", bad))
	}
}

// ------------------------------------------------------------------ DT3

func ruleDT3(c *Ctx) {
	rd := c.anchor("readEvents")
	if rd == nil {
		return
	}
	fn := c.Name(rd)
	pathParam := rd.Params[0]
	// every scanned line is counted: in the loop driven by scanner.Scan(), each trip from the loop header back to it
	// passes an increment of a line counter (otherwise reported line numbers drift and a skipped line can make a
	// corrupt, terminated line look like the torn tail)
	{
		var hdr *ssa.BasicBlock
		for _, g := range c.unitOf(rd) {
			for _, call := range callsNamed(g, "(*bufio.Scanner).Scan") {
				if isLoopHeader(call.Block()) {
					hdr = call.Block()
				}
			}
		}
		if hdr == nil {
			c.bad(fn, "every-line-counted", c.FnPos(rd), "the loop over scanner.Scan() was not found")
		} else {
			g := hdr.Parent()
			body := loopBlocks(hdr)
			incBlocks := map[*ssa.BasicBlock]bool{}
			for b := range body {
				for _, in := range b.Instrs {
					bo, ok := in.(*ssa.BinOp)
					if !ok || bo.Op != token.ADD {
						continue
					}
					if k, ok := constInt(bo.Y); !ok || k != 1 {
						continue
					}
					if t, ok := bo.Type().Underlying().(*types.Basic); !ok || t.Info()&types.IsInteger == 0 {
						continue
					}
					incBlocks[b] = true
				}
			}
			// from the body entry (the Scan()==true successor), can the header be reached again avoiding every increment?
			skip := false
			if len(incBlocks) > 0 {
				for i, succ := range hdr.Succs {
					_ = i
					if !body[succ] || incBlocks[succ] {
						continue
					}
					if reach(succ, nil, incBlocks)[hdr] {
						skip = true
					}
				}
			}
			_ = g
			c.check(len(incBlocks) > 0 && !skip, fn, "every-line-counted", c.Pos(hdr.Instrs[0].Pos()), "each scanned line increments the line counter",
				"a scanned line can be skipped without being counted: the line number in parse errors no longer matches the file, and a skipped tail lets a corrupt newline-terminated line pass for a torn one")
		}
	}
	// the Unmarshal failure edge leads to an error built from path and a line number
	fns := c.unitOf(rd)
	okLoc := false
	for _, g := range fns {
		for _, um := range callsNamed(g, "encoding/json.Unmarshal") {
			uv, ok := um.(*ssa.Call)
			if !ok {
				continue
			}
			for e := range nonNilErrEdges(g, uv) {
				for _, in := range e.To().Instrs {
					r, ok := in.(*ssa.Return)
					if !ok || len(r.Results) == 0 {
						continue
					}
					cl, _ := callOf(r.Results[len(r.Results)-1])
					if cl == nil {
						continue
					}
					usesPath, usesLine := false, false
					for _, a := range cl.Call.Args {
						if derivesFrom(a, pathParam) || resolve(a) == ssa.Value(pathParam) {
							usesPath = true
						}
						if t, ok := a.Type().Underlying().(*types.Basic); ok && t.Info()&types.IsInteger != 0 {
							usesLine = true
						}
					}
					// the formatter itself must use both in every returned error
					if cal := calleeOf(&cl.Call); cal != nil && c.InModule(cal) && usesPath && usesLine {
						all := true
						for _, fr := range returnsOf(cal) {
							fc, _ := callOf(fr.Results[0])
							if fc == nil || calleeFullName(&fc.Call) != "fmt.Errorf" {
								all = false
								continue
							}
							up, ul := false, false
							for _, fa := range variadicElems(fc.Call.Args[1:]) {
								if derivesFrom(fa, cal.Params[0]) {
									up = true
								}
								if len(cal.Params) > 1 && derivesFrom(fa, cal.Params[1]) {
									ul = true
								}
							}
							if !up || !ul {
								all = false
							}
						}
						okLoc = all
					}
				}
			}
		}
	}
	c.check(okLoc, fn, "parse-error-names-file-and-line", c.FnPos(rd), "a line that is not valid JSON yields an error built from the path and the line number", "the error for an unparsable line is not built from the reader's path and line counter")
	// buffer limit and too-long conversion
	nBuf := len(callsNamed(rd, "(*bufio.Scanner).Buffer"))
	for _, h := range c.scannerConstructorsOf(rd) {
		nBuf += len(callsNamed(h, "(*bufio.Scanner).Buffer"))
	}
	c.check(nBuf == 1, fn, "line-limit-set", c.FnPos(rd), "scanner buffer limit is set explicitly", "the scanner's line limit is not set (default 64 KiB would reject valid long lines)")
	okLong := false
	for _, bf := range branchFacts(rd) {
		curEnv = bf.A.Env
		if bf.A.Kind != "bool" || !bf.Holds {
			continue
		}
		cl, _ := callOf(bf.A.X)
		if cl == nil || calleeFullName(&cl.Call) != "errors.Is" {
			continue
		}
		if u, ok := strip(cl.Call.Args[1]).(*ssa.UnOp); ok {
			if g, ok := u.X.(*ssa.Global); ok && g.Name() == "ErrTooLong" {
				for _, in := range bf.E.To().Instrs {
					if r, ok := in.(*ssa.Return); ok {
						ec, _ := callOf(returnedValue(r, len(r.Results)-1))
						if ec != nil && calleeFullName(&ec.Call) == "fmt.Errorf" {
							for _, fa := range variadicElems(ec.Call.Args[1:]) {
								if derivesFrom(fa, pathParam) {
									okLong = true
								}
							}
						} else if ec != nil && c.errorCtorNames(&ec.Call, pathParam) {
							okLong = true
						}
					}
				}
			}
		}
	}
	c.check(okLong, fn, "too-long-names-file", c.FnPos(rd), "bufio.ErrTooLong is turned into an error naming the file", "an over-long line does not produce an error naming the file")
	// scanner error is returned (not swallowed)
	okErr := false
	for _, call := range callsNamed(rd, "(*bufio.Scanner).Err") {
		if cv, ok := call.(*ssa.Call); ok && len(nonNilErrEdges(rd, cv)) > 0 {
			okErr = true
		}
	}
	c.check(okErr, fn, "scan-error-checked", c.FnPos(rd), "scanner.Err() is checked", "scanner.Err() is not checked: a read error yields a silently truncated history")
}

// ------------------------------------------------------------------ DT4

func ruleDT4(c *Ctx) {
	re := c.anchor("replayEvents")
	if re == nil {
		return
	}
	emitted := map[string]bool{}
	payloadTypes := map[string]*types.Struct{}
	unresolved := 0
	for _, em := range c.emissions() {
		if len(em.Types) == 0 {
			unresolved++
			c.unk(c.Name(em.Fn), "emit ?", c.Pos(em.Call.Pos()), "event type of this newEvent call is not a resolvable constant")
		}
		for _, t := range em.Types {
			emitted[t] = true
		}
		if em.Payload != "" && len(em.Call.Call.Args) >= 3 {
			if mi, ok := em.Call.Call.Args[2].(*ssa.MakeInterface); ok {
				if st, ok := mi.X.Type().Underlying().(*types.Struct); ok {
					payloadTypes[em.Payload] = st
				}
			}
		}
	}
	cases := eventTypeCases(re)
	rm := c.replay()
	if rm != nil {
		cases = rm.cases()
	}
	c.check(setString(emitted) == setString(cases), "<tables>", "emitted=replayed", "-", fmt.Sprintf("%d event types emitted = %d replayed: %s", len(emitted), len(cases), setString(emitted)),
		"emitted event types "+setString(emitted)+" differ from the replay switch "+setString(cases)+": an emitted but unreplayed event is an acknowledged write with no effect")
	// payload fields read in replay
	read := map[string]bool{}
	readFns := append([]*ssa.Function{re}, Closures(re)...)
	if rm != nil {
		readFns = rm.Unit
	}
	for _, g := range readFns {
		eachInstr(g, func(r instrRef) {
			switch x := r.In.(type) {
			case *ssa.FieldAddr:
				read[namedTypeName(x.X.Type())+"."+fieldName(x.X.Type(), x.Field)] = true
			case *ssa.Field:
				read[namedTypeName(x.X.Type())+"."+fieldName(x.X.Type(), x.Field)] = true
			}
		})
	}
	ignore := map[string]string{"ergo.UnclaimEvent.TS": "not observable", "ergo.NewTaskEvent.UUID": ""}
	delete(ignore, "ergo.NewTaskEvent.UUID")
	var names []string
	for n := range payloadTypes {
		names = append(names, n)
	}
	sort.Strings(names)
	for _, n := range names {
		st := payloadTypes[n]
		var missing []string
		for i := 0; i < st.NumFields(); i++ {
			k := n + "." + st.Field(i).Name()
			if !read[k] && ignore[k] == "" {
				missing = append(missing, st.Field(i).Name())
			}
		}
		c.check(len(missing) == 0, "ergo.replayEvents", "reads "+n, c.FnPos(re), fmt.Sprintf("all %d fields of %s are read by replay", st.NumFields(), n), "replay never reads "+n+"."+strings.Join(missing, ",")+": the recorded value is lost on every read")
	}
	// unknown event types are skipped, not fatal (total function of the log)
	_ = unresolved
}

// ------------------------------------------------------------------ DT5

func (c *Ctx) structReads(fns ...*ssa.Function) map[string]bool {
	out := map[string]bool{}
	for _, f := range fns {
		if f == nil {
			continue
		}
		for g := range c.F.TransitiveCallees(f) {
			eachInstr(g, func(r instrRef) {
				switch x := r.In.(type) {
				case *ssa.FieldAddr:
					loaded := false
					for _, u := range *x.Referrers() {
						if ld, ok := u.(*ssa.UnOp); ok && ld.Op == token.MUL {
							loaded = true
						}
						if _, ok := u.(ssa.CallInstruction); ok {
							loaded = true // method call on the field (time.Time methods)
						}
					}
					if loaded {
						out[namedTypeName(x.X.Type())+"."+fieldName(x.X.Type(), x.Field)] = true
					}
				case *ssa.Field:
					out[namedTypeName(x.X.Type())+"."+fieldName(x.X.Type(), x.Field)] = true
				}
			})
		}
	}
	return out
}

func ruleDT5(c *Ctx) {
	ce, re := c.anchor("compactEvents"), c.anchor("replayEvents")
	if ce == nil || re == nil {
		return
	}
	fn := c.Name(ce)
	// (a)
	var observers []*ssa.Function
	for _, n := range []string{"buildTaskShowOutput", "buildTaskListItems", "claimedAtForTask", "buildResultOutputItem", "buildResultOutputItems", "isReady", "isBlocked", "readyTasks", "getBlockers"} {
		if f := c.ErgoFn(n); f != nil {
			observers = append(observers, f)
		}
	}
	obs := c.structReads(observers...)
	comp := c.structReads(ce)
	derived := map[string]string{"ergo.Task.Deps": "ergo.Graph.Deps", "ergo.Task.RDeps": "ergo.Graph.Deps"}
	var keys []string
	for k := range obs {
		if strings.HasPrefix(k, "ergo.Task.") || strings.HasPrefix(k, "ergo.TaskMeta.") || strings.HasPrefix(k, "ergo.Result.") {
			keys = append(keys, k)
		}
	}
	sort.Strings(keys)
	for _, k := range keys {
		ok := comp[k]
		if !ok && derived[k] != "" && comp[derived[k]] {
			ok = true
		}
		c.check(ok, fn, "a:reads "+strings.TrimPrefix(k, "ergo."), c.FnPos(ce), "observable field is read by compaction", "observable field "+k+" is never read by compaction: it cannot survive a compact")
	}
	if len(keys) < 8 {
		c.bad(fn, "a:observable-fields", c.FnPos(ce), fmt.Sprintf("only %d observable fields found: observers not recognised", len(keys)))
	}
	// (b) literals complete. A payload field that no literal anywhere in the module assigns is a read-only field (the
	// legacy spelling of a key that is still decoded from old logs but no longer written): compaction writes the current
	// spelling, and DT16 checks that every replay case of that payload reads the legacy field where its sibling does
	everSet := map[string]bool{}
	for _, g := range c.Fns {
		if !c.InModule(g) || g.Blocks == nil {
			continue
		}
		eachInstr(g, func(r instrRef) {
			al, ok := r.In.(*ssa.Alloc)
			if !ok || al.Comment != "complit" {
				return
			}
			tn := namedTypeName(al.Type())
			for _, u := range *al.Referrers() {
				if fa, ok := u.(*ssa.FieldAddr); ok {
					for _, uu := range *fa.Referrers() {
						if _, ok := uu.(*ssa.Store); ok {
							everSet[tn+"."+fieldName(al.Type(), fa.Field)] = true
						}
					}
				}
			}
		})
	}
	checkLits := func(f *ssa.Function, onlyType string) {
		cnt := map[string]int{}
		eachInstr(f, func(r instrRef) {
			al, ok := r.In.(*ssa.Alloc)
			if !ok || al.Comment != "complit" {
				return
			}
			tn := namedTypeName(al.Type())
			st, ok := al.Type().(*types.Pointer).Elem().Underlying().(*types.Struct)
			if !ok || !strings.HasPrefix(tn, "ergo.") {
				return
			}
			if onlyType != "" && tn != onlyType {
				return
			}
			if onlyType == "" && !strings.HasSuffix(tn, "Event") {
				return
			}
			set := map[string]bool{}
			for _, u := range *al.Referrers() {
				if fa, ok := u.(*ssa.FieldAddr); ok {
					for _, uu := range *fa.Referrers() {
						if _, ok := uu.(*ssa.Store); ok {
							set[fieldName(al.Type(), fa.Field)] = true
						}
					}
				}
			}
			var missing []string
			for i := 0; i < st.NumFields(); i++ {
				if !set[st.Field(i).Name()] && everSet[tn+"."+st.Field(i).Name()] {
					missing = append(missing, st.Field(i).Name())
				}
			}
			cnt[tn]++
			c.check(len(missing) == 0, c.Name(f), fmt.Sprintf("b:literal %s#%d", strings.TrimPrefix(tn, "ergo."), cnt[tn]), c.Pos(al.Pos()), "all fields assigned", "literal leaves "+strings.Join(missing, ",")+" unset: the value is dropped on this path")
		})
	}
	checkLits(ce, "")
	checkLits(re, "ergo.Result")
	// (c) ids ranged from graph.Tasks / graph.Deps
	okIDs := true
	why := ""
	for _, em := range c.emissions() {
		if !c.inUnit(em.Fn, ce) {
			continue
		}
		for _, fl := range []string{"ID", "TaskID", "FromID", "ToID"} {
			v := em.Fields[fl]
			if v == nil {
				continue
			}
			if !c.derivesFromGraphKeys(v, ce) {
				okIDs = false
				why = fl + " of " + strings.Join(em.Types, "|") + " at " + c.Pos(em.Call.Pos()) + " is " + c.canon(v)
			}
		}
	}
	c.check(okIDs, fn, "c:ids-from-live-graph", c.FnPos(ce), "compaction names only ids taken from graph.Tasks / graph.Deps", "compaction emits an id that does not come from the live graph: "+why)
	// (d) result order
	prep := false
	replayFns := []*ssa.Function{re}
	if rm := c.replay(); rm != nil {
		replayFns = rm.EffectFns
	}
	for _, rf := range replayFns {
		eachInstr(rf, func(r instrRef) {
			cl, ok := r.In.(*ssa.Call)
			if !ok || calleeFullName(&cl.Call) != "builtin append" || len(cl.Call.Args) != 2 {
				return
			}
			// append([]Result{new}, old...): first arg is a fresh 1-element slice, second the task's Results
			if sl, ok := cl.Call.Args[0].(*ssa.Slice); ok {
				if _, isNew := sl.X.(*ssa.Alloc); isNew {
					if _, n, ok := fieldLoad(cl.Call.Args[1]); ok && n == "Results" {
						prep = true
					}
				}
			}
		})
	}
	rev := false
	for _, em := range c.emissions() {
		if !(em.Fn == ce || c.inUnit(em.Fn, ce)) || !em.has("result") {
			continue
		}
		ce := em.Call.Parent()
		// `for _, r := range slices.Backward(task.Results)`: the emission sits in the loop's yield function
		if it := rangeFuncIterator(ce); it != nil && strings.HasPrefix(calleeFullName(&it.Call), "slices.Backward") && len(it.Call.Args) == 1 {
			if _, n, ok := fieldLoad(resolve(it.Call.Args[0])); ok && n == "Results" {
				rev = true
			}
		}
		eachInstr(ce, func(r instrRef) {
			ph, ok := r.In.(*ssa.Phi)
			if !ok || !types.Identical(ph.Type(), types.Typ[types.Int]) || len(ph.Edges) != 2 {
				return
			}
			start, step := false, false
			for _, e := range ph.Edges {
				if b, ok := e.(*ssa.BinOp); ok {
					if b.Op == token.SUB {
						if k, ok := constInt(b.Y); ok && k == 1 {
							if cl, _ := callOf(b.X); cl != nil && calleeFullName(&cl.Call) == "builtin len" {
								if _, n, ok := fieldLoad(cl.Call.Args[0]); ok && n == "Results" {
									start = true
								}
							}
							if b.X == ssa.Value(ph) {
								step = true
							}
						}
					}
				}
			}
			if start && step && ph.Block().Dominates(em.Call.Block()) {
				rev = true
			}
		})
	}
	c.check(prep == rev && (prep || !rev), fn, "d:result-order-agreement", c.FnPos(ce), fmt.Sprintf("replay prepends results (%v) and compaction re-emits them from the end (%v)", prep, rev),
		fmt.Sprintf("replay prepends=%v but compaction walks from the end=%v: results come back reordered after a compact", prep, rev))
	// (e) emission conditions
	c.compactGuards(ce)
}

// derivesFromGraphKeys: v is a field of an element ranged/indexed from graph.Tasks or a key taken from graph.Deps (via sorted key helpers).
func (c *Ctx) derivesFromGraphKeys(v ssa.Value, f *ssa.Function) bool {
	seen := map[ssa.Value]bool{}
	var walk func(x ssa.Value, d int) bool
	walk = func(x ssa.Value, d int) bool {
		if x == nil || d > 30 || seen[x] {
			return false
		}
		seen[x] = true
		if _, n, ok := fieldLoad(x); ok && (n == "Tasks" || n == "Deps") {
			if b, _, _ := fieldLoad(x); b != nil {
				if _, isParam := resolve(b).(*ssa.Parameter); isParam {
					return true
				}
			}
		}
		if u, ok := x.(*ssa.UnOp); ok && u.Op == token.MUL {
			if cell := cellOf(u.X); cell != nil {
				for _, st := range cellStores(cell) {
					if walk(st.Val, d+1) {
						return true
					}
				}
			}
		}
		if prm, ok := x.(*ssa.Parameter); ok && prm.Parent() != f {
			// a parameter of a helper compaction is split into: what every call site hands in
			sites := c.callers[prm.Parent()]
			if len(sites) == 0 {
				return false
			}
			for _, cs := range sites {
				i := paramIndex(prm)
				if i >= len(cs.Call.Common().Args) || !walk(cs.Call.Common().Args[i], d+1) {
					return false
				}
			}
			return true
		}
		in, ok := x.(ssa.Instruction)
		if !ok {
			return false
		}
		for _, op := range in.Operands(nil) {
			if *op != nil && walk(*op, d+1) {
				return true
			}
		}
		return false
	}
	return walk(v, 0)
}

// compactGuards checks (e): for each conditional re-emission the "current differs from created" disjunct leads straight to the emission.
func (c *Ctx) compactGuards(ce *ssa.Function) {
	fn := c.Name(ce)
	type spec struct {
		event string
		field string
	}
	byType := map[string]*Emission{}
	for _, em := range c.emissions() {
		if c.inUnit(em.Fn, ce) && len(em.Types) == 1 {
			byType[em.Types[0]] = em
		}
	}
	for _, sp := range []spec{{"title", "Title"}, {"body", "Body"}, {"epic", "EpicID"}, {"state", "State"}} {
		em := byType[sp.event]
		if em == nil {
			c.bad(fn, "e:emits "+sp.event, c.FnPos(ce), "compaction has no "+sp.event+" emission")
			continue
		}
		// an inequality test on task.<field> whose "differs" edge reaches the emission block without another branch skipping it
		ok := false
		for _, bf := range branchFacts(em.Call.Parent()) {
			curEnv = bf.A.Env
			if bf.A.Kind != "cmp" || bf.A.Op != token.EQL || bf.Holds {
				continue
			}
			_, n1, ok1 := fieldLoad(bf.A.X)
			_, n2, ok2 := fieldLoad(bf.A.Y)
			if !((ok1 && n1 == sp.field) || (ok2 && n2 == sp.field)) {
				continue
			}
			// from the differs-edge target, every path to the next item / function end passes the emission
			tgt := bf.E.To()
			if tgt == em.Call.Block() {
				ok = true
				continue
			}
			region := reach(tgt, nil, map[*ssa.BasicBlock]bool{em.Call.Block(): true})
			escapes := false
			for b := range region {
				// escaping = reaching a block that the emission block does not dominate and that is not between tgt and emission
				if b != tgt && !tgt.Dominates(b) {
					escapes = true
				}
				for _, in := range b.Instrs {
					if _, isRet := in.(*ssa.Return); isRet {
						// error returns inside the pre-emission region are fine only if they are error returns
						escapes = escapes || b != tgt
					}
				}
			}
			if !escapes {
				ok = true
			}
			if !ok && hoistedDiffers(bf, em, sp.event) {
				ok = true
			}
		}
		c.check(ok, fn, "e:emits "+sp.event+" when changed", c.Pos(em.Call.Pos()), "the "+sp.event+" event is emitted whenever task."+sp.field+" differs from the created value",
			"the "+sp.event+" event is not guaranteed when task."+sp.field+" differs from the value in the create event (e.g. a change recorded with the creation timestamp): the field reverts on compact")
		c.emissionNotGuardedByKind(ce, em, sp.event, sp.field)
	}
	// claim: emitted iff ClaimedBy != ""
	if em := byType["claim"]; em != nil {
		pass := edgesWhere(em.Call.Parent(), func(a Atom, holds bool) bool {
			if a.Kind != "const" || holds || constStr(a.C) != "" {
				return false
			}
			_, n, ok := fieldLoad(a.X)
			return ok && n == "ClaimedBy"
		})
		direct := false
		for e := range pass {
			if e.To() == em.Call.Block() {
				direct = true
			}
		}
		c.check(direct, fn, "e:emits claim when claimed", c.Pos(em.Call.Pos()), "the claim event is emitted exactly on ClaimedBy != \"\"", "the claim event is not emitted directly on ClaimedBy != \"\": a claimant can be lost or invented by compact")
		// claim before state (replay of todo/done/canceled clears the claim, so state must come last)
		if st := byType["state"]; st != nil {
			c.check(canReachInstr(em.Call, st.Call) && !canReachInstrNoLoop(st.Call, em.Call), fn, "e:claim-before-state", c.Pos(em.Call.Pos()), "claim is re-emitted before state", "state is re-emitted before claim: replaying the compacted log leaves a claimant on a state that must be unclaimed, or clears a live one")
		}
	} else {
		c.bad(fn, "e:emits claim when claimed", c.FnPos(ce), "compaction has no claim emission")
	}
	// create + result + link unconditional within their loops
	for _, t := range []string{"result", "link"} {
		em := byType[t]
		if em == nil {
			c.bad(fn, "e:emits "+t, c.FnPos(ce), "compaction has no "+t+" emission")
			continue
		}
		cond := ""
		ef := em.Call.Parent()
		hdr := enclosingLoopHeader(em.Call.Block())
		var body map[*ssa.BasicBlock]bool
		if hdr != nil {
			body = loopBlocks(hdr)
		}
		for _, bf := range branchFacts(ef) {
			curEnv = bf.A.Env
			if bf.Derived {
				continue
			}
			if !(bf.E.To() == em.Call.Block() || bf.E.To().Dominates(em.Call.Block())) {
				continue
			}
			// only conditions evaluated per element: branches inside the innermost loop of the emission
			if body == nil || !body[bf.E.From] {
				continue
			}
			l := c.atomLabel(bf.A)
			if bf.E.From == hdr {
				continue // the loop's own continuation test
			}
			if l == "range-ok" || strings.HasPrefix(l, "err:") || strings.HasPrefix(l, "E==nil") {
				continue
			}
			if bf.A.Kind == "nil" {
				if cl, _ := callOf(bf.A.X); cl != nil {
					continue // an error result tested
				}
			}
			cond = l
		}
		curEnv = nil
		c.check(cond == "", fn, "e:emits "+t+" unconditionally", c.Pos(em.Call.Pos()), t+" events are re-emitted for every element", t+" re-emission depends on "+cond)
	}
}

// canReachInstrNoLoop: a reaches b without using a back edge into a's loop header (approximation: plain reachability
// within the blocks dominated by the common loop body entry).
func canReachInstrNoLoop(a, b ssa.Instruction) bool {
	if a.Block() == b.Block() {
		return instrIndex(a) < instrIndex(b)
	}
	// forward reachability ignoring edges to blocks that dominate a's block (back edges)
	seen := map[*ssa.BasicBlock]bool{}
	st := []*ssa.BasicBlock{a.Block()}
	for len(st) > 0 {
		x := st[len(st)-1]
		st = st[:len(st)-1]
		for _, s := range x.Succs {
			if s.Dominates(x) { // back edge
				continue
			}
			if s == b.Block() {
				return true
			}
			if !seen[s] {
				seen[s] = true
				st = append(st, s)
			}
		}
	}
	return false
}

// ------------------------------------------------------------------ DT6 field mapping between events and state

func init() {
	register(&Rule{ID: "DT6", Min: 20, Run: ruleDT6,
		Doc: "field-mapping-agreement: replay copies each payload field into the state field of the same meaning (Task.State<-NewState, ClaimedBy<-AgentID or \"\", Title<-Title, ..., Result.*<-ResultEvent.*) and compaction copies each state field back into the payload field of the same meaning (ClaimEvent.AgentID<-Task.ClaimedBy, StateEvent.NewState<-Task.State, ResultEvent.*<-Result.*, ids and uuids from the task): a swapped or substituted field survives every test that does not look at that field after a compact"})
}

type fieldMap struct {
	target  string   // "ergo.Task.State"
	sources []string // acceptable source field names (by "Type.Field" or "const:..." / "cmp")
}

func ruleDT6(c *Ctx) {
	re, ce := c.anchor("replayEvents"), c.anchor("compactEvents")
	if re == nil || ce == nil {
		return
	}
	domain := func(tn string) bool {
		switch tn {
		case "ergo.Task", "ergo.TaskMeta", "ergo.Result", "ergo.Graph":
			return true
		}
		return strings.HasSuffix(tn, "Event")
	}
	var srcField func(v ssa.Value) string
	srcField = func(v ssa.Value) string {
		v = resolve(v)
		if b, n, ok := fieldLoad(v); ok {
			tn := namedTypeName(b.Type())
			if !domain(tn) {
				// a field of an intermediate carrier struct (compactBaseline.title): what was stored into it
				if os, ok := fieldOrigins(v, 0); ok && len(os) > 0 {
					var parts []string
					for _, o := range os {
						p := srcField(o.V)
						if strings.HasPrefix(p, "phi(") {
							parts = append(parts, strings.Split(strings.TrimSuffix(strings.TrimPrefix(p, "phi("), ")"), "|")...)
						} else {
							parts = append(parts, p)
						}
					}
					sort.Strings(parts)
					parts = uniq(parts)
					if len(parts) == 1 {
						return parts[0]
					}
					return "phi(" + strings.Join(parts, "|") + ")"
				}
			}
			return tn + "." + n
		}
		if k, ok := v.(*ssa.Const); ok {
			if k.Value == nil {
				return "const:nil"
			}
			return "const:" + k.Value.ExactString()
		}
		if _, ok := v.(*ssa.BinOp); ok {
			return "cmp"
		}
		if ph, ok := v.(*ssa.Phi); ok {
			// conditional override (created value vs. meta value): every edge must be acceptable; report the set
			var parts []string
			for _, e := range ph.Edges {
				parts = append(parts, srcFieldOf(e))
			}
			sort.Strings(parts)
			return "phi(" + strings.Join(uniq(parts), "|") + ")"
		}
		if cl, _ := callOf(v); cl != nil {
			// formatTime(x) / pickTime(...) wrappers around a time field
			return "call:" + calleeShort(cl)
		}
		return "other"
	}
	check := func(f *ssa.Function, table map[string][]string, what string) {
		cnt := map[string]int{}
		fns := c.unitOf(f)
		if rm := c.replay(); rm != nil && f == rm.Root {
			// the fold itself: the switch function and what its cases call (not post-loop migrations)
			fns = rm.EffectFns
		}
		for _, g := range fns {
			eachInstr(g, func(r instrRef) {
				st, ok := r.In.(*ssa.Store)
				if !ok {
					return
				}
				fa, ok := st.Addr.(*ssa.FieldAddr)
				if !ok {
					return
				}
				tgt := namedTypeName(fa.X.Type()) + "." + fieldName(fa.X.Type(), fa.Field)
				want, governed := table[tgt]
				if !governed {
					return
				}
				cnt[tgt]++
				got := srcField(st.Val)
				ok2 := false
				for _, w := range want {
					if got == w {
						ok2 = true
					}
					if strings.HasPrefix(got, "phi(") {
						// all alternatives of the phi must be acceptable
						all := true
						for _, alt := range strings.Split(strings.TrimSuffix(strings.TrimPrefix(got, "phi("), ")"), "|") {
							a := false
							for _, w2 := range want {
								if alt == w2 {
									a = true
								}
							}
							if !a {
								all = false
							}
						}
						if all {
							ok2 = true
						}
					}
				}
				c.check(ok2, c.Name(f), fmt.Sprintf("%s %s#%d", what, strings.TrimPrefix(tgt, "ergo."), cnt[tgt]), c.Pos(st.Pos()),
					tgt+" <- "+got, tgt+" is filled from "+got+", expected one of "+strings.Join(want, ", ")+": the field changes meaning across "+what)
			})
		}
	}
	replayTable := map[string][]string{
		"ergo.Task.ID":                  {"ergo.NewTaskEvent.ID"},
		"ergo.Task.UUID":                {"ergo.NewTaskEvent.UUID"},
		"ergo.Task.EpicID":              {"ergo.NewTaskEvent.EpicID", "ergo.EpicAssignEvent.EpicID"},
		"ergo.Task.State":               {"ergo.NewTaskEvent.State", "ergo.StateEvent.NewState"},
		"ergo.Task.Title":               {"ergo.NewTaskEvent.Title", "ergo.TitleUpdateEvent.Title"},
		"ergo.Task.Body":                {"ergo.NewTaskEvent.Body", "ergo.BodyUpdateEvent.Body"},
		"ergo.Task.ClaimedBy":           {"ergo.ClaimEvent.AgentID", `const:""`},
		"ergo.Task.IsEpic":              {"cmp"},
		"ergo.Result.Summary":           {"ergo.ResultEvent.Summary"},
		"ergo.Result.Path":              {"ergo.ResultEvent.Path"},
		"ergo.Result.Sha256AtAttach":    {"ergo.ResultEvent.Sha256AtAttach"},
		"ergo.Result.MtimeAtAttach":     {"ergo.ResultEvent.MtimeAtAttach"},
		"ergo.Result.GitCommitAtAttach": {"ergo.ResultEvent.GitCommitAtAttach"},
	}
	check(re, replayTable, "replay")
	compactTable := map[string][]string{
		"ergo.NewTaskEvent.ID":               {"ergo.Task.ID"},
		"ergo.NewTaskEvent.UUID":             {"ergo.Task.UUID"},
		"ergo.NewTaskEvent.EpicID":           {"ergo.Task.EpicID", "ergo.TaskMeta.CreatedEpicID", "phi(ergo.Task.EpicID|ergo.TaskMeta.CreatedEpicID)"},
		"ergo.NewTaskEvent.State":            {"ergo.Task.State", "ergo.TaskMeta.CreatedState"},
		"ergo.NewTaskEvent.Title":            {"ergo.Task.Title", "ergo.TaskMeta.CreatedTitle"},
		"ergo.NewTaskEvent.Body":             {"ergo.Task.Body", "ergo.TaskMeta.CreatedBody"},
		"ergo.TitleUpdateEvent.ID":           {"ergo.Task.ID"},
		"ergo.TitleUpdateEvent.Title":        {"ergo.Task.Title"},
		"ergo.BodyUpdateEvent.ID":            {"ergo.Task.ID"},
		"ergo.BodyUpdateEvent.Body":          {"ergo.Task.Body"},
		"ergo.EpicAssignEvent.ID":            {"ergo.Task.ID"},
		"ergo.EpicAssignEvent.EpicID":        {"ergo.Task.EpicID"},
		"ergo.ClaimEvent.ID":                 {"ergo.Task.ID"},
		"ergo.ClaimEvent.AgentID":            {"ergo.Task.ClaimedBy"},
		"ergo.StateEvent.ID":                 {"ergo.Task.ID"},
		"ergo.StateEvent.NewState":           {"ergo.Task.State"},
		"ergo.ResultEvent.TaskID":            {"ergo.Task.ID"},
		"ergo.ResultEvent.Summary":           {"ergo.Result.Summary"},
		"ergo.ResultEvent.Path":              {"ergo.Result.Path"},
		"ergo.ResultEvent.Sha256AtAttach":    {"ergo.Result.Sha256AtAttach"},
		"ergo.ResultEvent.MtimeAtAttach":     {"ergo.Result.MtimeAtAttach"},
		"ergo.ResultEvent.GitCommitAtAttach": {"ergo.Result.GitCommitAtAttach"},
	}
	check(ce, compactTable, "compaction")
}

func srcFieldOf(v ssa.Value) string {
	v = resolve(v)
	if b, n, ok := fieldLoad(v); ok {
		return namedTypeName(b.Type()) + "." + n
	}
	if k, ok := v.(*ssa.Const); ok && k.Value != nil {
		return "const:" + k.Value.ExactString()
	}
	if ph, ok := v.(*ssa.Phi); ok {
		var parts []string
		for _, e := range ph.Edges {
			if e == ssa.Value(ph) {
				continue
			}
			parts = append(parts, srcFieldOf(e))
		}
		sort.Strings(parts)
		return strings.Join(uniq(parts), "|")
	}
	return "other"
}

// ------------------------------------------------------------------ DT7 replay effects depend only on documented conditions

func init() {
	register(&Rule{ID: "DT7", Min: 10, Run: ruleDT7,
		Doc: "replay-effects-unconditional: inside the replay loop every effect on the graph (a store into a Task/TaskMeta field, an insertion/removal in Tasks/Deps/Meta, prepending a result, applying a tombstone) depends only on the documented conditions: the event type, a successful payload/timestamp parse, the negative tombstone lookup of the ids the event names, the item named by the event's own id being present, the link type constant, and — for clearing the claim — the new state; any other condition (the state of another item, an ordering of timestamps, a kind test) makes what is shown depend on event order, so compaction (which re-orders events per item) or a merge can change it"})
}

func (c *Ctx) replayFactLabel(bf branchFact) string {
	a := bf.A
	tf := "F"
	if bf.Holds {
		tf = "T"
	}
	keyName := func(v ssa.Value) string {
		if _, n, ok := fieldLoad(resolve(v)); ok {
			return n
		}
		// the result of a payload accessor (data.endpoints() choosing between the current and the legacy spelling of a
		// key): named by the fields it can hand back, alternatives separated by |
		if names := accessorFieldNames(v); len(names) > 0 {
			return strings.Join(names, "|")
		}
		return "?"
	}
	// membership of a payload/task field in a constant set of states is a comparison of that field with constants
	if key, _, isSet := constSetLookup(c.Prog, a); isSet {
		if b, n, ok := fieldLoad(resolveEnv(key, a.Env)); ok {
			return namedTypeName(b.Type()) + "." + n + "==const"
		}
	}
	// the map a lookup reads, named by the Graph field it is (also when replay keeps it in a field or variable of its own:
	// r.meta is graph.Meta)
	fieldLoadOrig := fieldLoad
	fieldLoad := func(v ssa.Value) (ssa.Value, string, bool) {
		b, n, ok := fieldLoadOrig(v)
		if ok && namedTypeName(b.Type()) == "ergo.Graph" {
			return b, n, ok
		}
		if b2, n2, ok2 := fieldLoadOrig(resolve(v)); ok2 && namedTypeName(b2.Type()) == "ergo.Graph" {
			return b2, n2, true
		}
		if mm, isMM := resolve(v).(*ssa.MakeMap); isMM && mm.Referrers() != nil {
			for _, r := range *mm.Referrers() {
				if st, isSt := r.(*ssa.Store); isSt && st.Val == ssa.Value(mm) {
					if fa, isFA := st.Addr.(*ssa.FieldAddr); isFA && namedTypeName(fa.X.Type()) == "ergo.Graph" {
						return fa.X, fieldName(fa.X.Type(), fa.Field), true
					}
				}
			}
		}
		return b, n, ok
	}
	switch a.Kind {
	case "bool":
		if ex, ok := strip(a.X).(*ssa.Extract); ok {
			switch t := ex.Tuple.(type) {
			case *ssa.Next:
				return "range"
			case *ssa.Lookup:
				if _, n, ok := fieldLoad(t.X); ok {
					return "lookup:" + n + "[" + keyName(t.Index) + "]:" + tf
				}
				return "lookup:?[" + keyName(t.Index) + "]:" + tf
			}
		}
	case "nil":
		if cl, _ := callOf(a.X); cl != nil {
			return "err:" + calleeShort(cl)
		}
		if lk, ok := resolve(a.X).(*ssa.Lookup); ok {
			if _, n, ok := fieldLoad(lk.X); ok {
				return "nil:" + n + "[" + keyName(lk.Index) + "]"
			}
		}
		if _, n, ok := fieldLoad(a.X); ok {
			return "nil:" + n
		}
	case "const":
		if b, n, ok := fieldLoad(a.X); ok {
			return namedTypeName(b.Type()) + "." + n + "==const"
		}
	case "cmp":
		return "cmp:" + a.Op.String()
	}
	return c.atomLabel(a) + ":" + tf
}

// hasGraphEffects: h (or a handler it calls) stores into graph state.
func hasGraphEffects(h *ssa.Function, rm *replayModel) bool {
	seen := map[*ssa.Function]bool{}
	var visit func(g *ssa.Function) bool
	visit = func(g *ssa.Function) bool {
		if seen[g] {
			return false
		}
		seen[g] = true
		found := false
		eachInstr(g, func(r instrRef) {
			switch x := r.In.(type) {
			case *ssa.Store:
				if fa, ok := x.Addr.(*ssa.FieldAddr); ok {
					if tn := namedTypeName(fa.X.Type()); tn == "ergo.Task" || tn == "ergo.TaskMeta" {
						found = true
					}
				}
			case *ssa.MapUpdate:
				found = true
			case *ssa.Call:
				if calleeFullName(&x.Call) == "builtin delete" {
					found = true
				}
				if cal := calleeOf(&x.Call); cal != nil && rm.handler[cal] && visit(cal) {
					found = true
				}
			}
		})
		return found
	}
	return visit(h)
}

func ruleDT7(c *Ctx) {
	re := c.anchor("replayEvents")
	if re == nil {
		return
	}
	fn := c.Name(re)
	var allowed func(l string) bool
	allowed = func(l string) bool {
		switch {
		case l == "range", strings.HasPrefix(l, "cmp:"), strings.HasPrefix(l, "err:"):
			return true
		case l == "ergo.Event.Type==const", l == "ergo.LinkEvent.Type==const", l == "ergo.StateEvent.NewState==const":
			return true
		case strings.HasPrefix(l, "lookup:Tombstones[") && strings.HasSuffix(l, ":F"):
			return true
		case l == "lookup:Tasks[ID]:T", l == "lookup:Tasks[ID]:F", l == "lookup:Tasks[TaskID]:T":
			return true
		case l == "nil:Meta[ID]", l == "nil:Deps[FromID]", strings.HasPrefix(l, "E==nil"):
			return true
		}
		return false
	}
	allowed0 := allowed
	allowed = func(l string) bool {
		if allowed0(l) {
			return true
		}
		i := strings.Index(l, "[")
		j := strings.Index(l, "]")
		if i < 0 || j < i || !strings.Contains(l[i:j], "|") {
			return false
		}
		for _, alt := range strings.Split(l[i+1:j], "|") {
			if allowed0(l[:i+1] + alt + l[j:]) {
				return true
			}
		}
		return false
	}
	cnt := map[string]int{}
	// the event loop: effects are examined only inside a case of the switch over Event.Type
	rm := c.replay()
	if rm == nil {
		c.unk(fn, "replay-model", c.FnPos(re), "the switch over Event.Type was not found in replay")
		return
	}
	report := func(in ssa.Instruction, what string) {
		blk := in.Block()
		re := in.Parent() // the effect function this instruction lives in (the switch function or a case handler)
		if !rm.inCase(in) {
			return // post-loop derivations (RDeps, sorted views) are unconditional by construction
		}
		hdr := enclosingLoopHeader(blk)
		for h := hdr; h != nil; {
			hdr = h
			h = nil
			for cur := hdr.Idom(); cur != nil; cur = cur.Idom() {
				if reach(hdr, nil, nil)[cur] && cur.Dominates(hdr) && inCycle(cur) && reach(cur, nil, nil)[hdr] {
					h = cur
					break
				}
			}
		}
		blocked := map[*ssa.BasicBlock]bool{}
		if hdr != nil {
			blocked[hdr] = true
		}
		cnt[what]++
		bad := ""
		for _, bf := range branchFacts(re) {
			curEnv = bf.A.Env
			if !bf.Holds {
				continue // examine each If once (via its holding edge)
			}
			from := bf.E.From
			if from == blk || !reach(from, nil, blocked)[blk] {
				continue
			}
			if hdr != nil && !hdr.Dominates(from) {
				continue
			}
			l := c.replayFactLabel(bf)
			l0 := strings.TrimSuffix(strings.TrimSuffix(l, ":T"), ":F")
			if strings.HasPrefix(l, "cmp:") && !isLoopHeader(from) {
				// an arithmetic comparison is only a loop's own continuation test; anywhere else (len(deps) > 1, ts1 < ts2)
				// it makes the effect depend on what other events did
				l, l0 = "compare:"+c.canon(bf.A.X)+bf.A.Op.String()+c.canon(bf.A.Y), "compare "+bf.A.Op.String()
			}
			if allowed(l) || allowed(l0+":T") || allowed(l0+":F") {
				continue
			}
			if bf.Derived {
				continue // judged at the helper call it derives from
			}
			if c.seenThrough(bf.A) {
				// a predicate helper: allowed when everything it tests is allowed
				okAll, any := true, false
				for _, other := range branchFacts(re) {
					if other.E.From != from {
						continue
					}
					atoms := []factAtom{}
					if other.Derived {
						atoms = append(atoms, factAtom{other.A, other.Holds})
					}
					for _, alt := range other.Alts {
						atoms = append(atoms, alt...)
					}
					for _, fa := range atoms {
						any = true
						if c.seenThrough(fa.A) {
							continue // a nested helper call: what it tests is listed as well
						}
						curEnv = fa.A.Env
						la := c.replayFactLabel(branchFact{A: fa.A, Holds: fa.Holds})
						la0 := strings.TrimSuffix(strings.TrimSuffix(la, ":T"), ":F")
						if !(allowed(la) || allowed(la0+":T") || allowed(la0+":F")) {
							okAll = false
							l0 = la0
						}
					}
				}
				curEnv = nil
				if any && okAll {
					continue
				}
			}
			// does reaching the effect depend on this branch's outcome?
			viaT := reach(from, map[edge]bool{{from, 1}: true}, blocked)[blk]
			viaF := reach(from, map[edge]bool{{from, 0}: true}, blocked)[blk]
			if viaT != viaF {
				bad = l0
			}
		}
		c.check(bad == "", fn, fmt.Sprintf("%s#%d", what, cnt[what]), c.Pos(in.Pos()), "effect depends only on the documented replay conditions",
			"this replay effect also depends on `"+bad+"`: the visible state is no longer a function of the set of events but of their order (compaction re-emits events grouped per item, hand merges interleave them)")
	}
	for _, ef := range rm.EffectFns {
		eachInstr(ef, func(r instrRef) {
			switch x := r.In.(type) {
			case *ssa.Store:
				if fa, ok := x.Addr.(*ssa.FieldAddr); ok {
					tn := namedTypeName(fa.X.Type())
					if tn == "ergo.Task" || tn == "ergo.TaskMeta" {
						if _, isAlloc := fa.X.(*ssa.Alloc); isAlloc {
							return // literal initialisation
						}
						report(x, "store "+strings.TrimPrefix(tn, "ergo.")+"."+fieldName(fa.X.Type(), fa.Field))
					}
				}
			case *ssa.MapUpdate:
				report(x, "map-update")
			case *ssa.Call:
				n := calleeFullName(&x.Call)
				if n == "builtin delete" {
					report(x, "map-delete")
				}
				cal := calleeOf(&x.Call)
				if cal != nil && cal == c.F.Anchors["applyTombstone"] {
					report(x, "apply-tombstone")
				} else if cal != nil && rm.handler[cal] && hasGraphEffects(cal, rm) {
					// handing the event to a case handler is itself an effect of the calling function: the conditions
					// under which the handler runs are judged here, the handler's own conditions inside it
					report(x, "call "+cal.Name())
				}
			}
		})
	}
	if len(cnt) == 0 {
		c.bad(fn, "effects", c.FnPos(re), "no replay effects found")
	}
}

// rangeFuncIterator: yield is the synthetic body function of a range-over-func loop; returns the call that produced the
// iterator being ranged over (slices.Backward(x), maps.Keys(m), ...), or nil.
func rangeFuncIterator(yield *ssa.Function) *ssa.Call {
	if yield == nil || yield.Parent() == nil || !strings.HasPrefix(yield.Synthetic, "range-over-func") {
		return nil
	}
	var found *ssa.Call
	eachInstr(yield.Parent(), func(r instrRef) {
		call, ok := r.In.(ssa.CallInstruction)
		if !ok || found != nil {
			return
		}
		for _, a := range call.Common().Args {
			if mc, ok := a.(*ssa.MakeClosure); ok && mc.Fn == ssa.Value(yield) {
				if it, ok := resolve(call.Common().Value).(*ssa.Call); ok {
					found = it
				}
			}
		}
	})
	return found
}

// chooserLoopForm recognises the chooser written as a loop over an ordered list of candidates; returns the file names in
// list order and the default's file name.
func (c *Ctx) chooserLoopForm(ch *ssa.Function) (order []string, def string, ok bool) {
	joinName := func(v ssa.Value) (string, bool) {
		cl, _ := callOf(resolve(v))
		if cl == nil || calleeFullName(&cl.Call) != "path/filepath.Join" {
			return "", false
		}
		el := variadicElems(cl.Call.Args)
		if len(el) != 2 {
			return "", false
		}
		if _, isPrm := resolve(el[0]).(*ssa.Parameter); !isPrm {
			return "", false
		}
		s, isC := constString(el[1])
		return s, isC
	}
	var candRet, defRet *ssa.Return
	for _, r := range returnsOf(ch) {
		if len(r.Results) != 1 {
			return nil, "", false
		}
		v := resolve(r.Results[0])
		if _, isJoin := joinName(v); isJoin {
			if defRet != nil {
				return nil, "", false
			}
			defRet = r
			continue
		}
		if candRet != nil {
			return nil, "", false
		}
		candRet = r
	}
	if candRet == nil || defRet == nil {
		return nil, "", false
	}
	def, _ = joinName(defRet.Results[0])
	// the returned candidate: element i of a slice literal, i the index of an upward slice loop
	ld, isLoad := strip(candRet.Results[0]).(*ssa.UnOp)
	if !isLoad {
		return nil, "", false
	}
	ia, isIA := ld.X.(*ssa.IndexAddr)
	if !isIA {
		return nil, "", false
	}
	elems := variadicElems([]ssa.Value{ia.X})
	if len(elems) < 2 || (len(elems) == 1 && elems[0] == ia.X) {
		return nil, "", false
	}
	for _, e := range elems {
		n, isJoin := joinName(e)
		if !isJoin {
			return nil, "", false
		}
		order = append(order, n)
	}
	// upward loop: index = phi(-1, index+1) + 1
	up := false
	if b, isB := ia.Index.(*ssa.BinOp); isB && b.Op == token.ADD {
		if ph, isPhi := b.X.(*ssa.Phi); isPhi {
			if k, isK := constInt(b.Y); isK && k == 1 {
				for _, e := range ph.Edges {
					if kk, isKK := constInt(e); isKK && kk == -1 {
						up = true
					}
				}
			}
		}
	}
	if !up {
		return nil, "", false
	}
	// the candidate is returned only behind Stat(candidate) == nil
	statOK := edgesWhere(ch, func(a Atom, holds bool) bool {
		if a.Kind != "nil" || !holds {
			return false
		}
		cl, _ := callOf(a.X)
		return cl != nil && calleeFullName(&cl.Call) == "os.Stat" && len(cl.Call.Args) == 1 && strip(cl.Call.Args[0]) == ssa.Value(ld)
	})
	if len(statOK) == 0 || !mustPassEdges(ch, candRet.Block(), statOK) {
		return nil, "", false
	}
	// the default is returned only after the loop has run out (not from inside it)
	if inCycle(defRet.Block()) {
		return nil, "", false
	}
	return order, def, true
}

// accessorFieldNames: v is (a result of) a call of a module function whose handed-back values are all loads of struct
// fields (an accessor choosing among fields of its receiver): the field names, sorted.
func accessorFieldNames(v ssa.Value) []string {
	cl, idx := callOf(v)
	if cl == nil || curProg == nil {
		return nil
	}
	h := calleeOf(&cl.Call)
	if h == nil || h.Blocks == nil || !curProg.InModule(h) {
		return nil
	}
	if idx < 0 {
		idx = 0
	}
	set := map[string]bool{}
	ok := true
	var leaf func(x ssa.Value, d int)
	leaf = func(x ssa.Value, d int) {
		if d > 6 || !ok {
			return
		}
		x = strip(x)
		if ph, isPhi := x.(*ssa.Phi); isPhi {
			for _, e := range ph.Edges {
				if strip(e) != x {
					leaf(e, d+1)
				}
			}
			return
		}
		if _, n, isF := fieldLoad(resolve(x)); isF {
			set[n] = true
			return
		}
		if f, isField := x.(*ssa.Field); isField {
			set[fieldName(f.X.Type(), f.Field)] = true
			return
		}
		ok = false
	}
	for _, r := range returnsOf(h) {
		if idx >= len(r.Results) {
			return nil
		}
		leaf(returnedValue(r, idx), 0)
	}
	if !ok || len(set) == 0 {
		return nil
	}
	var out []string
	for n := range set {
		out = append(out, n)
	}
	sort.Strings(out)
	return out
}

// errorCtorNames: call is a call of a module error constructor (eventLineTooLongError(path)) every return of which is
// a fmt.Errorf that mentions the parameter the value `what` was passed as.
func (c *Ctx) errorCtorNames(call *ssa.CallCommon, what ssa.Value) bool {
	h := calleeOf(call)
	if h == nil || !c.InModule(h) || h.Blocks == nil || len(returnsOf(h)) == 0 {
		return false
	}
	for _, hr := range returnsOf(h) {
		named := false
		if hc, _ := callOf(hr.Results[len(hr.Results)-1]); hc != nil && calleeFullName(&hc.Call) == "fmt.Errorf" {
			for _, fa := range variadicElems(hc.Call.Args[1:]) {
				for i, prm := range h.Params {
					if i < len(call.Args) && (derivesFrom(fa, prm) || resolve(fa) == ssa.Value(prm)) &&
						(derivesFrom(call.Args[i], what) || resolve(call.Args[i]) == what) {
						named = true
					}
				}
			}
		}
		if !named {
			return false
		}
	}
	return true
}
