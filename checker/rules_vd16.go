package main

// VD16: soundness conditions of the cycle search that guards every dependency edge.

import (
	"fmt"
	"go/token"
	"go/types"
	"sort"
	"strings"

	"golang.org/x/tools/go/ssa"
)

func init() {
	register(&Rule{ID: "VD16", Min: 3, Run: ruleVD16,
		Doc: "cycle-search-sound: the search behind hasCycle (a) never answers `false` from inside a loop — a worklist/DFS that returns false while unexplored work remains misses paths that join on a visited node; `false` is only returned before the loop (already visited) or after it is exhausted — and (b) does not read mutable item state (Task.State, Task.ClaimedBy, results, timestamps): an edge accepted because an endpoint is currently done can close a waits-for cycle when that item is reopened, which no later check revisits; (c) every loop of the search iterates the dependency relation (Graph.Deps) or a worklist derived from it"})
}

func ruleVD16(c *Ctx) {
	hc := c.anchor("hasCycle")
	if hc == nil {
		return
	}
	// the search unit: hasCycle, isReachable (an anchor, so not in unitOf) and their private helpers
	unit := map[*ssa.Function]bool{}
	var order []*ssa.Function
	add := func(fs []*ssa.Function) {
		for _, f := range fs {
			if !unit[f] {
				unit[f] = true
				order = append(order, f)
			}
		}
	}
	add(c.unitOf(hc))
	if view := c.nilViewOf[hc]; view != nil {
		// hasCycle(g, a, b) = cyclePath(g, a, b) != nil: the search lives behind the function whose result is tested
		add([]*ssa.Function{view})
		add(Closures(view))
		add(c.unitOf(view))
	}
	if ir := c.F.Anchors["isReachable"]; ir != nil {
		// the search proper is a role of its own: it belongs to the unit whoever else calls it
		add([]*ssa.Function{ir})
		add(Closures(ir))
		add(c.unitOf(ir))
	}
	for i := 0; i < len(order); i++ {
		for _, call := range callsIn(order[i]) {
			cal := calleeOf(call.Common())
			if cal == nil || !c.InModule(cal) || cal.Blocks == nil || unit[cal] {
				continue
			}
			// functions only ever called from the search belong to it (isReachable and whatever it is split into)
			all := len(c.callers[cal]) > 0
			for _, cs := range c.callers[cal] {
				if !unit[Outermost(cs.Fn)] && cs.Fn != cal {
					all = false
				}
			}
			if all {
				add([]*ssa.Function{cal})
				add(Closures(cal))
			}
		}
	}
	// (a) no `return false` inside a loop
	nRet := 0
	for _, f := range order {
		if f.Signature.Results().Len() != 1 {
			continue
		}
		// the negative answer: `false`, or nil for a search that hands back the path it found
		isBoolFn := f.Signature.Results().At(0).Type().String() == "bool"
		if !isBoolFn {
			switch f.Signature.Results().At(0).Type().Underlying().(type) {
			case *types.Slice, *types.Pointer, *types.Map:
			default:
				continue
			}
			if f == hc {
				continue
			}
		}
		for _, r := range returnsOf(f) {
			vals := []ssa.Value{r.Results[0]}
			preds := []*ssa.BasicBlock{r.Block()}
			if ph, ok := r.Results[0].(*ssa.Phi); ok && ph.Block() == r.Block() {
				vals, preds = ph.Edges, r.Block().Preds
			}
			for i, v := range vals {
				if isBoolFn {
					if b, isConst := constBool(v); !isConst || b {
						continue
					}
				} else if !isNilConst(v) {
					continue
				}
				nRet++
				blk := preds[i]
				// inside the loop = reached from a block of a cycle that is not the loop's own header (the header's
				// exit edge is the loop running out of work)
				inside := inCycle(blk)
				for _, p := range blk.Preds {
					if inCycle(p) && !isLoopHeader(p) {
						inside = true
					}
				}
				c.check(!inside, c.Name(f), fmt.Sprintf("a:false-outside-loop#%d", nRet), c.Pos(r.Pos()),
					"`false` is answered only outside the search loop (before it, or after it is exhausted)",
					"the cycle search answers `false` from inside its loop: it stops while unexplored nodes remain, so a path that joins an already visited node hides a real cycle (the edge is accepted and the tasks on the cycle are never ready)")
			}
		}
	}
	if nRet == 0 {
		c.bad(c.Name(hc), "a:false-outside-loop#0", c.FnPos(hc), "the cycle search has no constant `false` answer: structure not recognised")
	}
	// (b) read-set: no mutable item state
	forbidden := map[string]bool{"State": true, "ClaimedBy": true, "Results": true, "UpdatedAt": true, "CreatedAt": true, "Title": true, "Body": true}
	var bad []string
	for _, f := range order {
		eachInstr(f, func(r instrRef) {
			var tn, fn string
			switch x := r.In.(type) {
			case *ssa.FieldAddr:
				tn, fn = namedTypeName(x.X.Type()), fieldName(x.X.Type(), x.Field)
			case *ssa.Field:
				tn, fn = namedTypeName(x.X.Type()), fieldName(x.X.Type(), x.Field)
			default:
				return
			}
			if tn == "ergo.Task" && forbidden[fn] {
				bad = append(bad, "Task."+fn+" at "+c.Pos(r.In.Pos()))
			}
		})
	}
	sort.Strings(bad)
	c.check(len(bad) == 0, c.Name(hc), "b:reads-no-mutable-state", c.FnPos(hc), "the cycle search reads only the dependency relation (and item structure), never an item's current state",
		"the cycle search reads "+strings.Join(uniq(bad), ", ")+": whether an edge is accepted now depends on a state that `set` can change later without re-checking the graph, so a cycle can appear after the fact (reopen a done task) and nothing on it is ever ready")
	// (c) the search consults Graph.Deps
	reads := false
	for _, f := range order {
		eachInstr(f, func(r instrRef) {
			if fa, ok := r.In.(*ssa.FieldAddr); ok && namedTypeName(fa.X.Type()) == "ergo.Graph" && fieldName(fa.X.Type(), fa.Field) == "Deps" {
				reads = true
			}
		})
	}
	c.check(reads, c.Name(hc), "c:walks-deps", c.FnPos(hc), "the search walks Graph.Deps", "the cycle search never reads Graph.Deps")
}

// isLoopHeader: some predecessor of b is dominated by b (b is the target of a back edge).
func isLoopHeader(b *ssa.BasicBlock) bool {
	for _, p := range b.Preds {
		if b.Dominates(p) {
			return true
		}
	}
	return false
}

// stateConstSets: for every module function, the set of state constants its own branches compare a State-named field with.
func (c *Ctx) stateConstSets() map[*ssa.Function]map[string]bool {
	out := map[*ssa.Function]map[string]bool{}
	isStateValue := func(v ssa.Value, d int) bool { return false }
	isStateValue = func(v ssa.Value, d int) bool {
		v = resolve(v)
		if _, n, ok := fieldLoad(v); ok && (n == "State" || n == "NewState") {
			return true
		}
		// a string parameter that every caller binds to a State field (isClosedState(task.State))
		if prm, ok := v.(*ssa.Parameter); ok && d < 2 {
			sites := c.callers[prm.Parent()]
			if len(sites) == 0 {
				return false
			}
			for _, cs := range sites {
				i := paramIndex(prm)
				if i >= len(cs.Call.Common().Args) || !isStateValue(cs.Call.Common().Args[i], d+1) {
					return false
				}
			}
			return true
		}
		return false
	}
	for _, f := range c.Fns {
		set := map[string]bool{}
		eachInstr(f, func(r instrRef) {
			// membership in a package-level set of constants (`_, ok := terminalStates[s]`) compares with every key
			if lk, isLk := r.In.(*ssa.Lookup); isLk {
				if keys, ok := c.Prog.constSetOfLookup(lk); ok && isStateValue(lk.Index, 0) {
					for _, k := range keys {
						set[k] = true
					}
				}
				return
			}
			b, ok := r.In.(*ssa.BinOp)
			if !ok || (b.Op != token.EQL && b.Op != token.NEQ) {
				return
			}
			x, y := b.X, b.Y
			if _, isC := x.(*ssa.Const); isC {
				x, y = y, x
			}
			k, isC := y.(*ssa.Const)
			if !isC || k.Value == nil || constStr(k) == "" {
				return
			}
			if isStateValue(x, 0) {
				set[constStr(k)] = true
			}
		})
		if len(set) > 0 {
			out[f] = set
		}
	}
	return out
}

// ------------------------------------------------------------------ RD4

func init() {
	register(&Rule{ID: "RD4", Min: 5, Run: ruleRD4,
		Doc: "closedness-siblings-agree: the functions that decide whether an item still counts as unfinished work (epic completeness, prune eligibility, the derived state of an epic row, the filters of the active view, blockers) all draw the line at the same place: the State constants they compare are exactly {done, canceled}. A sibling that enumerates the open states instead and forgets one (error) treats failed work as finished: the epic is complete / pruned / hidden while a child still needs attention"})
}

var closednessRoles = []string{"derivedEpicState", "filterEpicChildrenForList", "filterAndCollapseNodesImpl", "filterActiveTasks", "getBlockers", "isEpicComplete", "selectPruneTargets", "computePruneStats"}

func ruleRD4(c *Ctx) {
	sets := c.stateConstSets()
	for _, name := range closednessRoles {
		f := c.ErgoFn(name)
		if f == nil {
			continue // merged or removed: the floor keeps the rule from passing vacuously
		}
		set := map[string]bool{}
		// the role's code: the function, the private helpers it calls, and predicates it passes around as values
		unit := c.predUnit(f)
		inU := map[*ssa.Function]bool{}
		for _, g := range unit {
			inU[g] = true
		}
		for i := 0; i < len(unit); i++ {
			eachInstr(unit[i], func(r instrRef) {
				for _, op := range r.In.Operands(nil) {
					if g, ok := (*op).(*ssa.Function); ok && c.InModule(g) && g.Blocks != nil && !inU[g] && !c.opaqueHelper(g) {
						inU[g] = true
						unit = append(unit, g)
					}
				}
			})
		}
		for _, g := range unit {
			for k := range sets[g] {
				set[k] = true
			}
		}
		c.check(sameSet(set, "done", "canceled"), c.Name(f), "closed-states", c.FnPos(f), "distinguishes finished from unfinished work by State in {done, canceled}",
			"compares State with "+setString(set)+" where its siblings use exactly {canceled,done}: a state left out of the enumeration (e.g. error) is treated as finished work")
	}
}
