package main

// DT11: what replay builds depends on the log's content alone.

import (
	"fmt"
	"sort"
	"strings"

	"golang.org/x/tools/go/ssa"
)

func init() {
	register(&Rule{ID: "DT11", Min: 1, Run: ruleDT11,
		Doc: "replay-reads-no-ambient-state: the reader, the replay, the loader family (loadGraph and what it is split into) and what is decided from the graph (the readiness predicates, the candidate list claim chooses from) - and everything they call - read nothing but the log: no clock (time.Now/Since/Until), no time zone of the process (time.Local, ParseInLocation/LoadLocation, Time.Local, Time.In with a non-UTC location), no environment (os.Getenv/LookupEnv/Environ), host or user identity, working directory, or random source. A replay that consults any of these shows different states for the same log to two processes (two time zones, two users), which is what `the same log always produces byte-identical output` excludes; a setting consulted there (a claim TTL, an as-of time, a list limit) additionally makes two agents on one store disagree about what is ready, and compaction writes the configured view back as history. Functions that only talk to stderr (trace helpers) are exempt"})
}

var ambientCalls = map[string]string{
	"time.Now": "the clock", "time.Since": "the clock", "time.Until": "the clock",
	"time.ParseInLocation": "a location-dependent parse", "time.LoadLocation": "the time zone database",
	"os.Getenv": "the environment", "os.LookupEnv": "the environment", "os.Environ": "the environment", "os.ExpandEnv": "the environment",
	"os.Hostname": "the host name", "os.Getwd": "the working directory", "os.Getpid": "the process id", "os.Getuid": "the user id",
	"os.UserHomeDir": "the user's home", "os/user.Current": "the user",
	"math/rand.Int": "a random source", "math/rand.Intn": "a random source", "crypto/rand.Read": "a random source",
}

func ruleDT11(c *Ctx) {
	re, rd := c.anchor("replayEvents"), c.anchor("readEvents")
	if re == nil || rd == nil {
		return
	}
	unit := map[*ssa.Function]bool{}
	roots := []*ssa.Function{re, rd}
	// ... and the loader family (loadGraph and what it is split into): what every command decides from and every view
	// shows is what the loader hands back, so a setting or a clock consulted there (events dropped "as of", claims expired
	// after a TTL) makes the same log mean different things to different processes
	if lg := c.F.Anchors["loadGraph"]; lg != nil {
		roots = append(roots, lg)
	}
	for _, f := range c.Fns {
		if c.loaderKind(f) != "" || c.eventsLoaderKind(f) != "" {
			roots = append(roots, f)
		}
	}
	// ... and what is decided from the graph: the readiness predicates and the candidate list claim chooses from. A
	// limit, a TTL or any other setting consulted there makes two agents on one store disagree about what is ready
	for _, name := range []string{"isReady", "isBlocked", "isEpicComplete", "areEpicDepsComplete", "readyTasks", "getBlockers"} {
		if f := c.ErgoFn(name); f != nil {
			roots = append(roots, f)
		}
	}
	for _, root := range roots {
		if c.InModule(root) && root.Blocks != nil {
			unit[root] = true
		}
		for g := range c.F.TransitiveCallees(root) {
			if c.InModule(g) && g.Blocks != nil {
				unit[g] = true
			}
		}
	}
	var fns []*ssa.Function
	for g := range unit {
		fns = append(fns, g)
	}
	sort.Slice(fns, func(i, j int) bool { return c.Name(fns[i]) < c.Name(fns[j]) })
	nBad := 0
	diag := c.diagnosticFns()
	for _, g := range fns {
		if diag[g] || diag[Outermost(g)] {
			continue // talks to stderr only: what it reads of the clock or the environment reaches nothing replay builds
		}
		k := 0
		eachInstr(g, func(r instrRef) {
			switch x := r.In.(type) {
			case ssa.CallInstruction:
				name := calleeFullName(x.Common())
				what, bad := ambientCalls[name]
				if !bad && (strings.HasPrefix(name, "math/rand.") || strings.HasPrefix(name, "math/rand/v2.")) {
					what, bad = "a random source", true
				}
				if bad {
					k++
					nBad++
					c.bad(c.Name(g), fmt.Sprintf("ambient %s#%d", name, k), c.Pos(x.Pos()), "the read/replay path consults "+what+" ("+name+"): two processes reading the same log can see different states")
				}
			case *ssa.UnOp:
				if gl, ok := x.X.(*ssa.Global); ok && gl.Pkg != nil && gl.Pkg.Pkg.Path() == "time" && gl.Name() == "Local" {
					k++
					nBad++
					c.bad(c.Name(g), fmt.Sprintf("ambient time.Local#%d", k), c.Pos(x.Pos()), "the read/replay path uses the process's time zone (time.Local): a timestamp without a zone denotes a different instant for every reader")
				}
			}
		})
	}
	c.check(nBad == 0, "<module>", "replay-reads-only-the-log", "-", fmt.Sprintf("%d functions of the read/replay path consult neither clock, time zone, environment, identity nor randomness", len(fns)), "see the individual sites")
}
