module ergocheck

go 1.26.8

require golang.org/x/tools v0.50.0

require (
	golang.org/x/mod v0.41.0 // indirect
	golang.org/x/sync v0.23.0 // indirect
)
