package main

// Rules added for the command-line layer (seed round 11): LK10 lock-busy-is-final, LK11 hooks-leave-the-store-alone,
// RD7 one-snapshot-per-read-command, WR9 the-log-is-read-by-the-tolerant-reader.

import (
	"fmt"
	"go/token"
	"sort"
	"strings"

	"golang.org/x/tools/go/ssa"
)

func init() {
	register(&Rule{ID: "LK10", Min: 1, Run: ruleLK10,
		Doc: "lock-busy-is-final: a busy lock ends the command. The sentinel ErrLockBusy is produced by the lock primitive and looked at only to explain the failure; no test for it (errors.Is, ==) sits in a loop or in a function that can call itself, and cobra's Execute is not called in a loop: a command that comes round again after `lock busy` waits for the lock (the property says it never does), and everything it consumed on the first attempt - standard input above all - is gone on the second"})
	register(&Rule{ID: "LK11", Min: 1, Run: ruleLK11,
		Doc: "hooks-leave-the-store-alone: what cobra runs around a command (PersistentPreRun[E], PreRun[E], PostRun[E], PersistentPostRun[E], and the package-level cobra.OnInitialize / cobra.OnFinalize - the latter runs whatever the command's outcome was) cannot reach the lock primitive, a mutation of the log or a read of the log. The command itself is one locked read-validate-append step (or one lock-free read); a hook that touches the store is a second step of the same invocation: a second lock acquisition that can fail with `lock busy` after the command committed and printed its reply, a second snapshot of the log, or a reader without the log reader's tolerance for a torn tail"})
	register(&Rule{ID: "RD7", Min: 2, Run: ruleRD7,
		Doc: "one-snapshot-per-read-command: a command that never takes the lock (list, show, where ...) reads the log at most once per invocation: on every path from its cobra handler at most one call of the log reader executes, and none in a loop. Two reads are two snapshots; a writer that commits in between makes the one invocation report a mixture of an older and a newer state, a state the store never passed through"})
	register(&Rule{ID: "OU18", Min: 6, Run: ruleOU18,
		Doc: "options-carry-the-flags-verbatim: every string stored into a field of GlobalOptions (the start directory, the title, body, epic, state, claim and result-path/summary flags, the agent id) is the value of the flag, argument or environment variable it comes from, copied through loads, stores, phis and parameters only. A helper applied on the way (expanding $VARS or ~ in --dir, stripping a leading ./ from --result-path, trimming or normalising a title) makes the core validate, resolve and record something other than what the user wrote: the validators in internal/ergo only ever see the rewritten value. One obligation per store, tagged with the field"})
	register(&Rule{ID: "DT15", Min: 1, Run: ruleDT15,
		Doc: "recorded-instants-round-trip: the layout every instant is written with - by the event constructor and by compaction, which re-serialises the replayed CreatedAt/UpdatedAt/ClaimedAt of every item - keeps what the reader parses: nanoseconds (.999999999 or .000000000) and an explicit zone, and the instant is not truncated or rounded first. A coarser layout makes compaction rewrite the instants of a log written with the finer one: items created microseconds apart (a plan) tie afterwards, and the order in which claim hands them out, and every list sorted by time, changes across compact"})
	register(&Rule{ID: "DT16", Min: 1, Run: ruleDT16,
		Doc: "sibling-cases-read-the-payload-alike: event types that share one payload struct (link and unlink share LinkEvent) are handled by replay cases that read the same fields of it, directly or through the payload's accessor methods. When the payload gains a second spelling of a key (a legacy field kept readable for old logs) and one case is taught to read it while its sibling still reads only the current field, old logs replay one kind of event and silently ignore the other: every edge ever removed comes back. Types that share one case body (case \"link\", \"unlink\":) have no sibling cases to disagree"})
	register(&Rule{ID: "WR9", Min: 1, Run: ruleWR9,
		Doc: "log-read-by-the-tolerant-reader: the event log is opened for reading only by the log reader (readEvents, which honours a complete final line without newline and drops a torn one) and by the append path's tail probe. Any other function that opens or slurps a LOG-class path parses it with rules of its own: after a crash that leaves a torn line, or while a writer is appending, it fails where every other command succeeds"})
}

// ------------------------------------------------------------------ LK10

func ruleLK10(c *Ctx) {
	var sentinel *ssa.Global
	for _, m := range c.Ergo.Members {
		if g, ok := m.(*ssa.Global); ok && g.Name() == "ErrLockBusy" {
			sentinel = g
		}
	}
	if sentinel == nil {
		c.unk("<module>", "sentinel", "-", "ErrLockBusy not found: the lock primitive's busy result is not recognisable")
		return
	}
	// functions that can call themselves (module call graph, calls only)
	recursive := func(f *ssa.Function) bool {
		seen := map[*ssa.Function]bool{}
		var q []*ssa.Function
		for _, e := range c.F.succ[f] {
			if e.Kind == "call" || e.Kind == "invoke" {
				q = append(q, e.To)
			}
		}
		for len(q) > 0 {
			g := q[0]
			q = q[1:]
			if g == f {
				return true
			}
			if seen[g] {
				continue
			}
			seen[g] = true
			for _, e := range c.F.succ[g] {
				if e.Kind == "call" || e.Kind == "invoke" {
					q = append(q, e.To)
				}
			}
		}
		return false
	}
	n := 0
	for _, f := range c.Fns {
		if !c.InModule(f) || f.Blocks == nil {
			continue
		}
		k := 0
		eachInstr(f, func(r instrRef) {
			u, ok := r.In.(*ssa.UnOp)
			if !ok || u.Op != token.MUL || u.X != ssa.Value(sentinel) {
				return
			}
			// what the loaded sentinel is used for
			tested := false
			returned := false
			for _, ref := range *u.Referrers() {
				switch x := ref.(type) {
				case *ssa.Return:
					returned = true
				case *ssa.BinOp:
					tested = true
				case ssa.CallInstruction:
					if nme := calleeFullName(x.Common()); nme == "errors.Is" || nme == "errors.As" {
						tested = true
					}
				case *ssa.Store, *ssa.Phi:
					returned = true
				default:
					tested = true
				}
			}
			if !tested {
				_ = returned
				return
			}
			k++
			n++
			construct := fmt.Sprintf("busy-test#%d", k)
			switch {
			case inCycle(r.Blk):
				c.bad(c.Name(f), construct, c.Pos(u.Pos()), "this test for ErrLockBusy sits in a loop: the command comes round again after `lock busy` instead of failing - it waits for the lock, and whatever the first attempt consumed (standard input) is gone on the next")
			case recursive(f):
				c.bad(c.Name(f), construct, c.Pos(u.Pos()), "this test for ErrLockBusy sits in a function that can call itself: a busy lock can lead to another attempt instead of ending the command")
			default:
				c.ok(c.Name(f), construct, c.Pos(u.Pos()), "ErrLockBusy is looked at once, outside any loop or recursion (to explain the failure)")
			}
		})
	}
	// the command tree is run once
	for _, f := range c.Fns {
		if !c.InModule(f) || f.Blocks == nil {
			continue
		}
		k := 0
		for _, call := range callsIn(f) {
			if !isCobraExecute(calleeFullName(call.Common())) {
				continue
			}
			k++
			n++
			c.check(call.Block() != nil && !inCycle(call.Block()) && !recursive(f), c.Name(f), fmt.Sprintf("execute-once#%d", k), c.Pos(call.Pos()),
				"the command tree is executed once per process",
				"cobra's Execute is called in a loop (or from a function that can call itself): a failed command - `lock busy` included - is run again by the same process, which then waits for the lock and finds its standard input already consumed")
		}
	}
	if n == 0 {
		c.unk("<module>", "busy-sites", "-", "neither a test for ErrLockBusy nor a call of cobra's Execute found")
	}
}

func isCobraExecute(name string) bool {
	switch name {
	case "(*github.com/spf13/cobra.Command).Execute", "(*github.com/spf13/cobra.Command).ExecuteC", "(*github.com/spf13/cobra.Command).ExecuteContext", "(*github.com/spf13/cobra.Command).ExecuteContextC":
		return true
	}
	return false
}

// ------------------------------------------------------------------ cobra registrations

type cobraReg struct {
	Field string
	Fn    *ssa.Function
	Pos   token.Pos
}

// cobraRegistrations: every module function stored into a func-typed field of a cobra.Command, with the field's name.
func (c *Ctx) cobraRegistrations() []cobraReg {
	var out []cobraReg
	for _, f := range c.Fns {
		eachInstr(f, func(r instrRef) {
			st, ok := r.In.(*ssa.Store)
			if !ok {
				return
			}
			fa, ok := st.Addr.(*ssa.FieldAddr)
			if !ok || !strings.HasSuffix(namedTypeName(fa.X.Type()), "cobra.Command") {
				return
			}
			name := fieldName(fa.X.Type(), fa.Field)
			fvs := funcValuesOf(st.Val, 0)
			if len(fvs) == 0 {
				// built from a table (cmd.RunE = spec.run): whatever the table's entries hold in that field
				fvs = c.tableFuncValues(st.Val)
			}
			for _, g := range fvs {
				if c.InModule(g) {
					out = append(out, cobraReg{name, g, st.Pos()})
				}
			}
		})
	}
	// package-level hooks: cobra.OnInitialize(f...) runs before, cobra.OnFinalize(f...) after every command - the latter
	// whatever the command's outcome was
	for _, f := range c.Fns {
		for _, call := range callsIn(f) {
			var field string
			switch calleeFullName(call.Common()) {
			case "github.com/spf13/cobra.OnFinalize":
				field = "OnFinalize"
			case "github.com/spf13/cobra.OnInitialize":
				field = "OnInitialize"
			default:
				continue
			}
			for _, a := range variadicElems(call.Common().Args) {
				for _, g := range funcValuesOf(a, 0) {
					if c.InModule(g) {
						out = append(out, cobraReg{field, g, call.Pos()})
					}
				}
			}
		}
	}
	sort.Slice(out, func(i, j int) bool {
		if out[i].Field != out[j].Field {
			return out[i].Field < out[j].Field
		}
		return c.Name(out[i].Fn) < c.Name(out[j].Fn)
	})
	return out
}

func isHookField(name string) bool {
	switch name {
	case "OnFinalize", "OnInitialize":
		return true
	case "PersistentPreRun", "PersistentPreRunE", "PreRun", "PreRunE", "PostRun", "PostRunE", "PersistentPostRun", "PersistentPostRunE":
		return true
	}
	return false
}

// logReadOpen: the call opens or slurps a file for reading; the path operand.
func (c *Ctx) logReadOpen(call ssa.CallInstruction) (ssa.Value, bool) {
	cc := call.Common()
	switch calleeFullName(cc) {
	case "os.Open", "os.ReadFile", "io/ioutil.ReadFile":
		if len(cc.Args) > 0 {
			return cc.Args[0], true
		}
	case "os.OpenFile", "syscall.Open":
		if e := c.F.byCall[call]; e != nil && (e.Class == "read-open" || e.Class == "sys-read-open" || e.Class == "nonconst-open") && len(cc.Args) > 0 {
			return cc.Args[0], true
		}
	}
	return nil, false
}

// ------------------------------------------------------------------ LK11

func ruleLK11(c *Ctx) {
	regs := c.cobraRegistrations()
	nHandlers := 0
	for _, r := range regs {
		if r.Field == "RunE" || r.Field == "Run" {
			nHandlers++
		}
	}
	if nHandlers == 0 {
		c.unk("<module>", "handlers", "-", "no RunE/Run handler registered on a cobra.Command found: the command tree is not recognisable")
		return
	}
	k := 0
	for _, r := range regs {
		if !isHookField(r.Field) {
			continue
		}
		k++
		construct := fmt.Sprintf("hook %s#%d", r.Field, k)
		seen, pred := c.F.Reach([]*ssa.Function{r.Fn}, nil)
		var why string
		var fs []*ssa.Function
		for g := range seen {
			fs = append(fs, g)
		}
		sort.Slice(fs, func(i, j int) bool { return c.Name(fs[i]) < c.Name(fs[j]) })
		for _, g := range fs {
			if why != "" {
				break
			}
			if c.F.isLockFn(g) {
				why = "it reaches the lock primitive (" + strings.Join(c.PathTo(g, pred), " -> ") + "): a second lock acquisition in the same invocation, which can fail with `lock busy` after the command has committed and replied"
				break
			}
			for _, call := range callsIn(g) {
				if e := c.F.byCall[call]; e != nil && e.Path != nil && commitEffectClass(e.Class) && c.pathClass(e.Path)[classLOG] {
					why = "it reaches a mutation of the log (" + calleeFullName(call.Common()) + " at " + c.Pos(call.Pos()) + ")"
					break
				}
				if p, ok := c.logReadOpen(call); ok && c.pathClass(p)[classLOG] {
					why = "it reads the log (" + calleeFullName(call.Common()) + " at " + c.Pos(call.Pos()) + "): a second snapshot in the same invocation, taken without the log reader's tolerance for a torn tail"
					break
				}
			}
			if rd := c.anchor("readEvents"); rd != nil && g == rd {
				why = "it reaches the log reader (" + strings.Join(c.PathTo(g, pred), " -> ") + "): a second snapshot of the log in the same invocation"
			}
		}
		c.check(why == "", c.Name(r.Fn), construct, c.Pos(r.Pos), "the hook does not touch the store", "the "+r.Field+" hook runs around every command and "+why)
	}
	c.ok("<module>", "hooks-scanned", "-", fmt.Sprintf("%d handler(s), %d hook(s) registered on the command tree", nHandlers, k))
}

// ------------------------------------------------------------------ RD7

// pathCounter: the largest number of primitive executions on one path through f (calls into module functions count
// what they contain; a primitive in a loop is unbounded).
func (c *Ctx) pathCounter(prim func(call ssa.CallInstruction) (int, string), skipLocked ...bool) func(f *ssa.Function) *commitSummary {
	skipLock := len(skipLocked) > 0 && skipLocked[0]
	memo := map[*ssa.Function]*commitSummary{}
	onStack := map[*ssa.Function]bool{}
	var summ func(f *ssa.Function) *commitSummary
	summ = func(f *ssa.Function) *commitSummary {
		if s, ok := memo[f]; ok {
			return s
		}
		if onStack[f] || f.Blocks == nil {
			return &commitSummary{}
		}
		onStack[f] = true
		defer func() { onStack[f] = false }()
		w := make([]int, len(f.Blocks))
		s := &commitSummary{}
		for _, b := range f.Blocks {
			for _, in := range b.Instrs {
				call, ok := in.(ssa.CallInstruction)
				if !ok {
					continue
				}
				n, what := prim(call)
				if n == 0 {
					cal := calleeOf(call.Common())
					switch {
					case cal != nil && c.F.isLockFn(cal):
						if skipLock {
							break // what happens inside the lock section is not counted
						}
						for _, ls := range c.F.LockSites {
							if ls.Call == call && ls.Callback != nil {
								n, what = summ(ls.Callback).max, "withLock{"+c.Name(ls.Callback)+"}"
							}
						}
					case cal != nil && c.InModule(cal):
						n, what = summ(cal).max, c.Name(cal)
					default:
						if _, isParam := call.Common().Value.(*ssa.Parameter); !isParam && cal == nil && !call.Common().IsInvoke() {
							if mc, ok := resolve(call.Common().Value).(*ssa.MakeClosure); ok {
								n, what = summ(mc.Fn.(*ssa.Function)).max, c.Name(mc.Fn.(*ssa.Function))
							}
						}
					}
				}
				if n > 0 {
					if w[b.Index] < inf {
						w[b.Index] += n
					}
					s.sites = append(s.sites, fmt.Sprintf("%s(%s) at %s", what, fmtCount(n), c.Pos(call.Pos())))
				}
			}
		}
		for _, b := range f.Blocks {
			if w[b.Index] > 0 && inCycle(b) {
				s.loop = fmt.Sprintf("inside a loop (block %d)", b.Index)
			}
		}
		if s.loop != "" {
			s.max = inf
		} else {
			m := map[*ssa.BasicBlock]int{}
			vis := map[*ssa.BasicBlock]bool{}
			var lp func(b *ssa.BasicBlock) int
			lp = func(b *ssa.BasicBlock) int {
				if v, ok := m[b]; ok {
					return v
				}
				if vis[b] {
					return 0
				}
				vis[b] = true
				mx := 0
				for _, sc := range b.Succs {
					if v := lp(sc); v > mx {
						mx = v
					}
				}
				r := mx + w[b.Index]
				if r > inf {
					r = inf
				}
				m[b] = r
				return r
			}
			s.max = lp(f.Blocks[0])
		}
		memo[f] = s
		return s
	}
	return summ
}

func ruleRD7(c *Ctx) {
	rd := c.anchor("readEvents")
	if rd == nil {
		return
	}
	loads := c.pathCounter(func(call ssa.CallInstruction) (int, string) {
		if cal := calleeOf(call.Common()); cal == rd {
			return 1, c.Name(rd)
		}
		return 0, ""
	})
	outside := c.pathCounter(func(call ssa.CallInstruction) (int, string) {
		if cal := calleeOf(call.Common()); cal == rd {
			return 1, c.Name(rd)
		}
		return 0, ""
	}, true)
	regs := c.cobraRegistrations()
	// hooks run in addition to every handler
	hookMax := 0
	var hookSites []string
	for _, r := range regs {
		if isHookField(r.Field) {
			if s := loads(r.Fn); s.max > 0 {
				if hookMax < inf {
					hookMax += s.max
				}
				hookSites = append(hookSites, "hook "+c.Name(r.Fn)+"("+fmtCount(s.max)+")")
			}
		}
	}
	n := 0
	for _, r := range regs {
		if r.Field != "RunE" && r.Field != "Run" {
			continue
		}
		seen, _ := c.F.Reach([]*ssa.Function{r.Fn}, nil)
		locks := false
		for g := range seen {
			if c.F.isLockFn(g) {
				locks = true
			}
		}
		if locks {
			// a mutating command reads the log inside its lock section and nowhere else: a decision taken from a snapshot
			// read before the lock (is the task free? does the id exist?) can be stale by the time the lock is held,
			// and the locked step does not know it was taken
			so := outside(r.Fn)
			both := c.readAndLockOnOnePath(r.Fn, rd)
			if so.max > 0 || len(so.sites) > 0 {
				n++
			}
			if so.max > 0 && both {
				c.bad(c.Name(r.Fn), "no-read-outside-the-lock", c.FnPos(r.Fn), "this command takes the lock, yet it also reads the log outside the lock section ("+strings.Join(so.sites, "; ")+"): what it decides from that snapshot can be overtaken by another writer before its own locked step runs - the outcome of two such commands has no serial equivalent")
			}
			continue
		}
		s := loads(r.Fn)
		if s.max == 0 && hookMax == 0 {
			continue // does not read the store (version, quickstart)
		}
		n++
		total := s.max + hookMax
		sites := append(append([]string{}, hookSites...), s.sites...)
		why := fmt.Sprintf("up to %s reads of the log in one invocation: %s", fmtCount(total), strings.Join(sites, "; "))
		if s.loop != "" {
			why = "the log is read " + s.loop + ": " + strings.Join(sites, "; ")
		}
		c.check(total <= 1, c.Name(r.Fn), "one-snapshot", c.FnPos(r.Fn), "at most one read of the log on any path of this lock-free command",
			why+" - a writer that commits between two reads makes this one invocation show a mixture of an older and a newer state")
	}
	if n == 0 {
		c.unk("<module>", "read-commands", "-", "no lock-free command handler that reads the log found")
	}
}

// ------------------------------------------------------------------ WR9

func ruleWR9(c *Ctx) {
	allowed := map[*ssa.Function]string{}
	if rd := c.anchor("readEvents"); rd != nil {
		allowed[rd] = "the log reader"
	}
	for _, name := range []string{"hasUnterminatedTail"} {
		if f := c.ErgoFn(name); f != nil {
			allowed[f] = "the append path's tail probe"
		}
	}
	n := 0
	for _, f := range c.Fns {
		if !c.InModule(f) || f.Blocks == nil {
			continue
		}
		k := 0
		for _, call := range callsIn(f) {
			p, ok := c.logReadOpen(call)
			if !ok {
				continue
			}
			cls := c.pathClass(p)
			if !cls[classLOG] {
				continue
			}
			k++
			n++
			construct := fmt.Sprintf("read-open %s#%d", calleeFullName(call.Common()), k)
			role, okFn := allowed[f]
			if !okFn {
				role, okFn = allowed[Outermost(f)]
			}
			// a private helper of the reader (the reader split into open + scan) belongs to it
			if !okFn {
				for g, r := range allowed {
					if c.onlyCalledFrom(f, g) {
						role, okFn = r+" (private helper)", true
					}
				}
			}
			if !okFn {
				// bytes that are only copied somewhere (a backup made under the lock) are not interpreted at all
				if cv, isCall := call.(*ssa.Call); isCall {
					if how := c.readUse(cv); how == "" {
						c.ok(c.Name(f), construct, c.Pos(call.Pos()), "the bytes read are only copied (written out, hashed, compared), never parsed")
						continue
					}
				}
			}
			c.check(okFn, c.Name(f), construct, c.Pos(call.Pos()), "the log is opened for reading by "+role,
				"the event log is opened for reading outside the log reader and the tail probe: this reader has none of readEvents' tolerance for an unterminated or torn final line, so after a crash (or while a writer is appending) it fails where every other command succeeds")
		}
	}
	if n == 0 {
		c.unk("<module>", "log-readers", "-", "no read-open of a LOG-class path found (reader not recognisable)")
	}
}

// onlyCalledFrom: every call site of f is in g (or in a function only called from g).
func (c *Ctx) onlyCalledFrom(f, g *ssa.Function) bool {
	sites := c.callers[f]
	if len(sites) == 0 {
		return false
	}
	for _, cs := range sites {
		if Outermost(cs.Fn) != g {
			return false
		}
	}
	return true
}

// ------------------------------------------------------------------ OU18

func ruleOU18(c *Ctx) {
	cnt := map[string]int{}
	n := 0
	for _, f := range c.Fns {
		if !c.InModule(f) || f.Blocks == nil {
			continue
		}
		eachInstr(f, func(r instrRef) {
			st, ok := r.In.(*ssa.Store)
			if !ok {
				return
			}
			fa, ok := st.Addr.(*ssa.FieldAddr)
			if !ok {
				return
			}
			name, isOpt := optionsFieldAddr(fa)
			if !isOpt || st.Val.Type().Underlying().String() != "string" {
				return
			}
			cnt[c.Name(f)+"|"+name]++
			n++
			tf := &textFlow{c: c, field: name, seen: map[ssa.Value]bool{}}
			tf.walk(st.Val, 0)
			c.check(len(tf.problems) == 0, c.Name(f), fmt.Sprintf("%s store#%d", name, cnt[c.Name(f)+"|"+name]), c.Pos(st.Pos()),
				fmt.Sprintf("the option is the flag's value, copied (%d steps)", tf.steps),
				"the value stored into GlobalOptions."+name+" is not what the user gave: "+strings.Join(uniq(tf.problems), "; ")+" - the core resolves, validates and records the rewritten value")
		})
	}
	// the arguments cobra parses are the process's arguments: a pass over argv before parsing cannot tell an id from a
	// title that happens to look like one
	for _, f := range c.Fns {
		if !c.InModule(f) || f.Blocks == nil {
			continue
		}
		k := 0
		for _, call := range callsIn(f) {
			if calleeFullName(call.Common()) != "(*github.com/spf13/cobra.Command).SetArgs" || len(call.Common().Args) < 2 {
				continue
			}
			k++
			n++
			verbatim := false
			if sl, ok := strip(call.Common().Args[1]).(*ssa.Slice); ok {
				verbatim = isGlobalLoad(sl.X, "Args")
			}
			if isGlobalLoad(call.Common().Args[1], "Args") {
				verbatim = true
			}
			c.check(verbatim, c.Name(f), fmt.Sprintf("argv-verbatim set#%d", k), c.Pos(call.Pos()), "the command tree parses os.Args as given",
				"the argument list handed to cobra is computed from os.Args ("+c.canon(call.Common().Args[1])+"): a rewrite applied before flags are parsed also hits the values of --title, --body, --dir and --result-path, which are then recorded or resolved in a form the user did not write")
		}
	}
	if n == 0 {
		c.unk("<module>", "option-stores", "-", "no store into a string field of GlobalOptions found (options struct not recognisable)")
	}
}

// ------------------------------------------------------------------ DT15

func ruleDT15(c *Ctx) {
	scope := map[*ssa.Function]bool{}
	for _, name := range []string{"compactEvents", "newEvent"} {
		if f := c.anchor(name); f != nil {
			for g := range c.F.TransitiveCallees(f) {
				scope[g] = true
			}
		}
	}
	n := 0
	for _, f := range c.Fns {
		if !scope[f] || f.Blocks == nil {
			continue
		}
		k := 0
		for _, call := range callsIn(f) {
			name := calleeFullName(call.Common())
			if name != "(time.Time).Format" && name != "(time.Time).AppendFormat" {
				continue
			}
			args := call.Common().Args
			k++
			n++
			construct := fmt.Sprintf("format#%d", k)
			layout, isConst := constString(args[len(args)-1])
			if !isConst {
				c.bad(c.Name(f), construct, c.Pos(call.Pos()), "the layout instants are recorded with is not a constant: whether compaction preserves them cannot be decided")
				continue
			}
			fine := strings.Contains(layout, ".999999999") || strings.Contains(layout, ".000000000") || strings.Contains(layout, ",999999999") || strings.Contains(layout, ",000000000")
			zoned := strings.Contains(layout, "Z07") || strings.Contains(layout, "-07") || strings.Contains(layout, "Z0700")
			// the instant formatted is the one handed in: no Truncate/Round on the way
			coarse := ""
			seen := map[ssa.Value]bool{}
			var walk func(v ssa.Value, d int)
			walk = func(v ssa.Value, d int) {
				if v == nil || d > 8 || seen[v] {
					return
				}
				seen[v] = true
				if cl, _ := callOf(v); cl != nil {
					switch nm := calleeFullName(&cl.Call); nm {
					case "(time.Time).Truncate", "(time.Time).Round":
						coarse = nm
					case "(time.Time).UTC", "(time.Time).In", "(time.Time).Local":
						walk(cl.Call.Args[0], d+1)
					}
					return
				}
				if ph, ok := strip(v).(*ssa.Phi); ok {
					for _, e := range ph.Edges {
						walk(e, d+1)
					}
				}
			}
			walk(args[0], 0)
			switch {
			case !fine:
				c.bad(c.Name(f), construct, c.Pos(call.Pos()), fmt.Sprintf("instants are recorded with the layout %q, which drops nanoseconds: compaction re-serialises every replayed instant through it, so instants of a log written with full precision that differ only below that resolution become equal and time-ordered output (claim order, lists) changes across compact", layout))
			case !zoned:
				c.bad(c.Name(f), construct, c.Pos(call.Pos()), fmt.Sprintf("instants are recorded with the layout %q, which has no zone: the recorded text no longer names one instant", layout))
			case coarse != "":
				c.bad(c.Name(f), construct, c.Pos(call.Pos()), "the instant is passed through "+coarse+" before it is recorded: compaction rewrites instants of a finer-grained log and time-ordered output changes across compact")
			default:
				c.ok(c.Name(f), construct, c.Pos(call.Pos()), fmt.Sprintf("layout %q keeps nanoseconds and zone", layout))
			}
		}
	}
	if n == 0 {
		c.unk("<module>", "formatters", "-", "no (time.Time).Format call reachable from compaction or the event constructor found")
	}
}

// ------------------------------------------------------------------ DT16

func ruleDT16(c *Ctx) {
	rm := c.replay()
	if rm == nil {
		c.unk("<module>", "replay-model", "-", "the switch over Event.Type was not found in replay")
		return
	}
	sw := rm.Switch
	type caseInfo struct {
		typ    string
		fields map[string]bool
		pos    string
	}
	byPayload := map[string][]*caseInfo{}
	var types_ []string
	for t := range rm.cases() {
		types_ = append(types_, t)
	}
	sort.Strings(types_)
	// fields of module struct types read in fn (on any value of that type), including through the type's own methods
	var readsIn func(fn *ssa.Function, into map[string]map[string]bool, blocks map[*ssa.BasicBlock]bool, seen map[*ssa.Function]bool)
	readsIn = func(fn *ssa.Function, into map[string]map[string]bool, blocks map[*ssa.BasicBlock]bool, seen map[*ssa.Function]bool) {
		note := func(t string, f string) {
			if into[t] == nil {
				into[t] = map[string]bool{}
			}
			into[t][f] = true
		}
		eachInstr(fn, func(r instrRef) {
			if blocks != nil && !blocks[r.Blk] {
				return
			}
			switch x := r.In.(type) {
			case *ssa.FieldAddr:
				tn := namedTypeName(x.X.Type())
				if !strings.HasPrefix(tn, "ergo.") || !strings.HasSuffix(tn, "Event") || x.Referrers() == nil {
					return
				}
				for _, u := range *x.Referrers() {
					if ld, ok := u.(*ssa.UnOp); ok && ld.Op == token.MUL {
						note(tn, fieldName(x.X.Type(), x.Field))
					}
				}
			case *ssa.Field:
				tn := namedTypeName(x.X.Type())
				if strings.HasPrefix(tn, "ergo.") && strings.HasSuffix(tn, "Event") {
					note(tn, fieldName(x.X.Type(), x.Field))
				}
			case ssa.CallInstruction:
				cal := calleeOf(x.Common())
				if cal == nil || !c.InModule(cal) || cal.Blocks == nil || seen[cal] {
					return
				}
				// a method of a payload type, or a case handler of the replay unit
				isPayloadMethod := false
				if recv := cal.Signature.Recv(); recv != nil {
					tn := namedTypeName(recv.Type())
					isPayloadMethod = strings.HasPrefix(tn, "ergo.") && strings.HasSuffix(tn, "Event")
				}
				if isPayloadMethod || rm.handler[cal] {
					seen[cal] = true
					readsIn(cal, into, nil, seen)
				}
			}
		})
	}
	var shared []string
	for _, t := range types_ {
		edges := rm.caseEdgesFor(t)
		blocks := map[*ssa.BasicBlock]bool{}
		for _, b := range sw.Blocks {
			if mustPassEdges(sw, b, edges) {
				blocks[b] = true
			}
		}
		if len(blocks) == 0 {
			shared = append(shared, t)
			continue // a type sharing its case with others (case "new_task", "new_epic"): no block of its own
		}
		reads := map[string]map[string]bool{}
		readsIn(sw, reads, blocks, map[*ssa.Function]bool{sw: true})
		// the payload of the case: the Event struct most read (Event itself is the envelope)
		best, bestN := "", 0
		var names []string
		for tn := range reads {
			names = append(names, tn)
		}
		sort.Strings(names)
		for _, tn := range names {
			if tn == "ergo.Event" {
				continue
			}
			if n := len(reads[tn]); n > bestN {
				best, bestN = tn, n
			}
		}
		if best == "" {
			continue
		}
		pos := ""
		for e := range edges {
			pos = c.Pos(e.From.Instrs[len(e.From.Instrs)-1].Pos())
		}
		byPayload[best] = append(byPayload[best], &caseInfo{t, reads[best], pos})
	}
	n := 0
	var payloads []string
	for p := range byPayload {
		payloads = append(payloads, p)
	}
	sort.Strings(payloads)
	for _, p := range payloads {
		cs := byPayload[p]
		if len(cs) < 2 {
			continue
		}
		union := map[string]bool{}
		for _, ci := range cs {
			for f := range ci.fields {
				union[f] = true
			}
		}
		for _, ci := range cs {
			n++
			var missing []string
			for f := range union {
				if !ci.fields[f] {
					missing = append(missing, f)
				}
			}
			sort.Strings(missing)
			var sibs []string
			for _, o := range cs {
				if o != ci {
					sibs = append(sibs, `"`+o.typ+`"`)
				}
			}
			c.check(len(missing) == 0, c.Name(sw), fmt.Sprintf("case %q reads %s", ci.typ, strings.TrimPrefix(p, "ergo.")), ci.pos,
				"reads the same payload fields as its sibling case(s) "+strings.Join(sibs, ", "),
				fmt.Sprintf("the replay case %q never reads %s of %s, which its sibling case(s) %s read: events of this type written with that spelling of the key are silently ignored (or applied to the wrong item) while their siblings are honoured", ci.typ, strings.Join(missing, ", "), p, strings.Join(sibs, ", ")))
		}
	}
	if n == 0 && len(shared) >= 2 {
		// every pair of types with one payload shares one case body (case "link", "unlink":): one decode, one set of reads
		c.ok(c.Name(sw), "sibling-cases", c.FnPos(sw), "the event types sharing a payload ("+strings.Join(shared, ", ")+") share their case bodies: there are no sibling cases that could read it differently")
		n++
	}
	if n == 0 {
		c.unk(c.Name(sw), "sibling-cases", c.FnPos(sw), "no two replay cases sharing a payload type found (link/unlink not recognisable)")
	}
}

// readUse: what is done with the result of a read-open/ReadFile call: "" when the bytes (or the handle) only flow into
// writers, copies, hashes, comparisons and length tests; otherwise the first use that interprets them.
func (c *Ctx) readUse(call *ssa.Call) string {
	var vals []ssa.Value
	if call.Referrers() != nil {
		for _, r := range *call.Referrers() {
			if ex, ok := r.(*ssa.Extract); ok && ex.Index == 0 {
				vals = append(vals, ex)
			}
		}
	}
	if len(vals) == 0 {
		vals = []ssa.Value{call}
	}
	seen := map[ssa.Value]bool{}
	bad := ""
	var walk func(v ssa.Value, d int)
	walk = func(v ssa.Value, d int) {
		if bad != "" || seen[v] || d > 8 || v.Referrers() == nil {
			return
		}
		seen[v] = true
		for _, r := range *v.Referrers() {
			switch x := r.(type) {
			case *ssa.DebugRef, *ssa.Return:
			case *ssa.Phi:
				walk(x, d+1)
			case *ssa.MakeInterface:
				walk(x, d+1)
			case *ssa.ChangeInterface:
				walk(x, d+1)
			case *ssa.Convert:
				walk(x, d+1)
			case *ssa.Slice:
				walk(x, d+1)
			case *ssa.BinOp:
			case *ssa.Store:
				if al, ok := x.Addr.(*ssa.Alloc); ok && x.Val == v {
					for _, lr := range *al.Referrers() {
						if ld, ok := lr.(*ssa.UnOp); ok {
							walk(ld, d+1)
						}
					}
				} else if x.Val == v {
					bad = "stored at " + c.Pos(x.Pos())
				}
			case ssa.CallInstruction:
				n := calleeFullName(x.Common())
				switch {
				case n == "builtin len", n == "builtin cap", n == "builtin copy":
				case n == "os.WriteFile", n == "io.Copy", n == "io.CopyN", n == "bytes.Equal", n == "(*os.File).Write", n == "(*os.File).Close", n == "(*os.File).Stat", n == "(*os.File).Sync", n == "(*os.File).Name", n == "(*bufio.Writer).Write", n == "(*bufio.Writer).ReadFrom", n == "(*os.File).ReadFrom":
				case strings.HasPrefix(n, "crypto/") || strings.HasPrefix(n, "hash/") || strings.HasPrefix(n, "(hash."):
				case n == "io.ReadAll":
					if cv, ok := x.(*ssa.Call); ok {
						for _, rr := range *cv.Referrers() {
							if ex, ok := rr.(*ssa.Extract); ok && ex.Index == 0 {
								walk(ex, d+1)
							}
						}
					}
				default:
					if cal := calleeOf(x.Common()); cal != nil && c.InModule(cal) && cal.Blocks != nil {
						// handed to a module function: follow the parameter
						for i, a := range x.Common().Args {
							if a == v && i < len(cal.Params) {
								walk(cal.Params[i], d+1)
							}
						}
						continue
					}
					bad = n + " at " + c.Pos(x.Pos())
				}
			default:
				bad = fmt.Sprintf("%T at %s", r, c.Pos(r.Pos()))
			}
		}
	}
	for _, v := range vals {
		walk(v, 0)
	}
	return bad
}

// readAndLockOnOnePath: some path through f (following module calls) both reads the log outside a lock section and
// takes the lock. Each function is summarised by the set of (read, locked) outcomes its paths can have.
func (c *Ctx) readAndLockOnOnePath(root, rd *ssa.Function) bool {
	memo := map[*ssa.Function]uint8{}
	onStack := map[*ssa.Function]bool{}
	// a state is 2 bits (read<<1 | locked); a set of states is a 4-bit mask
	join := func(set uint8, outcome uint8) uint8 {
		var out uint8
		for s := uint8(0); s < 4; s++ {
			if set&(1<<s) == 0 {
				continue
			}
			for o := uint8(0); o < 4; o++ {
				if outcome&(1<<o) != 0 {
					out |= 1 << (s | o)
				}
			}
		}
		return out
	}
	var summ func(f *ssa.Function) uint8
	summ = func(f *ssa.Function) uint8 {
		if m, ok := memo[f]; ok {
			return m
		}
		if onStack[f] || f.Blocks == nil {
			return 1 // (false,false)
		}
		onStack[f] = true
		defer func() { onStack[f] = false }()
		in := make([]uint8, len(f.Blocks))
		in[0] = 1
		var result uint8
		for changed, iter := true, 0; changed && iter < 64; iter++ {
			changed = false
			result = 0
			for _, b := range f.Blocks {
				cur := in[b.Index]
				if cur == 0 {
					continue
				}
				for _, ins := range b.Instrs {
					call, ok := ins.(ssa.CallInstruction)
					if !ok {
						continue
					}
					cal := calleeOf(call.Common())
					switch {
					case cal == rd:
						cur = join(cur, 1<<2) // (read)
					case cal != nil && c.F.isLockFn(cal):
						cur = join(cur, 1<<1) // (locked); what the callback reads is inside the section
					case cal != nil && c.InModule(cal):
						cur = join(cur, summ(cal))
					default:
						if _, isParam := call.Common().Value.(*ssa.Parameter); !isParam && cal == nil && !call.Common().IsInvoke() {
							if mc, ok := resolve(call.Common().Value).(*ssa.MakeClosure); ok {
								cur = join(cur, summ(mc.Fn.(*ssa.Function)))
							}
						}
					}
				}
				if len(b.Succs) == 0 {
					result |= cur
				}
				for _, s := range b.Succs {
					if in[s.Index]|cur != in[s.Index] {
						in[s.Index] |= cur
						changed = true
					}
				}
			}
		}
		if result == 0 {
			result = 1
		}
		memo[f] = result
		return result
	}
	return summ(root)&(1<<3) != 0
}

// tableFuncValues: v is read from field F of a module struct type T (spec.run): every function value that any store in
// the module puts into a T.F (the entries of a table of command specifications).
func (c *Ctx) tableFuncValues(v ssa.Value) []*ssa.Function {
	var tn string
	var fi int
	switch x := strip(v).(type) {
	case *ssa.UnOp:
		fa, ok := x.X.(*ssa.FieldAddr)
		if !ok || x.Op != token.MUL {
			return nil
		}
		tn, fi = namedTypeName(fa.X.Type()), fa.Field
	case *ssa.Field:
		tn, fi = namedTypeName(x.X.Type()), x.Field
	default:
		return nil
	}
	if tn == "" || strings.HasSuffix(tn, "cobra.Command") {
		return nil
	}
	var out []*ssa.Function
	seen := map[*ssa.Function]bool{}
	for _, f := range c.Fns {
		eachInstr(f, func(r instrRef) {
			st, ok := r.In.(*ssa.Store)
			if !ok {
				return
			}
			fa, ok := st.Addr.(*ssa.FieldAddr)
			if !ok || fa.Field != fi || namedTypeName(fa.X.Type()) != tn {
				return
			}
			for _, g := range funcValuesOf(st.Val, 0) {
				if !seen[g] {
					seen[g] = true
					out = append(out, g)
				}
			}
		})
	}
	return out
}
