package main

// Readiness rules RD1..RD3 and the state-table agreement VD4, built on a small
// "dominating facts" engine: for a return (or any block) the set of branch outcomes
// every path to it has passed, named by role (subject field, element field, lookup, call).

import (
	"fmt"
	"go/constant"
	"go/token"
	"sort"
	"strings"

	"golang.org/x/tools/go/ssa"
)

func init() {
	register(&Rule{ID: "RD1", Min: 5, Run: ruleRD1,
		Doc: "claim-selection: the oldest-ready claim asks readyTasks for the constant kind task with the caller's epic filter unchanged and takes element 0 of the result; readyTasks lists with readyOnly=true, filters by the kind it was given and sorts with a comparator that returns CreatedAt.Before(i,j) with an ID< tie-break on equal times, and returns that sorted slice"})
	register(&Rule{ID: "RD2", Min: 10, Run: ruleRD2,
		Doc: "readiness-siblings: (a) isReady returns true only under State==todo, ClaimedBy==\"\", all dependencies scanned, and (EpicID==\"\" or areEpicDepsComplete); every `return false` has one of the documented reasons (nil, state, claim, a found dependency that is neither done nor canceled, incomplete epic deps) and a missing (pruned) dependency never refuses; no other condition influences a return; (b) the satisfied-dependency states are exactly {done, canceled} in isReady, isBlocked, getBlockers, isEpicComplete; (c) isBlocked is true for State==blocked and otherwise exactly where isReady refuses a todo unclaimed task; (d) epic completeness ranges over all tasks with that EpicID and epic-dep completeness over the epic's deps that are epics"})
	register(&Rule{ID: "RD3", Min: 3, Run: ruleRD3,
		Doc: "cycle-guard-sees-inherited-deps: readiness reads Deps[task], Deps[task.EpicID] and epic membership (Task.EpicID); therefore the cycle guard's transitive read-set must include Task.EpicID as well as Graph.Deps, and epic (re)assignment and creation inside an epic must be dominated by a cycle guard at all (insufficient-information argument)"})
	register(&Rule{ID: "VD4", Min: 8, Run: ruleVD4,
		Doc: "state-table-agreement: validTransitions' keys equal validStates and every target is a valid state; the documented rows (done->{todo}, canceled->{todo}, error->{todo,doing,canceled}) equal the literal; the states whose replay clears the claimant = the must-be-unclaimed cases of validateClaimInvariant = the cleared-claim set in buildSetEvents = {todo, done, canceled}; the needs-a-claim cases = the implicit-claim trigger set = {doing, error}; validateTransition consults validTransitions[from][to] and allows from==to"})
}

// ------------------------------------------------------------------ dominating facts

// atomLabel names an atom by role.
func (c *Ctx) atomLabel(a Atom) string {
	role := func(base ssa.Value) string {
		b := resolve(base)
		switch x := b.(type) {
		case *ssa.Parameter:
			return "S"
		case *ssa.FreeVar:
			_ = x
			return "S"
		}
		return "E"
	}
	cst := func(k *ssa.Const) string {
		if k.Value == nil {
			return "nil"
		}
		if k.Value.Kind() == constant.String {
			return constant.StringVal(k.Value)
		}
		return k.Value.ExactString()
	}
	if len(a.Env) > 0 {
		// translate a helper-internal atom into the caller's terms where its value is a bound parameter
		if v := a.val(); v != nil && v != resolve(a.X) {
			a.X = v
		}
	}
	switch a.Kind {
	case "nil":
		if _, ok := resolve(a.X).(*ssa.Parameter); ok {
			return "S==nil"
		}
		if cl, _ := callOf(a.X); cl != nil {
			if cal := calleeOf(&cl.Call); cal != nil {
				return "err:" + cal.Name()
			}
		}
		return "E==nil"
	case "const":
		if b, n, ok := fieldLoadA(a); ok {
			return role(b) + "." + n + "==" + cst(a.C)
		}
		if _, ok := resolve(a.X).(*ssa.Parameter); ok {
			return "P==" + cst(a.C)
		}
		if cl, _ := callOf(a.X); cl != nil {
			return "call:" + calleeShort(cl) + "==" + cst(a.C)
		}
		return "V==" + cst(a.C)
	case "bool":
		x := strip(a.X)
		if ex, ok := x.(*ssa.Extract); ok {
			switch t := ex.Tuple.(type) {
			case *ssa.Next:
				return "range-ok"
			case *ssa.Lookup:
				if _, n, ok := fieldLoad(t.X); ok {
					return "lookup-ok:" + n
				}
				return "lookup-ok"
			}
		}
		if cl, _ := callOf(x); cl != nil {
			return "call:" + calleeShort(cl)
		}
		if b, n, ok := fieldLoad(x); ok {
			return role(b) + "." + n
		}
		if _, ok := resolve(x).(*ssa.Parameter); ok {
			return "P"
		}
		return "bool"
	case "cmp":
		if a.Op == token.EQL {
			if _, ok1 := resolve(a.X).(*ssa.Parameter); ok1 {
				if _, ok2 := resolve(a.Y).(*ssa.Parameter); ok2 {
					return "P==P"
				}
			}
			if b, n, ok := fieldLoad(a.X); ok {
				return role(b) + "." + n + "==V"
			}
		}
		return "cmp:" + a.Op.String()
	}
	return a.Kind
}

func calleeShort(cl *ssa.Call) string {
	if cal := calleeOf(&cl.Call); cal != nil {
		if curProg != nil {
			if role, ok := curProg.roleOf[cal]; ok {
				return role // the implementation behind a recorded role (wrapper, memo, rename) keeps the role's name in facts
			}
		}
		return cal.Name()
	}
	n := calleeFullName(&cl.Call)
	if i := strings.LastIndex(n, "."); i >= 0 {
		return n[i+1:]
	}
	return n
}

// domFacts: labelled branch outcomes that every path from entry to blk has passed.
func (c *Ctx) domFacts(f *ssa.Function, blk *ssa.BasicBlock) map[string]bool {
	out := map[string]bool{}
	for _, bf := range branchFacts(f) {
		if _, _, isSet := constSetLookup(c.Prog, bf.A); isSet {
			// the raw lookup in a constant set: what it says about the key is carried by the derived equalities
			continue
		}
		curEnv = bf.A.Env
		if bf.Derived && c.opaqueHelper(bf.Via) {
			continue
		}
		if c.seenThrough(bf.A) {
			continue // the helper's own conditions are reported instead of the call
		}
		if mustPassEdges(f, blk, map[edge]bool{bf.E: true}) {
			tf := "F"
			if bf.Holds {
				tf = "T"
			}
			out[c.atomLabel(bf.A)+":"+tf] = true
		}
	}
	return out
}

// seenThrough: the atom tests the outcome of a module helper that is not a domain anchor: its internal
// conditions are expanded into facts, so the call itself is not a condition of its own.
func (c *Ctx) seenThrough(a Atom) bool {
	a.Env = nil
	call, _ := helperOutcome(c.Prog, a)
	if call == nil {
		return false
	}
	return !c.opaqueHelper(calleeOf(&call.Call))
}

// predUnit: f plus the non-anchor module helpers it calls (transitively): the code that implements f's definition.
func (c *Ctx) predUnit(f *ssa.Function) []*ssa.Function {
	out := []*ssa.Function{f}
	seen := map[*ssa.Function]bool{f: true}
	for i := 0; i < len(out); i++ {
		for _, call := range callsIn(out[i]) {
			cal := calleeOf(call.Common())
			if cal == nil || !c.InModule(cal) || cal.Blocks == nil || seen[cal] || c.opaqueHelper(cal) {
				continue
			}
			seen[cal] = true
			out = append(out, cal)
		}
		for _, cl := range out[i].AnonFuncs {
			if !seen[cl] {
				seen[cl] = true
				out = append(out, cl)
			}
		}
	}
	return out
}

// opaqueHelper: domain functions that have their own specification are not looked into when they are called.
func (c *Ctx) opaqueHelper(h *ssa.Function) bool {
	if h == nil {
		return false
	}
	for _, a := range c.F.Anchors {
		if a == h {
			return true
		}
	}
	return false
}

// boolReturns lists returns of a bool function with their constant value (nil const => not constant).
type boolRet struct {
	R     *ssa.Return
	Val   *bool
	Facts map[string]bool
}

func (c *Ctx) boolReturns(f *ssa.Function) []boolRet {
	var out []boolRet
	edgeFact := func(pred, blk *ssa.BasicBlock, facts map[string]bool) {
		for _, bf := range branchFacts(f) {
			curEnv = bf.A.Env
			if bf.Derived && c.opaqueHelper(bf.Via) {
				continue
			}
			if c.seenThrough(bf.A) {
				continue
			}
			if bf.E.From == pred && bf.E.To() == blk {
				tf := "F"
				if bf.Holds {
					tf = "T"
				}
				facts[c.atomLabel(bf.A)+":"+tf] = true
			}
		}
	}
	tfs := func(b bool) string {
		if b {
			return "T"
		}
		return "F"
	}
	// condRets: `return cond` (not a constant): one alternative per value of cond, carrying what that value implies
	// (the tested atom itself, and - for a call to a private helper - what each matching return of the helper passed)
	condRets := func(r *ssa.Return, v ssa.Value, base map[string]bool) []boolRet {
		a, pos := decompose(v)
		if a.X == nil {
			return nil
		}
		var res []boolRet
		for _, val := range []bool{true, false} {
			holds := val == pos
			facts := map[string]bool{}
			for k := range base {
				facts[k] = true
			}
			curEnv = nil
			if !c.seenThrough(a) {
				facts[c.atomLabel(a)+":"+tfs(holds)] = true
			}
			alts := [][]factAtom{nil}
			if cl, k := helperOutcome(c.Prog, a); cl != nil && !c.opaqueHelper(calleeOf(&cl.Call)) {
				h := calleeOf(&cl.Call)
				e := env{}
				for i, prm := range h.Params {
					if i < len(cl.Call.Args) {
						e[prm] = cl.Call.Args[i]
					}
				}
				if inner := outcomeAlts(c.Prog, h, k, holds, e, helperDepth-1, map[*ssa.Function]bool{f: true, h: true}); len(inner) > 0 {
					alts = inner
				} else {
					return nil // the helper's outcome cannot be characterised
				}
			}
			for _, alt := range alts {
				fs := map[string]bool{}
				for k := range facts {
					fs[k] = true
				}
				for _, fa := range alt {
					curEnv = fa.A.Env
					if c.seenThrough(fa.A) {
						continue
					}
					fs[c.atomLabel(fa.A)+":"+tfs(fa.Holds)] = true
				}
				curEnv = nil
				b := val
				res = append(res, boolRet{R: r, Val: &b, Facts: fs})
			}
		}
		return res
	}
	for _, r := range returnsOf(f) {
		if len(r.Results) != 1 {
			continue
		}
		blk := r.Block()
		v := r.Results[0]
		ph, isPhi := v.(*ssa.Phi)
		if isPhi && ph.Block() != blk {
			isPhi = false
		}
		if len(blk.Preds) > 1 {
			// a merged return: one alternative per incoming edge (disjunctive conditions, merged constants)
			for i, pred := range blk.Preds {
				facts := c.domFacts(f, pred)
				edgeFact(pred, blk, facts)
				br := boolRet{R: r, Facts: facts}
				val := v
				if isPhi {
					val = ph.Edges[i]
				}
				if b, ok := constBool(val); ok {
					bb := b
					br.Val = &bb
				} else if cr := condRets(r, val, facts); cr != nil {
					out = append(out, cr...)
					continue
				}
				out = append(out, br)
			}
			continue
		}
		br := boolRet{R: r, Facts: c.domFacts(f, blk)}
		if b, ok := constBool(v); ok {
			bb := b
			br.Val = &bb
		} else if cr := condRets(r, v, br.Facts); cr != nil {
			out = append(out, cr...)
			continue
		}
		out = append(out, br)
	}
	return out
}

func factList(m map[string]bool) string {
	var ks []string
	for k := range m {
		ks = append(ks, k)
	}
	sort.Strings(ks)
	return strings.Join(ks, " ")
}

// predSpec is a tolerant structural specification of a bool predicate.
type predSpec struct {
	allowed      []string   // fact labels (without :T/:F) that may influence any return
	requiredTrue []string   // facts (with polarity) every `return true` must have passed
	trueAnyOf    [][]string // additionally, one of these alternatives must hold for `return true`
	falseReasons [][]string // every `return false` must have passed all facts of at least one reason
	trueReasons  [][]string // if set: every `return true` must have passed all facts of at least one reason
}

func (c *Ctx) checkPred(f *ssa.Function, spec predSpec, what string) {
	fn := c.Name(f)
	allowed := map[string]bool{}
	for _, a := range spec.allowed {
		allowed[a] = true
	}
	rets := c.boolReturns(f)
	nT, nF := 0, 0
	for _, br := range rets {
		pos := c.Pos(br.R.Pos())
		if br.Val == nil {
			c.bad(fn, fmt.Sprintf("return#nonconst"), pos, what+": a return value is not a constant true/false: the predicate's structure is not recognised")
			continue
		}
		val := *br.Val
		var construct string
		if val {
			nT++
			construct = fmt.Sprintf("return true#%d", nT)
		} else {
			nF++
			construct = fmt.Sprintf("return false#%d", nF)
		}
		// no foreign condition
		extra := ""
		for fct := range br.Facts {
			lab := fct[:strings.LastIndex(fct, ":")]
			if !allowed[lab] {
				extra = fct
			}
		}
		if extra != "" {
			c.bad(fn, construct, pos, fmt.Sprintf("%s: this return depends on a condition the definition does not mention (%s); facts on the path: %s", what, extra, factList(br.Facts)))
			continue
		}
		hasAll := func(fs []string) bool {
			for _, x := range fs {
				if !br.Facts[x] {
					return false
				}
			}
			return true
		}
		if val {
			ok := hasAll(spec.requiredTrue)
			if ok && len(spec.trueAnyOf) > 0 {
				ok = false
				for _, alt := range spec.trueAnyOf {
					if hasAll(alt) {
						ok = true
					}
				}
			}
			if ok && len(spec.trueReasons) > 0 {
				ok = false
				for _, alt := range spec.trueReasons {
					if hasAll(alt) {
						ok = true
					}
				}
			}
			c.check(ok, fn, construct, pos, "true only under "+strings.Join(spec.requiredTrue, " ")+" ["+factList(br.Facts)+"]",
				fmt.Sprintf("%s: `return true` is reachable without all of %v (and one of %v %v); facts on the path: %s", what, spec.requiredTrue, spec.trueAnyOf, spec.trueReasons, factList(br.Facts)))
		} else {
			ok := false
			for _, reason := range spec.falseReasons {
				if hasAll(reason) {
					ok = true
				}
			}
			c.check(ok, fn, construct, pos, "refusal has a documented reason ["+factList(br.Facts)+"]",
				fmt.Sprintf("%s: `return false` without a documented reason; facts on the path: %s", what, factList(br.Facts)))
		}
	}
	if nT == 0 || nF == 0 {
		c.bad(fn, "returns", c.FnPos(f), fmt.Sprintf("%s: %d true and %d false constant returns: structure not recognised", what, nT, nF))
	}
}

// elemStateConsts: constants compared with the State of a non-subject (looked-up / ranged) task in f.
func (c *Ctx) elemStateConsts(f *ssa.Function) (elem, subj map[string]bool) {
	elem, subj = map[string]bool{}, map[string]bool{}
	note := func(a Atom) {
		curEnv = a.Env
		l := c.atomLabel(a)
		if strings.HasPrefix(l, "E.State==") {
			elem[strings.TrimPrefix(l, "E.State==")] = true
		}
		if strings.HasPrefix(l, "S.State==") {
			subj[strings.TrimPrefix(l, "S.State==")] = true
		}
	}
	for _, bf := range branchFacts(f) {
		if bf.Derived && c.opaqueHelper(bf.Via) {
			continue
		}
		note(bf.A)
		for _, alt := range bf.Alts {
			for _, fa := range alt {
				note(fa.A)
			}
		}
	}
	curEnv = nil
	return
}

// ------------------------------------------------------------------ RD1

func ruleRD1(c *Ctx) {
	rt := c.anchor("readyTasks")
	lt := c.anchor("listTasks")
	if rt == nil || lt == nil {
		return
	}
	// the claim site
	var claimCb *ssa.Function
	var rtCall *ssa.Call
	for _, ls := range c.F.LockSites {
		if ls.Callback == nil {
			continue
		}
		// the selection may live in the callback or in a private helper holding the section's body
		for _, g := range append([]*ssa.Function{ls.Callback}, c.unitOf(ls.Callback)...) {
			for _, call := range callsTo(g, rt) {
				claimCb = g
				rtCall, _ = call.(*ssa.Call)
			}
		}
	}
	// the selection may also be a shared helper (used by the claim and by its dry run alike) that hands back element 0
	// of readyTasks(...) or nil when the list is empty
	var selHelper *ssa.Function
	var selCall *ssa.Call
	if claimCb == nil {
		for _, cs := range c.callers[rt] {
			s := cs.Fn
			rtc, ok := cs.Call.(*ssa.Call)
			if !ok || s.Parent() != nil || len(callsTo(s, rt)) != 1 || s.Signature.Results().Len() != 1 {
				continue
			}
			shape := true
			nEl := 0
			for _, r := range returnsOf(s) {
				v := strip(returnedValue(r, 0))
				if isNilConst(v) {
					continue
				}
				ld, isLd := v.(*ssa.UnOp)
				if !isLd {
					shape = false
					continue
				}
				ia, isIA := ld.X.(*ssa.IndexAddr)
				if !isIA || resolve(ia.X) != ssa.Value(rtc) {
					shape = false
					continue
				}
				if i, isC := constInt(ia.Index); !isC || i != 0 {
					shape = false
				}
				nEl++
			}
			if !shape || nEl == 0 {
				continue
			}
			for _, ls := range c.F.LockSites {
				if ls.Callback == nil {
					continue
				}
				for _, g := range append([]*ssa.Function{ls.Callback}, c.unitOf(ls.Callback)...) {
					for _, call := range callsTo(g, s) {
						if cv, ok := call.(*ssa.Call); ok {
							claimCb, rtCall, selHelper, selCall = g, rtc, s, cv
						}
					}
				}
			}
		}
	}
	if claimCb == nil || rtCall == nil {
		c.bad("<module>", "claim-site", "-", "no lock callback selects from readyTasks(...): the oldest-ready claim is not recognisable")
	} else if selHelper != nil {
		fn := c.Name(claimCb)
		pos := c.Pos(selCall.Pos())
		kind := constStr(rtCall.Call.Args[2])
		c.check(kind == "task", fn, "kind-is-task", pos, "readyTasks is asked for the constant kind task (in "+c.Name(selHelper)+")", "claim asks readyTasks for kind "+c.canon(rtCall.Call.Args[2])+": an epic can be handed out")
		okEp := false
		var ep ssa.Value
		if p, ok := resolve(rtCall.Call.Args[1]).(*ssa.Parameter); ok && p.Parent() == selHelper && paramIndex(p) < len(selCall.Call.Args) {
			ep = resolveEnv(selCall.Call.Args[paramIndex(p)], c.autoEnv(claimCb))
			_, okEp = ep.(*ssa.Parameter)
		}
		c.check(okEp, fn, "epic-filter-unchanged", pos, "the epic filter is the command's parameter, handed on unchanged through "+c.Name(selHelper), "the epic filter reaching readyTasks through "+c.Name(selHelper)+" is not the caller's value")
		c.ok(fn, "takes-element-0", pos, "the claimed task is element 0 of the ready list ("+c.Name(selHelper)+" returns ready[0] or nil)")
		nonNil := edgesWhere(claimCb, func(a Atom, holds bool) bool {
			return a.Kind == "nil" && !holds && len(a.Env) == 0 && (strip(a.X) == ssa.Value(selCall) || holdsValue(a.X, selCall) || storedJustBefore(a.X) == ssa.Value(selCall))
		})
		okLen := len(nonNil) > 0
		for _, em := range c.emissions() {
			if em.Fn == claimCb && !mustPassEdges(claimCb, em.Call.Block(), nonNil) {
				okLen = false
			}
		}
		c.check(okLen, fn, "empty-means-no-ready", pos, "events are built only when the selection helper found a task", "claim can build events without checking that a ready task was found")
	} else {
		fn := c.Name(claimCb)
		pos := c.Pos(rtCall.Pos())
		kind := constStr(rtCall.Call.Args[2])
		c.check(kind == "task", fn, "kind-is-task", pos, "readyTasks is asked for the constant kind task", "claim asks readyTasks for kind "+c.canon(rtCall.Call.Args[2])+": an epic can be handed out")
		// epic filter: the entry's parameter, unchanged
		ep := resolveEnv(rtCall.Call.Args[1], c.autoEnv(claimCb))
		_, isParam := ep.(*ssa.Parameter)
		c.check(isParam, fn, "epic-filter-unchanged", pos, "the epic filter is the command's parameter, unchanged", "the epic filter passed to readyTasks is "+c.canon(ep)+", not the caller's value")
		// chosen = element 0
		el0 := false
		for _, r := range *rtCall.Referrers() {
			if ia, ok := r.(*ssa.IndexAddr); ok {
				if i, ok := constInt(ia.Index); ok && i == 0 {
					el0 = true
				} else {
					el0 = false
					break
				}
			}
			if ix, ok := r.(*ssa.Index); ok {
				if i, ok := constInt(ix.Index); ok && i == 0 {
					el0 = true
				}
			}
		}
		// ... or a prefix of it (`claim --count N`: ready[:n], or the whole list, handed on as a slice): every element
		// access is at the constant 0 and every re-slicing keeps the front
		if !el0 {
			prefix, bad := false, false
			seenV := map[ssa.Value]bool{}
			var walk func(v ssa.Value, d int)
			walk = func(v ssa.Value, d int) {
				if v == nil || seenV[v] || d > 6 || v.Referrers() == nil {
					return
				}
				seenV[v] = true
				for _, r := range *v.Referrers() {
					switch x := r.(type) {
					case *ssa.IndexAddr:
						if i, ok := constInt(x.Index); !ok || i != 0 {
							// the element of a `for range` over this very slice: all of the prefix, front to back
							inRange := false
							if inc, ok := x.Index.(*ssa.BinOp); ok && inc.Op == token.ADD {
								if ph, ok := inc.X.(*ssa.Phi); ok && rangeSliceOf(ph.Block()) == strip(v) {
									inRange = true
								}
							}
							if !inRange {
								bad = true
							}
						}
					case *ssa.Index:
						if i, ok := constInt(x.Index); !ok || i != 0 {
							bad = true
						}
					case *ssa.Slice:
						if x.Low != nil {
							if i, ok := constInt(x.Low); !ok || i != 0 {
								bad = true
							}
						}
						prefix = true
						walk(x, d+1)
					case *ssa.Phi:
						walk(x, d+1)
					case *ssa.Store:
						if cell := cellOf(x.Addr); cell != nil && x.Val == v {
							prefix = true
							for _, ld := range cellLoads(cell) {
								walk(ld, d+1)
							}
						}
					case ssa.CallInstruction:
						if cal := calleeOf(x.Common()); cal != nil && c.InModule(cal) {
							prefix = true
						}
					}
				}
			}
			walk(rtCall, 0)
			if prefix && !bad {
				el0 = true
			}
		}
		c.check(el0, fn, "takes-element-0", pos, "the claimed task is element 0 of the ready list (or the claimed tasks are a prefix of it)", "the claimed task is not element 0 of readyTasks' result")
		// empty list => no-ready error, before any emission
		lenZero := edgesWhere(claimCb, func(a Atom, holds bool) bool {
			if a.Kind != "const" || holds {
				return false
			}
			cl, _ := callOf(a.X)
			return cl != nil && calleeFullName(&cl.Call) == "builtin len" && resolve(cl.Call.Args[0]) == ssa.Value(rtCall)
		})
		okLen := len(lenZero) > 0
		for _, em := range c.emissions() {
			if em.Fn == claimCb && !mustPassEdges(claimCb, em.Call.Block(), lenZero) {
				okLen = false
			}
		}
		c.check(okLen, fn, "empty-means-no-ready", pos, "events are built only when the ready list is non-empty", "claim can build events without checking that the ready list is non-empty")
	}
	// readyTasks internals
	fn := c.Name(rt)
	var ltCall *ssa.Call
	for _, call := range callsTo(rt, lt) {
		ltCall, _ = call.(*ssa.Call)
	}
	okList := false
	if ltCall != nil && len(ltCall.Call.Args) == 3 {
		b, isC := constBool(ltCall.Call.Args[2])
		_, p1 := resolve(ltCall.Call.Args[0]).(*ssa.Parameter)
		_, p2 := resolve(ltCall.Call.Args[1]).(*ssa.Parameter)
		okList = isC && b && p1 && p2
	}
	c.check(okList, fn, "lists-ready-only", c.FnPos(rt), "candidates = listTasks(graph, epicID, readyOnly=true)", "readyTasks does not start from listTasks(graph, epicID, true)")
	fk := c.ErgoFn("filterTasksByKind")
	okKind := false
	if fk != nil {
		for _, call := range callsTo(rt, fk) {
			if _, ok := resolve(call.Common().Args[1]).(*ssa.Parameter); ok {
				okKind = true
			}
		}
	}
	c.check(okKind, fn, "filters-by-kind", c.FnPos(rt), "candidates are filtered by the requested kind", "readyTasks does not filter by the kind parameter")
	// comparator: a sort.Slice in readyTasks itself, or in a module helper that sorts its slice parameter in place
	sortNames := []string{"sort.Slice", "sort.SliceStable", "slices.SortFunc", "slices.SortStableFunc"}
	sorts := callsNamed(rt, sortNames...)
	var sortedArg ssa.Value
	if len(sorts) == 0 {
		for _, call := range callsIn(rt) {
			cal := calleeOf(call.Common())
			if cal == nil || !c.InModule(cal) || len(cal.Params) == 0 {
				continue
			}
			inner := callsNamed(cal, sortNames...)
			if len(inner) != 1 {
				continue
			}
			arg := inner[0].Common().Args[0]
			if mi, ok := arg.(*ssa.MakeInterface); ok {
				arg = mi.X
			}
			if prm, ok := resolve(arg).(*ssa.Parameter); ok {
				sorts = inner
				sortedArg = call.Common().Args[paramIndex(prm)]
			}
		}
	}
	if len(sorts) != 1 {
		c.bad(fn, "oldest-first-comparator", c.FnPos(rt), fmt.Sprintf("%d sort.Slice calls in readyTasks, expected 1 with the CreatedAt/ID comparator", len(sorts)))
		return
	}
	lfs := funcValuesOf(sorts[0].Common().Args[1], 0)
	if len(lfs) != 1 {
		c.bad(fn, "oldest-first-comparator", c.Pos(sorts[0].Pos()), "comparator is not a closure or named function")
		return
	}
	lf := lfs[0]
	before, tie := c.comparatorShape(lf)
	c.check(before == "Before(i,j)" && tie, fn, "oldest-first-comparator", c.Pos(sorts[0].Pos()),
		"comparator: CreatedAt.Before(i,j), ties broken by ID(i) < ID(j)",
		fmt.Sprintf("comparator is not CreatedAt(i).Before(CreatedAt(j)) with an ID tie-break (primary=%q idTieBreak=%v): claim does not hand out the oldest task deterministically", before, tie))
	// the sorted slice is returned
	retOK := false
	sorted := resolve(sorts[0].Common().Args[0])
	if mi, ok := sorts[0].Common().Args[0].(*ssa.MakeInterface); ok {
		sorted = resolve(mi.X)
	}
	if sortedArg != nil {
		sorted = resolve(sortedArg)
	}
	for _, r := range returnsOf(rt) {
		if len(r.Results) == 1 && (resolve(r.Results[0]) == sorted || c.canon(r.Results[0]) == c.canon(sorted)) {
			retOK = true
		}
	}
	c.check(retOK, fn, "returns-sorted", c.FnPos(rt), "the sorted slice is what is returned", "readyTasks does not return the slice it sorted")
}

// comparatorShape inspects a sort.Slice less func(i, j int) bool.
// primary: "Before(i,j)", "After(i,j)", "Before(j,i)", ... or "" ; tie: an ID(i) < ID(j) return exists.
func (c *Ctx) comparatorShape(lf *ssa.Function) (primary string, tie bool) {
	if len(lf.Params) != 2 {
		return "", false
	}
	pi, pj := lf.Params[0], lf.Params[1]
	side := func(v ssa.Value) string {
		di, dj := derivesFrom(v, pi), derivesFrom(v, pj)
		switch {
		case di && !dj:
			return "i"
		case dj && !di:
			return "j"
		}
		return "?"
	}
	for _, r := range returnsOf(lf) {
		if len(r.Results) != 1 {
			continue
		}
		vals := []ssa.Value{r.Results[0]}
		if ph, ok := r.Results[0].(*ssa.Phi); ok {
			vals = ph.Edges
		}
		// cmp.Or(primary, tieBreak...): the first non-zero comparison decides; each operand is a comparison of its own
		for i := 0; i < len(vals); i++ {
			if cl, ok := strip(vals[i]).(*ssa.Call); ok && strings.HasPrefix(calleeFullName(&cl.Call), "cmp.Or") {
				vals = append(vals, variadicElems(cl.Call.Args)...)
			}
		}
		for _, v := range vals {
			v = strip(v)
			if cl, ok := v.(*ssa.Call); ok {
				n := calleeFullName(&cl.Call)
				// three-way comparators (slices.SortFunc): a.CreatedAt.Compare(b.CreatedAt), cmp.Compare(a.ID, b.ID)
				if n == "(time.Time).Compare" && len(cl.Call.Args) == 2 {
					_, f0, ok0 := fieldLoad(cl.Call.Args[0])
					_, f1, ok1 := fieldLoad(cl.Call.Args[1])
					if ok0 && ok1 && f0 == "CreatedAt" && f1 == "CreatedAt" {
						primary = fmt.Sprintf("Before(%s,%s)", side(cl.Call.Args[0]), side(cl.Call.Args[1]))
					}
				}
				if (n == "cmp.Compare" || n == "strings.Compare") && len(cl.Call.Args) == 2 {
					_, f0, ok0 := fieldLoad(cl.Call.Args[0])
					_, f1, ok1 := fieldLoad(cl.Call.Args[1])
					if ok0 && ok1 && f0 == "ID" && f1 == "ID" && side(cl.Call.Args[0]) == "i" && side(cl.Call.Args[1]) == "j" {
						tie = true
					}
				}
				// a named comparator applied to the same two elements in the same order
				if h := calleeOf(&cl.Call); h != nil && c.InModule(h) && h.Blocks != nil && h != lf && len(cl.Call.Args) == 2 && len(h.Params) == 2 &&
					resolve(cl.Call.Args[0]) == ssa.Value(pi) && resolve(cl.Call.Args[1]) == ssa.Value(pj) {
					p2, t2 := c.comparatorShape(h)
					if p2 != "" {
						primary = p2
					}
					if t2 {
						tie = true
					}
				}
				if (n == "(time.Time).Before" || n == "(time.Time).After") && len(cl.Call.Args) == 2 {
					_, f0, ok0 := fieldLoad(cl.Call.Args[0])
					_, f1, ok1 := fieldLoad(cl.Call.Args[1])
					if ok0 && ok1 && f0 == "CreatedAt" && f1 == "CreatedAt" {
						m := "Before"
						if strings.HasSuffix(n, "After") {
							m = "After"
						}
						primary = fmt.Sprintf("%s(%s,%s)", m, side(cl.Call.Args[0]), side(cl.Call.Args[1]))
					}
				}
			}
			if b, ok := v.(*ssa.BinOp); ok && b.Op == token.LSS {
				_, f0, ok0 := fieldLoad(b.X)
				_, f1, ok1 := fieldLoad(b.Y)
				if ok0 && ok1 && f0 == "ID" && f1 == "ID" && side(b.X) == "i" && side(b.Y) == "j" {
					tie = true
				}
			}
		}
	}
	// the tie must be recognised as one: `a.CreatedAt == b.CreatedAt` on time.Time compares the wall reading, the
	// monotonic reading and the *Location pointer, not the instant - two equal instants parsed from `Z` and `+00:00`
	// (or from two lines with the same numeric offset: a fresh FixedZone each) are unequal under ==, the id tie-break
	// is skipped and the order of equal instants is whatever the input order (a map) was. Only Equal/Compare decide ties
	eachInstr(lf, func(r instrRef) {
		if b, ok := r.In.(*ssa.BinOp); ok && (b.Op == token.EQL || b.Op == token.NEQ) && namedTypeName(b.X.Type()) == "time.Time" {
			tie = false
		}
	})
	return
}

// ------------------------------------------------------------------ RD2

func ruleRD2(c *Ctx) {
	isReady, isBlocked := c.anchor("isReady"), c.anchor("isBlocked")
	iec, aedc := c.anchor("isEpicComplete"), c.anchor("areEpicDepsComplete")
	if isReady == nil || isBlocked == nil || iec == nil || aedc == nil {
		return
	}
	common := []string{"S==nil", "S.State==todo", "S.ClaimedBy==", "range-ok", "lookup-ok:Tasks", "E.State==done", "E.State==canceled", "S.EpicID==", "call:areEpicDepsComplete"}
	c.checkPred(isReady, predSpec{
		allowed:      common,
		requiredTrue: []string{"S.State==todo:T", "S.ClaimedBy==:T", "range-ok:F"},
		trueAnyOf:    [][]string{{"S.EpicID==:T"}, {"call:areEpicDepsComplete:T"}},
		falseReasons: [][]string{{"S==nil:T"}, {"S.State==todo:F"}, {"S.ClaimedBy==:F"}, {"lookup-ok:Tasks:T", "E.State==done:F", "E.State==canceled:F"}, {"S.EpicID==:F", "call:areEpicDepsComplete:F"}, {"call:areEpicDepsComplete:F"}},
	}, "ready = todo ∧ unclaimed ∧ every found dependency done|canceled ∧ epic deps complete")
	c.checkPred(isBlocked, predSpec{
		allowed: append(append([]string{}, common...), "S.State==blocked"),
		trueReasons: [][]string{{"S.State==blocked:T"},
			{"S.State==todo:T", "S.ClaimedBy==:T", "lookup-ok:Tasks:T", "E.State==done:F", "E.State==canceled:F"},
			{"S.State==todo:T", "S.ClaimedBy==:T", "S.EpicID==:F", "call:areEpicDepsComplete:F"},
			{"S.State==todo:T", "S.ClaimedBy==:T", "call:areEpicDepsComplete:F"}},
		falseReasons: [][]string{{"S==nil:T"}, {"S.State==blocked:F", "S.State==todo:F"}, {"S.State==blocked:F", "S.ClaimedBy==:F"},
			{"S.State==blocked:F", "S.State==todo:T", "S.ClaimedBy==:T", "range-ok:F"}},
	}, "blocked = state blocked, or todo ∧ unclaimed ∧ not ready")
	c.checkPred(iec, predSpec{
		allowed:      []string{"range-ok", "E.EpicID==V", "E.State==done", "E.State==canceled"},
		requiredTrue: []string{"range-ok:F"},
		falseReasons: [][]string{{"E.EpicID==V:T", "E.State==done:F", "E.State==canceled:F"}},
	}, "an epic is complete when every task with that EpicID is done|canceled")
	c.checkPred(aedc, predSpec{
		// (the predicate may be handed the task and answer true at once for a task outside any epic)
		allowed:      []string{"range-ok", "lookup-ok:Tasks", "call:isEpic", "call:isEpicComplete", "S.EpicID=="},
		trueReasons:  [][]string{{"S.EpicID==:T"}, {"range-ok:F"}},
		falseReasons: [][]string{{"lookup-ok:Tasks:T", "call:isEpic:T", "call:isEpicComplete:F"}},
	}, "epic deps are complete when every found dependency of the epic that is an epic is complete")
	// (b) satisfied sets per sibling
	for _, name := range []string{"isReady", "isBlocked", "getBlockers", "isEpicComplete"} {
		f := c.ErgoFn(name)
		if f == nil {
			c.unk("ergo."+name, "b:satisfied-set", "-", "sibling not found")
			continue
		}
		elem, _ := c.elemStateConsts(f)
		for _, g := range Closures(f) {
			e2, _ := c.elemStateConsts(g)
			for k := range e2 {
				elem[k] = true
			}
		}
		// the walk over the dependencies may sit in a helper of its own (areTaskDepsComplete, hasOpenDeps): what the
		// sibling calls, other than the other named predicates, belongs to it
		siblings := map[*ssa.Function]bool{isReady: true, isBlocked: true, iec: true, aedc: true}
		if gb := c.ErgoFn("getBlockers"); gb != nil {
			siblings[gb] = true
		}
		seenH := map[*ssa.Function]bool{f: true}
		var addHelpers func(g *ssa.Function, d int)
		addHelpers = func(g *ssa.Function, d int) {
			for _, call := range callsIn(g) {
				h := calleeOf(call.Common())
				if h == nil || seenH[h] || siblings[h] || !c.InModule(h) || h.Blocks == nil || d > 2 {
					continue
				}
				seenH[h] = true
				e2, _ := c.elemStateConsts(h)
				for k := range e2 {
					elem[k] = true
				}
				addHelpers(h, d+1)
			}
		}
		addHelpers(f, 0)
		c.check(sameSet(elem, "done", "canceled"), c.Name(f), "b:satisfied-set", c.FnPos(f), "dependency-satisfied states are exactly {done, canceled}",
			"the states that satisfy a dependency here are "+setString(elem)+"; the definition says {canceled, done}: ready/blocked/blocker views disagree")
	}
	// the dependency loops range over Deps[task.ID] and the epic loop over Deps[epicID] / all tasks
	rangesOver := func(f0 *ssa.Function, field string, keyField string) bool {
		found := false
		for _, f := range c.predUnit(f0) {
			eachInstr(f, func(r instrRef) {
				rg, ok := r.In.(*ssa.Range)
				if !ok {
					return
				}
				x := resolve(rg.X)
				if keyField == "" {
					if _, n, ok := fieldLoad(x); ok && n == field {
						found = true
					}
					return
				}
				if lk, ok := x.(*ssa.Lookup); ok {
					if _, n, ok := fieldLoad(lk.X); ok && n == field {
						if keyField == "P" {
							if _, ok := resolve(lk.Index).(*ssa.Parameter); ok {
								found = true
							}
							// the predicate is handed the task: the key is that task's EpicID
							if b, kn, ok := fieldLoad(lk.Index); ok && kn == "EpicID" {
								if _, isPrm := resolve(b).(*ssa.Parameter); isPrm {
									found = true
								}
							}
						} else if _, kn, ok := fieldLoad(lk.Index); ok && kn == keyField {
							found = true
						} else if prm, ok := resolve(lk.Index).(*ssa.Parameter); ok {
							// the scan lives in a helper that is handed the key (hasUnfinishedDep(task.ID))
							args := c.argValues(prm.Parent(), paramIndex(prm))
							all := len(args) > 0
							for _, a := range args {
								if _, an, ok := fieldLoad(a); !ok || an != keyField {
									all = false
								}
							}
							if all {
								found = true
							}
						}
					}
				}
			})
		}
		return found
	}
	c.check(rangesOver(isReady, "Deps", "ID"), c.Name(isReady), "a:scans-own-deps", c.FnPos(isReady), "scans graph.Deps[task.ID]", "isReady does not scan graph.Deps[task.ID]")
	c.check(rangesOver(isBlocked, "Deps", "ID"), c.Name(isBlocked), "a:scans-own-deps", c.FnPos(isBlocked), "scans graph.Deps[task.ID]", "isBlocked does not scan graph.Deps[task.ID]")
	c.check(rangesOver(aedc, "Deps", "P"), c.Name(aedc), "d:scans-epic-deps", c.FnPos(aedc), "scans graph.Deps[epicID]", "areEpicDepsComplete does not scan graph.Deps[epicID]")
	c.check(rangesOver(iec, "Tasks", ""), c.Name(iec), "d:scans-all-tasks", c.FnPos(iec), "ranges over all graph.Tasks", "isEpicComplete does not range over all graph.Tasks")
	// areEpicDepsComplete is called with task.EpicID
	for _, f := range []*ssa.Function{isReady, isBlocked} {
		ok := false
		for _, g := range c.predUnit(f) {
			for _, call := range callsTo(g, aedc) {
				for _, a := range call.Common().Args {
					if _, n, okf := fieldLoad(a); okf && n == "EpicID" {
						ok = true
					}
					// handed the task itself (g.epicDepsComplete(task)): the callee reads its EpicID (d:scans-epic-deps)
					if p, isPrm := resolve(a).(*ssa.Parameter); isPrm && namedTypeName(p.Type()) == "ergo.Task" {
						ok = true
					}
				}
			}
		}
		c.check(ok, c.Name(f), "a:epic-deps-of-own-epic", c.FnPos(f), "asks areEpicDepsComplete about task.EpicID", "areEpicDepsComplete is not asked about the task's own EpicID")
	}
	// (d) consumers use the one predicate: the ready/blocked flags of the JSON list and the ready filters call isReady/isBlocked
	for _, name := range []string{"listTasks", "buildTaskListItems", "filterReadyTasks"} {
		f := c.ErgoFn(name)
		if f == nil {
			continue
		}
		uses := false
		for g := range c.F.TransitiveCallees(f) {
			if g == isReady {
				uses = true
			}
		}
		c.check(uses, c.Name(f), "d:uses-isReady", c.FnPos(f), "reaches the one readiness predicate", "does not use isReady: a second definition of readiness")
	}
}

// ------------------------------------------------------------------ RD3

// fieldReadSet: struct fields ("Type.Field") read by f and its module callees.
func (c *Ctx) fieldReadSet(f *ssa.Function) map[string]bool {
	out := map[string]bool{}
	for g := range c.F.TransitiveCallees(f) {
		eachInstr(g, func(r instrRef) {
			switch x := r.In.(type) {
			case *ssa.FieldAddr:
				// reads: the address is loaded somewhere
				for _, u := range *x.Referrers() {
					if ld, ok := u.(*ssa.UnOp); ok && ld.Op == token.MUL {
						_ = ld
						out[namedTypeName(x.X.Type())+"."+fieldName(x.X.Type(), x.Field)] = true
					}
				}
			case *ssa.Field:
				out[namedTypeName(x.X.Type())+"."+fieldName(x.X.Type(), x.Field)] = true
			}
		})
	}
	return out
}

func ruleRD3(c *Ctx) {
	hc, isReady := c.anchor("hasCycle"), c.anchor("isReady")
	if hc == nil || isReady == nil {
		return
	}
	rr := c.fieldReadSet(isReady)
	need := rr["ergo.Task.EpicID"] && rr["ergo.Graph.Deps"]
	if !need {
		c.ok(c.Name(isReady), "readiness-reads", c.FnPos(isReady), "readiness does not inherit epic dependencies; direct-edge cycle guard is sufficient")
		return
	}
	c.ok(c.Name(isReady), "readiness-reads", c.FnPos(isReady), "readiness reads Graph.Deps and Task.EpicID (inherited epic dependencies)")
	hr := c.fieldReadSet(hc)
	c.check(hr["ergo.Task.EpicID"], c.Name(hc), "reads(Task.EpicID)", c.FnPos(hc), "the cycle guard reads epic membership",
		"the cycle guard reads only "+setString(filterPrefix(hr, "ergo."))+": it never reads Task.EpicID, so it cannot exclude a waits-for cycle that goes through epic membership (T1 in E1 after T2 in E2, E2 after E1: nothing ready)")
	// epic assignment and create-in-epic need a cycle guard at all
	for _, em := range c.emissions() {
		if c.isReplayOrCompact(em.Fn) {
			continue
		}
		if em.has("epic") {
			guarded := c.reachedUnderCycleGuard(em, hc)
			c.check(guarded, c.Name(em.Fn), em.construct("epic")+" without cycle guard", c.Pos(em.Call.Pos()), "epic (re)assignment is dominated by a cycle guard",
				"moving a task into an epic changes the effective waits-for relation but no cycle guard dominates it")
		}
		if em.has("new_task") {
			if s, ok := constString(em.Fields["EpicID"]); ok && s == "" && len(em.Stores["EpicID"]) <= 1 {
				continue
			}
			if nsid := c.F.Anchors["newShortID"]; nsid != nil && em.Fields["EpicID"] != nil && valueFromCallTo(em.Fields["EpicID"], nsid) {
				continue // plan: a fresh epic has no dependencies yet
			}
			guarded := c.reachedUnderCycleGuard(em, hc)
			c.check(guarded, c.Name(em.Fn), em.construct("new_task")+" in epic without cycle guard", c.Pos(em.Call.Pos()), "creation inside an epic is dominated by a cycle guard",
				"creating a task inside an epic (with inherited dependencies) is not dominated by any cycle guard")
		}
	}
}

func filterPrefix(m map[string]bool, p string) map[string]bool {
	out := map[string]bool{}
	for k := range m {
		if strings.HasPrefix(k, p) {
			out[strings.TrimPrefix(k, p)] = true
		}
	}
	return out
}

func (c *Ctx) reachedUnderCycleGuard(em *Emission, hc *ssa.Function) bool {
	if mustPassEdges(em.Fn, em.Call.Block(), guardBool(em.Fn, hc, false, nil)) {
		return true
	}
	for _, ch := range c.callbackChains(em.Fn, 4) {
		if !mustPassEdges(ch.Callback, ch.CallInCallback.Block(), guardBool(ch.Callback, hc, false, nil)) {
			return false
		}
	}
	return len(c.callbackChains(em.Fn, 4)) > 0 && false
}

// ------------------------------------------------------------------ VD4

// globalMapLiteral extracts a package-level map literal: key -> set of inner keys (nil inner for flat maps).
func (c *Ctx) globalMapLiteral(name string) (map[string]map[string]bool, bool) {
	init := c.Ergo.Func("init")
	if init == nil {
		return nil, false
	}
	var mm ssa.Value
	eachInstr(init, func(r instrRef) {
		if st, ok := r.In.(*ssa.Store); ok {
			if g, ok := st.Addr.(*ssa.Global); ok && g.Name() == name {
				mm = st.Val
			}
		}
	})
	if mm == nil {
		return nil, false
	}
	out := map[string]map[string]bool{}
	okAll := true
	for _, r := range *mm.Referrers() {
		mu, ok := r.(*ssa.MapUpdate)
		if !ok || mu.Map != mm {
			continue
		}
		k, ok := constString(mu.Key)
		if !ok {
			okAll = false
			continue
		}
		inner := map[string]bool{}
		if im, ok := mu.Value.(*ssa.MakeMap); ok {
			for _, r2 := range *im.Referrers() {
				if mu2, ok := r2.(*ssa.MapUpdate); ok && mu2.Map == ssa.Value(im) {
					if k2, ok := constString(mu2.Key); ok {
						inner[k2] = true
					} else {
						okAll = false
					}
				}
			}
		}
		out[k] = inner
	}
	return out, okAll
}

func keysOf[T any](m map[string]T) map[string]bool {
	out := map[string]bool{}
	for k := range m {
		out[k] = true
	}
	return out
}

// switchTable: the transition table written as a function of the source state: every return hands back a slice literal
// of state constants, selected by equality tests of the (string) parameter.
func (c *Ctx) switchTable(vt *ssa.Function) (map[string]map[string]bool, *ssa.Function) {
	for _, g := range c.predUnit(vt) {
		if g == vt || len(g.Params) != 1 || g.Params[0].Type().String() != "string" {
			continue
		}
		res := g.Signature.Results()
		if res.Len() == 0 || res.At(0).Type().String() != "[]string" {
			continue
		}
		table := map[string]map[string]bool{}
		for _, r := range returnsOf(g) {
			elems, ok := sliceLiteralStrings(returnedValue(r, 0))
			if !ok {
				continue
			}
			for _, bf := range directFacts(g) {
				if bf.A.Kind != "const" || !bf.Holds || resolve(bf.A.X) != ssa.Value(g.Params[0]) {
					continue
				}
				if directCase(g, bf.E, r.Block()) && reach(bf.E.To(), nil, nil)[r.Block()] {
					row := map[string]bool{}
					for _, e := range elems {
						row[e] = true
					}
					table[constStr(bf.A.C)] = row
				}
			}
		}
		if len(table) >= 3 {
			return table, g
		}
	}
	return nil, nil
}

// sliceLiteralStrings: v is a []string{...} literal of constants.
func sliceLiteralStrings(v ssa.Value) ([]string, bool) {
	sl, ok := resolve(v).(*ssa.Slice)
	if !ok {
		return nil, false
	}
	al, ok := sl.X.(*ssa.Alloc)
	if !ok || al.Referrers() == nil {
		return nil, false
	}
	var out []string
	for _, r := range *al.Referrers() {
		ia, ok := r.(*ssa.IndexAddr)
		if !ok || ia.Referrers() == nil {
			continue
		}
		for _, u := range *ia.Referrers() {
			if st, ok := u.(*ssa.Store); ok {
				s, isC := constString(st.Val)
				if !isC {
					return nil, false
				}
				out = append(out, s)
			}
		}
	}
	return out, len(out) > 0
}

// acceptsViaTableFn: the accepting return r of the transition validator is dominated by a successful membership test of
// its `to` parameter in tableFn(from).
func (c *Ctx) acceptsViaTableFn(vt *ssa.Function, r *ssa.Return, tableFn *ssa.Function) bool {
	if len(vt.Params) != 2 {
		return false
	}
	from, to := vt.Params[0], vt.Params[1]
	member := edgesWhere(vt, func(a Atom, holds bool) bool {
		if a.Kind != "bool" || !holds || len(a.Env) > 0 {
			return false
		}
		cl, _ := callOf(a.X)
		if cl == nil || len(cl.Call.Args) != 2 {
			return false
		}
		h := calleeOf(&cl.Call)
		if h == nil {
			return false
		}
		stdContains := false
		if o := h.Origin(); o != nil && o.Pkg != nil && o.Pkg.Pkg.Path() == "slices" && o.Name() == "Contains" {
			stdContains = true
		}
		if !stdContains && (!c.InModule(h) || h.Blocks == nil) {
			return false
		}
		// arguments: the row of `from`, and `to`
		tc, idx := callOf(cl.Call.Args[0])
		if tc == nil || calleeOf(&tc.Call) != tableFn || idx > 0 || len(tc.Call.Args) != 1 || resolve(tc.Call.Args[0]) != ssa.Value(from) {
			return false
		}
		if resolve(cl.Call.Args[1]) != ssa.Value(to) {
			return false
		}
		// the helper is a membership test: it answers true only on an equality of an element with its second parameter
		okEq := stdContains
		for _, hr := range returnsOf(h) {
			if stdContains {
				break
			}
			if b, isC := constBool(returnedValue(hr, 0)); !isC || !b {
				continue
			}
			for _, bf := range directFacts(h) {
				if bf.A.Kind == "cmp" && bf.Holds && bf.A.Op == token.EQL && mustPassEdges(h, hr.Block(), map[edge]bool{bf.E: true}) {
					if resolve(bf.A.X) == ssa.Value(h.Params[1]) || resolve(bf.A.Y) == ssa.Value(h.Params[1]) {
						okEq = true
					}
				}
			}
		}
		return okEq
	})
	return len(member) > 0 && mustPassEdges(vt, r.Block(), member)
}

func ruleVD4(c *Ctx) {
	vs, ok1 := c.globalMapLiteral("validStates")
	vtb, ok2 := c.globalMapLiteral("validTransitions")
	var tableFn *ssa.Function
	if !ok2 || len(vtb) == 0 {
		// the table may be written as a function: switch from { case a: return []string{...}, true ... }
		if vt := c.F.Anchors["validateTransition"]; vt != nil {
			vtb, tableFn = c.switchTable(vt)
			ok2 = tableFn != nil
		}
	}
	if (!ok1 || len(vs) == 0) && ok2 {
		// the state set as a predicate function (isValidState): taken from the rows of the transition table, which
		// "rows=states" and "six-states" then pin down
		vs = map[string]map[string]bool{}
		for k := range vtb {
			vs[k] = nil
		}
		ok1 = true
	}
	if !ok1 || !ok2 || len(vs) == 0 || len(vtb) == 0 {
		c.unk("ergo.init", "tables", "-", "validStates / validTransitions literals not extractable")
		return
	}
	six := []string{"todo", "doing", "done", "blocked", "canceled", "error"}
	c.check(sameSet(keysOf(vs), six...), "ergo.validStates", "six-states", "-", "validStates = "+setString(keysOf(vs)), "validStates is "+setString(keysOf(vs))+", the property names six states "+fmt.Sprint(six))
	c.check(setString(keysOf(vtb)) == setString(keysOf(vs)), "ergo.validTransitions", "rows=states", "-", "every state has a transition row", "validTransitions rows "+setString(keysOf(vtb))+" differ from validStates "+setString(keysOf(vs)))
	badT := ""
	for from, tos := range vtb {
		for to := range tos {
			if _, ok := vs[to]; !ok {
				badT = from + "->" + to
			}
		}
	}
	c.check(badT == "", "ergo.validTransitions", "targets-valid", "-", "every transition target is a valid state", "transition "+badT+" targets an unknown state")
	// rows the spec states explicitly (docs/spec.md; property: done/canceled reopen only)
	docRows := map[string][]string{"done": {"todo"}, "canceled": {"todo"}, "error": {"todo", "doing", "canceled"},
		"todo": {"doing", "done", "blocked", "canceled"}, "doing": {"todo", "done", "blocked", "canceled", "error"}, "blocked": {"todo", "doing", "done", "canceled"}}
	var froms []string
	for k := range docRows {
		froms = append(froms, k)
	}
	sort.Strings(froms)
	for _, from := range froms {
		c.check(sameSet(vtb[from], docRows[from]...), "ergo.validTransitions", "row "+from, "-", from+" -> "+setString(vtb[from]),
			"row "+from+" is "+setString(vtb[from])+", documented table says "+fmt.Sprint(docRows[from]))
	}
	// validateTransition: from==to allowed; lookup validTransitions[from] then [to]; nil only on those
	if vt := c.anchor("validateTransition"); vt != nil {
		fn := c.Name(vt)
		okShape := true
		why := ""
		for _, r := range returnsOf(vt) {
			if len(r.Results) != 1 || !isNilConst(r.Results[0]) {
				continue
			}
			facts := c.domFacts(vt, r.Block())
			if facts["P==P:T"] {
				continue
			}
			hasRow, hasCol := false, false
			for f := range facts {
				if strings.HasPrefix(f, "lookup-ok") && strings.HasSuffix(f, ":T") {
					if !hasRow {
						hasRow = true
					} else {
						hasCol = true
					}
				}
			}
			// both lookups (row and column) must have succeeded
			n := 0
			for _, bf := range branchFacts(vt) {
				curEnv = bf.A.Env
				if bf.Holds && strings.HasPrefix(c.atomLabel(bf.A), "lookup-ok") && mustPassEdges(vt, r.Block(), map[edge]bool{bf.E: true}) {
					n++
				}
			}
			if n < 2 && tableFn != nil && c.acceptsViaTableFn(vt, r, tableFn) {
				n = 2
			}
			if n < 2 {
				okShape = false
				why = "an accepting return does not require both validTransitions[from] and [to] lookups to succeed; facts: " + factList(facts)
			}
			_ = hasCol
		}
		// the table consulted is validTransitions
		usesTable := false
		eachInstr(vt, func(r instrRef) {
			if u, ok := r.In.(*ssa.UnOp); ok && u.Op == token.MUL {
				if g, ok := u.X.(*ssa.Global); ok && g.Name() == "validTransitions" {
					usesTable = true
				}
			}
		})
		if tableFn != nil && len(callsTo(vt, tableFn)) > 0 {
			usesTable = true
		}
		c.check(okShape && usesTable, fn, "consults-table", c.FnPos(vt), "accepts only from==to or validTransitions[from][to] present", strings.TrimSpace(why+fmt.Sprintf(" usesTable=%v", usesTable)))
	}
	// claim tables
	var clears, mustUnclaimed, needsClaim, implicit, clearedInBuilder map[string]bool
	clears = c.replayClearingStates()
	if vci := c.anchor("validateClaimInvariant"); vci != nil {
		mustUnclaimed, needsClaim = map[string]bool{}, map[string]bool{}
		for _, r := range returnsOf(vci) {
			if len(r.Results) != 1 || isNilConst(r.Results[0]) {
				continue
			}
			facts := c.domFacts(vci, r.Block())
			// a predicate helper with several ways to hold (stateForbidsClaim(state)): each way is an alternative set of
			// facts; the state constants of all alternatives count for this return
			for _, bf := range branchFacts(vci) {
				if len(bf.Alts) == 0 || !mustPassEdges(vci, r.Block(), map[edge]bool{bf.E: true}) {
					continue
				}
				for _, alt := range bf.Alts {
					for _, fa := range alt {
						curEnv = fa.A.Env
						if c.seenThrough(fa.A) {
							continue
						}
						tf := "F"
						if fa.Holds {
							tf = "T"
						}
						if fa.A.Kind == "const" && fa.Holds {
							facts[c.atomLabel(fa.A)+":"+tf] = true
						}
					}
				}
				curEnv = nil
			}
			// which state constants (P==x:T) and which claim polarity (P==:T means claimedBy=="")
			var states []string
			claimEmpty, claimSet := false, false
			for f := range facts {
				if strings.HasPrefix(f, "P==") && strings.HasSuffix(f, ":T") {
					s := strings.TrimSuffix(strings.TrimPrefix(f, "P=="), ":T")
					if s == "" {
						claimEmpty = true
					} else {
						states = append(states, s)
					}
				}
				if f == "P==:F" {
					claimSet = true
				}
			}
			// a switch with several labels: the state constants reaching this return
			if len(states) == 0 {
				for _, bf := range branchFacts(vci) {
					curEnv = bf.A.Env
					if bf.A.Kind == "const" && bf.Holds && constStr(bf.A.C) != "" && reach(bf.E.To(), nil, nil)[r.Block()] {
						// only edges whose target leads to this return without passing another state test's true edge
						if directCase(vci, bf.E, r.Block()) {
							states = append(states, constStr(bf.A.C))
						}
					}
				}
			}
			for _, s := range states {
				if claimEmpty {
					needsClaim[s] = true
				}
				if claimSet {
					mustUnclaimed[s] = true
				}
			}
		}
	}
	if bse := c.anchor("buildSetEvents"); bse != nil {
		implicit, clearedInBuilder = map[string]bool{}, map[string]bool{}
		// implicit-claim trigger: constants compared with the looked-up "state" value on edges dominating the store updates["claim"]=agentID
		eachInstr(bse, func(r instrRef) {
			mu, ok := r.In.(*ssa.MapUpdate)
			if !ok {
				return
			}
			if k, ok := constString(mu.Key); !ok || k != "claim" {
				return
			}
			for _, bf := range branchFacts(bse) {
				if !bf.Holds && len(bf.Alts) == 0 {
					continue
				}
				if !(reach(bf.E.To(), nil, nil)[r.Blk] && directCase(bse, bf.E, r.Blk)) {
					continue
				}
				atoms := []factAtom{{bf.A, bf.Holds}}
				for _, alt := range bf.Alts {
					atoms = append(atoms, alt...)
				}
				for _, fa := range atoms {
					if fa.A.Kind == "const" && fa.Holds && constStr(fa.A.C) != "" {
						if k, _ := lookupKeyOf(resolveEnv(fa.A.X, fa.A.Env)); k == "state" {
							implicit[constStr(fa.A.C)] = true
						}
					}
				}
			}
		})
		// cleared-claim set: constants on equality edges leading to the phi edge that sets newClaimedBy = ""
		vci := c.F.Anchors["validateClaimInvariant"]
		for _, call := range callsTo(bse, vci) {
			// the places where the claimant handed to the invariant is the empty constant: a phi edge in the builder,
			// or a `return ""` of the private helper that computes it
			type emptySite struct {
				f      *ssa.Function
				intoBy func(e edge) bool
				bind   env
			}
			var sites []emptySite
			var collect func(f *ssa.Function, v ssa.Value, bind env, d int)
			collect = func(f *ssa.Function, v ssa.Value, bind env, d int) {
				switch x := v.(type) {
				case *ssa.Phi:
					for i, e := range x.Edges {
						if s, isC := constString(e); !isC || s != "" {
							continue
						}
						pred, blk := x.Block().Preds[i], x.Block()
						sites = append(sites, emptySite{f, func(e edge) bool { return e.To() == pred || e.To() == blk && e.From == pred }, bind})
					}
				case *ssa.Call:
					g := calleeOf(x.Common())
					if g == nil || !c.InModule(g) || g.Blocks == nil || d > 1 || g.Signature.Results().Len() != 1 {
						return
					}
					inner := env{}
					for i, prm := range g.Params {
						if i < len(x.Common().Args) {
							inner[prm] = resolveEnv(x.Common().Args[i], bind)
						}
					}
					for _, blk := range g.Blocks {
						ret, ok := blk.Instrs[len(blk.Instrs)-1].(*ssa.Return)
						if !ok || len(ret.Results) != 1 {
							continue
						}
						if s, isC := constString(ret.Results[0]); isC && s == "" {
							b := blk
							sites = append(sites, emptySite{g, func(e edge) bool { return e.To() == b }, inner})
						} else {
							collect(g, ret.Results[0], inner, d+1)
						}
					}
				}
			}
			collect(bse, call.Common().Args[1], env{}, 0)
			for _, st := range sites {
				for _, bf := range branchFacts(st.f) {
					if !st.intoBy(bf.E) {
						continue
					}
					atoms := []factAtom{{bf.A, bf.Holds}}
					for _, alt := range bf.Alts {
						atoms = append(atoms, alt...)
					}
					for _, fa := range atoms {
						if fa.A.Kind == "const" && fa.Holds && constStr(fa.A.C) != "" {
							if k, _ := lookupKeyOf(resolveEnv(resolveEnv(fa.A.X, fa.A.Env), st.bind)); k == "state" {
								clearedInBuilder[constStr(fa.A.C)] = true
							}
						}
					}
				}
			}
		}
	}
	type cmp struct {
		name string
		got  map[string]bool
		want []string
		bad  string
	}
	for _, x := range []cmp{
		{"replay-clears-claim", clears, []string{"todo", "done", "canceled"}, "replay clears the claimant on"},
		{"invariant-must-be-unclaimed", mustUnclaimed, []string{"todo", "done", "canceled"}, "validateClaimInvariant requires no claimant for"},
		{"builder-assumes-cleared", clearedInBuilder, []string{"todo", "done", "canceled"}, "buildSetEvents assumes the claim is cleared for"},
		{"invariant-needs-claim", needsClaim, []string{"doing", "error"}, "validateClaimInvariant requires a claimant for"},
		{"implicit-claim-trigger", implicit, []string{"doing", "error"}, "the implicit claim is triggered by"},
	} {
		if x.got == nil {
			c.unk("<tables>", x.name, "-", "table not extractable")
			continue
		}
		c.check(sameSet(x.got, x.want...), "<tables>", x.name, "-", x.name+" = "+setString(x.got),
			fmt.Sprintf("%s %s, the property and the sibling tables say %v: a validated request replays into an invalid (state, claimant) pair", x.bad, setString(x.got), x.want))
	}
}

// sameCase: blk is reached from `from` without passing through another block that tests Event.Type (i.e. same switch case).
func sameCase(from, blk *ssa.BasicBlock) bool {
	return from.Dominates(blk) || from == blk
}

// directCase: the edge's target reaches blk without traversing the holding edge of another constant test on the same value.
func directCase(f *ssa.Function, e edge, blk *ssa.BasicBlock) bool {
	if e.To() == blk {
		return true
	}
	removed := map[edge]bool{}
	for _, bf := range branchFacts(f) {
		curEnv = bf.A.Env
		if bf.A.Kind == "const" && bf.Holds && bf.E != e {
			removed[bf.E] = true
		}
	}
	return reach(e.To(), removed, nil)[blk]
}

// replayClearingStates: the NewState constants on whose equality edge replay stores "" into ClaimedBy
// (nil when replay is not found).
func (c *Ctx) replayClearingStates() map[string]bool {
	re := c.anchor("replayEvents")
	if re == nil {
		return nil
	}
	clears := map[string]bool{}
	{
		replayFns := []*ssa.Function{re}
		if rm := c.replay(); rm != nil {
			replayFns = rm.EffectFns
		}
		for _, re := range replayFns {
			eachInstr(re, func(r instrRef) {
				st, ok := r.In.(*ssa.Store)
				if !ok {
					return
				}
				fa, ok := st.Addr.(*ssa.FieldAddr)
				if !ok || fieldName(fa.X.Type(), fa.Field) != "ClaimedBy" || constStr(st.Val) != "" {
					return
				}
				if s, isC := constString(st.Val); !isC || s != "" {
					return
				}
				// constants of NewState equality edges that can lead here (directly, or as alternatives of a predicate helper)
				for _, bf := range branchFacts(re) {
					if !(bf.E.To() == r.Blk || reach(bf.E.To(), nil, nil)[r.Blk] && sameCase(bf.E.To(), r.Blk)) {
						continue
					}
					atoms := []factAtom{{bf.A, bf.Holds}}
					for _, alt := range bf.Alts {
						atoms = append(atoms, alt...)
					}
					for _, fa := range atoms {
						curEnv = fa.A.Env
						if fa.A.Kind == "const" && fa.Holds {
							if _, n, ok := fieldLoad(fa.A.X); ok && n == "NewState" {
								clears[constStr(fa.A.C)] = true
							}
						}
					}
					curEnv = nil
				}
			})
		}
	}
	return clears
}
