package main

// OU15: standard input is consumed once.

import (
	"fmt"
	"sort"
	"strings"

	"golang.org/x/tools/go/ssa"
)

func init() {
	register(&Rule{ID: "OU15", Min: 2, Run: ruleOU15,
		Doc: "stdin-read-once: titles, bodies and JSON documents arrive on standard input, which can be read only once per process. No call that can reach a read of os.Stdin sits in a loop (a retry wrapper that re-runs the whole command finds stdin at EOF the second time and records an empty body or rejects the input), and no function reads it twice on one path. Decided on the module call graph (static calls, closures, function values handed to module functions) and the CFG of each function"})
}

func ruleOU15(c *Ctx) {
	// functions that read os.Stdin themselves
	readers := map[*ssa.Function]bool{}
	for _, f := range c.Fns {
		if !c.InModule(f) || f.Blocks == nil {
			continue
		}
		for _, call := range callsIn(f) {
			for _, a := range call.Common().Args {
				if isGlobalLoad(a, "Stdin") {
					switch calleeFullName(call.Common()) {
					case "io.ReadAll", "io.Copy", "io.ReadFull", "bufio.NewReader", "bufio.NewReaderSize", "bufio.NewScanner", "encoding/json.NewDecoder", "io.LimitReader", "io.TeeReader":
						readers[f] = true
					}
				}
			}
			// os.Stdin.Read(...)
			if n := calleeFullName(call.Common()); n == "(*os.File).Read" && len(call.Common().Args) > 0 && isGlobalLoad(call.Common().Args[0], "Stdin") {
				readers[f] = true
			}
		}
	}
	if len(readers) == 0 {
		c.bad("<module>", "stdin-readers", "-", "no read of os.Stdin found in the module (input parsers gone?)")
		return
	}
	// functions from which a reader is reachable. Building a command object is not running it: a closure that is only
	// stored into a field of a cobra.Command (RunE: func(...) {...}) is reached by cobra's Execute, not by the
	// constructor that registers it
	handlers := c.cobraHandlers()
	registration := func(from *ssa.Function, e cgEdge) bool {
		return (e.Kind == "closure" || e.Kind == "funcvalue") && handlers[e.To] && c.registeredOnly(e.Site, e.To)
	}
	canRead := map[*ssa.Function]bool{}
	for _, f := range c.Fns {
		if !c.InModule(f) || f.Blocks == nil {
			continue
		}
		seen, _ := c.F.Reach([]*ssa.Function{f}, registration)
		for r := range readers {
			if seen[r] {
				canRead[f] = true
			}
		}
	}
	var rs []*ssa.Function
	for r := range readers {
		rs = append(rs, r)
	}
	sort.Slice(rs, func(i, j int) bool { return c.Name(rs[i]) < c.Name(rs[j]) })
	for _, r := range rs {
		c.ok(c.Name(r), "reads-stdin", c.FnPos(r), "reads os.Stdin")
	}
	nBad := 0
	for _, f := range c.Fns {
		if !c.InModule(f) || f.Blocks == nil {
			continue
		}
		// the callees of each call site, as the call graph sees them
		type site struct {
			in      ssa.Instruction
			callees []*ssa.Function
		}
		bySite := map[ssa.Instruction][]*ssa.Function{}
		for _, e := range c.F.succ[f] {
			if e.Site == nil || e.Kind == "closure" || e.To == nil || !canRead[e.To] {
				continue
			}
			if _, isCall := e.Site.(ssa.CallInstruction); !isCall {
				continue // a function value stored or registered (cobra's RunE), not a call made here
			}
			bySite[e.Site] = append(bySite[e.Site], e.To)
		}
		// running the command tree runs whichever handler was registered
		for _, call := range callsIn(f) {
			switch calleeFullName(call.Common()) {
			case "(*github.com/spf13/cobra.Command).Execute", "(*github.com/spf13/cobra.Command).ExecuteC", "(*github.com/spf13/cobra.Command).ExecuteContext", "(*github.com/spf13/cobra.Command).ExecuteContextC":
				var hs []*ssa.Function
				for h := range handlers {
					if canRead[h] {
						hs = append(hs, h)
					}
				}
				sort.Slice(hs, func(i, j int) bool { return c.Name(hs[i]) < c.Name(hs[j]) })
				if len(hs) > 0 {
					bySite[call] = append(bySite[call], hs...)
				}
			}
		}
		// calls of a func-typed parameter (retry(run func() error) { ... run() ... }): the functions its callers hand in
		for _, call := range callsIn(f) {
			prm, ok := resolve(call.Common().Value).(*ssa.Parameter)
			if !ok || call.Common().IsInvoke() || prm.Parent() != f {
				continue
			}
			idx := paramIndex(prm)
			for _, cs := range c.callers[f] {
				if idx < 0 || idx >= len(cs.Call.Common().Args) {
					continue
				}
				for _, fv := range funcValuesOf(cs.Call.Common().Args[idx], 0) {
					if canRead[fv] {
						bySite[call] = append(bySite[call], fv)
					}
				}
			}
		}
		var sites []site
		for in, cs := range bySite {
			sites = append(sites, site{in, cs})
		}
		sort.Slice(sites, func(i, j int) bool { return sites[i].in.Pos() < sites[j].in.Pos() })
		k := 0
		for i, s := range sites {
			if s.in.Block() != nil && inCycle(s.in.Block()) {
				k++
				nBad++
				c.bad(c.Name(f), fmt.Sprintf("stdin-read-in-loop#%d", k), c.Pos(s.in.Pos()),
					"this call sits in a loop and can reach a read of os.Stdin (through "+c.Name(s.callees[0])+"): the second iteration finds standard input at EOF - a body or document supplied on stdin is lost or rejected on the retry")
			}
			for _, t := range sites[i+1:] {
				if s.in != t.in && canReachInstr(s.in, t.in) {
					k++
					nBad++
					c.bad(c.Name(f), fmt.Sprintf("stdin-read-twice#%d", k), c.Pos(t.in.Pos()),
						"standard input can be read a second time on one path (after "+c.Pos(s.in.Pos())+"): the second read finds EOF")
				}
			}
		}
	}
	c.check(nBad == 0, "<module>", "stdin-read-once", "-", fmt.Sprintf("%d function(s) read os.Stdin; no call that reaches them sits in a loop or follows another on one path", len(readers)), "see the individual sites")
}

// cobraHandlers: the module functions stored into a func-typed field of a cobra.Command (Run, RunE, PreRunE, ...),
// directly or through a table of command specifications.
func (c *Ctx) cobraHandlers() map[*ssa.Function]bool {
	out := map[*ssa.Function]bool{}
	for _, r := range c.cobraRegistrations() {
		out[r.Fn] = true
	}
	return out
}

// registeredOnly: the function value made at site is used for nothing but being stored into a cobra.Command field.
func (c *Ctx) registeredOnly(site ssa.Instruction, g *ssa.Function) bool {
	var v ssa.Value
	switch x := site.(type) {
	case *ssa.MakeClosure:
		v = x
	case *ssa.Store:
		fa, ok := x.Addr.(*ssa.FieldAddr)
		return ok && strings.HasSuffix(namedTypeName(fa.X.Type()), "cobra.Command")
	default:
		return false
	}
	if v.Referrers() == nil {
		return false
	}
	for _, r := range *v.Referrers() {
		switch x := r.(type) {
		case *ssa.DebugRef:
		case *ssa.Store:
			fa, ok := x.Addr.(*ssa.FieldAddr)
			if !ok || x.Val != v || !strings.HasSuffix(namedTypeName(fa.X.Type()), "cobra.Command") {
				return false
			}
		case *ssa.ChangeType, *ssa.MakeInterface:
			return false
		default:
			return false
		}
	}
	return true
}
