package main

// Fact bases (DESIGN.md section 3): effect classification of external calls, roles derived
// from effects (lock primitive, commit primitives, chooser, entry points), the module-local
// call graph, and the named domain anchors with a structural sanity check each.

import (
	"fmt"
	"go/constant"
	"go/types"
	"sort"
	"strings"

	"golang.org/x/tools/go/ssa"
)

type Effect struct {
	Class string // see classifyCall
	Call  ssa.CallInstruction
	Fn    *ssa.Function
	Path  ssa.Value // path or handle operand, when there is one
}

type lockSite struct {
	Fn       *ssa.Function
	Call     ssa.CallInstruction
	Callback *ssa.Function // nil if not a closure / named function
	Ordinal  int           // 1-based, source order within Fn
	// the lock path and lock type operands. For a direct call of the lock primitive they are its arguments; for a call
	// of a lock wrapper (withStoreLock(dir, fn) { return withLock(Join(dir,"lock"), LOCK_EX, fn) }) they are the
	// wrapper's operands, to be read with the wrapper's parameters bound to this call's arguments (WEnv).
	PathArg, TypeArg ssa.Value
	WEnv             env
	Wrapper          *ssa.Function
}

type Facts struct {
	osConst      map[string]int64 // O_TRUNC ... from the analysed platform's os package
	sysConst     map[string]int64 // LOCK_EX, LOCK_SH, LOCK_NB, LOCK_UN
	Effects      []Effect         // all classified external call sites in module functions
	byCall       map[ssa.CallInstruction]*Effect
	LockPrim     *ssa.Function
	LockPrims    []*ssa.Function // every function that acquires flock and invokes a func parameter (normally one)
	LockSites    []lockSite
	LockWrappers map[*ssa.Function]bool // functions that forward a func parameter of theirs to the lock primitive
	Callbacks    map[*ssa.Function]*lockSite
	Chooser      *ssa.Function
	Entries      []*ssa.Function // internal/ergo functions called from package main
	Roots        []*ssa.Function // entries + remaining exported functions + everything in main
	succ         map[*ssa.Function][]cgEdge
	Anchors      map[string]*ssa.Function
	Problems     []string
}

type cgEdge struct {
	To   *ssa.Function
	Site ssa.Instruction
	Kind string // "call", "closure", "lock-callback", "funcvalue", "invoke"
}

func pkgConst(p *Prog, pkgPath, name string) (int64, bool) {
	var found *types.Package
	for _, sp := range p.SSA.AllPackages() {
		if sp.Pkg.Path() == pkgPath {
			found = sp.Pkg
		}
	}
	if found == nil {
		return 0, false
	}
	o := found.Scope().Lookup(name)
	c, ok := o.(*types.Const)
	if !ok {
		return 0, false
	}
	v, ok := constant.Int64Val(constant.ToInt(c.Val()))
	return v, ok
}

// classifyCall gives the effect class of an external (non-module) callee, or "".
func (f *Facts) classifyCall(c ssa.CallInstruction) (class string, path ssa.Value) {
	cc := c.Common()
	name := calleeFullName(cc)
	arg := func(i int) ssa.Value {
		if i < len(cc.Args) {
			return cc.Args[i]
		}
		return nil
	}
	switch name {
	case "os.OpenFile":
		fl, ok := constInt(arg(1))
		if !ok {
			return "nonconst-open", arg(0)
		}
		return f.openClass(fl), arg(0)
	case "syscall.Open":
		fl, ok := constInt(arg(1))
		if !ok {
			return "nonconst-open", arg(0)
		}
		return "sys-" + f.openClass(fl), arg(0)
	case "os.Open":
		return "read-open", arg(0)
	case "os.Create", "os.WriteFile", "io/ioutil.WriteFile":
		return "trunc-open", arg(0)
	case "os.Rename":
		return "rename", arg(1)
	case "os.Remove", "os.RemoveAll":
		return "remove", arg(0)
	case "os.Truncate":
		return "truncate", arg(0)
	case "(*os.File).Truncate":
		return "truncate", arg(0)
	case "os.Link", "os.Symlink":
		return "link", arg(1)
	case "os.Chmod", "os.Chown", "os.Chtimes", "os.Lchown":
		return "chmeta", arg(0)
	case "os.MkdirAll", "os.Mkdir", "os.MkdirTemp":
		return "mkdir", arg(0)
	case "os.CreateTemp", "io/ioutil.TempFile":
		return "trunc-open", arg(0)
	case "(*os.File).Write", "(*os.File).WriteString", "(*os.File).WriteAt", "(*os.File).ReadFrom":
		return "handle-write", arg(0)
	case "(*bufio.Writer).Write", "(*bufio.Writer).WriteString", "(*bufio.Writer).WriteByte", "(*bufio.Writer).WriteRune", "(*bufio.Writer).ReadFrom":
		return "buf-write", arg(0)
	case "(*bufio.Writer).Flush":
		return "buf-flush", arg(0)
	case "(*os.File).Sync":
		return "sync", arg(0)
	case "(*os.File).Close":
		return "close", arg(0)
	case "syscall.Flock":
		return "flock", arg(0)
	case "syscall.Close":
		return "sys-close", arg(0)
	case "syscall.Write", "syscall.Pwrite", "syscall.Ftruncate", "syscall.Unlink", "syscall.Rename", "syscall.Truncate":
		return "forbidden", arg(0)
	case "os.Exit":
		return "exit", nil
	case "log.Fatal", "log.Fatalf", "log.Fatalln", "log.Panic", "log.Panicf", "log.Panicln":
		return "exit", nil
	}
	if strings.HasPrefix(name, "os/exec.") || strings.HasPrefix(name, "(*os/exec.") ||
		strings.HasPrefix(name, "syscall.Syscall") || strings.HasPrefix(name, "syscall.RawSyscall") ||
		strings.HasPrefix(name, "os.StartProcess") || strings.HasPrefix(name, "syscall.ForkExec") || strings.HasPrefix(name, "syscall.Exec") ||
		strings.HasPrefix(name, "unsafe.") || strings.HasPrefix(name, "plugin.") {
		return "forbidden", nil
	}
	return "", nil
}

func (f *Facts) openClass(fl int64) string {
	o := f.osConst
	switch {
	case fl&o["O_TRUNC"] != 0:
		return "trunc-open"
	case fl&o["O_APPEND"] != 0:
		return "append-open"
	case fl&(o["O_WRONLY"]|o["O_RDWR"]) != 0 && fl&o["O_CREATE"] != 0:
		return "create-open"
	case fl&(o["O_WRONLY"]|o["O_RDWR"]) != 0:
		return "write-open"
	case fl&o["O_CREATE"] != 0:
		return "create-open"
	}
	return "read-open"
}

// contentMutator: classes that can change or destroy bytes of an existing file.
func contentMutator(class string) bool {
	switch class {
	case "trunc-open", "append-open", "write-open", "nonconst-open", "rename", "remove", "truncate", "link", "chmeta",
		"sys-trunc-open", "sys-append-open", "sys-write-open", "forbidden":
		return true
	}
	return false
}

// acquireWrapper: h is a helper that makes the one acquiring Flock call on a descriptor it is given and reports the
// outcome as its error result; returns that Flock call (nil otherwise).
func (f *Facts) acquireWrapper(h *ssa.Function) *ssa.Call {
	if h == nil || h.Blocks == nil || h.Parent() != nil {
		return nil
	}
	res := h.Signature.Results()
	if res.Len() != 1 || res.At(0).Type().String() != "error" {
		return nil
	}
	var raw *ssa.Call
	for _, c := range callsIn(h) {
		cc := c.Common()
		if prm, ok := cc.Value.(*ssa.Parameter); ok && !cc.IsInvoke() {
			if _, isSig := prm.Type().Underlying().(*types.Signature); isSig {
				return nil // it runs a callback itself: that is a lock primitive, not a wrapper
			}
		}
		if calleeFullName(cc) != "syscall.Flock" || len(cc.Args) != 2 {
			continue
		}
		if op, ok := constInt(cc.Args[1]); ok && op == f.sysConst["LOCK_UN"] {
			return nil // releases: not a pure acquire wrapper
		}
		cv, ok := c.(*ssa.Call)
		if !ok || raw != nil {
			return nil
		}
		raw = cv
	}
	if raw == nil {
		return nil
	}
	if _, isParam := resolve(raw.Call.Args[0]).(*ssa.Parameter); !isParam {
		return nil
	}
	return raw
}

// isLockFn: the lock primitive or one of its wrappers.
func (f *Facts) isLockFn(g *ssa.Function) bool {
	return g != nil && (g == f.LockPrim || f.LockWrappers[g])
}

func computeFacts(p *Prog) (*Facts, error) {
	f := &Facts{osConst: map[string]int64{}, sysConst: map[string]int64{}, byCall: map[ssa.CallInstruction]*Effect{},
		Callbacks: map[*ssa.Function]*lockSite{}, succ: map[*ssa.Function][]cgEdge{}, Anchors: map[string]*ssa.Function{}}
	for _, n := range []string{"O_RDONLY", "O_WRONLY", "O_RDWR", "O_APPEND", "O_CREATE", "O_TRUNC", "O_EXCL"} {
		v, ok := pkgConst(p, "os", n)
		if !ok {
			f.Problems = append(f.Problems, "os."+n+" not found")
		}
		f.osConst[n] = v
	}
	for _, n := range []string{"LOCK_EX", "LOCK_SH", "LOCK_NB", "LOCK_UN"} {
		v, ok := pkgConst(p, "syscall", n)
		if !ok {
			f.Problems = append(f.Problems, "syscall."+n+" not found")
		}
		f.sysConst[n] = v
	}
	// effects
	for _, fn := range p.Fns {
		for _, c := range callsIn(fn) {
			if cal := calleeOf(c.Common()); cal != nil && p.InModule(cal) {
				continue
			}
			if cl, path := f.classifyCall(c); cl != "" {
				f.Effects = append(f.Effects, Effect{Class: cl, Call: c, Fn: fn, Path: path})
			}
		}
	}
	for i := range f.Effects {
		f.byCall[f.Effects[i].Call] = &f.Effects[i]
	}
	// lock primitive: calls Flock with an op that is not the constant LOCK_UN, and invokes a func-typed parameter
	for _, fn := range p.Fns {
		acquires, callsParam := false, false
		for _, c := range callsIn(fn) {
			cc := c.Common()
			if calleeFullName(cc) == "syscall.Flock" && len(cc.Args) == 2 {
				if op, ok := constInt(cc.Args[1]); !ok || op != f.sysConst["LOCK_UN"] {
					acquires = true
				}
			}
			if h := calleeOf(cc); h != nil && p.InModule(h) && f.acquireWrapper(h) != nil {
				acquires = true // the flock attempt lives in a small helper (tryFlock(fd, lockType) error)
			}
			if prm, ok := cc.Value.(*ssa.Parameter); ok && !cc.IsInvoke() {
				if _, isSig := prm.Type().Underlying().(*types.Signature); isSig {
					callsParam = true
				}
			}
		}
		if acquires && callsParam {
			if f.LockPrim != nil {
				f.Problems = append(f.Problems, "more than one lock primitive: "+p.Name(f.LockPrim)+", "+p.Name(fn))
			}
			f.LockPrims = append(f.LockPrims, fn)
			f.LockPrim = fn
		}
	}
	if f.LockPrim == nil {
		f.Problems = append(f.Problems, "no lock primitive found (a function that acquires flock and invokes a func parameter)")
	}
	// lock sites
	if f.LockPrim != nil {
		cbIdx := -1
		for i, prm := range f.LockPrim.Params {
			if _, isSig := prm.Type().Underlying().(*types.Signature); isSig {
				cbIdx = i
			}
		}
		for _, fn := range p.Fns {
			cs := callsTo(fn, f.LockPrim)
			sourceOrder(cs)
			for i, c := range cs {
				ls := lockSite{Fn: fn, Call: c, Ordinal: i + 1}
				if cbIdx >= 0 && cbIdx < len(c.Common().Args) {
					switch cb := strip(c.Common().Args[cbIdx]).(type) {
					case *ssa.MakeClosure:
						ls.Callback = cb.Fn.(*ssa.Function)
						if m := p.boundMethod[ls.Callback]; m != nil {
							ls.Callback = m // a bound method value: the method body is the critical section
						}
					case *ssa.Function:
						ls.Callback = cb
					}
				}
				if len(c.Common().Args) >= 2 {
					ls.PathArg, ls.TypeArg = c.Common().Args[0], c.Common().Args[1]
				}
				f.LockSites = append(f.LockSites, ls)
			}
		}
		// lock wrappers: a function that hands one of its own func parameters to the primitive. Its call sites are the
		// lock sites; the call inside it is not a section of its own.
		f.LockWrappers = map[*ssa.Function]bool{}
		var sites []lockSite
		for _, ls := range f.LockSites {
			prm, isPrm := (ssa.Value)(nil), false
			if ls.Callback == nil && cbIdx >= 0 && cbIdx < len(ls.Call.Common().Args) {
				var pp *ssa.Parameter
				pp, isPrm = resolve(ls.Call.Common().Args[cbIdx]).(*ssa.Parameter)
				if isPrm && pp.Parent() == ls.Fn {
					prm = pp
				} else {
					isPrm = false
				}
			}
			if !isPrm || ls.Fn.Parent() != nil || len(p.callers[ls.Fn]) == 0 {
				sites = append(sites, ls)
				continue
			}
			w := ls.Fn
			f.LockWrappers[w] = true
			pidx := paramIndex(prm.(*ssa.Parameter))
			byFn := map[*ssa.Function]int{}
			for _, cs := range p.callers[w] {
				byFn[cs.Fn]++
				ws := lockSite{Fn: cs.Fn, Call: cs.Call, Ordinal: byFn[cs.Fn], PathArg: ls.PathArg, TypeArg: ls.TypeArg, WEnv: env{}, Wrapper: w}
				for i, wp := range w.Params {
					if i < len(cs.Call.Common().Args) {
						ws.WEnv[wp] = cs.Call.Common().Args[i]
					}
				}
				if pidx < len(cs.Call.Common().Args) {
					switch cb := strip(cs.Call.Common().Args[pidx]).(type) {
					case *ssa.MakeClosure:
						ws.Callback = cb.Fn.(*ssa.Function)
						if m := p.boundMethod[ws.Callback]; m != nil {
							ws.Callback = m
						}
					case *ssa.Function:
						ws.Callback = cb
					}
				}
				sites = append(sites, ws)
			}
		}
		f.LockSites = sites
		for i := range f.LockSites {
			if cb := f.LockSites[i].Callback; cb != nil {
				f.Callbacks[cb] = &f.LockSites[i]
			}
		}
	}
	// chooser: the function using both file-name constants
	for _, fn := range p.Fns {
		hasPlans, hasOld := false, false
		eachInstr(fn, func(r instrRef) {
			for _, op := range r.In.Operands(nil) {
				if c, ok := (*op).(*ssa.Const); ok && c.Value != nil && c.Value.Kind() == constant.String {
					switch constant.StringVal(c.Value) {
					case "plans.jsonl":
						hasPlans = true
					case "events.jsonl":
						hasOld = true
					}
				}
			}
		})
		if hasPlans && hasOld && fn.Parent() == nil {
			if f.Chooser != nil {
				f.Problems = append(f.Problems, "more than one function uses both log file names: "+p.Name(f.Chooser)+", "+p.Name(fn))
			}
			f.Chooser = fn
		}
	}
	if f.Chooser == nil {
		f.Problems = append(f.Problems, "no log-path chooser found (function using both plans.jsonl and events.jsonl)")
	}
	// module call graph
	methodsByName := map[string][]*ssa.Function{}
	for _, fn := range p.Fns {
		if fn.Signature.Recv() != nil {
			methodsByName[fn.Name()] = append(methodsByName[fn.Name()], fn)
		}
	}
	for _, fn := range p.Fns {
		seenFuncVal := map[*ssa.Function]bool{}
		eachInstr(fn, func(r instrRef) {
			if c, ok := r.In.(ssa.CallInstruction); ok {
				cc := c.Common()
				if cal := calleeOf(cc); cal != nil && p.InModule(cal) {
					f.succ[fn] = append(f.succ[fn], cgEdge{cal, r.In, "call"})
				} else if cc.IsInvoke() {
					for _, m := range methodsByName[cc.Method.Name()] {
						f.succ[fn] = append(f.succ[fn], cgEdge{m, r.In, "invoke"})
					}
				}
			}
			if mc, ok := r.In.(*ssa.MakeClosure); ok {
				g := mc.Fn.(*ssa.Function)
				kind := "closure"
				if f.Callbacks[g] != nil {
					kind = "lock-callback"
				}
				f.succ[fn] = append(f.succ[fn], cgEdge{g, r.In, kind})
			}
			for _, op := range r.In.Operands(nil) {
				if g, ok := (*op).(*ssa.Function); ok && p.InModule(g) && g.Blocks != nil {
					if c, isCall := r.In.(ssa.CallInstruction); isCall && c.Common().Value == g {
						continue
					}
					if !seenFuncVal[g] {
						seenFuncVal[g] = true
						kind := "funcvalue"
						if f.Callbacks[g] != nil {
							kind = "lock-callback"
						}
						f.succ[fn] = append(f.succ[fn], cgEdge{g, r.In, kind})
					}
				}
			}
		})
	}
	// entry points and roots
	isEntry := map[*ssa.Function]bool{}
	for _, fn := range p.Fns {
		if Outermost(fn).Pkg != p.Main {
			continue
		}
		for _, e := range f.succ[fn] {
			if e.To.Pkg == p.Ergo && e.To.Parent() == nil {
				isEntry[e.To] = true
			}
		}
	}
	for _, fn := range p.Fns {
		if isEntry[fn] {
			f.Entries = append(f.Entries, fn)
		}
	}
	if len(f.Entries) == 0 {
		f.Problems = append(f.Problems, "no entry points (internal/ergo functions called from package main)")
	}
	isRoot := map[*ssa.Function]bool{}
	for _, fn := range p.Fns {
		if fn.Parent() != nil {
			continue
		}
		if isEntry[fn] || Outermost(fn).Pkg == p.Main {
			isRoot[fn] = true
		} else if o := fn.Object(); o != nil && o.Exported() && fn.Pkg == p.Ergo {
			isRoot[fn] = true
		}
	}
	for _, fn := range p.Fns {
		if isRoot[fn] {
			f.Roots = append(f.Roots, fn)
		}
	}
	// anchors with a structural sanity check each
	f.resolveAnchors(p)
	var err error
	if len(f.Problems) > 0 {
		err = fmt.Errorf("%s", strings.Join(f.Problems, "; "))
	}
	return f, err
}

// Reach computes module functions reachable from roots, skipping edges for which skip returns true.
// pred[f] is the edge by which f was first reached (for witness paths).
func (f *Facts) Reach(roots []*ssa.Function, skip func(from *ssa.Function, e cgEdge) bool) (seen map[*ssa.Function]bool, pred map[*ssa.Function]*struct {
	From *ssa.Function
	E    cgEdge
}) {
	seen = map[*ssa.Function]bool{}
	pred = map[*ssa.Function]*struct {
		From *ssa.Function
		E    cgEdge
	}{}
	var q []*ssa.Function
	for _, r := range roots {
		if !seen[r] {
			seen[r] = true
			q = append(q, r)
		}
	}
	for len(q) > 0 {
		fn := q[0]
		q = q[1:]
		for _, e := range f.succ[fn] {
			if skip != nil && skip(fn, e) {
				continue
			}
			if !seen[e.To] {
				seen[e.To] = true
				pred[e.To] = &struct {
					From *ssa.Function
					E    cgEdge
				}{fn, e}
				q = append(q, e.To)
			}
		}
	}
	return
}

// PathTo renders the call chain root -> ... -> fn found by Reach.
func (p *Prog) PathTo(fn *ssa.Function, pred map[*ssa.Function]*struct {
	From *ssa.Function
	E    cgEdge
}) []string {
	var out []string
	for cur := fn; cur != nil; {
		pr := pred[cur]
		if pr == nil {
			out = append(out, p.Name(cur)+" (root)")
			break
		}
		out = append(out, fmt.Sprintf("%s <- %s at %s [%s]", p.Name(cur), p.Name(pr.From), p.Pos(pr.E.Site.Pos()), pr.E.Kind))
		cur = pr.From
	}
	return out
}

// TransitiveCallees: module functions reachable from fn (including itself), following all edges.
func (f *Facts) TransitiveCallees(fn *ssa.Function) map[*ssa.Function]bool {
	seen, _ := f.Reach([]*ssa.Function{fn}, nil)
	return seen
}

// anchorSpec: named domain functions with one characteristic structural fact.
type anchorSpec struct {
	Name  string
	Check func(p *Prog, fn *ssa.Function) string // "" if sane
}

func hasCallTo(fn *ssa.Function, names ...string) bool { return len(callsNamed(fn, names...)) > 0 }

func sigString(fn *ssa.Function) string { return fn.Signature.String() }

func (f *Facts) resolveAnchors(p *Prog) {
	specs := []anchorSpec{
		{"replayEvents", func(p *Prog, fn *ssa.Function) string {
			// the switch may live in a dispatch function the fold calls (replayEvents -> (*Graph).applyEvent)
			seen := map[*ssa.Function]bool{fn: true}
			work := []*ssa.Function{fn}
			for d := 0; len(work) > 0 && d < 64; d++ {
				g := work[0]
				work = work[1:]
				if len(eventTypeCases(g)) >= 5 {
					return ""
				}
				for _, call := range callsIn(g) {
					if cal := calleeOf(call.Common()); cal != nil && p.InModule(cal) && cal.Blocks != nil && !seen[cal] && len(p.callers[cal]) == 1 {
						seen[cal] = true
						work = append(work, cal)
					}
				}
			}
			return "does not contain the switch over Event.Type"
		}},
		{"compactEvents", func(p *Prog, fn *ssa.Function) string {
			// counted over the function and the private helpers it is split into; a generic emitter (collector.add)
			// counts once per call site
			ne := p.ErgoFn("newEvent")
			seen := map[*ssa.Function]bool{fn: true}
			work := []*ssa.Function{fn}
			n := 0
			for d := 0; len(work) > 0 && d < 64; d++ {
				g := work[0]
				work = work[1:]
				n += len(callsTo(g, ne))
				for _, call := range callsIn(g) {
					cal := calleeOf(call.Common())
					if cal == nil || !p.InModule(cal) || cal.Blocks == nil || cal == ne {
						continue
					}
					if len(callsTo(cal, ne)) > 0 && seen[cal] {
						n++ // another call of an emitter already counted
					}
					if !seen[cal] {
						seen[cal] = true
						work = append(work, cal)
					}
				}
			}
			if n < 3 {
				return "does not re-emit events via newEvent"
			}
			return ""
		}},
		{"newEvent", func(p *Prog, fn *ssa.Function) string {
			if !hasCallTo(fn, "encoding/json.Marshal") {
				return "does not marshal its payload"
			}
			return ""
		}},
		{"validateTransition", sigIs("func(from string, to string) error")},
		{"validateClaimInvariant", sigIs("func(state string, claimedBy string) error")},
		{"validateDepSelf", sigIs("func(from string, to string) error")},
		{"validateDepKinds", sigIs("func(fromIsEpic bool, toIsEpic bool) error")},
		{"hasCycle", nil}, {"isReachable", nil}, {"isReady", nil}, {"isBlocked", nil}, {"isEpic", nil},
		{"isEpicComplete", nil}, {"areEpicDepsComplete", nil}, {"readyTasks", nil}, {"listTasks", nil},
		{"buildSetEvents", nil}, {"selectPruneTargets", nil}, {"validateResultPath", nil}, {"validateResultSummary", nil},
		{"captureResultEvidence", nil}, {"loadGraph", nil}, {"readEvents", nil}, {"appendEvents", nil},
		{"replaceEventsAtomically", nil}, {"appendEventsAtomically", nil}, {"writeEventsFile", nil}, {"newShortID", nil},
		{"resolveErgoDir", nil}, {"ergoDir", nil}, {"writeJSON", nil}, {"applyTombstone", nil}, {"deriveFileURL", nil},
		{"ensureFileExists", nil}, {"buildTombstoneEvents", nil}, {"runPrune", nil}, {"applySetUpdates", nil},
		{"createTaskWithDir", nil}, {"getBlockers", nil},
	}
	for _, s := range specs {
		fn := p.ErgoFn(s.Name)
		if fn == nil {
			continue // rules that need it report the missing anchor themselves
		}
		if s.Check != nil {
			if msg := s.Check(p, fn); msg != "" {
				f.Problems = append(f.Problems, "anchor "+s.Name+": "+msg)
				continue
			}
		}
		f.Anchors[s.Name] = fn
	}
}

func sigIs(want string) func(p *Prog, fn *ssa.Function) string {
	return func(p *Prog, fn *ssa.Function) string {
		got := fn.Signature.String()
		// compare shapes (parameter/result types), not parameter names
		if typesOnly(got) != typesOnly(want) {
			return "signature is " + got + ", expected shape " + want
		}
		return ""
	}
}

func typesOnly(sig string) string {
	// "func(from string, to string) error" -> "func(string,string) error"
	open := strings.Index(sig, "(")
	close := strings.Index(sig, ")")
	if open < 0 || close < open {
		return sig
	}
	var ts []string
	for _, prm := range strings.Split(sig[open+1:close], ",") {
		fs := strings.Fields(strings.TrimSpace(prm))
		if len(fs) > 0 {
			ts = append(ts, fs[len(fs)-1])
		}
	}
	return "func(" + strings.Join(ts, ",") + ")" + sig[close+1:]
}

// anchor fetches a resolved anchor or records an undecided obligation.
func (c *Ctx) anchor(name string) *ssa.Function {
	if fn := c.F.Anchors[name]; fn != nil {
		return fn
	}
	c.unk("ergo."+name, "anchor", "-", "anchor function "+name+" not found or failed its structural sanity check; the rule cannot be evaluated")
	return nil
}

// Summary is recorded in evidence ("what was analysed").
func (f *Facts) Summary(p *Prog) map[string]any {
	cls := map[string]int{}
	for _, e := range f.Effects {
		cls[e.Class]++
	}
	var entries []string
	for _, e := range f.Entries {
		entries = append(entries, p.Name(e))
	}
	sort.Strings(entries)
	m := map[string]any{
		"effect_sites_by_class": cls,
		"lock_primitive":        p.Name(f.LockPrim),
		"lock_call_sites":       len(f.LockSites),
		"chooser":               p.Name(f.Chooser),
		"entry_points":          entries,
		"roots":                 len(f.Roots),
		"anchors_resolved":      len(f.Anchors),
	}
	if len(f.Problems) > 0 {
		m["problems"] = f.Problems
	}
	return m
}

// eventTypeCases extracts the string constants that Event.Type is compared with inside fn
// (the case labels of the replay switch).
func eventTypeCases(fn *ssa.Function) map[string]bool {
	out := map[string]bool{}
	for _, bf := range branchFacts(fn) {
		curEnv = bf.A.Env
		if bf.A.Kind != "const" || bf.A.C.Value == nil || bf.A.C.Value.Kind() != constant.String {
			continue
		}
		base, name, ok := fieldLoad(bf.A.X)
		if ok && name == "Type" && namedTypeName(base.Type()) == "ergo.Event" {
			out[constant.StringVal(bf.A.C.Value)] = true
		}
	}
	return out
}
