package main

// Mutant sensitivity run (DESIGN.md section 7 item 5): applies catalogue edits to scratch copies of the
// *current* tree (outside /repo and /verif, removed afterwards), re-runs the checker on each copy in a
// subprocess and records which rules newly fire. Recorded in thorough-tier evidence; never gating.

import (
	"bufio"
	"encoding/json"
	"fmt"
	"os"
	"os/exec"
	"path/filepath"
	"regexp"
	"sort"
	"strings"
	"sync"
)

type mutEdit struct {
	ID       string `json:"id"`
	Property string `json:"property"`
	Expect   string `json:"expect"`
	File     string `json:"file"`
	Func     string `json:"func"`
	Old      string `json:"old"`
	New      string `json:"new"`
	Occ      int    `json:"occ"`
	Desc     string `json:"desc"`
	Patch    string `json:"patch"` // alternative to old/new: a unified diff file relative to the catalogue dir
}

type mutResult struct {
	ID       string   `json:"id"`
	Property string   `json:"property"`
	Expect   string   `json:"expect"`
	Desc     string   `json:"desc"`
	Status   string   `json:"status"` // detected | missed | not-applicable | does-not-compile
	Fired    []string `json:"rules_newly_firing"`
	Keys     []string `json:"new_keys,omitempty"`
}

func funcSpan(src, name string) (int, int, bool) {
	re := regexp.MustCompile(`(?m)^func (\([^)]*\) )?` + regexp.QuoteMeta(name) + `\(`)
	m := re.FindStringIndex(src)
	if m == nil {
		return 0, 0, false
	}
	next := regexp.MustCompile(`(?m)^func `).FindStringIndex(src[m[1]:])
	if next == nil {
		return m[0], len(src), true
	}
	return m[0], m[1] + next[0], true
}

func applyEdit(root string, e mutEdit) error {
	p := filepath.Join(root, e.File)
	data, err := os.ReadFile(p)
	if err != nil {
		return err
	}
	src := string(data)
	a, b := 0, len(src)
	if e.Func != "" {
		var ok bool
		a, b, ok = funcSpan(src, e.Func)
		if !ok {
			return fmt.Errorf("function %s not found in %s", e.Func, e.File)
		}
	}
	seg := src[a:b]
	idx := -1
	occ := e.Occ
	if occ <= 0 {
		occ = 1
	}
	for i := 0; i < occ; i++ {
		j := strings.Index(seg[idx+1:], e.Old)
		if j < 0 {
			return fmt.Errorf("pattern not found in %s:%s", e.File, e.Func)
		}
		idx = idx + 1 + j
	}
	seg = seg[:idx] + e.New + seg[idx+len(e.Old):]
	return os.WriteFile(p, []byte(src[:a]+seg+src[b:]), 0o644)
}

func copyTree(src, dst string) error {
	cmd := exec.Command("rsync", "-a", "--exclude", ".git", src+"/", dst+"/")
	return cmd.Run()
}

// nonDischargedKeys runs the checker binary on a tree and returns key -> rule for every non-discharged obligation.
func nonDischargedKeys(self, repo string) (map[string]string, error) {
	cmd := exec.Command(self, "-rules", "all", "-repo", repo)
	out, err := cmd.Output()
	if err != nil {
		if _, ok := err.(*exec.ExitError); !ok {
			return nil, err
		}
	}
	res := map[string]string{}
	sc := bufio.NewScanner(strings.NewReader(string(out)))
	sc.Buffer(make([]byte, 1<<20), 1<<24)
	for sc.Scan() {
		f := strings.Fields(sc.Text())
		if len(f) >= 3 && (f[1] == "violated" || f[1] == "undecided") {
			// key is everything up to the " [" position marker
			line := sc.Text()
			rest := strings.TrimSpace(line[strings.Index(line, f[1])+len(f[1]):])
			if i := strings.Index(rest, "  ["); i >= 0 {
				rest = rest[:i]
			}
			res[rest] = f[0]
		}
	}
	return res, nil
}

func runMutants(catalogueDir, repo string, onlyRules map[string]bool, onlyProperty string) ([]mutResult, error) {
	data, err := os.ReadFile(filepath.Join(catalogueDir, "catalogue.json"))
	if err != nil {
		return nil, err
	}
	var edits []mutEdit
	if err := json.Unmarshal(data, &edits); err != nil {
		return nil, err
	}
	groups := map[string][]mutEdit{}
	var ids []string
	for _, e := range edits {
		if _, ok := groups[e.ID]; !ok {
			ids = append(ids, e.ID)
		}
		groups[e.ID] = append(groups[e.ID], e)
	}
	sort.Strings(ids)
	self, _ := os.Executable()
	base, err := nonDischargedKeys(self, repo)
	if err != nil {
		return nil, err
	}
	var mu sync.Mutex
	var results []mutResult
	sem := make(chan struct{}, 8)
	var wg sync.WaitGroup
	for _, id := range ids {
		g := groups[id]
		expRule := ruleOfExpect(g[0].Expect)
		if onlyRules != nil && !onlyRules[expRule] && g[0].Property != onlyProperty {
			continue
		}
		wg.Add(1)
		go func(id string, g []mutEdit) {
			defer wg.Done()
			sem <- struct{}{}
			defer func() { <-sem }()
			r := mutResult{ID: id, Property: g[0].Property, Expect: g[0].Expect, Desc: g[0].Desc}
			tmp, err := os.MkdirTemp("", "ergomut-")
			if err != nil {
				r.Status = "not-applicable"
				mu.Lock()
				results = append(results, r)
				mu.Unlock()
				return
			}
			defer os.RemoveAll(tmp)
			ok := copyTree(repo, tmp) == nil
			for _, e := range g {
				if !ok {
					break
				}
				if e.Patch != "" {
					cmd := exec.Command("patch", "-p1", "-s", "--no-backup-if-mismatch", "-i", filepath.Join(catalogueDir, e.Patch))
					cmd.Dir = tmp
					if cmd.Run() != nil {
						ok = false
					}
				} else if applyEdit(tmp, e) != nil {
					ok = false
				}
			}
			if !ok {
				r.Status = "not-applicable"
			} else {
				build := exec.Command("go", "build", "./...")
				build.Dir = tmp
				build.Env = append(os.Environ(), "GOFLAGS=-mod=readonly")
				if build.Run() != nil {
					r.Status = "does-not-compile"
				} else {
					keys, err := nonDischargedKeys(self, tmp)
					if err != nil {
						r.Status = "not-applicable"
					} else {
						fired := map[string]bool{}
						for k, rule := range keys {
							if _, inBase := base[k]; !inBase {
								fired[rule] = true
								r.Keys = append(r.Keys, k)
							}
						}
						for rl := range fired {
							r.Fired = append(r.Fired, rl)
						}
						sort.Strings(r.Fired)
						sort.Strings(r.Keys)
						if len(r.Keys) > 6 {
							r.Keys = r.Keys[:6]
						}
						if len(r.Fired) > 0 {
							r.Status = "detected"
						} else {
							r.Status = "missed"
						}
					}
				}
			}
			mu.Lock()
			results = append(results, r)
			mu.Unlock()
		}(id, g)
	}
	wg.Wait()
	sort.Slice(results, func(i, j int) bool { return results[i].ID < results[j].ID })
	return results, nil
}

func ruleOfExpect(e string) string {
	// "WR1c" -> "WR1", "DT5b" -> "DT5"
	i := len(e)
	for i > 0 && (e[i-1] < '0' || e[i-1] > '9') {
		i--
	}
	return e[:i]
}

func mutantsMain(catalogueDir, repo, property string) int {
	var only map[string]bool
	if property != "" && property != "all" {
		only = map[string]bool{}
		for _, r := range rulesOf(property) {
			only[r] = true
		}
	}
	res, err := runMutants(catalogueDir, repo, only, property)
	if err != nil {
		fmt.Fprintln(os.Stderr, "ergocheck: mutants:", err)
		return 2
	}
	det, app := 0, 0
	for _, r := range res {
		if r.Status == "detected" || r.Status == "missed" {
			app++
		}
		if r.Status == "detected" {
			det++
		}
		exp := ""
		for _, f := range r.Fired {
			if f == ruleOfExpect(r.Expect) {
				exp = " (expected rule fired)"
			}
		}
		fmt.Printf("%-8s %-4s %-16s expect=%-5s fired=%s%s  — %s\n", r.ID, r.Property, r.Status, r.Expect, strings.Join(r.Fired, ","), exp, r.Desc)
	}
	fmt.Printf("mutants: %d applicable, %d detected, %d total\n", app, det, len(res))
	data, _ := json.MarshalIndent(res, "", " ")
	_ = os.WriteFile(filepath.Join(catalogueDir, "last_results.json"), data, 0o644)
	return 0
}
