package main

// OU13: the terminal width used for layout is the width the terminal reports.

import (
	"fmt"
	"go/constant"
	"go/token"

	"golang.org/x/tools/go/ssa"
)

func init() {
	register(&Rule{ID: "OU13", Min: 2, Run: ruleOU13,
		Doc: "terminal-width-is-the-measured-one: in the function that asks the terminal for its size (term.GetSize) and in the helpers it hands the answer to, the reported width is only copied, returned, or compared with 0 (1 for < / >=): it is rejected in favour of the default only when it is not positive, and it is never clamped, rounded or otherwise recomputed - rows are laid out for the width returned here, so a width that is replaced (a `too narrow` guard) or adjusted makes every row miss the real right-hand edge on such a terminal"})
}

func ruleOU13(c *Ctx) {
	n := 0
	for _, fn := range c.Fns {
		if !c.InModule(fn) || fn.Blocks == nil {
			continue
		}
		k := 0
		for _, call := range callsIn(fn) {
			if calleeFullName(call.Common()) != "golang.org/x/term.GetSize" {
				continue
			}
			cv, ok := call.(*ssa.Call)
			if !ok {
				continue
			}
			k++
			n++
			site := fmt.Sprintf("term.GetSize#%d", k)
			// the reported width and everything it is copied into, inside fn and the helpers it is handed to
			taint := map[ssa.Value]bool{}
			var work []ssa.Value
			add := func(v ssa.Value) {
				if v != nil && !taint[v] {
					taint[v] = true
					work = append(work, v)
				}
			}
			for _, r := range *cv.Referrers() {
				if ex, ok := r.(*ssa.Extract); ok && ex.Index == 0 {
					add(ex)
				}
			}
			var problems []string
			nCmp := 0
			for len(work) > 0 {
				v := work[0]
				work = work[1:]
				refs := v.Referrers()
				if refs == nil {
					continue
				}
				for _, r := range *refs {
					switch x := r.(type) {
					case *ssa.DebugRef, *ssa.Return, *ssa.If:
					case *ssa.Phi:
						add(x)
					case *ssa.ChangeType:
						add(x)
					case *ssa.Convert:
						add(x)
					case *ssa.Store:
						if x.Val == v {
							if cell := cellOf(x.Addr); cell != nil {
								for _, ld := range cellLoads(cell) {
									add(ld)
								}
							} else if g, isG := x.Addr.(*ssa.Global); isG {
								// kept in a package-level variable (measured once by the CLI layer): judged where it is read
								for _, f2 := range c.Fns {
									eachInstr(f2, func(r2 instrRef) {
										if ld, ok := r2.In.(*ssa.UnOp); ok && ld.Op == token.MUL && ld.X == ssa.Value(g) {
											add(ld)
										}
									})
								}
							} else {
								problems = append(problems, "stored at "+c.Pos(x.Pos()))
							}
						}
					case *ssa.BinOp:
						other := x.Y
						if x.Y == v {
							other = x.X
						}
						switch x.Op {
						case token.LSS, token.LEQ, token.GTR, token.GEQ, token.EQL, token.NEQ:
							nCmp++
							k, isC := other.(*ssa.Const)
							if !isC || k.Value == nil || k.Value.Kind() != constant.Int {
								problems = append(problems, "compared with "+c.canon(other)+" at "+c.Pos(x.Pos()))
								continue
							}
							kv, _ := constant.Int64Val(k.Value)
							op := x.Op
							if x.Y == v {
								// const OP width: mirror
								switch op {
								case token.LSS:
									op = token.GTR
								case token.LEQ:
									op = token.GEQ
								case token.GTR:
									op = token.LSS
								case token.GEQ:
									op = token.LEQ
								}
							}
							if kv == 0 && (op == token.LEQ || op == token.GTR || op == token.EQL || op == token.NEQ || op == token.LSS || op == token.GEQ) {
								continue
							}
							if kv == 1 && (op == token.LSS || op == token.GEQ) {
								continue
							}
							problems = append(problems, fmt.Sprintf("compared with %d at %s: a real terminal of that width is not laid out for its own width", kv, c.Pos(x.Pos())))
						default:
							problems = append(problems, "recomputed with "+x.Op.String()+" at "+c.Pos(x.Pos()))
						}
					case ssa.CallInstruction:
						cal := calleeOf(x.Common())
						if cal != nil && c.InModule(cal) && cal.Blocks != nil {
							for i, a := range x.Common().Args {
								if a == v && i < len(cal.Params) {
									add(cal.Params[i])
								}
							}
							// what the helper hands back is the width or its fallback
							if val := x.Value(); val != nil {
								add(val)
							}
							continue
						}
						problems = append(problems, "handed to "+calleeFullName(x.Common())+" at "+c.Pos(x.Pos()))
					default:
						problems = append(problems, fmt.Sprintf("used by %T at %s", r, c.Pos(r.Pos())))
					}
				}
			}
			why := ""
			for _, p := range uniq(problems) {
				if why != "" {
					why += "; "
				}
				why += p
			}
			c.check(len(problems) == 0, c.Name(fn), site+"|width-unaltered", c.Pos(call.Pos()),
				fmt.Sprintf("the reported width is copied, returned and compared only with 0 (%d comparison(s))", nCmp),
				"the width reported by the terminal is "+why)
			// the stream measured is the one the rows are written to
			stream := ""
			if len(cv.Call.Args) > 0 {
				fd := strip(cv.Call.Args[0])
				for i := 0; i < 4; i++ {
					if cvt, ok := fd.(*ssa.Convert); ok {
						fd = strip(cvt.X)
					}
				}
				if fc, _ := callOf(fd); fc != nil && calleeFullName(&fc.Call) == "(*os.File).Fd" && len(fc.Call.Args) > 0 {
					for _, nme := range []string{"Stdout", "Stderr", "Stdin"} {
						if isGlobalLoad(fc.Call.Args[0], nme) {
							stream = nme
						}
					}
				}
			}
			c.check(stream == "Stdout", c.Name(fn), site+"|measures-stdout", c.Pos(call.Pos()), "the width measured is that of os.Stdout, where the rows go",
				"the terminal is measured on "+map[string]string{"": "a descriptor that is not os.Stdout.Fd()", "Stderr": "os.Stderr", "Stdin": "os.Stdin"}[stream]+", not on os.Stdout: when that stream is redirected (or is the only one on a terminal) the rows are laid out for a width that is not the width of the terminal they appear on")
			c.check(nCmp > 0, c.Name(fn), site+"|nonpositive-rejected", c.Pos(call.Pos()), "a non-positive width is tested for", "the reported width is never tested for being positive before it is used")
		}
	}
	if n == 0 {
		c.bad("<module>", "term.GetSize", "-", "no call of term.GetSize found: the layout width is not measured")
	}
}

// ------------------------------------------------------------------ OU14

func init() {
	register(&Rule{ID: "OU14", Min: 1, Run: ruleOU14,
		Doc: "display-width-is-the-library's-string-width: the measure every padding and truncation decision of the renderer rests on (visibleLen) returns runewidth.StringWidth of its argument (escape sequences stripped first): the width of a string is not the sum of the widths of its runes (an emoji with a modifier or a ZWJ sequence is one cluster of width 2), so a measure that adds up RuneWidth rune by rune over-counts such titles and the id column of those rows shifts left. What is checked is the shape - every returned value is the result of a StringWidth call on a value derived from the parameter, not an accumulation - not the library's tables"})
}

func ruleOU14(c *Ctx) {
	vl := c.ErgoFn("visibleLen")
	if vl == nil || vl.Blocks == nil {
		c.unk("ergo.visibleLen", "anchor", "-", "display-width measure visibleLen not found")
		return
	}
	okAll := true
	why := ""
	n := 0
	var leaves func(v ssa.Value, d int)
	seen := map[ssa.Value]bool{}
	leaves = func(v ssa.Value, d int) {
		v = resolve(v)
		if seen[v] || d > 8 {
			return
		}
		seen[v] = true
		switch x := v.(type) {
		case *ssa.Phi:
			for _, e := range x.Edges {
				leaves(e, d+1)
			}
		case *ssa.Const:
			n++ // a constant width for a constant case (empty string)
		case *ssa.Call:
			name := calleeFullName(&x.Call)
			if name == "github.com/mattn/go-runewidth.StringWidth" || name == "(*github.com/mattn/go-runewidth.Condition).StringWidth" {
				n++
				arg := x.Call.Args[len(x.Call.Args)-1]
				if len(vl.Params) > 0 && !derivesFrom(arg, vl.Params[0]) {
					okAll, why = false, "StringWidth is applied to "+c.canon(arg)+", not to the measured string"
				}
				return
			}
			if cal := calleeOf(&x.Call); cal != nil && c.InModule(cal) && cal.Blocks != nil && cal != vl {
				for _, r := range returnsOf(cal) {
					if len(r.Results) > 0 {
						leaves(r.Results[0], d+1)
					}
				}
				return
			}
			okAll, why = false, "the width comes from "+name
		default:
			okAll, why = false, fmt.Sprintf("the width is computed (%T at %s), not taken from StringWidth", v, c.Pos(v.Pos()))
		}
	}
	for _, r := range returnsOf(vl) {
		if len(r.Results) > 0 {
			leaves(returnedValue(r, 0), 0)
		}
	}
	c.check(okAll && n > 0, c.Name(vl), "measure", c.FnPos(vl), "every returned width is runewidth.StringWidth of the (stripped) argument",
		"the display width is not the library's string width: "+why+" - clusters (emoji with modifiers, ZWJ sequences) are over-counted and the id column of those rows shifts")
}

// ------------------------------------------------------------------ OU16

func init() {
	register(&Rule{ID: "OU16", Min: 2, Run: ruleOU16,
		Doc: "width-budget-has-no-positive-floor: in the renderers reachable from the human `list`, a budget handed to a row-shortening helper (truncateToWidth, abbreviate) that is computed from the space available (not a constant) is never raised to a positive constant (`if b < 20 { b = 20 }`, max(b, 20)) unless the shortened text is shortened again against an unraised budget before it is written: a floor keeps a minimum of text whatever the terminal width, so on a terminal narrower than that minimum plus the id column the row overruns it. (Clamping a budget at 0 is fine.) Decides this shape only; the remaining width arithmetic of the formatters is not decided"})
}

// positiveFloor: v is a value raised to a positive constant: phi(x, k) / max(x, k) with k > 0 (looking through copies).
func positiveFloor(v ssa.Value, d int) (int64, bool) {
	if v == nil || d > 6 {
		return 0, false
	}
	v = resolve(v)
	switch x := v.(type) {
	case *ssa.Phi:
		nonConst := 0
		var k int64
		found := false
		for _, e := range x.Edges {
			if kk, ok := constInt(e); ok {
				if kk > 0 {
					k, found = kk, true
				}
				continue
			}
			nonConst++
			if kk, ok := positiveFloor(e, d+1); ok {
				k, found = kk, true
			}
		}
		if found && nonConst > 0 {
			return k, true
		}
	case *ssa.Call:
		if calleeFullName(&x.Call) == "builtin max" {
			var k int64
			found, nonConst := false, 0
			for _, a := range x.Call.Args {
				if kk, ok := constInt(a); ok {
					if kk > 0 {
						k, found = kk, true
					}
					continue
				}
				nonConst++
			}
			if found && nonConst > 0 {
				return k, true
			}
		}
	case *ssa.BinOp:
		// a floored value minus/plus something is still built on the floor
		if k, ok := positiveFloor(x.X, d+1); ok && (x.Op == token.SUB || x.Op == token.ADD) {
			if _, isC := x.Y.(*ssa.Const); isC {
				return k, true
			}
		}
	}
	return 0, false
}

func ruleOU16(c *Ctx) {
	shorten := map[*ssa.Function]bool{}
	for _, n := range []string{"truncateToWidth", "abbreviate"} {
		if f := c.ErgoFn(n); f != nil {
			shorten[f] = true
		}
	}
	if len(shorten) == 0 {
		c.unk("ergo.truncateToWidth", "anchor", "-", "row-shortening helpers not found")
		return
	}
	// the property speaks of the human `list`: the renderers reachable from it (the prune preview has its own layout)
	inList := map[*ssa.Function]bool{}
	if rl := c.ErgoFn("RunList"); rl != nil {
		for g := range c.F.TransitiveCallees(rl) {
			inList[g] = true
		}
	} else {
		c.unk("ergo.RunList", "anchor", "-", "RunList not found")
		return
	}
	n := 0
	for _, f := range c.Fns {
		if Outermost(f).Pkg != c.Ergo || f.Blocks == nil || shorten[f] || !inList[Outermost(f)] {
			continue
		}
		k := 0
		for _, call := range callsIn(f) {
			cal := calleeOf(call.Common())
			if cal == nil || !shorten[cal] || len(call.Common().Args) < 2 {
				continue
			}
			b := call.Common().Args[1]
			if _, isConst := resolve(b).(*ssa.Const); isConst {
				continue
			}
			k++
			n++
			construct := fmt.Sprintf("budget %s#%d", cal.Name(), k)
			fl, floored := positiveFloor(b, 0)
			if !floored {
				c.ok(c.Name(f), construct, c.Pos(call.Pos()), "the budget is not raised to a positive constant")
				continue
			}
			// shortened again against an unraised budget?
			again := false
			if cv, ok := call.(*ssa.Call); ok {
				seen := map[ssa.Value]bool{}
				var walk func(v ssa.Value, d int)
				walk = func(v ssa.Value, d int) {
					if v == nil || seen[v] || d > 8 || v.Referrers() == nil {
						return
					}
					seen[v] = true
					for _, r := range *v.Referrers() {
						switch y := r.(type) {
						case *ssa.Phi:
							walk(y, d+1)
						case *ssa.Call:
							if c2 := calleeOf(&y.Call); c2 != nil && shorten[c2] && len(y.Call.Args) >= 2 && y.Call.Args[0] == v {
								if _, fl2 := positiveFloor(y.Call.Args[1], 0); !fl2 {
									again = true
								}
							}
						}
					}
				}
				walk(cv, 0)
			}
			c.check(again, c.Name(f), construct, c.Pos(call.Pos()), "the floored budget is followed by a second shortening against the space available",
				fmt.Sprintf("this budget is raised to at least %d columns whatever the terminal width, and the text is not shortened again: on a terminal too narrow for %d columns plus the id column the row overruns its width", fl, fl))
		}
	}
	if n == 0 {
		c.bad("<module>", "budgets", "-", "no width-derived shortening budget found in the renderers")
	}
}
