package main

// OU13: the terminal width used for layout is the width the terminal reports.

import (
	"fmt"
	"go/constant"
	"go/token"

	"golang.org/x/tools/go/ssa"
)

func init() {
	register(&Rule{ID: "OU13", Min: 2, Run: ruleOU13,
		Doc: "terminal-width-is-the-measured-one: in the function that asks the terminal for its size (term.GetSize) and in the helpers it hands the answer to, the reported width is only copied, returned, or compared with 0 (1 for < / >=): it is rejected in favour of the default only when it is not positive, and it is never clamped, rounded or otherwise recomputed - rows are laid out for the width returned here, so a width that is replaced (a `too narrow` guard) or adjusted makes every row miss the real right-hand edge on such a terminal"})
}

func ruleOU13(c *Ctx) {
	n := 0
	for _, fn := range c.Fns {
		if !c.InModule(fn) || fn.Blocks == nil {
			continue
		}
		k := 0
		for _, call := range callsIn(fn) {
			if calleeFullName(call.Common()) != "golang.org/x/term.GetSize" {
				continue
			}
			cv, ok := call.(*ssa.Call)
			if !ok {
				continue
			}
			k++
			n++
			site := fmt.Sprintf("term.GetSize#%d", k)
			// the reported width and everything it is copied into, inside fn and the helpers it is handed to
			taint := map[ssa.Value]bool{}
			var work []ssa.Value
			add := func(v ssa.Value) {
				if v != nil && !taint[v] {
					taint[v] = true
					work = append(work, v)
				}
			}
			for _, r := range *cv.Referrers() {
				if ex, ok := r.(*ssa.Extract); ok && ex.Index == 0 {
					add(ex)
				}
			}
			var problems []string
			nCmp := 0
			for len(work) > 0 {
				v := work[0]
				work = work[1:]
				refs := v.Referrers()
				if refs == nil {
					continue
				}
				for _, r := range *refs {
					switch x := r.(type) {
					case *ssa.DebugRef, *ssa.Return, *ssa.If:
					case *ssa.Phi:
						add(x)
					case *ssa.ChangeType:
						add(x)
					case *ssa.Convert:
						add(x)
					case *ssa.Store:
						if x.Val == v {
							if cell := cellOf(x.Addr); cell != nil {
								for _, ld := range cellLoads(cell) {
									add(ld)
								}
							} else {
								problems = append(problems, "stored at "+c.Pos(x.Pos()))
							}
						}
					case *ssa.BinOp:
						other := x.Y
						if x.Y == v {
							other = x.X
						}
						switch x.Op {
						case token.LSS, token.LEQ, token.GTR, token.GEQ, token.EQL, token.NEQ:
							nCmp++
							k, isC := other.(*ssa.Const)
							if !isC || k.Value == nil || k.Value.Kind() != constant.Int {
								problems = append(problems, "compared with "+c.canon(other)+" at "+c.Pos(x.Pos()))
								continue
							}
							kv, _ := constant.Int64Val(k.Value)
							op := x.Op
							if x.Y == v {
								// const OP width: mirror
								switch op {
								case token.LSS:
									op = token.GTR
								case token.LEQ:
									op = token.GEQ
								case token.GTR:
									op = token.LSS
								case token.GEQ:
									op = token.LEQ
								}
							}
							if kv == 0 && (op == token.LEQ || op == token.GTR || op == token.EQL || op == token.NEQ || op == token.LSS || op == token.GEQ) {
								continue
							}
							if kv == 1 && (op == token.LSS || op == token.GEQ) {
								continue
							}
							problems = append(problems, fmt.Sprintf("compared with %d at %s: a real terminal of that width is not laid out for its own width", kv, c.Pos(x.Pos())))
						default:
							problems = append(problems, "recomputed with "+x.Op.String()+" at "+c.Pos(x.Pos()))
						}
					case ssa.CallInstruction:
						cal := calleeOf(x.Common())
						if cal != nil && c.InModule(cal) && cal.Blocks != nil {
							for i, a := range x.Common().Args {
								if a == v && i < len(cal.Params) {
									add(cal.Params[i])
								}
							}
							// what the helper hands back is the width or its fallback
							if val := x.Value(); val != nil {
								add(val)
							}
							continue
						}
						problems = append(problems, "handed to "+calleeFullName(x.Common())+" at "+c.Pos(x.Pos()))
					default:
						problems = append(problems, fmt.Sprintf("used by %T at %s", r, c.Pos(r.Pos())))
					}
				}
			}
			why := ""
			for _, p := range uniq(problems) {
				if why != "" {
					why += "; "
				}
				why += p
			}
			c.check(len(problems) == 0, c.Name(fn), site+"|width-unaltered", c.Pos(call.Pos()),
				fmt.Sprintf("the reported width is copied, returned and compared only with 0 (%d comparison(s))", nCmp),
				"the width reported by the terminal is "+why)
			c.check(nCmp > 0, c.Name(fn), site+"|nonpositive-rejected", c.Pos(call.Pos()), "a non-positive width is tested for", "the reported width is never tested for being positive before it is used")
		}
	}
	if n == 0 {
		c.bad("<module>", "term.GetSize", "-", "no call of term.GetSize found: the layout width is not measured")
	}
}

// ------------------------------------------------------------------ OU14

func init() {
	register(&Rule{ID: "OU14", Min: 1, Run: ruleOU14,
		Doc: "display-width-is-the-library's-string-width: the measure every padding and truncation decision of the renderer rests on (visibleLen) returns runewidth.StringWidth of its argument (escape sequences stripped first): the width of a string is not the sum of the widths of its runes (an emoji with a modifier or a ZWJ sequence is one cluster of width 2), so a measure that adds up RuneWidth rune by rune over-counts such titles and the id column of those rows shifts left. What is checked is the shape - every returned value is the result of a StringWidth call on a value derived from the parameter, not an accumulation - not the library's tables"})
}

func ruleOU14(c *Ctx) {
	vl := c.ErgoFn("visibleLen")
	if vl == nil || vl.Blocks == nil {
		c.unk("ergo.visibleLen", "anchor", "-", "display-width measure visibleLen not found")
		return
	}
	okAll := true
	why := ""
	n := 0
	var leaves func(v ssa.Value, d int)
	seen := map[ssa.Value]bool{}
	leaves = func(v ssa.Value, d int) {
		v = resolve(v)
		if seen[v] || d > 8 {
			return
		}
		seen[v] = true
		switch x := v.(type) {
		case *ssa.Phi:
			for _, e := range x.Edges {
				leaves(e, d+1)
			}
		case *ssa.Const:
			n++ // a constant width for a constant case (empty string)
		case *ssa.Call:
			name := calleeFullName(&x.Call)
			if name == "github.com/mattn/go-runewidth.StringWidth" || name == "(*github.com/mattn/go-runewidth.Condition).StringWidth" {
				n++
				arg := x.Call.Args[len(x.Call.Args)-1]
				if len(vl.Params) > 0 && !derivesFrom(arg, vl.Params[0]) {
					okAll, why = false, "StringWidth is applied to "+c.canon(arg)+", not to the measured string"
				}
				return
			}
			if cal := calleeOf(&x.Call); cal != nil && c.InModule(cal) && cal.Blocks != nil && cal != vl {
				for _, r := range returnsOf(cal) {
					if len(r.Results) > 0 {
						leaves(r.Results[0], d+1)
					}
				}
				return
			}
			okAll, why = false, "the width comes from "+name
		default:
			okAll, why = false, fmt.Sprintf("the width is computed (%T at %s), not taken from StringWidth", v, c.Pos(v.Pos()))
		}
	}
	for _, r := range returnsOf(vl) {
		if len(r.Results) > 0 {
			leaves(returnedValue(r, 0), 0)
		}
	}
	c.check(okAll && n > 0, c.Name(vl), "measure", c.FnPos(vl), "every returned width is runewidth.StringWidth of the (stripped) argument",
		"the display width is not the library's string width: "+why+" - clusters (emoji with modifiers, ZWJ sequences) are over-counted and the id column of those rows shifts")
}
