package main

// The replay model: where the fold over the event log lives. On the pinned tree this is one function
// (replayEvents) holding a loop with a switch over Event.Type. A maintainer may split it: the switch in a dispatch
// method, one handler per case, shared helpers (liveTask, isTombstoned, decodePayload[T]). The replay rules address
// the model, not the function: the switch function, the case edges, and the "effect functions" (the switch
// function plus every private function reachable from one of its cases).

import (
	"go/constant"

	"golang.org/x/tools/go/ssa"
)

type replayModel struct {
	Root      *ssa.Function
	Unit      []*ssa.Function
	Switch    *ssa.Function
	CaseEdges map[edge]bool
	EffectFns []*ssa.Function
	handler   map[*ssa.Function]bool // effect functions other than Switch
}

func (c *Ctx) replay() *replayModel {
	if c.replayMemo != nil {
		return c.replayMemo
	}
	re := c.F.Anchors["replayEvents"]
	if re == nil {
		return nil
	}
	m := &replayModel{Root: re, Unit: c.unitOf(re), handler: map[*ssa.Function]bool{}}
	best := 0
	for _, g := range m.Unit {
		if n := len(eventTypeCases(g)); n > best {
			best, m.Switch = n, g
		}
	}
	if m.Switch == nil {
		return nil
	}
	m.CaseEdges = edgesWhere(m.Switch, func(a Atom, holds bool) bool {
		if a.Kind != "const" || !holds || len(a.Env) > 0 {
			return false
		}
		b, n, ok := fieldLoad(a.X)
		return ok && n == "Type" && namedTypeName(b.Type()) == "ergo.Event"
	})
	inUnit := map[*ssa.Function]bool{}
	for _, g := range m.Unit {
		inUnit[g] = true
	}
	seen := map[*ssa.Function]bool{m.Switch: true}
	var work []*ssa.Function
	for _, call := range callsIn(m.Switch) {
		cal := calleeOf(call.Common())
		if cal == nil || !inUnit[cal] || seen[cal] {
			continue
		}
		if mustPassEdges(m.Switch, call.Block(), m.CaseEdges) {
			seen[cal] = true
			work = append(work, cal)
		}
	}
	for len(work) > 0 {
		g := work[0]
		work = work[1:]
		m.handler[g] = true
		for _, cl := range Closures(g) {
			if !seen[cl] {
				seen[cl] = true
				work = append(work, cl)
			}
		}
		for _, call := range callsIn(g) {
			cal := calleeOf(call.Common())
			if cal != nil && inUnit[cal] && !seen[cal] {
				seen[cal] = true
				work = append(work, cal)
			}
		}
	}
	for _, g := range m.Unit {
		if g == m.Switch || m.handler[g] {
			m.EffectFns = append(m.EffectFns, g)
		}
	}
	c.replayMemo = m
	return m
}

// inCase: the instruction is executed as part of handling one event of a known type.
func (m *replayModel) inCase(in ssa.Instruction) bool {
	f := in.Parent()
	if m.handler[f] {
		return true
	}
	return f == m.Switch && mustPassEdges(f, in.Block(), m.CaseEdges)
}

// caseEdgesFor: the edges of the switch function on which Event.Type equals typ.
func (m *replayModel) caseEdgesFor(typ string) map[edge]bool {
	return edgesWhere(m.Switch, func(a Atom, holds bool) bool {
		if a.Kind != "const" || !holds || len(a.Env) > 0 || a.C.Value == nil || a.C.Value.Kind() != constant.String || constant.StringVal(a.C.Value) != typ {
			return false
		}
		b, n, ok := fieldLoad(a.X)
		return ok && n == "Type" && namedTypeName(b.Type()) == "ergo.Event"
	})
}

// replayCases: the event types replay distinguishes.
func (m *replayModel) cases() map[string]bool { return eventTypeCases(m.Switch) }
