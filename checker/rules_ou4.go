package main

// OU4: text-flow whitelist (E8). Titles and bodies must reach the recorded events, and leave
// replay towards the outputs, through loads/stores/map entries only.

import (
	"fmt"
	"go/token"
	"go/types"
	"strings"

	"golang.org/x/tools/go/ssa"
)

func init() {
	register(&Rule{ID: "VD15", Min: 6, Run: rulePlanKeys,
		Doc: "plan-title-key-agreement: in the plan validator and in the plan builder every map insert/lookup keyed by a task title or an `after` entry uses the input string verbatim (no trimming or other transformation), so both sides resolve titles identically; the input is not rewritten before validation; and a field is blank exactly when strings.TrimSpace(x) == \"\" (a hand-written blank test - a byte loop over unicode.IsSpace - disagrees with it on non-ASCII white space)"})
	register(&Rule{ID: "OU4", Min: 8, Run: ruleOU4,
		Doc: "text-flow-whitelist: the Title/Body fields of every create/title/body event built by a command derive from the input (JSON fields, --title/--body flags, stdin) through loads, stores, phis, parameters, update-map entries under constant keys, the identity resolver and byte/string conversion only; strings.TrimSpace is allowed only on a title taken from the --title flag or from the \"title\" update key (documented); the bytes handed to the JSON decoder of an input parser are the bytes read from stdin (no rewriting pre-pass); replay stores payload titles/bodies unchanged (legacy untitled items excepted) and the JSON show output loads them unchanged"})
}

type textFlow struct {
	c          *Ctx
	field      string // "Title" or "Body"
	problems   []string
	seen       map[ssa.Value]bool
	steps      int
	sawStdin   bool   // the walk reached io.ReadAll(os.Stdin)
	trimmedKey string // the update key whose value was trimmed on the way (the documented `set` trimming)
}

func (t *textFlow) bad(format string, a ...any) {
	t.problems = append(t.problems, fmt.Sprintf(format, a...))
}

func (t *textFlow) walk(v ssa.Value, d int) {
	if v == nil || d > 40 {
		return
	}
	if t.seen[v] {
		return
	}
	t.seen[v] = true
	t.steps++
	c := t.c
	switch x := v.(type) {
	case *ssa.Const:
		return
	case *ssa.Global:
		if pos, isCSV := c.csvFlagVars()[x]; isCSV {
			t.bad("the text is the value of a flag registered with a comma-splitting pflag type at %s (StringSlice/StringToString parse every value as CSV: a comma splits the text, surrounding quotes are eaten, a leading quote can make the command fail); StringArray keeps values verbatim", pos)
		}
		return
	case *ssa.Phi:
		for _, e := range x.Edges {
			t.walk(e, d+1)
		}
	case *ssa.MakeInterface:
		t.walk(x.X, d+1)
	case *ssa.ChangeType:
		t.walk(x.X, d+1)
	case *ssa.Convert:
		t.walk(x.X, d+1) // string <-> []byte
	case *ssa.Parameter:
		args := c.argValues(x.Parent(), paramIndex(x))
		for _, a := range args {
			t.walk(a, d+1)
		}
	case *ssa.FreeVar:
		if b := bindingOf(x); b != nil {
			t.walk(b, d+1)
		}
	case *ssa.Alloc:
		for _, st := range cellStores(x) {
			t.walk(st.Val, d+1)
		}
	case *ssa.UnOp:
		if x.Op != token.MUL {
			t.bad("operator %s applied to the text", x.Op)
			return
		}
		if cell := cellOf(x.X); cell != nil {
			sts := cellStores(cell)
			for _, st := range sts {
				t.walk(st.Val, d+1)
			}
			return
		}
		switch a := x.X.(type) {
		case *ssa.FieldAddr:
			// a field of the options / the parsed input / a payload: a source or a plain copy
			t.walkFieldSource(a, d)
		case *ssa.UnOp:
			// **ptr : pointer-typed input field (TaskInput.Title is *string)
			t.walk(a, d+1)
		case *ssa.IndexAddr:
			t.walk(a.X, d+1)
		case *ssa.Global:
		default:
			t.walk(x.X, d+1)
		}
	case *ssa.FieldAddr:
		t.walkFieldSource(x, d)
	case *ssa.Field:
		return
	case *ssa.Extract:
		switch tu := x.Tuple.(type) {
		case *ssa.Lookup:
			t.walkLookup(tu, d)
		case *ssa.Call:
			t.walkCall(tu, x.Index, d)
		case *ssa.Next:
			// ranging over a map/slice of texts: copy loop
			return
		default:
			t.bad("text comes from %T", tu)
		}
	case *ssa.Lookup:
		t.walkLookup(x, d)
	case *ssa.Call:
		t.walkCall(x, 0, d)
	case *ssa.BinOp:
		t.bad("text is computed with %s at %s (concatenation/arithmetics)", x.Op, c.Pos(x.Pos()))
	case *ssa.Slice:
		if b, ok := x.X.Type().Underlying().(*types.Basic); ok && b.Info()&types.IsString != 0 {
			t.bad("text is sliced at %s", c.Pos(x.Pos()))
			return
		}
		t.walk(x.X, d+1)
	case *ssa.MakeSlice, *ssa.MakeMap:
		return
	default:
		t.bad("text flows through %T", v)
	}
}

func (t *textFlow) walkFieldSource(fa *ssa.FieldAddr, d int) {
	// loads of struct fields are sources (options flags, parsed input) or copies of payload/task fields
	// whose own stores are checked where they happen.
	_ = fa
}

func (t *textFlow) walkLookup(lk *ssa.Lookup, d int) {
	c := t.c
	key, ok := constString(lk.Index)
	if !ok {
		return // copy loops
	}
	mt, isMap := lk.X.Type().Underlying().(*types.Map)
	if !isMap || mt.Elem().String() != "string" {
		return
	}
	// all producers of this key in update maps
	for _, fn := range c.Fns {
		eachInstr(fn, func(r instrRef) {
			mu, ok := r.In.(*ssa.MapUpdate)
			if !ok {
				return
			}
			if k, ok := constString(mu.Key); !ok || k != key {
				return
			}
			if mt2, ok := mu.Map.Type().Underlying().(*types.Map); !ok || mt2.Elem().String() != "string" || mt2.Key().String() != "string" {
				return
			}
			// the per-field reasons of a validation error (verr.Invalid["body"] = "too long: ...") are keyed like the
			// updates but are not updates: what is stored there is a message about the field, never its text
			if base, _, isField := fieldLoad(mu.Map); isField && (isErrorImpl(base.Type()) || strings.HasSuffix(namedTypeName(base.Type()), "Error")) {
				return
			}
			if mk, isMk := resolve(mu.Map).(*ssa.MakeMap); isMk && mk.Referrers() != nil {
				// ... also while it is still a local on its way into the error (invalid := map...; &ValidationError{Invalid: invalid})
				intoError := false
				users := append([]ssa.Instruction{}, *mk.Referrers()...)
				users = append(users, handleUsers(mk)...)
				for _, u := range users {
					if st, ok := u.(*ssa.Store); ok {
						if fa, ok := st.Addr.(*ssa.FieldAddr); ok && (isErrorImpl(fa.X.Type()) || strings.HasSuffix(namedTypeName(fa.X.Type()), "Error")) {
							intoError = true
						}
					}
				}
				if intoError {
					return
				}
			}
			t.walk(mu.Value, d+1)
		})
	}
}

func (t *textFlow) walkCall(cl *ssa.Call, idx int, d int) {
	c := t.c
	name := calleeFullName(&cl.Call)
	if cal := calleeOf(&cl.Call); cal != nil && c.InModule(cal) && cal.Blocks != nil {
		for _, r := range returnsOf(cal) {
			if idx < len(r.Results) {
				t.walk(r.Results[idx], d+1)
			}
		}
		return
	}
	switch name {
	case "strings.TrimSpace":
		arg := cl.Call.Args[0]
		if t.field == "Title" && (trimAllowedOn(arg) || c.onlyFromStringFlag(arg, 0)) {
			if k, _ := lookupKeyOf(resolve(arg)); k != "" {
				t.trimmedKey = k
			}
			t.walk(arg, d+1)
			return
		}
		t.bad("strings.TrimSpace applied to the %s at %s (only a --title flag or the \"title\" update key may be trimmed)", strings.ToLower(t.field), c.Pos(cl.Pos()))
		return
	case "io.ReadAll":
		if len(cl.Call.Args) == 1 && isGlobalLoad(cl.Call.Args[0], "Stdin") {
			t.sawStdin = true
		}
		if len(cl.Call.Args) == 1 && !isGlobalLoad(cl.Call.Args[0], "Stdin") {
			t.bad("the input stream is read through a wrapper (%s) at %s instead of os.Stdin itself: text can be cut or altered before it is recorded", c.canon(cl.Call.Args[0]), c.Pos(cl.Pos()))
		}
		return
	case "os.ReadFile":
		return
	case "os.Getenv", "os.LookupEnv":
		if t.field == "StartDir" && len(cl.Call.Args) > 0 {
			if k, ok := constString(cl.Call.Args[0]); ok && (k == "PWD" || k == "OLDPWD") {
				t.bad("the start directory is taken from $%s at %s: the environment's idea of the working directory is not the process's working directory (a launcher that sets the directory but passes its own environment on leaves $PWD stale), so the search starts somewhere else than `--dir .` or a plain cd would", k, c.Pos(cl.Pos()))
			}
		}
		return // a source: the environment
	case "(*github.com/spf13/pflag.FlagSet).GetString", "os.Getwd", "os.UserHomeDir", "(*github.com/spf13/pflag.FlagSet).GetStringArray":
		return // sources: a flag's value, the process
	case "(*github.com/spf13/pflag.FlagSet).GetStringSlice", "(*github.com/spf13/pflag.FlagSet).GetStringToString":
		t.bad("the text is read with %s at %s: pflag parses every value of such a flag as CSV (a comma splits the text, surrounding quotes are eaten); StringArray keeps values verbatim", name[strings.LastIndex(name, ".")+1:], c.Pos(cl.Pos()))
		return
	}
	// call through a func-typed parameter: the identity resolver idiom
	if prm, ok := resolve(cl.Call.Value).(*ssa.Parameter); ok && !cl.Call.IsInvoke() {
		okAll := true
		n := 0
		for _, a := range c.argValues(prm.Parent(), paramIndex(prm)) {
			f, isFn := resolve(a).(*ssa.Function)
			if !isFn || f.Blocks == nil {
				okAll = false
				continue
			}
			n++
			for _, r := range returnsOf(f) {
				if idx >= len(r.Results) {
					continue
				}
				if p2, ok := resolve(r.Results[idx]).(*ssa.Parameter); ok && p2.Parent() == f {
					k := paramIndex(p2)
					if k < len(cl.Call.Args) {
						t.walk(cl.Call.Args[k], d+1)
					}
				} else if !isNilConst(r.Results[idx]) {
					okAll = false
				}
			}
		}
		if !okAll || n == 0 {
			t.bad("text passes through an unresolved function value at %s", c.Pos(cl.Pos()))
		}
		return
	}
	t.bad("text is transformed by %s at %s", name, c.Pos(cl.Pos()))
}

// trimAllowedOn: the trimmed value is a load of a field named TitleFlag, or a lookup of the "title" update key.
func trimAllowedOn(v ssa.Value) bool {
	v = resolve(v)
	if _, n, ok := fieldLoad(v); ok && n == "TitleFlag" {
		return true
	}
	if k, _ := lookupKeyOf(v); k == "title" {
		return true
	}
	return false
}

func ruleOU4(c *Ctx) {
	n := 0
	for _, em := range c.emissions() {
		if c.isReplayOrCompact(em.Fn) {
			continue
		}
		for _, fl := range []string{"Title", "Body"} {
			v := em.Fields[fl]
			if v == nil {
				continue
			}
			n++
			tf := &textFlow{c: c, field: fl, seen: map[ssa.Value]bool{}}
			for _, sv := range em.Stores[fl] {
				tf.walk(sv, 0)
			}
			t := "?"
			if len(em.Types) > 0 {
				t = em.Types[len(em.Types)-1]
			}
			c.check(len(tf.problems) == 0, c.Name(em.Fn), em.construct(t)+"|"+fl+"-verbatim", c.Pos(em.Call.Pos()),
				fmt.Sprintf("%s reaches the event through %d copy steps, untransformed", fl, tf.steps),
				"the "+strings.ToLower(fl)+" recorded by this event is altered on the way from the input: "+strings.Join(uniq(tf.problems), "; "))
			// the documented trimming belongs to `set` (and the --title flag): a creation that hands its input on to
			// the same builder must not carry the "title" key, or the title given at creation comes back trimmed
			if tf.trimmedKey != "" && len(tf.problems) == 0 {
				for _, ch := range c.callbackChains(em.Fn, 3) {
					creates := false
					for _, em2 := range c.emissions() {
						if em2.Fn == ch.Callback && (em2.has("new_task") || em2.has("new_epic")) {
							creates = true
						}
					}
					if !creates {
						continue
					}
					okL, why := c.chainLacksKey(ch, tf.trimmedKey)
					c.check(okL, c.Name(em.Fn), em.construct(t)+"|"+fl+"-trim-not-at-creation@"+c.Name(ch.Callback), c.Pos(em.Call.Pos()),
						"the creation path hands this builder an update map without the \""+tf.trimmedKey+"\" key ("+why+")",
						"the creating command "+c.Name(ch.Callback)+" can hand this builder the \""+tf.trimmedKey+"\" key ("+why+"): a title supplied at creation is recorded a second time, trimmed, and replay keeps the trimmed one")
				}
			}
		}
	}
	if n == 0 {
		c.bad("<module>", "text-emissions", "-", "no title/body carrying emissions found")
	}
	// the bytes handed to the JSON decoder of the input parsers are the bytes read from stdin: whatever rewrites them
	// first (a lenient pre-pass, a normaliser) rewrites the titles and bodies inside them as well
	nDec := 0
	for _, fn := range c.Fns {
		if !c.InModule(fn) || fn.Blocks == nil || c.isReplayOrCompact(fn) {
			continue
		}
		k := 0
		for _, call := range callsIn(fn) {
			name := calleeFullName(call.Common())
			if name != "bytes.NewReader" && name != "encoding/json.Unmarshal" && name != "strings.NewReader" && name != "bytes.NewBuffer" && name != "bytes.NewBufferString" {
				continue
			}
			if len(call.Common().Args) == 0 {
				continue
			}
			tf := &textFlow{c: c, field: "input", seen: map[ssa.Value]bool{}}
			tf.walk(call.Common().Args[0], 0)
			if !tf.sawStdin {
				continue // not fed from stdin (log lines, embedded documents)
			}
			k++
			nDec++
			c.check(len(tf.problems) == 0, c.Name(fn), fmt.Sprintf("decoder-input %s#%d", name, k), c.Pos(call.Pos()),
				fmt.Sprintf("the decoder reads the bytes of stdin, untransformed (%d copy steps)", tf.steps),
				"the JSON document read from stdin is rewritten before it is decoded - "+strings.Join(uniq(tf.problems), "; ")+" - so the titles and bodies inside it are rewritten too")
		}
	}
	if nDec == 0 {
		c.bad("<module>", "decoder-input", "-", "no JSON decoder fed from stdin found (input parser gone?)")
	}
	// replay: Task.Title / Task.Body stores are payload field loads (or the legacy migration's results)
	if re := c.anchor("replayEvents"); re != nil {
		cnt := map[string]int{}
		for g := range c.F.TransitiveCallees(re) {
			eachInstr(g, func(r instrRef) {
				st, ok := r.In.(*ssa.Store)
				if !ok {
					return
				}
				fa, ok := st.Addr.(*ssa.FieldAddr)
				if !ok || namedTypeName(fa.X.Type()) != "ergo.Task" {
					return
				}
				fl := fieldName(fa.X.Type(), fa.Field)
				if fl != "Title" && fl != "Body" {
					return
				}
				cnt[fl]++
				construct := fmt.Sprintf("replay-store Task.%s#%d", fl, cnt[fl])
				_, n, isField := fieldLoad(resolve(st.Val))
				if isField && n == fl {
					c.ok(c.Name(g), construct, c.Pos(st.Pos()), "stores the payload's "+fl+" unchanged")
					return
				}
				if g.Name() == "applyLegacyTitleMigration" {
					// frozen exception: untitled legacy items get a derived title (documented); must be guarded by the blank-title test
					guard := edgesWhere(g, func(a Atom, holds bool) bool {
						if a.Kind != "const" || holds || constStr(a.C) != "" {
							return false
						}
						cl, _ := callOf(a.X)
						return cl != nil && calleeFullName(&cl.Call) == "strings.TrimSpace"
					})
					// the migration runs only when TrimSpace(title) == "" : its stores are NOT dominated by the != "" edge
					c.check(len(guard) > 0 && !mustPassEdges(g, r.Blk, guard), c.Name(g), construct, c.Pos(st.Pos()), "legacy migration applies only to blank titles (frozen exception: documented legacy format)", "legacy title migration is no longer confined to blank titles: ordinary titles/bodies are rewritten on every read")
					return
				}
				c.bad(c.Name(g), construct, c.Pos(st.Pos()), "replay stores a "+fl+" that is not the payload's field: "+c.canon(st.Val))
			})
		}
	}
	// outside replay nobody rewrites the title or body of an item of the replayed graph (a read command that "cleans"
	// the text before showing it changes what --json returns); filling in a Task built in the same function is fine
	{
		inReplay := map[*ssa.Function]bool{}
		if re := c.anchor("replayEvents"); re != nil {
			for g := range c.F.TransitiveCallees(re) {
				inReplay[g] = true
			}
		}
		k := 0
		for _, g := range c.Fns {
			if !c.InModule(g) || g.Blocks == nil || inReplay[g] || inReplay[Outermost(g)] {
				continue
			}
			eachInstr(g, func(r instrRef) {
				st, ok := r.In.(*ssa.Store)
				if !ok {
					return
				}
				fa, ok := st.Addr.(*ssa.FieldAddr)
				if !ok || namedTypeName(fa.X.Type()) != "ergo.Task" {
					return
				}
				fl := fieldName(fa.X.Type(), fa.Field)
				if fl != "Title" && fl != "Body" {
					return
				}
				if al, isAl := strip(fa.X).(*ssa.Alloc); isAl && al.Parent() == g {
					return // a Task literal under construction
				}
				k++
				c.bad(c.Name(g), fmt.Sprintf("rewrites Task.%s#%d", fl, k), c.Pos(st.Pos()), "the "+strings.ToLower(fl)+" of an item of the replayed graph is overwritten outside replay ("+c.canon(st.Val)+"): what this command shows or records is no longer the text that was stored, character for character")
			})
		}
		if k == 0 {
			c.ok("<module>", "text-not-rewritten-outside-replay", "-", "no store into Task.Title/Task.Body outside replay (other than literals under construction)")
		}
	}
	// JSON show output: Title/Body are loads of the task's fields
	if so := c.ErgoFn("buildTaskShowOutput"); so != nil {
		outs := c.fieldStoresOfType(so, "ergo.taskShowOutput")
		for _, fl := range []string{"Title", "Body"} {
			ok := len(outs[fl]) > 0
			for _, v := range outs[fl] {
				if _, n, isF := fieldLoad(resolve(v)); !isF || n != fl {
					ok = false
				}
			}
			c.check(ok, c.Name(so), "show-output "+fl, c.FnPos(so), "show --json returns the task's "+fl+" unchanged", "show --json's "+fl+" is not a plain load of the task's field")
		}
	}
	// the JSON encoder must not escape HTML (characters must come back as they went in — still valid JSON either way; informational)
	// and the event encoder is encoding/json.Marshal of the payload: checked by the newEvent anchor.
}

// derivesFromField: v's backward slice contains a load of a struct field with one of the given names.
func derivesFromField(v ssa.Value, names ...string) bool {
	seen := map[ssa.Value]bool{}
	var walk func(x ssa.Value, d int) bool
	walk = func(x ssa.Value, d int) bool {
		if x == nil || d > 20 || seen[x] {
			return false
		}
		seen[x] = true
		if fa, ok := x.(*ssa.FieldAddr); ok {
			n := fieldName(fa.X.Type(), fa.Field)
			for _, w := range names {
				if n == w {
					return true
				}
			}
		}
		if u, ok := x.(*ssa.UnOp); ok && u.Op == token.MUL {
			if cell := cellOf(u.X); cell != nil {
				for _, st := range cellStores(cell) {
					if walk(st.Val, d+1) {
						return true
					}
				}
			}
			// a field of a local struct (a baseline record filled from the replayed state): what was stored into it
			if _, isFA := u.X.(*ssa.FieldAddr); isFA {
				if os, ok := fieldOrigins(u, 0); ok {
					for _, o := range os {
						if walk(o.V, d+1) {
							return true
						}
					}
				}
			}
		}
		if _, isLookup := x.(*ssa.Lookup); isLookup {
			return false // the result of a map lookup (an id) is a different domain than its key
		}
		if prm, ok := x.(*ssa.Parameter); ok && curProg != nil {
			for _, cs := range curProg.callers[prm.Parent()] {
				if i := paramIndex(prm); i >= 0 && i < len(cs.Call.Common().Args) && walk(cs.Call.Common().Args[i], d+1) {
					return true
				}
			}
			return false
		}
		if in, ok := x.(ssa.Instruction); ok {
			for _, op := range in.Operands(nil) {
				if *op != nil && walk(*op, d+1) {
					return true
				}
			}
		}
		return false
	}
	return walk(v, 0)
}

func rulePlanKeys(c *Ctx) {
	// what the decoder produced is what is validated and recorded: nobody rewrites the decoded plan in between
	rew := c.inputRewrites(map[string]bool{"ergo.PlanInput": true, "ergo.PlanTaskInput": true, "ergo.PlanTask": true})
	c.check(len(rew) == 0, "ergo.PlanInput", "input-not-rewritten", "-", "the decoded plan is not modified between decoding, validation and the build of the events",
		"the decoded plan is rewritten before it is validated and recorded ("+strings.Join(rew, "; ")+"): titles and `after` entries no longer mean what the document says - a reference rewritten to another title silently records a different edge")
	// what counts as a blank title/body is what replay's legacy migration and the set builder mean by it:
	// strings.TrimSpace(x) == "" (Unicode white space). A validator that decides blankness some other way (byte by byte,
	// ASCII only) lets a title through that replay then treats as missing and rewrites
	if v := c.FnImpl("(*ergo.PlanInput).Validate"); v != nil {
		nTrim := 0
		for g := range c.F.TransitiveCallees(v) {
			if !c.InModule(g) || g.Blocks == nil {
				continue
			}
			for _, bf := range directFacts(g) {
				if bf.A.Kind != "const" || constStr(bf.A.C) != "" || bf.A.C == nil || bf.A.C.Value == nil {
					continue
				}
				if cl, _ := callOf(bf.A.X); cl != nil && calleeFullName(&cl.Call) == "strings.TrimSpace" {
					nTrim++
				}
			}
			// the comparison handed back as a value (func isBlank(s string) bool { return strings.TrimSpace(s) == "" })
			eachInstr(g, func(r instrRef) {
				b, ok := r.In.(*ssa.BinOp)
				if !ok || (b.Op != token.EQL && b.Op != token.NEQ) {
					return
				}
				x, y := b.X, b.Y
				if _, isK := x.(*ssa.Const); isK {
					x, y = y, x
				}
				if k, isK := y.(*ssa.Const); !isK || k.Value == nil || constStr(k) != "" {
					return
				}
				if cl, _ := callOf(x); cl != nil && calleeFullName(&cl.Call) == "strings.TrimSpace" && b.Referrers() != nil {
					for _, u := range *b.Referrers() {
						if _, isRet := u.(*ssa.Return); isRet {
							nTrim++
						}
					}
				}
			})
		}
		c.check(nTrim > 0, c.Name(v), "blank-means-trimspace-empty", c.FnPos(v), "blank fields are recognised by strings.TrimSpace(x) == \"\"",
			"the plan validator never compares strings.TrimSpace(x) with \"\": blankness is decided some other way than replay decides it, so a title made of non-ASCII white space is accepted, recorded, and replaced by the legacy-title migration on every read")
	}
	c.titleNeverJudgedByPlainEmptiness()
	var fns []*ssa.Function
	if v := c.FnImpl("(*ergo.PlanInput).Validate"); v != nil {
		fns = append(fns, v)
	}
	if rp := c.ErgoFn("RunPlan"); rp != nil {
		// the plan is built in the lock callback; other closures of RunPlan (a text printer handed to a reply helper)
		// resolve no titles
		var cbs []*ssa.Function
		for _, cl := range Closures(rp) {
			if c.F.Callbacks[cl] != nil {
				cbs = append(cbs, cl)
			}
		}
		if len(cbs) == 0 {
			cbs = Closures(rp)
		}
		fns = append(fns, cbs...)
	}
	if len(fns) < 2 {
		c.unk("ergo.RunPlan", "plan-functions", "-", "plan validator or plan callback not found")
		return
	}
	for _, f := range fns {
		cnt := 0
		// the validator / the plan callback together with the private helpers and methods they are split into
		for _, g := range c.unitOf(f) {
			if g != f && g.Parent() != nil && isNested(g, f) && containsFn(fns, g) {
				continue // a nested closure that is itself a subject
			}
			eachInstr(g, func(r instrRef) {
				var key ssa.Value
				var what string
				switch x := r.In.(type) {
				case *ssa.MapUpdate:
					key, what = x.Key, "map insert"
				case *ssa.Lookup:
					if _, isMap := x.X.Type().Underlying().(*types.Map); !isMap {
						return
					}
					key, what = x.Index, "map lookup"
				default:
					return
				}
				if b, ok := key.Type().Underlying().(*types.Basic); !ok || b.Info()&types.IsString == 0 {
					return
				}
				if !derivesFromField(key, "Title", "After") {
					return
				}
				cnt++
				tf := &textFlow{c: c, field: "Key", seen: map[ssa.Value]bool{}}
				tf.walk(key, 0)
				c.check(len(tf.problems) == 0, c.Name(f), fmt.Sprintf("title-key#%d", cnt), c.Pos(r.In.Pos()), what+" keyed by an input title verbatim",
					"a "+what+" is keyed by a transformed title ("+strings.Join(uniq(tf.problems), "; ")+"): the validator and the plan builder no longer agree on what a title is, so a reference can validate yet resolve to no task (or two distinct titles collide)")
			})
		}
		if cnt == 0 {
			c.bad(c.Name(f), "title-key#0", c.FnPos(f), "no title-keyed map operation found: plan title resolution not recognised")
		}
	}
}

func containsFn(fs []*ssa.Function, g *ssa.Function) bool {
	for _, f := range fs {
		if f == g {
			return true
		}
	}
	return false
}

func uniq(xs []string) []string {
	seen := map[string]bool{}
	var out []string
	for _, x := range xs {
		if !seen[x] {
			seen[x] = true
			out = append(out, x)
		}
	}
	return out
}

// onlyFromStringFlag: every origin of v is the value of a cobra/pflag string flag (cmd.Flags().GetString(...)),
// reached through parameters, plain copies and fields of option structs built by the command handlers - "a title
// given by flag", whichever options struct carries it.
func (c *Ctx) onlyFromStringFlag(v ssa.Value, d int) bool {
	if d > 10 || v == nil {
		return false
	}
	v = resolve(v)
	switch x := v.(type) {
	case *ssa.Extract:
		if cl, ok := x.Tuple.(*ssa.Call); ok && x.Index == 0 {
			return calleeFullName(&cl.Call) == "(*github.com/spf13/pflag.FlagSet).GetString"
		}
		return false
	case *ssa.Parameter:
		args := c.argValues(x.Parent(), paramIndex(x))
		if len(args) == 0 {
			return false
		}
		for _, a := range args {
			if !c.onlyFromStringFlag(a, d+1) {
				return false
			}
		}
		return true
	case *ssa.Phi:
		for _, e := range x.Edges {
			if !c.onlyFromStringFlag(e, d+1) {
				return false
			}
		}
		return true
	}
	if _, _, isField := fieldLoad(v); isField {
		os, ok := fieldOrigins(v, 0)
		if !ok || len(os) == 0 {
			return false
		}
		for _, o := range os {
			if !c.onlyFromStringFlag(o.V, d+1) {
				return false
			}
		}
		return true
	}
	return false
}

// csvFlagVars: the package-level variables bound to a pflag flag of a comma-splitting type
// (StringSliceVar[P], StringToStringVar[P]) anywhere in the module, with the position of the registration.
func (c *Ctx) csvFlagVars() map[*ssa.Global]string {
	if c.csvFlagMemo != nil {
		return c.csvFlagMemo
	}
	out := map[*ssa.Global]string{}
	for _, f := range c.Fns {
		if !c.InModule(f) || f.Blocks == nil {
			continue
		}
		for _, call := range callsIn(f) {
			n := calleeFullName(call.Common())
			if !strings.HasPrefix(n, "(*github.com/spf13/pflag.FlagSet).") {
				continue
			}
			m := n[strings.LastIndex(n, ".")+1:]
			if !(strings.HasPrefix(m, "StringSliceVar") || strings.HasPrefix(m, "StringToStringVar")) {
				continue
			}
			args := call.Common().Args
			if len(args) < 2 {
				continue
			}
			if g, ok := args[1].(*ssa.Global); ok {
				out[g] = c.Pos(call.Pos())
			}
		}
	}
	c.csvFlagMemo = out
	return out
}
