package main

// Write-protocol rules WR1..WR6 (DESIGN.md section 4).

import (
	"fmt"
	"go/token"
	"go/types"
	"strings"

	"golang.org/x/tools/go/ssa"
)

func init() {
	register(&Rule{ID: "WR1", Min: 4, Run: ruleWR1,
		Doc: "replace-protocol: (a) no truncating open (O_TRUNC/Create/WriteFile) targets the live log: a LOG-class target must be <live>+const suffix; (b) that temp value is the source of the os.Rename onto the live path and the rename is dominated by the temp writer's nil-error edge; (c) in the temp writer every non-error return passes the nil edge of Flush, and every buffered Write error is checked; (d) every writable open of the temp file truncates it (a stale temp left by a killed writer must not survive into the renamed file); the temp may instead be an os.CreateTemp file in filepath.Dir(<live>) renamed by its Name(), filled by a writer handed the handle (or its name) whose success dominates the rename, and - (f) - given its mode by a Chmod that dominates the rename, since CreateTemp always creates 0600 and the log every other path creates is 0644; (e) the live log is never unlinked or truncated by path"})
	register(&Rule{ID: "WR2", Min: 3, Run: ruleWR2,
		Doc: "history-grows: (a) every writable open of the live log is O_APPEND without O_TRUNC (or a create-if-absent whose handle is only closed); (b) the replace primitive (rename onto the log) is reachable only from compact and from prefix-preserving wrappers whose new content is append(append(fresh, existing...), appended...) with `existing` the unmodified result of reading the same path in the same function, or an identity rewrite (the content is exactly what readEvents returned for that path)"})
	register(&Rule{ID: "WR3", Min: 1, Run: ruleWR3,
		Doc: "one-write-per-commit: in the append primitive the append handle is written by exactly one non-looping call (a direct Write or the short-write retry helper); no buffered writer or encoder wraps the handle; the retry helper's loop is the recognised data=data[n:] form"})
	register(&Rule{ID: "WR4", Min: 1, Run: ruleWR4,
		Doc: "append-tail-aware: in the append primitive the O_APPEND open is reachable only on the edge where a tail inspection of the same path (helper that opens the path and reads its last byte, or Stat/ReadAt/Seek on the handle) reported a terminated tail; the unterminated edge leads to the prefix-preserving atomic rewrite; or the append is reached only after a tail repairer (probe of the same path, identity rewrite when unterminated) reported success"})
	register(&Rule{ID: "WR6", Min: 4, Run: ruleWR6,
		Doc: "reader-single-stream: the log reader opens the file once and its handle flows only into one sequential scanner (no Stat/ReadAt/Seek/second read); an unparsable final line is tolerated (events, nil) on some path, and the flag deciding tolerance is written only inside the scanner's split function from the bytes the scanner hands out; list and show load the log exactly once, not in a loop; (vi) the scanner's split function hands on every line it is given: it never advances past bytes without returning them as a token (a reader that skips over-long or otherwise unwelcome lines makes items vanish while the events that refer to them stay)"})
}

// effect site helpers ----------------------------------------------------

func (c *Ctx) effectsOfClass(classes ...string) []Effect {
	var out []Effect
	for _, e := range c.F.Effects {
		for _, cl := range classes {
			if e.Class == cl {
				out = append(out, e)
			}
		}
	}
	return out
}

// appendPrims: functions containing an append-open on a LOG-class path.
func (c *Ctx) appendSites() []Effect {
	var out []Effect
	for _, e := range c.effectsOfClass("append-open") {
		if e.Path != nil && c.pathClass(e.Path)[classLOG] {
			out = append(out, e)
		}
	}
	return out
}

// renameSites: os.Rename whose destination is LOG-class.
func (c *Ctx) renameSites() []Effect {
	var out []Effect
	for _, e := range c.effectsOfClass("rename") {
		if e.Path != nil && c.pathClass(e.Path)[classLOG] {
			out = append(out, e)
		}
	}
	return out
}

var writableOpenClasses = []string{"trunc-open", "append-open", "create-open", "write-open", "nonconst-open", "sys-trunc-open", "sys-append-open", "sys-create-open", "sys-write-open"}

// nilErrEdges: out-edges on which the error result of call is nil.
func nilErrEdges(f *ssa.Function, call ssa.Value) map[edge]bool {
	return edgesWhere(f, func(a Atom, holds bool) bool {
		if a.Kind != "nil" || !holds {
			return false
		}
		cl, _ := callOf(a.X)
		return cl != nil && ssa.Value(cl) == call
	})
}

func nonNilErrEdges(f *ssa.Function, call ssa.Value) map[edge]bool {
	return edgesWhere(f, func(a Atom, holds bool) bool {
		if a.Kind != "nil" || holds {
			return false
		}
		cl, _ := callOf(a.X)
		return cl != nil && ssa.Value(cl) == call
	})
}

// ------------------------------------------------------------------ WR1

func ruleWR1(c *Ctx) {
	ord := map[string]int{}
	// (a) + (d): every writable open classified by target
	for _, e := range c.F.Effects {
		isOpen := false
		for _, cl := range writableOpenClasses {
			if e.Class == cl {
				isOpen = true
			}
		}
		if !isOpen || e.Path == nil {
			continue
		}
		cls := c.pathClass(e.Path)
		if !cls[classLOG] {
			continue
		}
		fn := c.Name(e.Fn)
		ord[fn]++
		construct := fmt.Sprintf("open %s#%d", calleeFullName(e.Call.Common()), ord[fn])
		pos := c.Pos(e.Call.Pos())
		temp := c.isTempOfLog(e.Path)
		trunc := strings.HasSuffix(e.Class, "trunc-open")
		switch {
		case trunc && !temp:
			c.bad(fn, construct+"|a:no-truncate-live", pos, "truncating open on the live log (class "+cls.String()+"): a kill or a concurrent reader sees an empty or half-written store")
		case trunc && temp:
			c.ok(fn, construct+"|a:no-truncate-live", pos, "truncating open targets <log>+suffix (temp sibling)")
			c.ok(fn, construct+"|d:temp-truncated", pos, "temp file is truncated when opened")
		case temp:
			c.bad(fn, construct+"|d:temp-truncated", pos, "temp sibling of the log is opened for writing ("+e.Class+") without O_TRUNC: bytes of a stale temp left by a killed rewrite survive into the renamed log")
		default:
			c.ok(fn, construct+"|a:no-truncate-live", pos, e.Class+" on the live log does not truncate")
		}
	}
	// (e) the live log is never unlinked or truncated by path: between an unlink and the rename a lock-free reader
	// finds no log and shows an empty store
	nrm := 0
	for _, e := range c.F.Effects {
		if e.Class != "remove" && e.Class != "truncate" {
			continue
		}
		if e.Path == nil || !c.pathClass(e.Path)[classLOG] || c.isTempOfLog(e.Path) {
			continue
		}
		nrm++
		c.bad(c.Name(e.Fn), fmt.Sprintf("e:unlink-live %s#%d", calleeFullName(e.Call.Common()), nrm), c.Pos(e.Call.Pos()),
			"the live log is removed/truncated by path: until it is recreated a lock-free reader sees no log (an empty store the history never passed through), and a kill in between loses every acknowledged event")
	}
	c.check(nrm == 0, "<module>", "e:no-unlink-live", "-", "no os.Remove/Truncate of the live log anywhere", fmt.Sprintf("%d removals/truncations of the live log", nrm))
	// (b) rename protocol
	rn := 0
	for _, e := range c.renameSites() {
		rn++
		fn := c.Name(e.Fn)
		construct := fmt.Sprintf("rename#%d", rn)
		pos := c.Pos(e.Call.Pos())
		args := e.Call.Common().Args
		src, dst := resolve(args[0]), args[1]
		// src must be dst + const suffix
		okShape := false
		if b, ok := src.(*ssa.BinOp); ok && b.Op == token.ADD {
			if s, ok := constString(b.Y); ok && s != "" && c.canon(b.X) == c.canon(dst) {
				okShape = true
			}
		}
		// the temp name may come from a one-expression helper (tmpPathFor(path) = path + ".tmp")
		if hv, he := c.throughPureHelper(src, nil); !okShape && hv != src {
			if b, ok := hv.(*ssa.BinOp); ok && b.Op == token.ADD {
				if s, ok := constString(b.Y); ok && s != "" && c.canon(resolveEnv(b.X, he)) == c.canon(dst) {
					okShape = true
				}
			}
		}
		if !okShape {
			if c.createTempProtocol(e.Fn, e.Call, src, dst, fn, construct, pos) {
				continue
			}
			c.bad(fn, construct+"|b:temp-then-rename", pos, "rename source "+c.canon(src)+" is not <destination>+const suffix")
			continue
		}
		// a temp-writer call with the same temp value must dominate on its nil edge
		var writer ssa.CallInstruction
		for _, call := range callsIn(e.Fn) {
			cal := calleeOf(call.Common())
			if cal == nil || !c.InModule(cal) || len(call.Common().Args) == 0 {
				continue
			}
			if c.canon(call.Common().Args[0]) != c.canon(src) {
				continue
			}
			// callee must contain the truncating open of its first parameter
			for _, te := range c.F.Effects {
				if te.Fn == cal && strings.HasSuffix(te.Class, "trunc-open") {
					if prm, ok := resolve(te.Path).(*ssa.Parameter); ok && paramIndex(prm) == 0 {
						writer = call
					}
				}
			}
		}
		if writer == nil {
			c.bad(fn, construct+"|b:temp-then-rename", pos, "no temp-writer call (function truncating and writing its path parameter) on the rename source in this function")
			continue
		}
		wv, _ := writer.(*ssa.Call)
		dom := wv != nil && mustPassEdges(e.Fn, e.Call.Block(), nilErrEdges(e.Fn, wv))
		c.check(dom, fn, construct+"|b:temp-then-rename", pos, "rename is dominated by the temp writer's nil-error edge; source is <dst>+suffix",
			"rename is reachable without the temp writer having succeeded (a failed or skipped write is renamed over the log)")
		// (c) inside the temp writer
		c.checkTempWriter(calleeOf(writer.Common()))
	}
	if rn == 0 {
		c.bad("<module>", "rename#0|b:temp-then-rename", "-", "no rename onto a LOG-class path found: the atomic replace primitive is gone")
	}
}

// createTempProtocol: the other way to get a temp sibling - os.CreateTemp(filepath.Dir(dst), pattern), renamed by its
// Name(). The file is fresh and exclusive (nothing stale to truncate), lies in the destination's directory (the rename
// stays within one file system), is filled by a writer handed the handle whose success dominates the rename, and - since
// CreateTemp always creates mode 0600 whatever the umask - is given its mode explicitly before it becomes the log: a log
// that turns owner-only at its first rewrite is unreadable to every reader under another account from then on.
func (c *Ctx) createTempProtocol(f *ssa.Function, rename ssa.CallInstruction, src, dst ssa.Value, fn, construct, pos string) bool {
	nameCall, ok := strip(src).(*ssa.Call)
	if !ok || calleeFullName(&nameCall.Call) != "(*os.File).Name" || len(nameCall.Call.Args) != 1 {
		return false
	}
	tmp := resolve(nameCall.Call.Args[0])
	ex, ok := tmp.(*ssa.Extract)
	if !ok || ex.Index != 0 {
		return false
	}
	ct, ok := ex.Tuple.(*ssa.Call)
	if !ok || calleeFullName(&ct.Call) != "os.CreateTemp" {
		return false
	}
	sameHandle := func(v ssa.Value) bool { return resolve(v) == tmp }
	// same directory as the destination
	inDir := false
	if dc, ok := resolve(ct.Call.Args[0]).(*ssa.Call); ok && calleeFullName(&dc.Call) == "path/filepath.Dir" && c.canon(dc.Call.Args[0]) == c.canon(dst) {
		inDir = true
	}
	if !inDir {
		c.bad(fn, construct+"|b:temp-then-rename", pos, "the temp file is created in "+c.canon(ct.Call.Args[0])+", not in filepath.Dir(<destination>): the rename may cross file systems and is then not atomic (or fails)")
		return true
	}
	// the writer: a module function handed the handle, or write calls on the handle right here
	var writer *ssa.Call
	for _, call := range callsIn(f) {
		cv, isCall := call.(*ssa.Call)
		cal := calleeOf(call.Common())
		if !isCall || cal == nil || !c.InModule(cal) || cal.Blocks == nil {
			continue
		}
		for i, a := range call.Common().Args {
			if sameHandle(a) && errorResultIndex(call) >= 0 {
				writer = cv
			}
			// or handed the file's name and reopening it (truncating) by that name
			if c.canon(a) == c.canon(src) {
				for _, te := range c.F.Effects {
					if te.Fn == cal && strings.HasSuffix(te.Class, "trunc-open") {
						if prm, ok := resolve(te.Path).(*ssa.Parameter); ok && paramIndex(prm) == i {
							writer = cv
						}
					}
				}
			}
		}
	}
	if writer == nil {
		c.bad(fn, construct+"|b:temp-then-rename", pos, "no temp-writer call (module function handed the os.CreateTemp handle) before the rename")
		return true
	}
	dom := mustPassEdges(f, rename.Block(), nilErrEdges(f, writer))
	c.check(dom, fn, construct+"|b:temp-then-rename", pos, "rename is dominated by the temp writer's nil-error edge; source is the Name() of an os.CreateTemp file in the destination's directory",
		"rename is reachable without the temp writer having succeeded (a failed or skipped write is renamed over the log)")
	c.checkTempWriter(calleeOf(writer.Common()))
	// the mode
	var chmod *ssa.Call
	for _, call := range callsIn(f) {
		cv, isCall := call.(*ssa.Call)
		if !isCall {
			continue
		}
		switch calleeFullName(call.Common()) {
		case "(*os.File).Chmod":
			if sameHandle(call.Common().Args[0]) {
				chmod = cv
			}
		case "os.Chmod":
			if c.canon(call.Common().Args[0]) == c.canon(src) {
				chmod = cv
			}
		}
	}
	modeOK, why := false, "the file os.CreateTemp made (always mode 0600) is renamed over the log without a Chmod: after the first rewrite (compact, plan, tail repair) the log is owner-only, and list/show run under any other account fail where they worked before"
	if chmod != nil {
		if !mustPassEdges(f, rename.Block(), nilErrEdges(f, chmod)) {
			why = "the Chmod of the temp file does not dominate the rename on its success edge"
		} else {
			modeOK = true
			margs := chmod.Call.Args
			if k, isK := constInt(margs[len(margs)-1]); isK && k&0o044 != 0o044 {
				modeOK, why = false, fmt.Sprintf("the temp file is given mode %#o: the log every other path creates is 0644", k)
			}
		}
	}
	c.check(modeOK, fn, construct+"|f:temp-mode-set", pos, "the CreateTemp file is given its mode before the rename", why)
	return true
}

func (c *Ctx) checkTempWriter(w *ssa.Function) {
	fn := c.Name(w)
	var flushes, writes []*ssa.Call
	for _, call := range callsIn(w) {
		cv, ok := call.(*ssa.Call)
		if !ok {
			continue
		}
		switch calleeFullName(call.Common()) {
		case "(*bufio.Writer).Flush":
			flushes = append(flushes, cv)
		case "(*bufio.Writer).Write", "(*bufio.Writer).WriteString", "(*os.File).Write", "(*os.File).WriteString",
			"(*bufio.Writer).WriteByte", "(*bufio.Writer).WriteRune", "io.WriteString", "fmt.Fprint", "fmt.Fprintf", "fmt.Fprintln",
			"(*encoding/json.Encoder).Encode", "io.Copy":
			// (an Encoder / Fprint over the handle writes through it; its error is the write's error)
			writes = append(writes, cv)
		}
	}
	usesBuf := len(callsNamed(w, "bufio.NewWriter", "bufio.NewWriterSize")) > 0
	if len(writes) == 0 {
		// the writing may be delegated to a helper handed the open handle (writeEventsTo(file, events)): the helper is
		// the writer, and this function reports success only with the helper's
		for _, call := range callsIn(w) {
			cv, isCall := call.(*ssa.Call)
			inner := calleeOf(call.Common())
			if !isCall || inner == nil || inner == w || !c.InModule(inner) || inner.Blocks == nil || errorResultIndex(call) < 0 {
				continue
			}
			handed := false
			for _, a := range call.Common().Args {
				if a.Type().String() == "*os.File" {
					handed = true
				}
			}
			if !handed {
				continue
			}
			okRet := true
			pass := nilErrEdges(w, cv)
			for _, r := range c.nonFailingReturns(w) {
				if r.Block().Comment == "recover" || len(r.Results) == 0 {
					continue
				}
				last := strip(returnedValue(r, len(r.Results)-1))
				if last == ssa.Value(cv) || mustPassEdges(w, r.Block(), pass) {
					continue
				}
				okRet = false
			}
			c.check(okRet, fn, "c:writer-delegates", c.Pos(call.Pos()), "the writing is done by "+c.Name(inner)+" on the open handle and its error is this function's",
				"this function can report success without "+c.Name(inner)+" (which writes the temp file) having succeeded")
			c.checkTempWriter(inner)
			return
		}
		c.bad(fn, "c:flush-before-success", c.FnPos(w), "temp writer contains no write call")
		return
	}
	// every write's error must be checked: its non-nil edge exists
	unchecked := ""
	for _, wr := range writes {
		if len(nonNilErrEdges(w, wr)) == 0 {
			unchecked = c.Pos(wr.Pos())
		}
	}
	// every non-error return passes a Flush nil edge (if buffered)
	flushOK := true
	why := ""
	if usesBuf {
		pass := map[edge]bool{}
		for _, fl := range flushes {
			for e := range nilErrEdges(w, fl) {
				pass[e] = true
			}
		}
		// error edges of any call also excuse a return
		errEdges := edgesWhere(w, func(a Atom, holds bool) bool { return a.Kind == "nil" && !holds })
		for _, r := range returnsOf(w) {
			if r.Block().Comment == "recover" {
				continue
			}
			all := map[edge]bool{}
			for e := range pass {
				all[e] = true
			}
			for e := range errEdges {
				all[e] = true
			}
			if !mustPassEdges(w, r.Block(), all) {
				flushOK = false
				why = "return at " + c.Pos(r.Pos()) + " is reachable without a successful Flush"
			}
		}
		if len(flushes) == 0 {
			flushOK, why = false, "buffered writer is never flushed"
		}
	}
	c.check(unchecked == "" && flushOK, fn, "c:flush-before-success", c.FnPos(w),
		fmt.Sprintf("%d write call(s) checked, success returns pass Flush==nil", len(writes)),
		strings.TrimSpace("unchecked write at "+unchecked+"; "+why))
	// informational: fsync
	if len(callsNamed(w, "(*os.File).Sync")) == 0 {
		c.ok(fn, "info:fsync", c.FnPos(w), "no fsync of the temp file (reported, not required: the properties quantify over process death, not power loss)")
	}
}

// handleUsers: the instructions that use the file handle h - directly, or (when the variable holding it is captured by
// a closure, e.g. a deferred func that closes it, and therefore lives in a cell) through the loads of that cell.
func handleUsers(h ssa.Value) []ssa.Instruction {
	var out []ssa.Instruction
	seen := map[ssa.Value]bool{}
	var walk func(v ssa.Value, d int)
	walk = func(v ssa.Value, d int) {
		if v == nil || seen[v] || d > 4 || v.Referrers() == nil {
			return
		}
		seen[v] = true
		for _, r := range *v.Referrers() {
			if st, ok := r.(*ssa.Store); ok && st.Val == v {
				if cell := cellOf(st.Addr); cell != nil && len(cellStores(cell)) == 1 {
					for _, ld := range cellLoads(cell) {
						walk(ld, d+1)
					}
					continue
				}
				// kept in a field of a small wrapper object (logFile{f: file}): whatever reads that field of that type
				if fa, isFA := st.Addr.(*ssa.FieldAddr); isFA && curProg != nil {
					tn := namedTypeName(fa.X.Type())
					if strings.HasPrefix(tn, "ergo.") {
						for _, g := range curProg.Fns {
							eachInstr(g, func(r2 instrRef) {
								ld, ok := r2.In.(*ssa.UnOp)
								if !ok || ld.Op != token.MUL {
									return
								}
								if fa2, ok := ld.X.(*ssa.FieldAddr); ok && fa2.Field == fa.Field && namedTypeName(fa2.X.Type()) == tn {
									walk(ld, d+1)
								}
							})
						}
						continue
					}
				}
			}
			out = append(out, r)
		}
	}
	walk(h, 0)
	return out
}

// ------------------------------------------------------------------ WR2

func ruleWR2(c *Ctx) {
	// (a) writable opens of the live log
	n := 0
	for _, e := range c.F.Effects {
		isOpen := false
		for _, cl := range writableOpenClasses {
			if e.Class == cl {
				isOpen = true
			}
		}
		if !isOpen || e.Path == nil || !c.pathClass(e.Path)[classLOG] || c.isTempOfLog(e.Path) {
			continue
		}
		n++
		fn := c.Name(e.Fn)
		construct := fmt.Sprintf("a:live-open %s#%d", e.Class, n)
		pos := c.Pos(e.Call.Pos())
		switch e.Class {
		case "append-open":
			c.ok(fn, construct, pos, "live log opened O_APPEND without O_TRUNC")
		case "create-open":
			// handle must only be closed / error-checked
			okOnlyClosed := true
			if cv, ok := e.Call.(*ssa.Call); ok {
				for _, r := range *cv.Referrers() {
					ex, ok := r.(*ssa.Extract)
					if !ok || ex.Index != 0 {
						continue
					}
					for _, u := range handleUsers(ex) {
						if call, ok := u.(ssa.CallInstruction); ok && calleeFullName(call.Common()) == "(*os.File).Close" {
							continue
						}
						if _, ok := u.(*ssa.DebugRef); ok {
							continue
						}
						okOnlyClosed = false
					}
				}
			}
			c.check(okOnlyClosed, fn, construct, pos, "create-if-absent: handle is only closed", "handle of a non-append open of the live log is used for more than Close (writes at offset 0 overwrite history)")
		default:
			c.bad(fn, construct, pos, "live log opened "+e.Class+": not append-only")
		}
	}
	if n == 0 {
		c.bad("<module>", "a:live-open#0", "-", "no writable open of the live log found (append primitive gone?)")
	}
	// (b) callers of the replace primitive
	readEvents := c.F.Anchors["readEvents"]
	for _, rs := range c.renameSites() {
		prim := rs.Fn
		for i, cs := range c.callers[prim] {
			caller := cs.Fn
			fn := c.Name(caller)
			construct := fmt.Sprintf("b:replace-caller#%d", i+1)
			pos := c.Pos(cs.Call.Pos())
			if c.inCompactSection(caller) {
				c.ok(fn, construct, pos, "compact: the one history-rewriting command (frozen exception: the property names compact)")
				continue
			}
			// prefix-preserving wrapper: arg1 = append(append(fresh, P1...), P2...) with P1,P2 parameters
			args := cs.Call.Common().Args
			if len(args) < 2 {
				c.bad(fn, construct, pos, "replace primitive called with unexpected arguments")
				continue
			}
			if c.identityRewriteCall(cs.Call) {
				c.ok(fn, construct, pos, "identity rewrite: the log is replaced by exactly the events just read from it (a torn fragment is all that can go)")
				continue
			}
			p1, p2, ok := prefixAppendShape(args[1])
			if !ok {
				c.bad(fn, construct, pos, "replace primitive called with content that is not append(append(fresh, existing...), appended...): earlier history may be dropped or reordered")
				continue
			}
			c.ok(fn, construct, pos, fmt.Sprintf("new content = existing(param %d) ++ appended(param %d)", paramIndex(p1), paramIndex(p2)))
			// each call site of the wrapper: existing must be readEvents(samePath) unmodified
			// the call sites of the wrapper; a site inside a forwarding method of a store object (l.appendAtomically(existing,
			// appended) = appendEventsAtomically(l.path, existing, appended)) is judged at the method's own call sites
			type wsite struct {
				fn   *ssa.Function
				call ssa.CallInstruction
				args []vArg
			}
			var wsites []wsite
			for _, ws := range c.callers[Outermost(caller)] {
				if fi := c.fwdOf[ws.Fn]; fi != nil && fi.Target == caller && len(c.callers[ws.Fn]) > 0 {
					for _, cs2 := range c.callers[ws.Fn] {
						if _, va := forwardedCall(cs2.Call.Common()); va != nil {
							wsites = append(wsites, wsite{cs2.Fn, cs2.Call, va})
						}
					}
					continue
				}
				var va []vArg
				for _, a := range ws.Call.Common().Args {
					va = append(va, vArg{a, -1})
				}
				wsites = append(wsites, wsite{ws.Fn, ws.Call, va})
			}
			// a site inside a plain pass-through helper (commitPlan(path, existing, appended) = appendEventsAtomically(path,
			// existing, appended)): judged at that helper's own call sites, with its parameters replaced by their arguments
			for depth := 0; depth < 2; depth++ {
				var next []wsite
				changed := false
				for _, ws := range wsites {
					through := ws.fn.Parent() == nil && len(c.callers[ws.fn]) > 0
					idxs := make([]int, len(ws.args))
					for k, a := range ws.args {
						p, isP := resolve(a.V).(*ssa.Parameter)
						if a.Field >= 0 || !isP || p.Parent() != ws.fn {
							through = false
							break
						}
						idxs[k] = paramIndex(p)
					}
					if !through {
						next = append(next, ws)
						continue
					}
					changed = true
					for _, cs2 := range c.callers[ws.fn] {
						var va []vArg
						okArgs := true
						for _, pi := range idxs {
							if pi < 0 || pi >= len(cs2.Call.Common().Args) {
								okArgs = false
								break
							}
							va = append(va, vArg{cs2.Call.Common().Args[pi], -1})
						}
						if okArgs {
							next = append(next, wsite{cs2.Fn, cs2.Call, va})
						}
					}
				}
				wsites = next
				if !changed {
					break
				}
			}
			canonV := func(a vArg) string {
				if a.Field < 0 {
					return c.canon(a.V)
				}
				return c.canon(a.V) + "." + fieldName(a.V.Type(), a.Field)
			}
			for j, ws := range wsites {
				wargs := ws.args
				wfn := c.Name(ws.fn)
				wcon := fmt.Sprintf("b:wrapper-call %s#%d", caller.Name(), j+1)
				wpos := c.Pos(ws.call.Pos())
				idx := paramIndex(p1)
				if idx >= len(wargs) || wargs[idx].Field >= 0 {
					c.bad(wfn, wcon, wpos, "wrapper call has too few arguments")
					continue
				}
				ex := resolve(wargs[idx].V)
				call, ri := callOf(ex)
				var readPath vArg
				okRead := false
				if call != nil && ri == 0 && readEvents != nil {
					if calleeOf(&call.Call) == readEvents {
						readPath, okRead = vArg{call.Call.Args[0], -1}, true
					} else if tgt, va := forwardedCall(&call.Call); tgt == readEvents && len(va) > 0 {
						readPath, okRead = va[0], true
					}
				}
				if !okRead {
					c.bad(wfn, wcon, wpos, "`existing` is not the result of reading the log in this function: "+c.canon(ex))
					continue
				}
				if canonV(readPath) != canonV(wargs[0]) {
					c.bad(wfn, wcon, wpos, "`existing` was read from "+canonV(readPath)+" but the rewrite targets "+canonV(wargs[0]))
					continue
				}
				if mod := sliceModified(ex); mod != "" {
					c.bad(wfn, wcon, wpos, "`existing` is modified before the rewrite: "+mod)
					continue
				}
				c.ok(wfn, wcon, wpos, "`existing` is the unmodified result of readEvents on the rewritten path")
			}
		}
	}
}

// inCompactSection: fn is the critical section of the compact command (its lock callback) or a private helper only that
// section uses.
func (c *Ctx) inCompactSection(fn *ssa.Function) bool {
	rc := c.ErgoFn("RunCompact")
	if rc == nil {
		return false
	}
	for _, ls := range c.F.LockSites {
		if ls.Fn != rc || ls.Callback == nil {
			continue
		}
		if fn == ls.Callback || c.inUnit(fn, ls.Callback) {
			return true
		}
	}
	return false
}

// prefixAppendShape recognises append(append(make(...), P1...), P2...) and returns the two parameters.
func prefixAppendShape(v ssa.Value) (p1, p2 *ssa.Parameter, ok bool) {
	// slices.Concat(existing, appended): a fresh slice holding the first operand's elements followed by the second's
	if cc, isCall := resolve(v).(*ssa.Call); isCall && calleeFullName(&cc.Call) == "slices.Concat" {
		el := variadicElems(cc.Call.Args)
		if len(el) == 2 {
			a, okA := resolve(el[0]).(*ssa.Parameter)
			b, okB := resolve(el[1]).(*ssa.Parameter)
			if okA && okB {
				return a, b, true
			}
		}
		return nil, nil, false
	}
	outer, ok1 := resolve(v).(*ssa.Call)
	if !ok1 || calleeFullName(&outer.Call) != "builtin append" || len(outer.Call.Args) != 2 {
		return nil, nil, false
	}
	inner, ok2 := resolve(outer.Call.Args[0]).(*ssa.Call)
	if !ok2 || calleeFullName(&inner.Call) != "builtin append" || len(inner.Call.Args) != 2 {
		return nil, nil, false
	}
	base := resolve(inner.Call.Args[0])
	switch b := base.(type) {
	case *ssa.MakeSlice:
		if l, ok := constInt(b.Len); !ok || l != 0 {
			return nil, nil, false
		}
	case *ssa.Const:
		if !b.IsNil() {
			return nil, nil, false
		}
	default:
		return nil, nil, false
	}
	a, okA := resolve(inner.Call.Args[1]).(*ssa.Parameter)
	b, okB := resolve(outer.Call.Args[1]).(*ssa.Parameter)
	if !okA || !okB {
		return nil, nil, false
	}
	return a, b, true
}

// sliceModified reports a store into the slice's elements or an append onto it (as first operand).
func sliceModified(v ssa.Value) string {
	refs := v.Referrers()
	if refs == nil {
		return ""
	}
	for _, r := range *refs {
		switch x := r.(type) {
		case *ssa.IndexAddr:
			for _, u := range *x.Referrers() {
				if _, ok := u.(*ssa.Store); ok {
					return "element store"
				}
			}
		case *ssa.Call:
			if calleeFullName(&x.Call) == "builtin append" && len(x.Call.Args) > 0 && x.Call.Args[0] == v {
				return "append onto it"
			}
		case *ssa.Slice:
			return "re-sliced"
		}
	}
	return ""
}

// ------------------------------------------------------------------ WR3

func ruleWR3(c *Ctx) {
	sites := c.appendSites()
	if len(sites) == 0 {
		c.bad("<module>", "append-primitive", "-", "no O_APPEND open of the log found")
		return
	}
	for i, e := range sites {
		f := e.Fn
		fn := c.Name(f)
		pos := c.Pos(e.Call.Pos())
		construct := fmt.Sprintf("append-handle#%d", i+1)
		c.appendAtMostOneEvent(e, fn, construct+"|at-most-one-event", pos)
		cv, ok := e.Call.(*ssa.Call)
		if !ok {
			c.bad(fn, construct, pos, "append open is deferred")
			continue
		}
		var handle ssa.Value
		for _, r := range *cv.Referrers() {
			if ex, ok := r.(*ssa.Extract); ok && ex.Index == 0 {
				handle = ex
			}
		}
		if handle == nil {
			c.bad(fn, construct, pos, "handle of the append open is not used")
			continue
		}
		var writes []ssa.CallInstruction
		bad := ""
		for _, r := range handleUsers(handle) {
			call, ok := r.(ssa.CallInstruction)
			if !ok {
				if _, isDbg := r.(*ssa.DebugRef); isDbg {
					continue
				}
				if mi, isMI := r.(*ssa.MakeInterface); isMI {
					bad = "append handle is converted to an interface at " + c.Pos(mi.Pos()) + " (buffered writer / encoder / Fprintf): the number and size of write(2) calls is no longer one per command"
				}
				continue
			}
			name := calleeFullName(call.Common())
			switch {
			case name == "(*os.File).Close":
			case name == "(*os.File).Write" || name == "(*os.File).WriteString":
				writes = append(writes, call)
			case name == "(*os.File).Sync" || name == "(*os.File).Stat" || name == "(*os.File).Name" || name == "(*os.File).Fd":
			default:
				if cal := calleeOf(call.Common()); cal != nil && c.InModule(cal) {
					if msg := c.retryHelperOK(cal, call, handle); msg != "" {
						bad = msg
					} else {
						writes = append(writes, call)
					}
				} else {
					bad = "append handle passed to " + name + " at " + c.Pos(call.Pos()) + ": not a recognised single write"
				}
			}
		}
		if bad != "" {
			c.bad(fn, construct+"|single-write", pos, bad)
			continue
		}
		if len(writes) != 1 {
			c.bad(fn, construct+"|single-write", pos, fmt.Sprintf("%d write sites on the append handle, expected exactly 1 (a kill between two writes leaves the command half recorded)", len(writes)))
			continue
		}
		if inCycle(writes[0].Block()) {
			c.bad(fn, construct+"|single-write", c.Pos(writes[0].Pos()), "the write on the append handle is inside a loop: one write(2) per iteration puts a kill point between a command's events")
			continue
		}
		c.ok(fn, construct+"|single-write", c.Pos(writes[0].Pos()), "exactly one non-looping write of the whole batch on the append handle")
		// nothing can fail after the write has succeeded: the bytes are already visible to every reader, so a later
		// error (fsync, close, a second step) makes the command exit non-zero although it changed the store
		if wv, ok := writes[0].(*ssa.Call); ok {
			bad := ""
			for _, r := range returnsOf(f) {
				if r.Block().Comment == "recover" || len(r.Results) == 0 {
					continue
				}
				if !(r.Block() == wv.Block() && instrIndex(r) > instrIndex(wv)) && !canReachInstr(wv, r) {
					continue
				}
				for _, sv := range errorSourceValues(r) {
					if sc, ok := sv.(*ssa.Call); ok && sc == wv {
						continue
					}
					if sc, ok := sv.(*ssa.Call); ok && sc.Parent() == f && !canReachInstr(wv, sc) {
						continue // produced before the write (marshal, open)
					}
					// (an error assigned to the result by a closure - `defer func() { err = file.Close() }()` - runs on
					// the way out, after the write)
					bad = fmt.Sprintf("the return at %s can carry an error produced after the write succeeded (%s)", c.Pos(r.Pos()), c.canon(sv))
				}
			}
			c.check(bad == "", fn, construct+"|no-failure-after-write", c.Pos(wv.Pos()), "after the single write succeeds the primitive cannot fail", bad+": the events are in the live log while the command reports failure")
		}
	}
}

// retryHelperOK checks that helper writes its handle parameter only in the short-write retry loop form.
func (c *Ctx) retryHelperOK(helper *ssa.Function, call ssa.CallInstruction, handle ssa.Value) string {
	// which parameter receives the handle
	idx := -1
	for i, a := range call.Common().Args {
		if a == handle || resolve(a) == resolve(handle) {
			idx = i
		}
	}
	if idx < 0 {
		// the handle lives in a captured variable: the argument is a load of the cell it was stored into
		for i, a := range call.Common().Args {
			if ld, ok := a.(*ssa.UnOp); ok {
				if cell := cellOf(ld.X); cell != nil {
					for _, st := range cellStores(cell) {
						if st.Val == handle {
							idx = i
						}
					}
				}
			}
		}
	}
	if idx < 0 || idx >= len(helper.Params) {
		return "append handle flows into " + c.Name(helper) + " in an unrecognised way"
	}
	hp := helper.Params[idx]
	n := 0
	for _, r := range *hp.Referrers() {
		wc, ok := r.(*ssa.Call)
		if !ok {
			if _, isDbg := r.(*ssa.DebugRef); isDbg {
				continue
			}
			return c.Name(helper) + " uses the handle other than by Write"
		}
		if nm := calleeFullName(&wc.Call); nm != "(*os.File).Write" {
			return c.Name(helper) + " passes the handle to " + nm
		}
		n++
		if !inCycle(wc.Block()) {
			continue // single straight write is fine
		}
		// loop form: data argument is phi(param, slice(phi, n:)) with n = Write's first result
		phi, ok := wc.Call.Args[1].(*ssa.Phi)
		if !ok {
			return c.Name(helper) + ": looping write whose data is not the remaining-bytes phi"
		}
		okShape := false
		for _, ed := range phi.Edges {
			if sl, ok := ed.(*ssa.Slice); ok && sl.X == ssa.Value(phi) && sl.High == nil {
				if ex, ok := sl.Low.(*ssa.Extract); ok && ex.Tuple == ssa.Value(wc) && ex.Index == 0 {
					okShape = true
				}
			}
		}
		if !okShape {
			return c.Name(helper) + ": looping write is not the short-write retry form data=data[n:]"
		}
	}
	if n != 1 {
		return fmt.Sprintf("%s contains %d writes on the handle", c.Name(helper), n)
	}
	return ""
}

// identityRewriteCall: a call of a replace primitive (a function that renames a temp over its path parameter) whose
// content is exactly what readEvents just handed back for that same path: the observable state is unchanged by it.
func (c *Ctx) identityRewriteCall(call ssa.CallInstruction) bool {
	cal := calleeOf(call.Common())
	re := c.F.Anchors["readEvents"]
	if cal == nil || re == nil || len(call.Common().Args) != 2 {
		return false
	}
	isPrim := false
	for _, rs := range c.renameSites() {
		if rs.Fn == cal {
			isPrim = true
		}
	}
	if !isPrim {
		return false
	}
	args := call.Common().Args
	ex, ok := resolve(args[1]).(*ssa.Extract)
	if !ok || ex.Index != 0 {
		return false
	}
	rd, ok := ex.Tuple.(*ssa.Call)
	if !ok || calleeOf(&rd.Call) != re || len(rd.Call.Args) == 0 || c.canon(rd.Call.Args[0]) != c.canon(args[0]) {
		return false
	}
	// the slice read is handed over untouched: its only other uses are the hand-over itself and debug references
	for _, u := range *ex.Referrers() {
		switch x := u.(type) {
		case *ssa.DebugRef:
		case ssa.CallInstruction:
			if x != call {
				return false
			}
		default:
			return false
		}
	}
	return true
}

// tailRepairer: R(path ...) error probes the tail of its path and, when it is unterminated, rewrites the log by an
// identity rewrite; it reports success only when the tail was found terminated or the rewrite succeeded.
func (c *Ctx) tailRepairer(R *ssa.Function) bool {
	if R == nil || R.Blocks == nil || len(R.Params) == 0 {
		return false
	}
	pc := c.canon(R.Params[0])
	var flag ssa.Value
	var rewrite *ssa.Call
	for _, call := range callsIn(R) {
		cv, ok := call.(*ssa.Call)
		if !ok {
			continue
		}
		cal := calleeOf(&cv.Call)
		if cal == nil || !c.InModule(cal) || len(cv.Call.Args) == 0 || c.canon(cv.Call.Args[0]) != pc {
			continue
		}
		if c.readsTailOfParam0(cal) && cv.Referrers() != nil {
			for _, r := range *cv.Referrers() {
				if ex, ok := r.(*ssa.Extract); ok && ex.Index == 0 {
					flag = ex
				}
			}
		}
		if c.identityRewriteCall(cv) {
			rewrite = cv
		}
	}
	if flag == nil || rewrite == nil {
		return false
	}
	pass := edgesWhere(R, func(a Atom, holds bool) bool { return a.Kind == "bool" && strip(a.X) == flag && !holds })
	for e := range nilErrEdges(R, rewrite) {
		pass[e] = true
	}
	// (a return shared with a failing path - `if err != nil || !unterminated { return err }` - is entered either with a
	// non-nil error or across the terminated edge)
	for e := range edgesWhere(R, func(a Atom, holds bool) bool { return a.Kind == "nil" && !holds && isErrorType(a.X) }) {
		pass[e] = true
	}
	n := 0
	for _, r := range c.nonFailingReturns(R) {
		n++
		if len(r.Results) == 1 && strip(returnedValue(r, 0)) == ssa.Value(rewrite) {
			continue // return replace(path, existing): its error is the result
		}
		if !mustPassEdges(R, r.Block(), pass) {
			return false
		}
	}
	return n > 0
}

// ------------------------------------------------------------------ WR4

func ruleWR4(c *Ctx) {
	probed := map[*ssa.Function]bool{}
	sites := c.appendSites()
	if len(sites) == 0 {
		c.bad("<module>", "append-primitive", "-", "no O_APPEND open of the log found")
		return
	}
	for i, e := range sites {
		f := e.Fn
		fn := c.Name(f)
		pos := c.Pos(e.Call.Pos())
		construct := fmt.Sprintf("append-open#%d", i+1)
		pathV := e.Path
		var site ssa.Instruction = e.Call
		// candidate tail inspections: module helper taking the same path, which opens it read-only and reads at an offset
		var insp *ssa.Call
		for hop := 0; hop < 3; hop++ {
			pathCanon := c.canon(pathV)
			for _, call := range callsIn(f) {
				cv, ok := call.(*ssa.Call)
				if !ok {
					continue
				}
				cal := calleeOf(&cv.Call)
				if cal == nil || !c.InModule(cal) || len(cv.Call.Args) == 0 || c.canon(cv.Call.Args[0]) != pathCanon {
					continue
				}
				if c.readsTailOfParam0(cal) {
					insp = cv
				}
			}
			if insp != nil || f.Parent() != nil || len(c.callers[f]) != 1 {
				break
			}
			// the in-place append split out of the appender (appendEventsInPlace): the decision is taken by its only caller
			cs := c.callers[f][0]
			en := env{}
			for i, prm := range f.Params {
				if i < len(cs.Call.Common().Args) {
					en[prm] = cs.Call.Common().Args[i]
				}
			}
			pathV = resolveEnv(pathV, en)
			site = cs.Call
			f = cs.Fn
		}
		if insp == nil {
			// or the tail is repaired first: a helper that probes the tail of the same path and, when it is unterminated,
			// replaces the log by what the tolerant reader made of it; the append is reached only with that helper's success
			repaired := false
			pathCanon := c.canon(pathV)
			for _, call := range callsIn(f) {
				cv, ok := call.(*ssa.Call)
				if !ok {
					continue
				}
				cal := calleeOf(&cv.Call)
				if cal == nil || !c.InModule(cal) || len(cv.Call.Args) == 0 || c.canon(cv.Call.Args[0]) != pathCanon || !c.tailRepairer(cal) {
					continue
				}
				if mustPassEdges(f, site.Block(), nilErrEdges(f, cv)) {
					repaired = true
					for _, pc := range callsIn(cal) {
						if p := calleeOf(pc.Common()); p != nil && c.InModule(p) && c.readsTailOfParam0(p) && !probed[p] {
							probed[p] = true
							c.probeVerdict(p)
						}
					}
				}
			}
			if repaired {
				c.ok(fn, construct+"|tail-inspected", pos, "the append is reached only after a tail repair (probe, and identity rewrite of an unterminated log) succeeded")
				continue
			}
			c.bad(fn, construct+"|tail-inspected", pos, "the bytes appended do not depend on the current tail of the file: a torn fragment left by a killed writer is glued to the next line and every later command fails")
			continue
		}
		// the append open must be reachable only where the inspection's bool result is false (terminated)
		var flag ssa.Value
		for _, r := range *insp.Referrers() {
			if ex, ok := r.(*ssa.Extract); ok && ex.Index == 0 {
				flag = ex
			}
		}
		if flag == nil {
			c.bad(fn, construct+"|tail-inspected", pos, "result of the tail inspection is ignored")
			continue
		}
		pass := edgesWhere(f, func(a Atom, holds bool) bool { return a.Kind == "bool" && strip(a.X) == flag && !holds })
		okGuard := mustPassEdges(f, site.Block(), pass)
		c.check(okGuard, fn, construct+"|tail-inspected", pos,
			"append happens only when "+c.Name(calleeOf(&insp.Call))+" reports a newline-terminated tail",
			"the O_APPEND open is reachable on the unterminated-tail edge (or without consulting the inspection)")
		// the unterminated edge must reach a prefix-preserving rewrite (a commit) — not silently drop the events
		torn := edgesWhere(f, func(a Atom, holds bool) bool { return a.Kind == "bool" && strip(a.X) == flag && holds })
		commit := c.commitFuncs()
		rew := false
		for te := range torn {
			region := reach(te.To(), nil, nil)
			for _, call := range callsIn(f) {
				if region[call.Block()] {
					if cal := calleeOf(call.Common()); cal != nil && commit[cal] {
						rew = true
					}
				}
			}
		}
		c.check(rew, fn, construct+"|torn-tail-rewritten", pos, "unterminated tail leads to the atomic rewrite", "unterminated-tail edge does not reach a rewrite of the log")
		if p := calleeOf(&insp.Call); p != nil && !probed[p] {
			probed[p] = true
			c.probeVerdict(p)
		}
	}
}

// readsTailOfParam0: helper opens its first parameter read-only and calls ReadAt/Seek/Read on that handle.
func (c *Ctx) readsTailOfParam0(h *ssa.Function) bool {
	opened := false
	for _, e := range c.F.Effects {
		if e.Fn == h && e.Class == "read-open" {
			if prm, ok := resolve(e.Path).(*ssa.Parameter); ok && paramIndex(prm) == 0 {
				opened = true
			}
		}
		if e.Fn == h && contentMutator(e.Class) {
			return false
		}
	}
	return opened && len(callsNamed(h, "(*os.File).ReadAt", "(*os.File).Seek", "(*os.File).Read")) > 0
}

// ------------------------------------------------------------------ WR6

func ruleWR6(c *Ctx) {
	rd := c.anchor("readEvents")
	if rd == nil {
		return
	}
	fn := c.Name(rd)
	opens := callsNamed(rd, "os.Open", "os.OpenFile")
	// (i) single open, handle flows only to scanner + close
	if len(opens) != 1 {
		c.bad(fn, "i:single-open", c.FnPos(rd), fmt.Sprintf("%d opens of the log in the reader, expected 1: two reads of a file being appended are not one snapshot", len(opens)))
	} else {
		ov := opens[0].(*ssa.Call)
		bad := ""
		for _, r := range *ov.Referrers() {
			ex, ok := r.(*ssa.Extract)
			if !ok || ex.Index != 0 {
				continue
			}
			for _, u := range *ex.Referrers() {
				switch x := u.(type) {
				case *ssa.DebugRef:
				case *ssa.MakeInterface:
					// must flow to bufio.NewScanner / NewReader only
					for _, uu := range *x.Referrers() {
						if call, ok := uu.(ssa.CallInstruction); ok {
							if n := calleeFullName(call.Common()); n != "bufio.NewScanner" && n != "bufio.NewReader" && n != "bufio.NewReaderSize" {
								if c.scannerConstructor(calleeOf(call.Common()), x, call) {
									continue // a helper that only wraps the handle in the one sequential scanner
								}
								bad = "handle passed to " + n
							}
						}
					}
				case ssa.CallInstruction:
					n := calleeFullName(x.Common())
					if n != "(*os.File).Close" {
						bad = n + " at " + c.Pos(x.Pos()) + " looks at the file outside the sequential scan"
					}
				default:
					bad = fmt.Sprintf("handle used by %T", u)
				}
			}
		}
		c.check(bad == "", fn, "i:single-open", c.Pos(ov.Pos()), "one open; the handle feeds one sequential scanner", "reader's "+bad+": a tail appended or torn between that look and the scan makes the reader fail or drop a line")
	}
	// (ii) tolerance exists
	var tolerant *ssa.Return
	var procErrEdges = edgesWhere(rd, func(a Atom, holds bool) bool {
		if a.Kind != "nil" || holds {
			return false
		}
		cl, _ := callOf(a.X)
		if cl == nil {
			return false
		}
		// the per-line processor: a closure of the reader or a module helper that parses one line
		if mc, ok := resolve(cl.Call.Value).(*ssa.MakeClosure); ok {
			return isNested(mc.Fn.(*ssa.Function), rd)
		}
		if cal := calleeOf(&cl.Call); cal != nil && c.InModule(cal) {
			return len(callsNamed(cal, "encoding/json.Unmarshal")) > 0
		}
		return false
	})
	for _, r := range returnsOf(rd) {
		if len(r.Results) < 2 || !isErrorType(r.Results[len(r.Results)-1]) {
			continue
		}
		errv := r.Results[len(r.Results)-1] // (the reader may report more than the events: a torn-tail flag, a byte count)
		if u, ok := errv.(*ssa.UnOp); ok && u.Op == token.MUL {
			// named-result / defer spill: last store in block
			for _, in := range r.Block().Instrs {
				if st, ok := in.(*ssa.Store); ok && st.Addr == u.X {
					errv = st.Val
				}
			}
		}
		if !isNilConst(errv) {
			continue
		}
		if inCycle(r.Block()) {
			continue
		}
		if mustPassEdges(rd, r.Block(), procErrEdges) {
			tolerant = r
		}
	}
	if tolerant == nil {
		// the tolerant return may be shared with the ordinary end of the function
		// (`if err := processLine(...); err != nil && endsWithNewline { return nil, err }` falling through to the one
		// `return events, nil`): it is then reached from the parse-error edge across the false edge of a bool test,
		// which clause (iii) judges
		for _, r := range returnsOf(rd) {
			if len(r.Results) < 2 || !isErrorType(r.Results[len(r.Results)-1]) || inCycle(r.Block()) || !isNilConst(returnedValue(r, len(r.Results)-1)) {
				continue
			}
			for e := range procErrEdges {
				for _, bf := range branchFacts(rd) {
					if bf.A.Kind == "bool" && len(bf.A.Env) == 0 && bf.E.To() == r.Block() && reach(e.To(), nil, nil)[bf.E.From] && !inCycle(bf.E.From) {
						tolerant = r
					}
				}
			}
		}
		curEnv = nil
	}
	c.check(tolerant != nil, fn, "ii:torn-tail-tolerated", c.FnPos(rd),
		"an unparsable final line can be tolerated (events, nil)",
		"no path returns success after the final line failed to parse: a tail torn by a killed writer makes every command fail")
	// (iii) the tolerance flag
	if tolerant != nil {
		// the branch deciding tolerance: the bool condition(s) between the parse error edge and the tolerant return
		var flagCells []*ssa.Alloc
		for _, bf := range branchFacts(rd) {
			curEnv = bf.A.Env
			if bf.E.To() != tolerant.Block() && !bf.E.To().Dominates(tolerant.Block()) {
				continue
			}
			if bf.A.Kind != "bool" {
				continue
			}
			if u, ok := strip(bf.A.X).(*ssa.UnOp); ok && u.Op == token.MUL {
				if cell := cellOf(u.X); cell != nil {
					flagCells = append(flagCells, cell)
				}
			} else if !mustPassEdges(rd, bf.E.From, procErrEdges) {
				continue
			} else {
				c.bad(fn, "iii:flag-from-scanned-bytes", c.Pos(bf.If.Pos()), "the condition deciding tolerance is not a flag written by the scanner's split function: "+c.canon(bf.A.X))
			}
		}
		splitFns := map[*ssa.Function]bool{}
		for _, g := range append([]*ssa.Function{rd}, c.scannerConstructorsOf(rd)...) {
			for _, call := range callsNamed(g, "(*bufio.Scanner).Split") {
				for _, f := range funcValuesOf(call.Common().Args[1], 0) {
					splitFns[f] = true
				}
			}
		}
		// the split function may look at what the line splitter found, but hands it on unchanged: every line of the log
		// reaches the decoder. A split function that swallows input (a nil token with a positive advance of its own, to
		// `skip` an over-long or unwanted line) makes events vanish without an error
		for sf := range splitFns {
			if sf.Blocks == nil {
				continue // bufio.ScanLines itself
			}
			badSplit := ""
			var base *ssa.Call
			for _, call := range callsNamed(sf, "bufio.ScanLines") {
				if cv, ok := call.(*ssa.Call); ok {
					base = cv
				}
			}
			for _, r := range returnsOf(sf) {
				if len(r.Results) != 3 {
					continue
				}
				for i, res := range r.Results {
					ex, ok := strip(res).(*ssa.Extract)
					if !ok || base == nil || ex.Tuple != ssa.Value(base) || ex.Index != i {
						badSplit = c.Pos(r.Pos())
					}
				}
			}
			if base == nil {
				badSplit = c.Pos(sf.Pos())
			}
			c.check(badSplit == "", fn, "vi:split-hands-lines-on", c.Pos(sf.Pos()), "the split function returns exactly what bufio.ScanLines found",
				"the scanner's split function has a return (at "+badSplit+") that is not bufio.ScanLines' own (advance, token, error): it can consume input without handing it out as a line, so an event of the log - an over-long create line, say - is dropped silently and everything that refers to it is replayed without it")
		}
		if len(flagCells) == 0 {
			c.bad(fn, "iii:flag-from-scanned-bytes", c.Pos(tolerant.Pos()), "tolerance of an unparsable final line is not conditioned on a newline flag derived from the scanned bytes (unconditional tolerance hides a corrupt terminated line; a probe outside the scan races with writers)")
		}
		for _, cell := range flagCells {
			bad := ""
			nIn := 0
			for _, st := range cellStores(cell) {
				if _, isConst := st.Val.(*ssa.Const); isConst {
					continue
				}
				if !splitFns[st.Parent()] {
					bad = "flag written at " + c.Pos(st.Pos()) + " outside the scanner's split function"
					continue
				}
				// value must derive from the split function's data parameter or the ScanLines results
				sf := st.Parent()
				der := false
				for _, prm := range sf.Params {
					if derivesFrom(st.Val, prm) {
						der = true
					}
				}
				if !der {
					bad = "flag value at " + c.Pos(st.Pos()) + " does not derive from the bytes handed to the split function"
				}
				nIn++
			}
			if nIn == 0 && bad == "" {
				bad = "flag is never set from scanned bytes"
			}
			c.check(bad == "", fn, "iii:flag-from-scanned-bytes", c.Pos(cell.Pos()), "tolerance flag is written only in the split function from the scanned bytes", bad)
		}
	}
	// (v) the scanner's buffer is reused by the next Scan(): a token kept across iterations must be copied
	nb := 0
	for _, g := range append([]*ssa.Function{rd}, Closures(rd)...) {
		for _, call := range callsNamed(g, "(*bufio.Scanner).Bytes") {
			cv, ok := call.(*ssa.Call)
			if !ok {
				continue
			}
			nb++
			bad := ""
			var visit func(v ssa.Value, d int)
			seen := map[ssa.Value]bool{}
			visit = func(v ssa.Value, d int) {
				if v == nil || d > 6 || seen[v] {
					return
				}
				seen[v] = true
				for _, r := range *v.Referrers() {
					switch x := r.(type) {
					case *ssa.Phi:
						if inCycle(x.Block()) {
							bad = "the slice returned by scanner.Bytes() is carried into the next iteration (" + x.Comment + ") without being copied"
						}
					case *ssa.Store:
						if x.Val == v {
							bad = "the slice returned by scanner.Bytes() is stored in a variable that outlives the iteration without being copied"
						}
					case *ssa.Slice:
						visit(x, d+1)
					case *ssa.Call:
						if calleeFullName(&x.Call) == "builtin append" && len(x.Call.Args) > 0 && x.Call.Args[0] == v {
							visit(x, d+1) // appending onto the scanner's own slice keeps the alias
						}
					}
				}
			}
			visit(cv, 0)
			c.check(bad == "", fn, fmt.Sprintf("v:scanner-token-copied#%d", nb), c.Pos(cv.Pos()), "the scanner token is copied (or consumed) before the next Scan()", bad+": the next Scan() overwrites it, so a long following line corrupts the held-back line and every command fails with a bogus parse error")
		}
	}
	// (vi) inside the scan loop no failure is decided on the line scanned in this very iteration: whether that line is
	// the (possibly torn) last one is only known after the next Scan(), so only the held-back line may be judged
	for _, g := range c.unitOf(rd) {
		for _, sc := range callsNamed(g, "(*bufio.Scanner).Scan") {
			hdr := sc.Block()
			if !isLoopHeader(hdr) {
				continue
			}
			body := loopBlocks(hdr)
			var tokens []ssa.Value
			for b := range body {
				for _, in := range b.Instrs {
					if cl, ok := in.(*ssa.Call); ok {
						if n := calleeFullName(&cl.Call); n == "(*bufio.Scanner).Bytes" || n == "(*bufio.Scanner).Text" {
							tokens = append(tokens, cl)
						}
					}
				}
			}
			// derives(v): v is computed in this iteration from the freshly scanned token (not through a loop-carried
			// variable: header phis and loads of variables are values of earlier iterations)
			var derives func(v ssa.Value, d int, seen map[ssa.Value]bool) bool
			derives = func(v ssa.Value, d int, seen map[ssa.Value]bool) bool {
				if v == nil || d > 20 || seen[v] {
					return false
				}
				seen[v] = true
				for _, t := range tokens {
					if v == t {
						return true
					}
				}
				switch x := v.(type) {
				case *ssa.Phi:
					if x.Block() == hdr {
						return false
					}
				case *ssa.UnOp:
					if x.Op == token.MUL {
						return false
					}
				case *ssa.Parameter, *ssa.FreeVar, *ssa.Const, *ssa.Global:
					return false
				}
				in, ok := v.(ssa.Instruction)
				if !ok || !body[in.Block()] {
					return false
				}
				for _, op := range in.Operands(nil) {
					if *op != nil && derives(*op, d+1, seen) {
						return true
					}
				}
				return false
			}
			nr := 0
			for _, r := range returnsOf(g) {
				// an exit taken from inside the loop body (not the header's own "no more lines" exit)
				fromBody := body[r.Block()]
				for _, p := range r.Block().Preds {
					if body[p] && p != hdr {
						fromBody = true
					}
				}
				if !fromBody {
					continue
				}
				// a failing return in the loop body, or reachable only from inside it
				if !c.definitelyFails(g, r) {
					continue
				}
				nr++
				bad := ""
				for _, bf := range directFacts(g) {
					if !body[bf.E.From] || bf.E.From == hdr {
						continue
					}
					if !mustPassEdges(g, r.Block(), map[edge]bool{bf.E: true}) {
						continue
					}
					if derives(bf.A.X, 0, map[ssa.Value]bool{}) || (bf.A.Y != nil && derives(bf.A.Y, 0, map[ssa.Value]bool{})) {
						bad = c.Pos(bf.If.Pos())
					}
				}
				c.check(bad == "", fn, fmt.Sprintf("vi:current-line-not-judged#%d", nr), c.Pos(r.Pos()), "failures inside the scan loop concern the held-back line only",
					"this failure is decided (at "+bad+") on the line scanned in the same iteration: if that line is the torn tail of an interrupted write, readers fail instead of showing the state before it")
			}
		}
	}
	// (iv) read entry points load once
	lg := c.F.Anchors["loadGraph"]
	for _, n := range []string{"RunList", "RunShow"} {
		e := c.ErgoFn(n)
		if e == nil || lg == nil {
			c.unk("ergo."+n, "iv:single-load", "-", "entry point or loader not found")
			continue
		}
		cnt, loop := 0, false
		for g := range c.F.TransitiveCallees(e) {
			for _, call := range callsIn(g) {
				cal := calleeOf(call.Common())
				if cal == lg || cal == rd || c.loaderKind(cal) != "" {
					if (g == lg || c.loaderKind(g) != "") && (cal == rd || c.loaderKind(cal) != "") {
						continue // loadGraph -> (loadGraphFrom ->) readEvents is the one load
					}
					cnt++
					if inCycle(call.Block()) {
						loop = true
					}
				}
			}
		}
		c.check(cnt == 1 && !loop, c.Name(e), "iv:single-load", c.FnPos(e), "the log is read exactly once per command",
			fmt.Sprintf("%d load sites (loop=%v): output would mix two snapshots of a log that writers are extending", cnt, loop))
	}
}

// scannerConstructor: h is a module helper that receives the reader's handle (the interface value hv, passed at call)
// and does nothing with it but hand it to bufio.NewScanner / NewReader: the helper that builds the reader's scanner.
func (c *Ctx) scannerConstructor(h *ssa.Function, hv ssa.Value, call ssa.CallInstruction) bool {
	if h == nil || h.Blocks == nil || !c.InModule(h) {
		return false
	}
	idx := -1
	for i, a := range call.Common().Args {
		if a == hv {
			idx = i
		}
	}
	if idx < 0 || idx >= len(h.Params) || h.Params[idx].Referrers() == nil {
		return false
	}
	n := 0
	for _, r := range *h.Params[idx].Referrers() {
		switch x := r.(type) {
		case *ssa.DebugRef:
		case ssa.CallInstruction:
			if nm := calleeFullName(x.Common()); nm != "bufio.NewScanner" && nm != "bufio.NewReader" && nm != "bufio.NewReaderSize" {
				return false
			}
			n++
		default:
			return false
		}
	}
	return n == 1
}

// scannerConstructorsOf: the scanner-building helpers the reader hands its handle to.
func (c *Ctx) scannerConstructorsOf(rd *ssa.Function) []*ssa.Function {
	var out []*ssa.Function
	for _, call := range callsIn(rd) {
		h := calleeOf(call.Common())
		if h == nil || !c.InModule(h) || h.Blocks == nil {
			continue
		}
		for _, a := range call.Common().Args {
			mi, ok := a.(*ssa.MakeInterface)
			if !ok || namedTypeName(mi.X.Type()) != "os.File" {
				continue
			}
			if c.scannerConstructor(h, a, call) {
				out = append(out, h)
			}
		}
	}
	return out
}

// appendAtMostOneEvent (a clause of WR3): one Write call is not one write(2). On a full file system, at a file-size
// limit, the kernel stores a prefix of the buffer and os.File.Write issues a second system call for the rest, which
// fails - or the process is killed in between. A complete first event of a longer batch (the claim of claim+state, some
// tombstones of a prune) is then durable without the rest: the command failed, or died, and left half of itself. So
// the in-place append is reachable only for batches of at most one event: the O_APPEND open (or the call of the helper
// that holds it, up to three single-caller hops) is passed only on an edge where len(events) <= 1 is known
// (the false edge of `len(events) > 1`, the true edge of `len(events) <= 1`, `< 2`, `== 1`, `== 0`).
func (c *Ctx) appendAtMostOneEvent(e Effect, fn, construct, pos string) {
	f := e.Fn
	var site ssa.Instruction = e.Call
	var events ssa.Value
	eventsParam := func(g *ssa.Function) ssa.Value {
		for _, prm := range g.Params {
			if sl, ok := prm.Type().Underlying().(*types.Slice); ok && namedTypeName(sl.Elem()) == "ergo.Event" {
				return prm
			}
		}
		return nil
	}
	// the open may sit in a helper that does not see the batch (openLogFile(path)): the batch is the []Event
	// parameter of the nearest single caller up the chain
	for hop := 0; hop < 3 && eventsParam(f) == nil && f.Parent() == nil && len(c.callers[f]) == 1; hop++ {
		site = c.callers[f][0].Call
		f = c.callers[f][0].Fn
	}
	events = eventsParam(f)
	if events == nil {
		c.unk(fn, construct, pos, "the batch of events the append primitive writes was not identified (no []Event parameter)")
		return
	}
	for hop := 0; hop < 4; hop++ {
		ev := events
		pass := edgesWhere(f, func(a Atom, holds bool) bool {
			if len(a.Env) != 0 {
				return false
			}
			cl, _ := callOf(a.X)
			if cl == nil || calleeFullName(&cl.Call) != "builtin len" || len(cl.Call.Args) != 1 || resolve(cl.Call.Args[0]) != resolve(ev) {
				return false
			}
			switch a.Kind {
			case "const":
				k, ok := constInt(a.C)
				return ok && holds && (k == 0 || k == 1)
			case "cmp":
				k, ok := constInt(a.Y)
				if !ok {
					return false
				}
				switch a.Op {
				case token.GTR:
					return !holds && k <= 1
				case token.GEQ:
					return !holds && k <= 2
				case token.LEQ:
					return holds && k <= 1
				case token.LSS:
					return holds && k <= 2
				}
			}
			return false
		})
		if mustPassEdges(f, site.Block(), pass) {
			c.ok(fn, construct, pos, "the in-place append is reached only with at most one event; longer batches take the temp-file + rename path")
			return
		}
		if f.Parent() != nil || len(c.callers[f]) != 1 {
			break
		}
		cs := c.callers[f][0]
		idx := -1
		if prm, ok := events.(*ssa.Parameter); ok && prm.Parent() == f {
			idx = paramIndex(prm)
		}
		if idx < 0 || idx >= len(cs.Call.Common().Args) {
			break
		}
		events = cs.Call.Common().Args[idx]
		site = cs.Call
		f = cs.Fn
	}
	c.bad(fn, construct, pos, "a batch of several events can be appended in place: one Write call is not one write(2) - on a full disk or at a file-size limit the kernel stores a prefix and the rest fails (or the process dies in between), so a complete first event of the batch (a claim without its state, an epic's tombstone without its child's) stays in the log of a command that failed")
}

// rewriteKeepsBytes (rule WR13, second audit): "all earlier events remain, in order, with unchanged content" is a
// statement about the bytes of the log, for every file content. A rewrite that is meant to keep the history (the
// append-by-rewrite used for a torn tail and for batches) keeps it byte for byte only if it copies the old file's
// bytes; one that parses the old lines into Event values and marshals them again normalises whatever the three-field
// struct does not carry - an unknown top-level member, a key damaged by a bit flip, invalid UTF-8. The temp writer the
// prefix-preserving rewrite goes through is inspected: writing lines obtained from json.Marshal of Event values is the
// re-marshalling form.
func init() {
	register(&Rule{ID: "WR13", Min: 0, Run: func(c *Ctx) { c.rewriteKeepsBytes() },
		Doc: "history-kept-byte-for-byte: a rewrite that is meant to keep the history (append-by-rewrite for a torn tail and for batches) copies the old log's bytes; parsing the old lines into Event values and marshalling them again changes the content of earlier lines on any log that carries what the three-field struct does not (an unknown top-level member, a damaged key, invalid UTF-8)"})
}

func (c *Ctx) rewriteKeepsBytes() {
	aea := c.ErgoFn("appendEventsAtomically")
	wef := c.ErgoFn("writeEventsFile")
	if aea == nil || wef == nil || aea.Blocks == nil || wef.Blocks == nil {
		return
	}
	reaches := aea == wef || c.F.TransitiveCallees(aea)[wef]
	if !reaches {
		return
	}
	remarshal := ""
	for _, g := range append([]*ssa.Function{wef}, c.unitOf(wef)...) {
		for _, call := range callsNamed(g, "encoding/json.Marshal", "(*encoding/json.Encoder).Encode") {
			for _, a := range call.Common().Args {
				if mi, ok := a.(*ssa.MakeInterface); ok && namedTypeName(mi.X.Type()) == "ergo.Event" {
					remarshal = c.Pos(call.Pos())
				}
			}
		}
	}
	c.check(remarshal == "", c.Name(aea), "c:prefix-bytes-preserved", c.FnPos(aea), "the history-keeping rewrite copies the old log's bytes",
		"the rewrite that is meant to keep the history writes the existing events back by marshalling them again (at "+remarshal+"), not by copying the old file's bytes: on a log that carries anything the Event struct does not (an unknown top-level member written by a newer version, a key or timestamp damaged by a bit flip) a claim, a multi-field set or a plan changes the content of earlier lines")
}
