package main

import (
	"fmt"
	"go/token"
	"go/types"
	"sort"
	"strings"

	"golang.org/x/tools/go/ssa"
)

// ------------------------------------------------------------------ DT18, WR10 (round 16)

func init() {
	register(&Rule{ID: "DT18", Min: 1, Run: ruleDT18,
		Doc: "shared-state-not-mutated-in-place: outside replay, nothing writes into the storage of what replay built or of an event about to be recorded. The slices and maps held by Graph, Task and TaskMeta (Task.Results, Graph.Deps and the dependency sets inside it, ...) and the payload bytes of an Event (Event.Data) are shared by everyone who looks at them: sorting such a slice where it lies, filtering it with the s[:0]/append idiom, storing into its elements, copy()ing over it, appending to a prefix of it (append(data[:n], \"...\"...) writes into data's own array) or deleting from / inserting into such a map changes what compaction re-emits, what the readiness predicates see and what is written to the log - from code that only meant to look (a trace line, a summary, a statistics helper). Decided by following each mutated value back through sub-slices, phis, local variables, map lookups and range values to a field of those types, and through module functions that mutate a parameter (summarised to a fixed point) to their call sites. Edges and items a writing command adds provisionally to the graph it validates against (sequence, plan) are the documented exception. A local slice handed to a function that refills it in place must not be read afterwards through the old value (`ready` filtered by a debug helper, then ready[0])"})
	register(&Rule{ID: "WR10", Min: 1, Run: ruleWR10,
		Doc: "events-serialised-as-given: the functions that turn events into log lines marshal each Event as it was handed to them; none assigns to a field of the event on the way (`if ev.Origin == \"\" { ev.Origin = host }` before json.Marshal). Whenever the log is rewritten (plan, the torn-tail repair) the earlier events pass through the same serialiser, so a field stamped there changes the content of history that was already recorded. Nor are the marshalled bytes handed to anything that rewrites them (an escaper, a pretty-printer): a home-made transformation of JSON text is a second encoder with corner cases of its own (surrogate pairs), and every rewrite runs history through it. A correct transformation cannot be told from a wrong one here and is reported alike"})
}

var inPlaceSorters = map[string]bool{
	"sort.Slice": true, "sort.SliceStable": true, "sort.Sort": true, "sort.Stable": true, "sort.Strings": true, "sort.Ints": true,
	"slices.Sort": true, "slices.SortFunc": true, "slices.SortStableFunc": true, "slices.Reverse": true, "math/rand.Shuffle": true,
}

type mutation struct {
	v    ssa.Value
	kind string // sort | refill | elem-store | copy | map-insert | map-delete
	at   ssa.Instruction
	via  string
}

// mutationsIn lists the in-place mutations f performs, with the value mutated; calls into module functions that mutate a
// parameter (per summ) count as mutations of the argument.
func (c *Ctx) mutationsIn(f *ssa.Function, summ map[*ssa.Function]map[int]string) []mutation {
	var out []mutation
	eachInstr(f, func(r instrRef) {
		switch x := r.In.(type) {
		case *ssa.Store:
			if ia, ok := x.Addr.(*ssa.IndexAddr); ok {
				if _, isSlice := ia.X.Type().Underlying().(*types.Slice); isSlice {
					out = append(out, mutation{ia.X, "elem-store", x, ""})
				}
			}
			// a field of an element reached through the slice (for _, n := range nodes { n.children = ... })
			if fa, ok := x.Addr.(*ssa.FieldAddr); ok {
				if ld, ok := strip(fa.X).(*ssa.UnOp); ok && ld.Op == token.MUL {
					if ia, ok := ld.X.(*ssa.IndexAddr); ok {
						if _, isSlice := ia.X.Type().Underlying().(*types.Slice); isSlice {
							out = append(out, mutation{ia.X, "elem-field-store", x, ""})
						}
					}
				}
			}
		case *ssa.MapUpdate:
			out = append(out, mutation{x.Map, "map-insert", x, ""})
		case ssa.CallInstruction:
			cc := x.Common()
			n := calleeFullName(cc)
			switch {
			case inPlaceSorters[n] && len(cc.Args) > 0:
				out = append(out, mutation{cc.Args[0], "sort", x, n})
			case n == "builtin append" && len(cc.Args) > 0:
				// append to a proper prefix view of something (s[:0], data[:n]) - directly or after the view went round a
				// loop (out := s[:0]; for ... { out = append(out, x) }) - writes into that something's own array
				for _, sl := range prefixViews(cc.Args[0]) {
					out = append(out, mutation{sl.X, "refill", x, "append to a prefix"})
				}
			case n == "builtin copy" && len(cc.Args) > 0:
				out = append(out, mutation{cc.Args[0], "copy", x, ""})
			case n == "builtin delete" && len(cc.Args) > 0:
				out = append(out, mutation{cc.Args[0], "map-delete", x, ""})
			default:
				if g := calleeOf(cc); g != nil && summ[g] != nil {
					for j, kind := range summ[g] {
						if j < len(cc.Args) {
							out = append(out, mutation{cc.Args[j], kind, x, "through " + c.Name(g)})
						}
					}
				}
			}
		}
	})
	return out
}

// prefixViews: the sub-slice expressions x[:k] (no capacity limit) that v may be, looking through phis and earlier appends.
func prefixViews(v ssa.Value) []*ssa.Slice {
	var out []*ssa.Slice
	seen := map[ssa.Value]bool{}
	var walk func(x ssa.Value, d int)
	walk = func(x ssa.Value, d int) {
		x = strip(x)
		if x == nil || seen[x] || d > 8 {
			return
		}
		seen[x] = true
		switch y := x.(type) {
		case *ssa.Slice:
			if y.High != nil && y.Max == nil {
				out = append(out, y)
			}
		case *ssa.Phi:
			for _, e := range y.Edges {
				walk(e, d+1)
			}
		case *ssa.Call:
			if calleeFullName(&y.Call) == "builtin append" && len(y.Call.Args) > 0 {
				walk(y.Call.Args[0], d+1)
			}
		case *ssa.UnOp:
			if y.Op == token.MUL {
				if cell := cellOf(y.X); cell != nil {
					for _, st := range cellStores(cell) {
						walk(st.Val, d+1)
					}
				}
			}
		}
	}
	walk(v, 0)
	return out
}

// sliceRoots: the values v may be a view of: through sub-slices, conversions, phis and local variables.
func sliceRoots(v ssa.Value) []ssa.Value {
	var out []ssa.Value
	seen := map[ssa.Value]bool{}
	var walk func(x ssa.Value, d int)
	walk = func(x ssa.Value, d int) {
		x = strip(x)
		if x == nil || seen[x] || d > 10 {
			return
		}
		seen[x] = true
		switch y := x.(type) {
		case *ssa.Slice:
			walk(y.X, d+1)
		case *ssa.Convert:
			walk(y.X, d+1)
		case *ssa.Phi:
			for _, e := range y.Edges {
				walk(e, d+1)
			}
		case *ssa.UnOp:
			if y.Op == token.MUL {
				if cell := cellOf(y.X); cell != nil {
					for _, st := range cellStores(cell) {
						walk(st.Val, d+1)
					}
					return
				}
			}
			out = append(out, x)
		default:
			out = append(out, x)
		}
	}
	walk(v, 0)
	return out
}

// ownedOrigin: v is (a view of) storage owned by the replayed graph or by an event: "" when not.
func (c *Ctx) ownedOrigin(v ssa.Value, d int, seen map[ssa.Value]bool) string {
	if v == nil || d > 10 || seen[v] {
		return ""
	}
	seen[v] = true
	for _, r := range sliceRoots(v) {
		if base, n, ok := fieldLoad(r); ok {
			switch r.Type().Underlying().(type) {
			case *types.Slice, *types.Map:
				switch tn := namedTypeName(base.Type()); tn {
				case "ergo.Task", "ergo.Graph", "ergo.TaskMeta", "ergo.Event":
					return strings.TrimPrefix(tn, "ergo.") + "." + n
				}
			}
		}
		switch y := r.(type) {
		case *ssa.Lookup:
			if o := c.ownedOrigin(y.X, d+1, seen); o != "" {
				return o + "[...]"
			}
			// a local map whose values are owned (pending[id] = graph.Deps[id])
			if mk, ok := resolve(y.X).(*ssa.MakeMap); ok {
				for _, mu := range c.mapUpdatesOf(mk) {
					if o := c.ownedOrigin(mu.Value, d+1, seen); o != "" {
						return o + " (kept in a local map)"
					}
				}
			}
		case *ssa.Extract:
			switch t := y.Tuple.(type) {
			case *ssa.Lookup:
				if y.Index == 0 {
					if o := c.ownedOrigin(t.X, d+1, seen); o != "" {
						return o + "[...]"
					}
					if mk, ok := resolve(t.X).(*ssa.MakeMap); ok {
						for _, mu := range c.mapUpdatesOf(mk) {
							if o := c.ownedOrigin(mu.Value, d+1, seen); o != "" {
								return o + " (kept in a local map)"
							}
						}
					}
				}
			case *ssa.Next:
				if y.Index == 2 {
					if rg, ok := t.Iter.(*ssa.Range); ok {
						if o := c.ownedOrigin(rg.X, d+1, seen); o != "" {
							return o + "[...]"
						}
						if mk, ok := resolve(rg.X).(*ssa.MakeMap); ok {
							for _, mu := range c.mapUpdatesOf(mk) {
								if o := c.ownedOrigin(mu.Value, d+1, seen); o != "" {
									return o + " (kept in a local map)"
								}
							}
						}
					}
				}
			}
		}
	}
	return ""
}

func ruleDT18(c *Ctx) {
	rm := c.replay()
	if rm == nil {
		c.unk("<module>", "replay-model", "-", "replay not found")
		return
	}
	owner := map[*ssa.Function]bool{}
	for _, g := range rm.Unit {
		owner[g] = true
		for _, cl := range Closures(g) {
			owner[cl] = true
		}
	}
	// whatever replay calls is replay (applyTombstone); RD6 sees to it that a command does not borrow such a function
	for g := range c.F.TransitiveCallees(rm.Root) {
		if c.InModule(g) {
			owner[g] = true
		}
	}
	var fns []*ssa.Function
	for _, f := range c.Fns {
		if c.InModule(f) && f.Blocks != nil {
			fns = append(fns, f)
		}
	}
	// parameter-mutator summaries, to a fixed point
	summ := map[*ssa.Function]map[int]string{}
	for round := 0; round < 4; round++ {
		changed := false
		for _, f := range fns {
			for _, m := range c.mutationsIn(f, summ) {
				for _, r := range sliceRoots(m.v) {
					p, ok := r.(*ssa.Parameter)
					if !ok || p.Parent() != f {
						continue
					}
					if summ[f] == nil {
						summ[f] = map[int]string{}
					}
					kind := m.kind
					if kind == "elem-field-store" && m.via != "" {
						// a filter-and-prune applied to the caller's list for its result alone: unless that result is what f
						// hands back, f leaves its caller with a pruned list
						back := false
						if cv, ok := m.at.(*ssa.Call); ok {
							for _, r := range returnsOf(f) {
								for _, rv := range r.Results {
									if derivesFrom(rv, cv) {
										back = true
									}
								}
							}
						}
						if !back {
							kind = "pruned"
						}
					}
					if old, had := summ[f][paramIndex(p)]; !had || (old == "elem-field-store" && kind == "pruned") {
						summ[f][paramIndex(p)] = kind
						changed = true
					}
				}
			}
		}
		if !changed {
			break
		}
	}
	// writing commands may add provisional items and edges to the graph they validate against
	emits := map[*ssa.Function]bool{}
	for _, em := range c.emissions() {
		if em.has("link") || em.has("new_task") || em.has("new_epic") {
			emits[Outermost(em.Fn)] = true
			emits[em.Fn] = true
		}
	}
	var validating func(f *ssa.Function, d int) bool
	validating = func(f *ssa.Function, d int) bool {
		if emits[f] || emits[Outermost(f)] {
			return true
		}
		if d >= 2 || len(c.callers[f]) == 0 {
			return false
		}
		for _, cs := range c.callers[f] {
			if !validating(cs.Fn, d+1) {
				return false
			}
		}
		return true
	}
	n := 0
	ord := map[string]int{}
	for _, f := range fns {
		if owner[f] || owner[Outermost(f)] {
			continue
		}
		for _, m := range c.mutationsIn(f, summ) {
			o := c.ownedOrigin(m.v, 0, map[ssa.Value]bool{})
			if o == "" {
				// the events just read from the log, when the same slice goes on into a rewrite of the log or into replay:
				// reordering or refilling it where it lies reorders or rewrites history
				if rd := c.F.Anchors["readEvents"]; rd != nil && m.kind != "map-insert" && m.kind != "map-delete" {
					for _, r := range sliceRoots(m.v) {
						ex, ok := r.(*ssa.Extract)
						if !ok || ex.Index != 0 || ex.Referrers() == nil {
							continue
						}
						cl, ok := ex.Tuple.(*ssa.Call)
						if !ok || !(calleeOf(&cl.Call) == rd || c.eventsLoaderKind(calleeOf(&cl.Call)) != "") {
							continue
						}
						for _, u := range *ex.Referrers() {
							uc, ok := u.(ssa.CallInstruction)
							if !ok || u == m.at {
								continue
							}
							g := calleeOf(uc.Common())
							if g != nil && (c.commitFuncs()[g] || g == c.F.Anchors["replayEvents"]) && canReachInstr(m.at, u) {
								o = "log-events (the events read from the log, handed to " + c.Name(g) + " afterwards)"
							}
						}
					}
				}
			}
			if o == "" {
				continue
			}
			n++
			fn := c.Name(f)
			ord[fn]++
			key := fmt.Sprintf("%s of %s#%d", m.kind, strings.Fields(o)[0], ord[fn])
			if m.kind == "map-insert" && validating(f, 0) {
				c.ok(fn, key, c.Pos(m.at.Pos()), "a provisional entry added by a writing command to the graph it validates against")
				continue
			}
			via := ""
			if m.via != "" {
				via = " (" + m.via + ")"
			}
			c.bad(fn, key, c.Pos(m.at.Pos()), "this "+m.kind+via+" writes into "+o+", storage shared with everything else that reads the replayed state or records the event: what compaction re-emits, what the readiness predicates see or what reaches the log is changed by code that only meant to look")
		}
		// a local slice refilled in place by a callee and read afterwards through the old value
		for _, call := range callsIn(f) {
			g := calleeOf(call.Common())
			if g == nil || summ[g] == nil {
				continue
			}
			for j, kind := range summ[g] {
				if j >= len(call.Common().Args) || (kind != "refill" && kind != "elem-store" && kind != "copy" && kind != "elem-field-store" && kind != "pruned") {
					continue
				}
				a := call.Common().Args[j]
				if kind == "elem-field-store" {
					// setting fields of the elements is what a builder is for; the trap is a function that hands back a
					// filtered list AND prunes the elements it was given - used for its result only, its argument kept
					res := g.Signature.Results()
					if res.Len() != 1 || !types.Identical(res.At(0).Type(), a.Type()) {
						continue
					}
				}
				if _, isSlice := a.Type().Underlying().(*types.Slice); !isSlice || a.Referrers() == nil {
					continue
				}
				if _, isParam := strip(a).(*ssa.Parameter); isParam {
					continue // judged at this function's own callers
				}
				if c.ownedOrigin(a, 0, map[ssa.Value]bool{}) != "" {
					continue // reported above
				}
				later := ""
				for _, u := range *a.Referrers() {
					if u == ssa.Instruction(call) {
						continue
					}
					switch x := u.(type) {
					case *ssa.DebugRef:
						continue
					case *ssa.Phi:
						reached := false
						for i, e := range x.Edges {
							if e == a && i < len(x.Block().Preds) {
								pb := x.Block().Preds[i]
								if pb == call.Block() || reach(call.Block(), nil, nil)[pb] {
									reached = true
								}
							}
						}
						if !reached {
							continue
						}
					default:
						if !canReachInstr(call, u) {
							continue
						}
					}
					later = c.Pos(u.Pos())
				}
				n++
				fn := c.Name(f)
				ord[fn]++
				c.check(later == "", fn, fmt.Sprintf("refilled-slice-not-reused %s#%d", g.Name(), ord[fn]), c.Pos(call.Pos()),
					"the slice handed to "+c.Name(g)+" (which refills it in place) is not used again through the old value",
					"the slice handed to "+c.Name(g)+" is rewritten in place there ("+kind+") and read again here at "+later+" through the value it had before the call: its leading elements are now the callee's selection, so what is taken from it (the first ready task, a row) is not what the list held")
			}
		}
	}
	if n == 0 {
		c.ok("<module>", "scanned", "-", fmt.Sprintf("%d functions scanned: no in-place mutation of replayed or event storage outside replay", len(fns)))
	}
}

func ruleWR10(c *Ctx) {
	n := 0
	var names []string
	for _, f := range c.Fns {
		if !c.InModule(f) || f.Blocks == nil {
			continue
		}
		k := 0
		for _, call := range callsNamed(f, "encoding/json.Marshal", "(*encoding/json.Encoder).Encode") {
			args := call.Common().Args
			v := strip(args[len(args)-1])
			if namedTypeName(v.Type()) != "ergo.Event" {
				continue
			}
			n++
			k++
			bad := ""
			if ld, ok := v.(*ssa.UnOp); ok && ld.Op == token.MUL {
				if al, ok := ld.X.(*ssa.Alloc); ok && al.Referrers() != nil {
					for _, r := range *al.Referrers() {
						fa, ok := r.(*ssa.FieldAddr)
						if !ok || fa.Referrers() == nil {
							continue
						}
						for _, u := range *fa.Referrers() {
							if st, ok := u.(*ssa.Store); ok && st.Addr == ssa.Value(fa) {
								// building a fresh event in a literal is not a rewrite: that needs every field stored and no whole-value store
								whole := false
								for _, r2 := range *al.Referrers() {
									if st2, ok := r2.(*ssa.Store); ok && st2.Addr == ssa.Value(al) {
										whole = true
									}
								}
								if whole {
									bad = "field " + fieldName(fa.X.Type(), fa.Field) + " is assigned at " + c.Pos(st.Pos())
								}
							}
						}
					}
				}
			}
			// ... and what json.Marshal made of it is what is written: the bytes are not handed to anything that rewrites them
			// (an escaper, a compressor, a pretty-printer). A home-made transformation of JSON text is a second JSON encoder
			// with its own corner cases (surrogate pairs, escapes inside strings), and every rewrite of the log runs history
			// through it
			if cv, isCall := call.(*ssa.Call); isCall && bad == "" && cv.Referrers() != nil {
				var data ssa.Value = cv
				for _, u := range *cv.Referrers() {
					if ex, ok := u.(*ssa.Extract); ok && ex.Index == 0 {
						data = ex
					}
				}
				seenD := map[ssa.Value]bool{}
				var follow func(v ssa.Value, d int)
				follow = func(v ssa.Value, d int) {
					if v == nil || seenD[v] || d > 6 || v.Referrers() == nil || bad != "" {
						return
					}
					seenD[v] = true
					for _, u := range *v.Referrers() {
						switch x := u.(type) {
						case *ssa.Phi:
							follow(x, d+1)
						case *ssa.Slice:
							follow(x, d+1)
						case *ssa.Store:
							if cell := cellOf(x.Addr); cell != nil && x.Val == v {
								for _, ld := range cellLoads(cell) {
									follow(ld, d+1)
								}
							}
						case ssa.CallInstruction:
							cc := x.Common()
							n := calleeFullName(cc)
							switch {
							case n == "builtin append" || n == "builtin len" || n == "builtin copy":
								if xv, ok := x.(*ssa.Call); ok {
									follow(xv, d+1)
								}
							case strings.Contains(n, ".Write") || n == "io.WriteString" || strings.HasPrefix(n, "fmt.Fprint"):
							default:
								if g := calleeOf(cc); g != nil && c.InModule(g) {
									// a module function handed the marshalled bytes: fine when it only writes them out
									if res := g.Signature.Results(); res.Len() > 0 {
										for i := 0; i < res.Len(); i++ {
											switch t := res.At(i).Type().Underlying().(type) {
											case *types.Slice:
												if b, ok := t.Elem().Underlying().(*types.Basic); ok && b.Kind() == types.Uint8 {
													bad = "the marshalled bytes are handed to " + c.Name(g) + " at " + c.Pos(x.Pos()) + ", which returns bytes of its own making"
												}
											case *types.Basic:
												if t.Info()&types.IsString != 0 {
													bad = "the marshalled bytes are handed to " + c.Name(g) + " at " + c.Pos(x.Pos()) + ", which returns a string of its own making"
												}
											}
										}
									}
								} else if strings.HasPrefix(n, "bytes.") || strings.HasPrefix(n, "strings.") || strings.HasPrefix(n, "regexp.") || strings.HasPrefix(n, "(*regexp.") {
									if !strings.HasSuffix(n, ".HasSuffix") && !strings.HasSuffix(n, ".HasPrefix") && !strings.HasSuffix(n, ".Contains") && !strings.HasSuffix(n, ".Equal") && !strings.HasSuffix(n, ".IndexByte") {
										bad = "the marshalled bytes are rewritten by " + n + " at " + c.Pos(x.Pos())
									}
								}
							}
						}
					}
				}
				follow(data, 0)
			}
			names = append(names, c.Name(f))
			c.check(bad == "", c.Name(f), fmt.Sprintf("marshal-event#%d", k), c.Pos(call.Pos()), "the event is marshalled as it was handed in",
				"the event or its serialised form is changed on its way to the log ("+bad+"): a rewrite of the log (plan, the torn-tail repair) passes every earlier event through this serialiser, so history that was already recorded comes out with different content")
		}
	}
	sort.Strings(names)
	if n == 0 {
		c.unk("<module>", "marshal-event#0", "-", "no function marshalling an Event found (log serialiser not recognisable)")
	}
}

// ------------------------------------------------------------------ WR11

func init() {
	register(&Rule{ID: "WR11", Min: 1, Run: ruleWR11,
		Doc: "exclusive-creates-are-repeatable: no function of the module makes a command depend on a name in the store directory NOT existing yet: os.Link, os.Symlink, os.Mkdir and opens with O_EXCL fail with EEXIST the second time, so an artefact kept under a fixed name (`<log>.torn` hard-linked before a tail repair) lets the first occurrence through and turns every later one into a failed command - until somebody removes the file by hand. Accepted: a target with a unique component (os.CreateTemp, os.MkdirTemp), a removal of the same name right before, an error that is tested for os.ErrExist / os.IsExist, or an error that is not propagated"})
}

func ruleWR11(c *Ctx) {
	n, nBad := 0, 0
	for _, f := range c.Fns {
		if !c.InModule(f) || f.Blocks == nil {
			continue
		}
		k := 0
		for _, call := range callsIn(f) {
			cv, isCall := call.(*ssa.Call)
			if !isCall {
				continue
			}
			nme := calleeFullName(call.Common())
			var target ssa.Value
			switch nme {
			case "os.Link", "os.Symlink":
				target = cv.Call.Args[1]
			case "os.Mkdir":
				target = cv.Call.Args[0]
			case "os.OpenFile":
				if fl, ok := constInt(cv.Call.Args[1]); ok && fl&c.F.osConst["O_EXCL"] != 0 {
					target = cv.Call.Args[0]
				}
			}
			if target == nil {
				continue
			}
			n++
			k++
			idx := errorResultIndex(call)
			ev := errValueOf(cv, idx)
			okWhy := ""
			switch {
			case ev == nil:
				okWhy = "its error is discarded: an existing name does not fail the command"
			default:
				// tested for "already exists"
				for _, bf := range branchFacts(f) {
					if bf.A.Kind != "bool" {
						continue
					}
					if cl, _ := callOf(bf.A.X); cl != nil {
						switch calleeFullName(&cl.Call) {
						case "os.IsExist":
							okWhy = "the error is tested with os.IsExist"
						case "errors.Is":
							if len(cl.Call.Args) == 2 && (isGlobalLoad(cl.Call.Args[1], "ErrExist") || strings.Contains(c.canon(cl.Call.Args[1]), "ErrExist") || strings.Contains(c.canon(cl.Call.Args[1]), "EEXIST")) {
								okWhy = "the error is tested for ErrExist"
							}
						}
					}
				}
				// removed right before
				tc := c.canon(target)
				for _, rm := range callsNamed(f, "os.Remove", "os.RemoveAll") {
					if c.canon(rm.Common().Args[0]) == tc && canReachInstr(rm, call) {
						okWhy = "the name is removed before it is created"
					}
				}
				if ok, _ := c.errorPropagates(f, cv, ev); !ok && okWhy == "" {
					okWhy = "its error is not propagated"
				}
			}
			if okWhy == "" {
				nBad++
			}
			c.check(okWhy != "", c.Name(f), fmt.Sprintf("exclusive-create %s#%d", nme, k), c.Pos(call.Pos()), okWhy,
				nme+" on "+c.canon(target)+" fails once that name exists, and its error fails the command: the first time goes through, every later time the command is refused until the file is removed by hand")
		}
	}
	c.check(nBad == 0, "<module>", "no-unrepeatable-creates", "-", fmt.Sprintf("%d exclusive creates, none makes a command depend on a fixed name being absent", n), fmt.Sprintf("%d of %d exclusive creates fail the command the second time", nBad, n))
}

// ---------------------------------------------------------------- diagnostic functions
//
// A diagnostic function only talks to stderr: it returns nothing (or a func() of the same kind, for `defer trace("x")()`),
// writes to no stream but os.Stderr, stores only into its own locals and into package-level variables that nothing but
// diagnostic functions touch, and calls nothing in the module but other diagnostic functions. What it reads from the
// environment or the clock can reach nothing a command decides, records or prints on stdout, so rules about ambient state
// on the read path (DT11) leave its body alone.

var diagPureCalls = map[string]bool{
	"os.Getenv": true, "os.LookupEnv": true, "time.Now": true, "time.Since": true, "(time.Time).Sub": true, "(time.Duration).String": true,
	"(time.Duration).Round": true, "(time.Duration).Truncate": true, "(time.Duration).Seconds": true, "(time.Duration).Milliseconds": true,
	"(time.Time).Format": true, "(time.Time).UTC": true, "fmt.Sprintf": true, "fmt.Sprint": true, "fmt.Sprintln": true,
	"strings.Join": true, "strings.Repeat": true, "strings.TrimSpace": true, "strings.ToLower": true, "strconv.Itoa": true, "strconv.Quote": true,
	"(*sync.Mutex).Lock": true, "(*sync.Mutex).Unlock": true, "builtin len": true, "builtin append": true, "builtin cap": true,
	"os.Getpid": true,
}

// pureFns: module functions without effects beyond their own locals: no store through a pointer that is not a local, no
// map update on a map that is not made here, no channel operation, no call except builtins, the formatting/clock helpers
// above, func-typed parameters (predicates) and other pure functions. What such a function returns may be anything.
func (p *Prog) pureFns() map[*ssa.Function]bool {
	if p.pureMemo != nil {
		return p.pureMemo
	}
	cand := map[*ssa.Function]bool{}
	for _, f := range p.Fns {
		if !p.InModule(f) || f.Blocks == nil {
			continue
		}
		ok := true
		eachInstr(f, func(r instrRef) {
			if !ok {
				return
			}
			switch x := r.In.(type) {
			case *ssa.Store:
				switch a := x.Addr.(type) {
				case *ssa.Alloc:
				case *ssa.FieldAddr:
					if _, isAl := a.X.(*ssa.Alloc); !isAl {
						ok = false
					}
				case *ssa.IndexAddr:
					if _, isAl := a.X.(*ssa.Alloc); !isAl {
						ok = false
					}
				default:
					ok = false
				}
			case *ssa.MapUpdate:
				if _, isMk := resolve(x.Map).(*ssa.MakeMap); !isMk {
					ok = false
				}
			case *ssa.Send, *ssa.Go, *ssa.Panic, *ssa.Defer:
				ok = false
			case ssa.CallInstruction:
				cc := x.Common()
				n := calleeFullName(cc)
				switch {
				case diagPureCalls[n] || strings.HasPrefix(n, "builtin ") && n != "builtin delete" && n != "builtin copy":
				case strings.HasPrefix(n, "strings.") || strings.HasPrefix(n, "strconv.") || strings.HasPrefix(n, "unicode") || strings.HasPrefix(n, "(time.Time).") || strings.HasPrefix(n, "(time.Duration)."):
				case calleeOf(cc) != nil && p.InModule(calleeOf(cc)):
				case cc.IsInvoke():
					ok = false
				default:
					if _, isPrm := cc.Value.(*ssa.Parameter); isPrm {
						return // a predicate handed in
					}
					if _, isMC := cc.Value.(*ssa.MakeClosure); isMC {
						return
					}
					ok = false
				}
			}
		})
		if ok {
			cand[f] = true
		}
	}
	for changed := true; changed; {
		changed = false
		for f := range cand {
			for _, call := range callsIn(f) {
				if g := calleeOf(call.Common()); g != nil && p.InModule(g) && !cand[g] {
					delete(cand, f)
					changed = true
					break
				}
			}
		}
	}
	p.pureMemo = cand
	return cand
}

func (p *Prog) diagnosticFns() map[*ssa.Function]bool {
	if p.diagMemo != nil {
		return p.diagMemo
	}
	pure := p.pureFns()
	cand := map[*ssa.Function]bool{}
	for _, f := range p.Fns {
		if !p.InModule(f) || f.Blocks == nil {
			continue
		}
		res := f.Signature.Results()
		okSig := res.Len() == 0
		if res.Len() == 1 {
			if sg, ok := res.At(0).Type().Underlying().(*types.Signature); ok && sg.Params().Len() == 0 && sg.Results().Len() == 0 {
				okSig = true
			}
		}
		if okSig {
			cand[f] = true
		}
	}
	toStderr := func(v ssa.Value) bool { return isGlobalLoad(v, "Stderr") }
	localOK := func(f *ssa.Function) bool {
		ok := true
		eachInstr(f, func(r instrRef) {
			if !ok {
				return
			}
			switch x := r.In.(type) {
			case *ssa.Store:
				switch a := x.Addr.(type) {
				case *ssa.Alloc:
				case *ssa.Global:
					if a.Pkg != f.Pkg && (f.Parent() == nil || a.Pkg != Outermost(f).Pkg) {
						ok = false
					}
				case *ssa.FieldAddr:
					// a field of a package-level diagnostic record, or of a local
					switch b := a.X.(type) {
					case *ssa.Global, *ssa.Alloc:
						_ = b
					default:
						ok = false
					}
				case *ssa.IndexAddr:
					if _, isAl := a.X.(*ssa.Alloc); !isAl {
						ok = false
					}
				case *ssa.FreeVar:
				default:
					ok = false
				}
			case *ssa.MapUpdate, *ssa.Send, *ssa.Go, *ssa.Panic:
				ok = false
			case *ssa.Return:
				for _, rv := range x.Results {
					switch y := strip(rv).(type) {
					case *ssa.MakeClosure, *ssa.Function:
						_ = y
					default:
						ok = false
					}
				}
			case ssa.CallInstruction:
				cc := x.Common()
				n := calleeFullName(cc)
				switch {
				case diagPureCalls[n]:
				case strings.HasPrefix(n, "fmt.Fprint") || n == "io.WriteString":
					if !toStderr(cc.Args[0]) {
						ok = false
					}
				case strings.HasPrefix(n, "(*os.File).Write"):
					if !toStderr(cc.Args[0]) {
						ok = false
					}
				case calleeOf(cc) != nil && p.InModule(calleeOf(cc)):
					// decided in the fixed point below
				case cc.IsInvoke():
					ok = false
				default:
					if _, isClosureCall := cc.Value.(*ssa.MakeClosure); isClosureCall {
						return
					}
					if calleeOf(cc) == nil {
						// a dynamic call of a func value: only the deferred end-of-phase callback of another diagnostic function
						if cl, _ := callOf(cc.Value); cl != nil && calleeOf(&cl.Call) != nil && p.InModule(calleeOf(&cl.Call)) {
							return
						}
					}
					ok = false
				}
			}
		})
		return ok
	}
	for f := range cand {
		if !localOK(f) {
			delete(cand, f)
		}
	}
	for changed := true; changed; {
		changed = false
		for f := range cand {
			drop := false
			for _, call := range callsIn(f) {
				if g := calleeOf(call.Common()); g != nil && p.InModule(g) && !cand[g] && !pure[g] {
					drop = true
				}
				if cl, _ := callOf(call.Common().Value); cl != nil && calleeOf(call.Common()) == nil {
					if g := calleeOf(&cl.Call); g != nil && p.InModule(g) && !cand[g] {
						drop = true
					}
				}
			}
			for _, cl := range Closures(f) {
				if !cand[cl] && !pure[cl] {
					drop = true
				}
			}
			if f.Parent() != nil && !cand[f.Parent()] {
				drop = true
			}
			if drop {
				delete(cand, f)
				changed = true
			}
		}
		// package-level variables written by a diagnostic function are touched by diagnostic functions only
		written := map[*ssa.Global]bool{}
		for f := range cand {
			eachInstr(f, func(r instrRef) {
				if st, ok := r.In.(*ssa.Store); ok {
					switch a := st.Addr.(type) {
					case *ssa.Global:
						written[a] = true
					case *ssa.FieldAddr:
						if g, ok := a.X.(*ssa.Global); ok {
							written[g] = true
						}
					}
				}
			})
		}
		for _, f := range p.Fns {
			if cand[f] || f.Blocks == nil || f.Name() == "init" {
				continue
			}
			eachInstr(f, func(r instrRef) {
				for _, op := range r.In.Operands(nil) {
					if g, ok := (*op).(*ssa.Global); ok && written[g] {
						// somebody else looks at the diagnostic state: its writers are not private any more
						for d := range cand {
							touches := false
							eachInstr(d, func(r2 instrRef) {
								for _, op2 := range r2.In.Operands(nil) {
									if *op2 == ssa.Value(g) {
										touches = true
									}
								}
							})
							if touches {
								delete(cand, d)
								changed = true
							}
						}
					}
				}
			})
		}
	}
	p.diagMemo = cand
	return cand
}

// ------------------------------------------------------------------ OU22

func init() {
	register(&Rule{ID: "OU22", Min: 1, Run: ruleOU22,
		Doc: "column-positions-come-from-the-row: the amount of padding a row formatter writes is computed from the terminal width and from what the row itself contains (the id printed, the text written so far) - never from a setting read from the environment or a configuration file. The id column is where the id printed ends at the right margin: a width taken from a setting (the configured id length) instead of the id in hand is right only while every id in the store was minted under the reader's own setting; ids of another length overflow the terminal or leave their column. The terminal-width function is the one sanctioned source of ambient layout input (an override of the detected width belongs there)"})
}

// readsSettings: f (transitively) consults the environment or reads a file by name: it hands back a configured value.
func (c *Ctx) readsSettings(f *ssa.Function, seen map[*ssa.Function]bool) string {
	if f == nil || seen[f] || f.Blocks == nil {
		return ""
	}
	seen[f] = true
	for _, call := range callsIn(f) {
		switch n := calleeFullName(call.Common()); n {
		case "os.Getenv", "os.LookupEnv", "os.Environ", "os.ReadFile", "os.UserHomeDir", "os.UserConfigDir":
			return n + " in " + c.Name(f)
		}
		if g := calleeOf(call.Common()); g != nil && c.InModule(g) {
			if w := c.readsSettings(g, seen); w != "" {
				return w
			}
		}
	}
	return ""
}

func ruleOU22(c *Ctx) {
	width := map[*ssa.Function]bool{}
	if tw := c.ErgoFn("getTerminalWidth"); tw != nil {
		width[tw] = true
		for g := range c.F.TransitiveCallees(tw) {
			width[g] = true
		}
	}
	measure := map[*ssa.Function]bool{}
	if vl := c.ErgoFn("visibleLen"); vl != nil {
		measure[vl] = true
	}
	n := 0
	for _, f := range c.Fns {
		if Outermost(f).Pkg != c.Ergo || f.Blocks == nil || width[f] {
			continue
		}
		calls, counts := c.paddingCalls(f)
		for i, call := range calls {
			n++
			bad := ""
			seen := map[ssa.Value]bool{}
			var walk func(v ssa.Value, d int)
			walk = func(v ssa.Value, d int) {
				if v == nil || seen[v] || d > 30 || bad != "" {
					return
				}
				seen[v] = true
				switch x := v.(type) {
				case *ssa.Call:
					// a measurement of something written (len(id), visibleLen(text)) is the row's own content, however the
					// text measured was chosen
					isSetting := func(n string) bool {
						switch n {
						case "os.Getenv", "os.LookupEnv", "os.Environ", "os.ReadFile", "os.UserHomeDir", "os.UserConfigDir":
							return true
						}
						return false
					}
					if nme := calleeFullName(&x.Call); isSetting(nme) {
						bad = nme
						return
					}
					if nme := calleeFullName(&x.Call); nme == "builtin len" || strings.Contains(nme, "runewidth.") || strings.HasPrefix(nme, "unicode/utf8.RuneCount") {
						// ... unless what is measured is the setting itself (len(os.Getenv("...")))
						for _, a := range x.Call.Args {
							if cl, _ := callOf(strip(a)); cl != nil && isSetting(calleeFullName(&cl.Call)) {
								bad = calleeFullName(&cl.Call)
							}
						}
						return
					}
					if g := calleeOf(&x.Call); g != nil && measure[g] {
						return
					}
					if g := calleeOf(&x.Call); g != nil && c.InModule(g) && !width[g] {
						if w := c.readsSettings(g, map[*ssa.Function]bool{}); w != "" {
							bad = c.Name(g) + " (" + w + ")"
							return
						}
					}
					for _, a := range x.Call.Args {
						walk(a, d+1)
					}
				case *ssa.UnOp:
					if x.Op == token.MUL {
						if cell := cellOf(x.X); cell != nil {
							for _, st := range cellStores(cell) {
								walk(st.Val, d+1)
							}
							return
						}
						if g, ok := x.X.(*ssa.Global); ok {
							// a package-level variable filled from a setting at start-up
							for _, fn := range c.Fns {
								for _, st := range storesTo(fn, g) {
									walk(st.Val, d+1)
								}
							}
							return
						}
					}
					walk(x.X, d+1)
				case ssa.Instruction:
					for _, op := range x.Operands(nil) {
						if *op != nil {
							walk(*op, d+1)
						}
					}
				}
			}
			walk(counts[i], 0)
			c.check(bad == "", c.Name(f), fmt.Sprintf("padding-from-the-row#%d", i+1), c.Pos(call.Pos()), "the padding is computed from the terminal width and the row's own content",
				"the amount of padding written here depends on a setting ("+bad+") instead of on what the row contains: the column is right only for rows whose content happens to match the reader's configuration (an id minted under another id length overflows the terminal or leaves its column)")
		}
	}
	if n == 0 {
		c.unk("<module>", "padding-from-the-row#0", "-", "no padding found in the row formatters")
	}
}
