package main

// DT12: a slice that reuses the backing array of the slice being read is never appended to faster than it is read.

import (
	"fmt"

	"golang.org/x/tools/go/ssa"
)

func init() {
	register(&Rule{ID: "DT12", Min: 1, Run: ruleDT12,
		Doc: "alias-append-never-overtakes-the-read: `out := in[:0]` shares in's backing array. Filtering in place (`for _, x := range in { if keep(x) { out = append(out, x) } }`) is safe because at most one element is written per element read. When the loop over `in` can append MORE than one element per iteration (an append inside a nested loop, or two appends on one path), the writes overtake the reads and overwrite elements of `in` that have not been visited yet - in a graph search that silently drops part of the frontier, so paths (cycles) are missed. Every `x[:0]` in internal/ergo whose source is read by a loop that appends to the alias is checked for this shape"})
}

func ruleDT12(c *Ctx) {
	n := 0
	for _, f := range c.Fns {
		if Outermost(f).Pkg != c.Ergo || f.Blocks == nil {
			continue
		}
		k := 0
		eachInstr(f, func(r instrRef) {
			sl, ok := r.In.(*ssa.Slice)
			if !ok || sl.High == nil {
				return
			}
			if hv, isC := constInt(sl.High); !isC || hv != 0 {
				return
			}
			if sl.Low != nil {
				if lv, isC := constInt(sl.Low); !isC || lv != 0 {
					return
				}
			}
			k++
			n++
			construct := fmt.Sprintf("alias x[:0]#%d", k)
			src := sl.X
			// the values the alias is carried in: the slice itself, phis, appends to it
			carried := map[ssa.Value]bool{sl: true}
			var appends []*ssa.Call
			for changed := true; changed; {
				changed = false
				for v := range carried {
					refs := v.Referrers()
					if refs == nil {
						continue
					}
					for _, rr := range *refs {
						switch y := rr.(type) {
						case *ssa.Phi:
							if !carried[y] {
								carried[y] = true
								changed = true
							}
						case *ssa.Call:
							if calleeFullName(&y.Call) == "builtin append" && len(y.Call.Args) > 0 && y.Call.Args[0] == v && !carried[y] {
								carried[y] = true
								appends = append(appends, y)
								changed = true
							}
						}
					}
				}
			}
			if len(appends) == 0 {
				c.ok(c.Name(f), construct, c.Pos(sl.Pos()), "the alias is never appended to")
				return
			}
			// loops that read the source: an IndexAddr/Index on src (or a value it is carried in: src may itself be a phi)
			srcVals := map[ssa.Value]bool{resolve(src): true, src: true}
			var readBlocks []*ssa.BasicBlock
			eachInstr(f, func(r2 instrRef) {
				switch y := r2.In.(type) {
				case *ssa.IndexAddr:
					if srcVals[y.X] || srcVals[resolve(y.X)] {
						readBlocks = append(readBlocks, y.Block())
					}
				case *ssa.Index:
					if srcVals[y.X] || srcVals[resolve(y.X)] {
						readBlocks = append(readBlocks, y.Block())
					}
				}
			})
			bad := ""
			for _, rb := range readBlocks {
				hdr := enclosingLoopHeader(rb)
				if hdr == nil {
					continue
				}
				body := loopBlocks(hdr)
				inBody := 0
				for _, ap := range appends {
					if !body[ap.Block()] {
						continue
					}
					inBody++
					// one append that adds several elements (append(out, a, b), append(out, xs...))
					if len(ap.Call.Args) == 2 {
						spread := true
						if lit, ok := ap.Call.Args[1].(*ssa.Slice); ok {
							if _, ok := lit.X.(*ssa.Alloc); ok {
								spread = false
							}
						}
						if k, isConst := ap.Call.Args[1].(*ssa.Const); isConst && k.Value == nil {
							spread = false // append(out) with nothing
						}
						if elems := variadicElems(ap.Call.Args[1:]); spread || len(elems) > 1 {
							bad = fmt.Sprintf("the append at %s adds several elements (or a whole slice) for one element read", c.Pos(ap.Pos()))
						}
					}
					// an append inside a loop nested in the reading loop: many elements per element read
					if inner := enclosingLoopHeader(ap.Block()); inner != nil && inner != hdr && body[inner] {
						bad = fmt.Sprintf("the append at %s sits in a loop nested inside the loop that reads the source (%s): several elements can be written for one element read", c.Pos(ap.Pos()), c.Pos(hdr.Instrs[0].Pos()))
					}
				}
				if bad == "" && inBody > 1 {
					// two appends in one iteration: only fine when they exclude each other
					for i, a := range appends {
						for _, b := range appends[i+1:] {
							if body[a.Block()] && body[b.Block()] && (a.Block() == b.Block() || canReachWithin(a.Block(), b.Block(), body, hdr) || canReachWithin(b.Block(), a.Block(), body, hdr)) {
								bad = fmt.Sprintf("two appends (%s, %s) can run in one iteration of the loop that reads the source", c.Pos(a.Pos()), c.Pos(b.Pos()))
							}
						}
					}
				}
			}
			c.check(bad == "", c.Name(f), construct, c.Pos(sl.Pos()), "at most one element is appended to the alias per element read from its source",
				"`"+c.canon(src)+"[:0]` shares the array it is read from, and "+bad+": the writes overtake the reads and overwrite elements not visited yet")
		})
	}
	if n == 0 {
		c.ok("<module>", "aliases", "-", "no x[:0] alias in internal/ergo")
	}
}

// canReachWithin: b is reachable from a inside the loop body without going through the loop header again.
func canReachWithin(a, b *ssa.BasicBlock, body map[*ssa.BasicBlock]bool, hdr *ssa.BasicBlock) bool {
	if a == b {
		return false
	}
	seen := map[*ssa.BasicBlock]bool{a: true}
	work := []*ssa.BasicBlock{a}
	for len(work) > 0 {
		x := work[0]
		work = work[1:]
		for _, s := range x.Succs {
			if s == hdr || !body[s] || seen[s] {
				continue
			}
			if s == b {
				return true
			}
			seen[s] = true
			work = append(work, s)
		}
	}
	return false
}
