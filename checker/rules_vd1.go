package main

// Validation-dominance rules, part 1: VD1 (validate-then-commit), VD2 (state emission guarded),
// VD3 (claim emission guarded), VD14 (a consumed update key is recorded).

import (
	"fmt"
	"go/constant"
	"go/token"
	"go/types"
	"sort"
	"strings"

	"golang.org/x/tools/go/ssa"
)

func init() {
	register(&Rule{ID: "VD1", Min: 8, Run: ruleVD1,
		Doc: "validate-then-commit: inside each committing lock callback no error return is reachable after the commit call except the commit's own error; in every other function, after a committing call returned nil every error exit is either reply I/O (exempt), a defensive check on a value the committing callback always stores (exempt), or reported as a post-commit failure"})
	register(&Rule{ID: "VD2", Min: 4, Run: ruleVD2,
		Doc: "state-emission-guarded: every construction of a \"state\" event outside replay/compaction is dominated by the nil edges of validateTransition(task.State, new) and validateClaimInvariant(new, _) where `new` is the value stored in NewState (alternative guard for the oldest-ready claim: id taken from readyTasks(...) and the constant doing); the validated state change is then recorded on every path to a success return; the task whose State is checked is the one loaded (or minted as todo) in the same lock callback"})
	register(&Rule{ID: "VD3", Min: 3, Run: ruleVD3,
		Doc: "claim-emission-guarded: every entry->success path through a \"claim\"/\"unclaim\" emission passes the nil edge of validateClaimInvariant (before or after the emission), and the emission sits on the !isEpic(task) edge (or takes its id from the tasks-only ready list); a claim's agent is checked non-empty"})
	register(&Rule{ID: "VD14", Min: 5, Run: ruleVD14,
		Doc: "consumed-key-is-recorded: in the set-event builder every delete(updates, K) for K in {title, body, epic, claim, state} is dominated by an emission of K's event type (claim: claim|unclaim, or the isEpic edge), and every event built is appended to the command's event list: an accepted field is never silently dropped"})
}

// ------------------------------------------------------------------ VD1

func ruleVD1(c *Ctx) {
	commit := c.commitFuncs()
	// part a: inside callbacks
	for _, ls := range c.F.LockSites {
		cb := ls.Callback
		if cb == nil {
			continue
		}
		fn := c.Name(cb)
		n := 0
		for _, call := range callsIn(cb) {
			cal := calleeOf(call.Common())
			if cal == nil || !commit[cal] {
				continue
			}
			n++
			construct := fmt.Sprintf("a:after-commit %s#%d", cal.Name(), n)
			pos := c.Pos(call.Pos())
			cv, ok := call.(*ssa.Call)
			if !ok {
				c.bad(fn, construct, pos, "commit call is deferred")
				continue
			}
			bad := ""
			// returns reachable after the commit
			for _, r := range returnsOf(cb) {
				if r.Block().Comment == "recover" || len(r.Results) == 0 {
					continue
				}
				if !(r.Block() == cv.Block() && instrIndex(r) > instrIndex(cv)) && !canReachInstr(cv, r) {
					continue
				}
				ev := returnedValue(r, len(r.Results)-1)
				if isNilConst(ev) {
					continue
				}
				if cl, _ := callOf(ev); cl == cv {
					continue // the commit's own error
				}
				// error values that are only the commit's error along its non-nil edge
				if ph, ok := strip(ev).(*ssa.Phi); ok {
					all := true
					for _, e := range ph.Edges {
						if cl, _ := callOf(e); cl != cv && !isNilConst(e) {
							all = false
						}
					}
					if all {
						continue
					}
				}
				if mustPassEdges(cb, r.Block(), nonNilErrEdges(cb, cv)) {
					if cl, _ := callOf(ev); cl == cv {
						continue
					}
				}
				bad = fmt.Sprintf("error return at %s (from %s) is reachable after the commit: the command fails although it changed the store", c.Pos(r.Pos()), strings.Join(c.errorSources(r), ","))
			}
			c.check(bad == "", fn, construct, pos, "no failure is possible after the commit except the commit's own", bad)
		}
		if n == 0 {
			c.ok(fn, "a:after-commit none", c.FnPos(cb), "callback does not commit")
		}
	}
	// part b: outside callbacks: after a committing call returned nil
	for _, f := range c.Fns {
		if c.F.Callbacks[f] != nil || c.F.isLockFn(f) || f.Pkg != c.Ergo && Outermost(f).Pkg != c.Ergo {
			continue
		}
		if commit[f] && !isCommandLevel(c, f) {
			continue // storage primitives: their internals are WR rules' business
		}
		counts := map[string]int{}
		for _, call := range callsIn(f) {
			cv, ok := call.(*ssa.Call)
			if !ok {
				continue
			}
			cal := calleeOf(&cv.Call)
			committing := false
			if cal != nil && c.F.isLockFn(cal) {
				for _, ls := range c.F.LockSites {
					if ls.Call == call && ls.Callback != nil {
						for g := range c.F.TransitiveCallees(ls.Callback) {
							if commit[g] {
								committing = true
							}
						}
					}
				}
			} else if cal != nil && commit[cal] {
				committing = true
			}
			if !committing {
				continue
			}
			okEdges := nilErrEdges(f, cv)
			var region map[*ssa.BasicBlock]bool
			if len(okEdges) == 0 {
				// result returned directly or stored: everything after the call in CFG order
				region = map[*ssa.BasicBlock]bool{}
				for _, s := range cv.Block().Succs {
					for b := range reach(s, nil, nil) {
						region[b] = true
					}
				}
			} else {
				region = map[*ssa.BasicBlock]bool{}
				for e := range okEdges {
					for b := range reach(e.To(), nil, nil) {
						region[b] = true
					}
				}
			}
			for _, r := range returnsOf(f) {
				if !region[r.Block()] || r.Block().Comment == "recover" || len(r.Results) == 0 {
					continue
				}
				last := r.Results[len(r.Results)-1]
				if !isErrorType(last) || isNilConst(returnedValue(r, len(r.Results)-1)) {
					continue
				}
				for _, sv := range errorSourceValues(r) {
					src := "?"
					if sc, ok := sv.(*ssa.Call); ok {
						if sc == cv {
							continue // the committing call's own error
						}
						if !canReachInstr(cv, sc) {
							continue // produced on a branch exclusive with (or before) the commit
						}
						if cal := calleeOf(&sc.Call); cal != nil && c.InModule(cal) {
							src = c.Name(cal)
						} else {
							src = calleeFullName(&sc.Call)
						}
					} else if u, ok := sv.(*ssa.UnOp); ok {
						if g, ok := u.X.(*ssa.Global); ok {
							src = "global " + g.Name()
						}
					}
					if replyIOSource(src) {
						continue
					}
					if sc, ok := sv.(*ssa.Call); ok && c.replyOnlyHelper(calleeOf(&sc.Call), 0) {
						continue // a helper that only prints the reply: its error is the reply write's
					}
					if c.defensiveOnCallbackStore(f, r) {
						continue
					}
					counts[src]++
					c.bad(c.Name(f), fmt.Sprintf("b:post-commit-failure:%s#%d", src, counts[src]), c.Pos(r.Pos()),
						fmt.Sprintf("after %s returned nil (the store is changed) the command can still exit with an error from %s: a failed command that contributed its writes", calleeDesc(c, cv), src))
				}
			}
		}
	}
	c.ok("<module>", "b:post-commit-scan", "-", fmt.Sprintf("%d module functions scanned for error exits after a committing call", len(c.Fns)))
}

func calleeDesc(c *Ctx, cv *ssa.Call) string {
	if cal := calleeOf(&cv.Call); cal != nil {
		return c.Name(cal)
	}
	return "the committing call"
}

// isCommandLevel: functions that orchestrate a command (contain a lock site or call an entry-level helper),
// as opposed to storage primitives.
func isCommandLevel(c *Ctx, f *ssa.Function) bool {
	for _, ls := range c.F.LockSites {
		if ls.Fn == f {
			return true
		}
	}
	for _, cs := range callsIn(f) {
		if cal := calleeOf(cs.Common()); cal != nil {
			for _, ls := range c.F.LockSites {
				if ls.Fn == cal {
					return true
				}
			}
		}
	}
	for _, e := range c.F.Entries {
		if e == f {
			return true
		}
	}
	return false
}

// replyOnlyHelper: a module function every error of which comes from writing the reply (writeJSON / fmt.Fprint*),
// and which cannot reach a storage effect.
func (c *Ctx) replyOnlyHelper(h *ssa.Function, d int) bool {
	if h == nil || h.Blocks == nil || !c.InModule(h) || d > 2 {
		return false
	}
	for g := range c.F.TransitiveCallees(h) {
		for _, e := range c.F.Effects {
			if e.Fn == g && storageEffectClass(e.Class) {
				return false
			}
		}
	}
	n := 0
	for _, r := range returnsOf(h) {
		if len(r.Results) == 0 {
			return false
		}
		last := r.Results[len(r.Results)-1]
		if !isErrorType(last) || isNilConst(returnedValue(r, len(r.Results)-1)) {
			continue
		}
		srcs := errorSourceValues(r)
		if len(srcs) == 0 {
			return false
		}
		for _, sv := range srcs {
			sc, ok := sv.(*ssa.Call)
			if !ok {
				return false
			}
			name := calleeFullName(&sc.Call)
			if cal := calleeOf(&sc.Call); cal != nil && c.InModule(cal) {
				name = c.Name(cal)
				if !replyIOSource(name) && !c.replyOnlyHelper(cal, d+1) {
					return false
				}
			} else if !replyIOSource(name) {
				return false
			}
			n++
		}
	}
	return n > 0
}

func replyIOSource(s string) bool {
	switch s {
	case "ergo.writeJSON", "(*ergo.ValidationError).WriteJSON", "fmt.Fprintln", "fmt.Fprintf", "fmt.Fprint":
		return true
	}
	return false
}

// defensiveOnCallbackStore: the return is guarded by `cell == nil` where the cell is captured by a
// committing lock callback of f that stores it on a path dominating its commit call.
func (c *Ctx) defensiveOnCallbackStore(f *ssa.Function, r *ssa.Return) bool {
	commit := c.commitFuncs()
	for _, bf := range branchFacts(f) {
		curEnv = bf.A.Env
		if bf.A.Kind == "const" && bf.Holds && (bf.E.To() == r.Block() || bf.E.To().Dominates(r.Block())) {
			// `if len(claimed) == 0 { return internal error }` on a slice the critical section fills on every success path
			// with a value known not to be empty
			if k, isInt := constInt(bf.A.C); isInt && k == 0 {
				if cl, _ := callOf(bf.A.X); cl != nil && calleeFullName(&cl.Call) == "builtin len" && len(cl.Call.Args) == 1 {
					if u, ok := strip(cl.Call.Args[0]).(*ssa.UnOp); ok {
						if cell := cellOf(u.X); cell != nil && c.filledNonEmptyByCallback(f, cell) {
							return true
						}
					}
				}
			}
		}
		if bf.A.Kind != "nil" || !bf.Holds {
			continue
		}
		if !(bf.E.To() == r.Block() || bf.E.To().Dominates(r.Block())) {
			continue
		}
		u, ok := strip(bf.A.X).(*ssa.UnOp)
		if !ok {
			continue
		}
		var stores []*ssa.Store
		if cell := cellOf(u.X); cell != nil {
			stores = cellStores(cell)
		} else if os, ok := fieldOrigins(u, 0); ok {
			// a field of the context struct the callback method is bound to (claim.chosen)
			for _, o := range os {
				if st, isStore := o.At.(*ssa.Store); isStore {
					stores = append(stores, st)
				}
			}
		}
		for _, ls := range c.F.LockSites {
			if ls.Fn != f || ls.Callback == nil {
				continue
			}
			for _, st := range stores {
				if st.Parent() != ls.Callback {
					continue
				}
				for _, call := range callsIn(ls.Callback) {
					cal := calleeOf(call.Common())
					if cal == nil || !commit[cal] {
						continue
					}
					if instrDominates(st, call) {
						return true
					}
					// the section body lives in a helper that commits and hands the item back: the store takes the
					// helper's result, which is a real item (never the nil constant) on each of its non-failing returns
					if ex, ok := strip(st.Val).(*ssa.Extract); ok && ex.Tuple == ssa.Value(call.Value()) && call.Value() != nil {
						nonNil := true
						rets := c.nonFailingReturns(cal)
						for _, r := range rets {
							if ex.Index >= len(r.Results) || isNilConst(returnedValue(r, ex.Index)) {
								nonNil = false
							}
						}
						if nonNil && len(rets) > 0 {
							return true
						}
					}
				}
			}
		}
	}
	return false
}

// ------------------------------------------------------------------ guard helpers

// guardNil: nil-error edges of calls to callee whose arguments satisfy pred.
func guardNil(f *ssa.Function, callee *ssa.Function, pred func(args []ssa.Value) bool) map[edge]bool {
	return edgesWhere(f, func(a Atom, holds bool) bool {
		if a.Kind != "nil" || !holds {
			return false
		}
		cl, _ := callOf(a.X)
		if cl == nil || calleeOf(&cl.Call) != callee || callee == nil {
			return false
		}
		return pred == nil || pred(cl.Call.Args)
	})
}

// guardBool: edges on which the bool result of a call to callee equals want.
func guardBool(f *ssa.Function, callee *ssa.Function, want bool, pred func(args []ssa.Value) bool) map[edge]bool {
	return edgesWhere(f, boolGuardPred(callee, want, pred))
}

// boolGuardPred: the atom-level test behind guardBool (usable inside a combined edgesWhere predicate).
func boolGuardPred(callee *ssa.Function, want bool, pred func(args []ssa.Value) bool) func(a Atom, holds bool) bool {
	var view *ssa.Function
	if curProg != nil && callee != nil {
		view = curProg.nilViewOf[callee]
	}
	return func(a Atom, holds bool) bool {
		// callee(args) == (view(args) != nil): a nil test of view's result is a test of the predicate
		if view != nil && a.Kind == "nil" && holds == !want {
			if cl, _ := callOf(a.X); cl != nil && calleeOf(&cl.Call) == view {
				return pred == nil || pred(cl.Call.Args)
			}
		}
		if a.Kind != "bool" || holds != want {
			return false
		}
		cl, _ := callOf(a.X)
		if cl == nil || calleeOf(&cl.Call) != callee || callee == nil {
			return false
		}
		return pred == nil || pred(cl.Call.Args)
	}
}

func isFieldOf(v ssa.Value, field string) (base ssa.Value, ok bool) {
	b, n, ok := fieldLoad(resolve(v))
	if !ok || n != field {
		return nil, false
	}
	return b, true
}

func constStr(v ssa.Value) string {
	if s, ok := constString(v); ok {
		return s
	}
	return ""
}

// valueFromCallTo: v's backward slice (through field loads / index / cells) contains a call to fn.
func valueFromCallTo(v ssa.Value, fn *ssa.Function) bool { return valueDerivesFromCallTo(v, fn) }

// ------------------------------------------------------------------ VD2

func ruleVD2(c *Ctx) {
	vt, vci := c.anchor("validateTransition"), c.anchor("validateClaimInvariant")
	rt := c.F.Anchors["readyTasks"]
	if vt == nil || vci == nil {
		return
	}
	n := 0
	clearing := c.replayClearingStates()
	for _, em := range c.emissions() {
		if !em.has("state") || c.isReplayOrCompact(em.Fn) {
			continue
		}
		n++
		f := em.Fn
		fn := c.Name(f)
		construct := em.construct("state")
		pos := c.Pos(em.Call.Pos())
		ns := em.Fields["NewState"]
		if ns == nil {
			c.unk(fn, construct, pos, "payload literal not decodable (NewState not found)")
			continue
		}
		nsCanon := c.canon(ns)
		var taskBase ssa.Value
		g1 := guardNil(f, vt, func(args []ssa.Value) bool {
			if len(args) != 2 || c.canon(args[1]) != nsCanon {
				return false
			}
			b, ok := isFieldOf(args[0], "State")
			if ok {
				taskBase = b
			}
			return ok
		})
		g2 := guardNil(f, vci, func(args []ssa.Value) bool { return len(args) == 2 && c.canon(args[0]) == nsCanon })
		d1 := mustPassEdges(f, em.Call.Block(), g1)
		d2 := mustPassEdges(f, em.Call.Block(), g2)
		// a constant new state on which replay itself clears the claimant (todo/done/canceled) cannot leave a pair the
		// invariant forbids: the state event's own replay produces (state, "") whatever the claimant was
		if s, isC := constString(ns); d1 && !d2 && isC && clearing[s] {
			c.ok(fn, construct, pos, "dominated by validateTransition(task.State, new)==nil; new is the constant "+s+", on which replay clears the claimant, so the recorded pair is ("+s+", unclaimed)")
			c.checkTaskProvenance(f, taskBase, fn, construct+"|task-origin", pos)
			continue
		}
		if d1 && d2 {
			c.ok(fn, construct, pos, "dominated by validateTransition(task.State, new)==nil and validateClaimInvariant(new, _)==nil with new = "+nsCanon)
			// validated change is recorded: from the guards' pass edges no success return is reachable avoiding the emission
			skip := ""
			for e := range g2 {
				region := reach(e.To(), nil, map[*ssa.BasicBlock]bool{em.Call.Block(): true})
				if e.To() == em.Call.Block() {
					continue
				}
				for _, r := range c.nonFailingReturns(f) {
					if region[r.Block()] {
						skip = c.Pos(r.Pos())
					}
				}
			}
			c.check(skip == "", fn, construct+"|recorded", pos, "once validated, the state change is recorded on every path to a success return",
				"a success return at "+skip+" is reachable after validation without recording the state event: replay never applies the state's side effects (e.g. clearing the claim) that validation assumed")
			// provenance of the task whose State is validated
			c.checkTaskProvenance(f, taskBase, fn, construct+"|task-origin", pos)
			continue
		}
		// alternative guard: oldest-ready claim
		if rt != nil && constStr(ns) == "doing" && em.Fields["ID"] != nil && valueFromCallTo(em.Fields["ID"], rt) {
			c.ok(fn, construct, pos, "alternative guard: id is taken from readyTasks(...) (state todo, unclaimed — RD2) and the new state is the constant doing")
			continue
		}
		c.bad(fn, construct, pos, fmt.Sprintf("state event (new=%s) is not dominated by validateTransition(task.State,new)==nil [%v] and validateClaimInvariant(new,_)==nil [%v]: a transition the table forbids can be recorded", nsCanon, d1, d2))
	}
	if n == 0 {
		c.bad("<module>", "emit \"state\"#0", "-", "no command-side state emission found")
	}
}

// checkTaskProvenance: base (a *Task value whose State is validated) must, through the call chain up to a
// lock callback, be graph.Tasks[id] of a graph loaded in that callback, or a Task literal minted there with State todo.
func (c *Ctx) checkTaskProvenance(f *ssa.Function, base ssa.Value, fn, construct, pos string) {
	if base == nil {
		c.unk(fn, construct, pos, "validated task value not identified")
		return
	}
	lgA, reA := c.F.Anchors["loadGraph"], c.F.Anchors["replayEvents"]
	lg := lgA
	fromLoaded := func(v ssa.Value) bool {
		return (lgA != nil && valueFromCallTo(v, lgA)) || (reA != nil && valueFromCallTo(v, reA))
	}
	type item struct {
		v ssa.Value
		d int
	}
	work := []item{{base, 0}}
	seen := map[ssa.Value]bool{}
	bad := ""
	okN := 0
	for len(work) > 0 {
		it := work[0]
		work = work[1:]
		v := resolve(it.v)
		if seen[v] || it.d > 4 {
			continue
		}
		seen[v] = true
		switch x := v.(type) {
		case *ssa.Parameter:
			args := c.argValues(x.Parent(), paramIndex(x))
			if len(args) == 0 {
				bad = "task parameter of " + c.Name(x.Parent()) + " has no static caller"
			}
			for _, a := range args {
				work = append(work, item{a, it.d + 1})
			}
		case *ssa.Extract:
			if lk, ok := x.Tuple.(*ssa.Lookup); ok {
				if _, n, ok := fieldLoad(lk.X); ok && n == "Tasks" && lg != nil && fromLoaded(lk.X) {
					okN++
					continue
				}
			}
			// a private lookup helper (resolveSetTarget(graph, id, updates) -> (*Task, error)): what its success returns hand back
			if cl, ok := x.Tuple.(*ssa.Call); ok {
				if cal := calleeOf(&cl.Call); cal != nil && cal.Blocks != nil && c.InModule(cal) && !c.opaqueHelper(cal) {
					pushed := false
					for _, r := range c.nonFailingReturns(cal) {
						if x.Index < len(r.Results) {
							work = append(work, item{returnedValue(r, x.Index), it.d + 1})
							pushed = true
						}
					}
					if pushed {
						continue
					}
				}
			}
			bad = "task comes from " + c.canon(v)
		case *ssa.Lookup:
			if _, n, ok := fieldLoad(x.X); ok && n == "Tasks" && lg != nil && fromLoaded(x.X) {
				okN++
				continue
			}
			bad = "task comes from " + c.canon(v)
		case *ssa.Alloc:
			// minted literal: State field must be the constant todo
			st := ""
			for _, r := range *x.Referrers() {
				if fa, ok := r.(*ssa.FieldAddr); ok && fieldName(x.Type(), fa.Field) == "State" {
					for _, u := range *fa.Referrers() {
						if s, ok := u.(*ssa.Store); ok {
							st = constStr(s.Val)
						}
					}
				}
			}
			if st == "todo" {
				okN++
			} else {
				bad = "minted task literal has State " + st + ", expected the constant todo"
			}
		default:
			bad = "task comes from " + c.canon(v)
		}
	}
	c.check(bad == "" && okN > 0, fn, construct, pos, fmt.Sprintf("validated task is the one loaded (or minted as todo) in the lock callback (%d origin(s))", okN), bad)
}

// ------------------------------------------------------------------ VD3

func ruleVD3(c *Ctx) {
	vci, isEpic := c.anchor("validateClaimInvariant"), c.anchor("isEpic")
	rt := c.F.Anchors["readyTasks"]
	if vci == nil || isEpic == nil {
		return
	}
	n := 0
	for _, em := range c.emissions() {
		if c.isReplayOrCompact(em.Fn) {
			continue
		}
		for _, t := range []string{"claim", "unclaim"} {
			if !em.has(t) {
				continue
			}
			n++
			f := em.Fn
			fn := c.Name(f)
			construct := em.construct(t)
			pos := c.Pos(em.Call.Pos())
			c.claimantArgMatchesEmission(em, t, vci)
			if rt != nil && em.Fields["ID"] != nil && valueFromCallTo(em.Fields["ID"], rt) {
				// oldest-ready claim: tasks-only ready list; agent must be checked non-empty
				agentOK := c.nonEmptyChecked(em.Fields["AgentID"], f)
				c.check(agentOK, fn, construct, pos, "id from the tasks-only ready list; agent checked non-empty before the lock", "claim recorded with an agent that was never checked non-empty: a task can end up doing with no claimant")
				continue
			}
			guards := guardNil(f, vci, nil)
			// form iii: no guard-free feasible path entry ~> emission ~> success return
			// (a return that hands on a call's error - `return appendEvents(path, events)` - succeeds whenever that call does)
			targets := map[*ssa.BasicBlock]bool{}
			for _, r := range c.nonFailingReturns(f) {
				targets[r.Block()] = true
			}
			// an emission built in a helper that validates by itself under a condition it is handed
			// (claimUpdateEvent(..., keepsState bool, ...) checks the invariant when keepsState): in the caller the
			// unvalidated case is the one where that argument is false, and the search below starts from there
			var viaSeed []psSeed
			if h := em.Lifted; h != nil && h.Blocks != nil {
				hGuards := guardNil(h, vci, nil)
				hTargets := map[*ssa.BasicBlock]bool{}
				for _, r := range c.nonFailingReturns(h) {
					hTargets[r.Block()] = true
				}
				var inner []*ssa.BasicBlock
				if ne := c.F.Anchors["newEvent"]; ne != nil {
					for _, call := range callsTo(h, ne) {
						if len(call.Common().Args) == 0 {
							continue
						}
						for _, ty := range c.constStrings(call.Common().Args[0], 0, map[ssa.Value]bool{}) {
							if ty == t {
								inner = append(inner, call.Block())
							}
						}
					}
				}
				unguarded := func(seed []psSeed) bool {
					for _, ib := range inner {
						if ex, _ := c.pathExists(psQuery{F: h, Removed: hGuards, Via: ib, Targets: hTargets, Seed: seed}); ex {
							return true
						}
					}
					return false
				}
				// what is known about the helper's parameters where it builds this event (claim: claimValue != "";
				// unclaim: claimValue == ""): known about the arguments once the call has been passed
				for _, ib := range inner {
					for _, bf := range directFacts(h) {
						prm, isPrm := strip(bf.A.X).(*ssa.Parameter)
						if !isPrm || prm.Parent() != h || bf.A.Kind != "const" && bf.A.Kind != "bool" && bf.A.Kind != "nil" {
							continue
						}
						if !(bf.E.To() == ib || bf.E.To().Dominates(ib)) || !bf.E.From.Dominates(ib) || len(bf.E.To().Preds) != 1 {
							continue
						}
						pi := paramIndex(prm)
						if pi < 0 || pi >= len(em.Call.Call.Args) || len(inner) != 1 {
							continue
						}
						a := bf.A
						a.X = em.Call.Call.Args[pi]
						viaSeed = append(viaSeed, psSeed{A: &a, Truth: bf.Holds})
					}
				}
				if len(inner) > 0 && len(hGuards) > 0 {
					if !unguarded(nil) {
						c.ok(fn, construct, pos, "the helper "+c.Name(h)+" validates the invariant itself on every path through its emission")
						continue
					}
					for pi, prm := range h.Params {
						if prm.Type().String() != "bool" || pi >= len(em.Call.Call.Args) {
							continue
						}
						onTrue := unguarded([]psSeed{{V: prm, Truth: true}})
						onFalse := unguarded([]psSeed{{V: prm, Truth: false}})
						if onTrue != onFalse {
							// the helper leaves the emission unvalidated only for one value of this parameter
							viaSeed = append(viaSeed, psSeed{V: em.Call.Call.Args[pi], Truth: onTrue})
						}
					}
				}
			}
			exists, wit := c.pathExists(psQuery{F: f, Removed: guards, Via: em.Call.Block(), Targets: targets, ViaSeed: viaSeed})
			toEm, fromEm := exists, exists
			okInv := !(toEm && fromEm)
			notEpic := mustPassEdges(f, em.Call.Block(), guardBool(f, isEpic, false, nil))
			why := ""
			if !okInv {
				why = fmt.Sprintf("a path through this emission reaches a success return without validateClaimInvariant (blocks %v): the resulting (state, claimant) pair is never checked; ", wit)
			}
			if !notEpic {
				why += "emission is not confined to the !isEpic(task) edge"
			}
			c.check(okInv && notEpic, fn, construct, pos, "every success path through the emission passes validateClaimInvariant==nil; emission only for non-epics", why)
		}
	}
	if n == 0 {
		c.bad("<module>", "emit \"claim\"#0", "-", "no command-side claim emission found")
	}
}

// nonEmptyChecked: v (possibly captured from the enclosing function) is compared with "" on a branch whose
// equal edge cannot reach the site (the enclosing function's lock call, or the emission itself).
func (c *Ctx) nonEmptyChecked(v ssa.Value, at *ssa.Function) bool {
	if v == nil {
		return false
	}
	want := c.canon(v)
	// walk outwards: the function itself, then the function that creates it as a closure or hands it to the lock primitive
	var site *ssa.BasicBlock // the block in f from which `at`'s code is entered; nil for f == at
	f := at
	for hops := 0; f != nil && hops < 6; hops++ {
		pass := edgesWhere(f, func(a Atom, holds bool) bool {
			return a.Kind == "const" && !holds && a.C.Value != nil && a.C.Value.Kind() == constant.String && constant.StringVal(a.C.Value) == "" && c.canon(a.X) == want
		})
		if len(pass) > 0 {
			if site == nil || mustPassEdges(f, site, pass) {
				return true
			}
		}
		// next enclosing context
		inner := f
		if c.F.Callbacks[inner] == nil && inner.Parent() == nil {
			// a private helper with one call site (the section body moved out of the closure): continue in its caller,
			// with the checked value expressed there
			sites := c.callers[inner]
			if len(sites) != 1 {
				return false
			}
			e := env{}
			for i, prm := range inner.Params {
				if i < len(sites[0].Call.Common().Args) {
					e[prm] = sites[0].Call.Common().Args[i]
				}
			}
			want = c.Prog.canonE(v, e)
			if rv, ok := resolveEnv(v, e).(ssa.Value); ok {
				v = rv
			}
			f, site = sites[0].Fn, sites[0].Call.Block()
			continue
		}
		if ls := c.F.Callbacks[inner]; ls != nil && inner.Parent() == nil {
			f, site = ls.Fn, ls.Call.Block() // a named function / bound method used as the lock callback
			continue
		}
		f = inner.Parent()
		site = nil
		if f != nil {
			eachInstr(f, func(r instrRef) {
				if mc, ok := r.In.(*ssa.MakeClosure); ok && (mc.Fn == ssa.Value(inner) || isNested(inner, mc.Fn.(*ssa.Function))) {
					site = r.Blk
				}
			})
			if site == nil {
				return false
			}
		}
	}
	return false
}

// ------------------------------------------------------------------ VD14

var keyEvents = map[string][]string{
	"title": {"title"}, "body": {"body"}, "epic": {"epic"}, "claim": {"claim", "unclaim"}, "state": {"state"},
}

func ruleVD14(c *Ctx) {
	isEpic := c.F.Anchors["isEpic"]
	ems := c.emissions()
	byFn := map[*ssa.Function][]*Emission{}
	for _, em := range ems {
		byFn[em.Fn] = append(byFn[em.Fn], em)
	}
	n := 0
	var fns []*ssa.Function
	for f := range byFn {
		fns = append(fns, f)
	}
	sort.Slice(fns, func(i, j int) bool { return c.Name(fns[i]) < c.Name(fns[j]) })
	for _, f := range fns {
		if c.isReplayOrCompact(f) {
			continue
		}
		fn := c.Name(f)
		cnt := map[string]int{}
		for _, call := range callsIn(f) {
			if calleeFullName(call.Common()) != "builtin delete" || len(call.Common().Args) != 2 {
				continue
			}
			key, ok := constString(call.Common().Args[1])
			if !ok || keyEvents[key] == nil {
				continue
			}
			if mt, ok := call.Common().Args[0].Type().Underlying().(*types.Map); !ok || mt.Key().String() != "string" {
				continue
			}
			// only consumption deletes: the map is also looked up with this key in f
			n++
			cnt[key]++
			construct := fmt.Sprintf("delete %q#%d", key, cnt[key])
			blocked := map[*ssa.BasicBlock]bool{}
			for _, em := range byFn[f] {
				for _, t := range keyEvents[key] {
					if em.has(t) {
						blocked[em.Call.Block()] = true
					}
				}
			}
			exempt := map[edge]bool{}
			if key == "claim" && isEpic != nil {
				exempt = guardBool(f, isEpic, true, nil)
			}
			reachable := reach(f.Blocks[0], exempt, blocked)[call.Block()]
			c.check(!reachable && len(blocked) > 0, fn, construct, c.Pos(call.Pos()),
				fmt.Sprintf("consumption of %q is dominated by an emission of %v", key, keyEvents[key]),
				fmt.Sprintf("the %q update can be consumed (deleted from the pending updates) without an event of type %v having been built: the field is accepted and silently dropped", key, keyEvents[key]))
		}
		// every built event is used (appended / returned / stored)
		for _, em := range byFn[f] {
			used := false
			for _, r := range *em.Call.Referrers() {
				if ex, ok := r.(*ssa.Extract); ok && ex.Index == 0 {
					for _, u := range *ex.Referrers() {
						if _, isDbg := u.(*ssa.DebugRef); !isDbg {
							used = true
						}
					}
				}
				if _, ok := r.(*ssa.Return); ok {
					used = true
				}
			}
			t := "?"
			if len(em.Types) > 0 {
				t = em.Types[0]
			}
			n++
			c.check(used, fn, em.construct(t)+"|event-used", c.Pos(em.Call.Pos()), "the built event flows on (append/store/return)", "the event built here is dropped: it never reaches the commit")
		}
	}
	_ = n
}

// filledNonEmptyByCallback: in a lock callback of f, a store into cell dominates every success return and the stored
// slice is known to hold at least one element (nonEmptySlice).
func (c *Ctx) filledNonEmptyByCallback(f *ssa.Function, cell *ssa.Alloc) bool {
	for _, ls := range c.F.LockSites {
		if ls.Fn != f || ls.Callback == nil {
			continue
		}
		cb := ls.Callback
		for _, st := range cellStores(cell) {
			if st.Parent() != cb {
				continue
			}
			all := true
			for _, sr := range c.nonFailingReturns(cb) {
				if !(st.Block() == sr.Block() || st.Block().Dominates(sr.Block())) {
					all = false
				}
			}
			if all && len(c.nonFailingReturns(cb)) > 0 && nonEmptySlice(st.Val, st.Block(), map[ssa.Value]bool{}, 0) {
				return true
			}
		}
	}
	return false
}

// nonEmptySlice: at block at, the slice v has at least one element: a failing `len(v) == 0` test dominates at, or v is
// a prefix w[:k] of such a slice with k >= 1 (atLeastOne), or a phi of such values.
func nonEmptySlice(v ssa.Value, at *ssa.BasicBlock, seen map[ssa.Value]bool, d int) bool {
	if v == nil || d > 6 {
		return false
	}
	if _, isPhi := strip(v).(*ssa.Phi); isPhi {
		if seen[v] {
			return false
		}
		seen[v] = true
	}
	f := at.Parent()
	for _, bf := range branchFacts(f) {
		if len(bf.A.Env) != 0 || bf.A.Kind != "const" || bf.Holds {
			continue
		}
		if k, isInt := constInt(bf.A.C); !isInt || k != 0 {
			continue
		}
		cl, _ := callOf(bf.A.X)
		if cl == nil || calleeFullName(&cl.Call) != "builtin len" || strip(cl.Call.Args[0]) != strip(v) {
			continue
		}
		if bf.E.To() == at || bf.E.To().Dominates(at) {
			return true
		}
	}
	switch x := strip(v).(type) {
	case *ssa.Phi:
		for _, e := range x.Edges {
			if !nonEmptySlice(e, at, seen, d+1) {
				return false
			}
		}
		return len(x.Edges) > 0
	case *ssa.Slice:
		if x.Low != nil {
			if k, ok := constInt(x.Low); !ok || k != 0 {
				return false
			}
		}
		if x.High == nil {
			return nonEmptySlice(x.X, at, seen, d+1)
		}
		return atLeastOne(x.High) && nonEmptySlice(x.X, at, seen, d+1)
	}
	return false
}

// atLeastOne: the integer v is a constant >= 1, or a parameter (possibly captured by a closure, never reassigned) that
// its function rejects below 1 on entry (`if n < 1 { return err }` / `n <= 0`) before the closure is created.
func atLeastOne(v ssa.Value) bool {
	if k, ok := constInt(v); ok {
		return k >= 1
	}
	v = resolve(v)
	var user ssa.Instruction // where, in the parameter's function, the value is handed on (closure creation)
	for d := 0; d < 3; d++ {
		u, ok := v.(*ssa.UnOp)
		if !ok || u.Op != token.MUL {
			break
		}
		fv, ok := u.X.(*ssa.FreeVar)
		if !ok {
			break
		}
		b := bindingOf(fv)
		al, ok := b.(*ssa.Alloc)
		if !ok {
			return false
		}
		sts := cellStores(al)
		if len(sts) != 1 {
			return false
		}
		for _, r := range *al.Referrers() {
			if mc, ok := r.(*ssa.MakeClosure); ok {
				user = mc
			}
		}
		v = resolve(sts[0].Val)
	}
	prm, ok := v.(*ssa.Parameter)
	if !ok {
		return false
	}
	g := prm.Parent()
	for _, bf := range branchFacts(g) {
		if len(bf.A.Env) != 0 || bf.A.Kind != "cmp" || !bf.Holds {
			continue
		}
		if resolve(bf.A.X) != ssa.Value(prm) {
			continue
		}
		k, isC := constInt(bf.A.Y)
		if !isC || !(bf.A.Op == token.LSS && k == 1 || bf.A.Op == token.LEQ && k == 0) {
			continue
		}
		// the rejecting edge only leads to failing returns, and the test dominates the use
		failing := true
		for b := range reach(bf.E.To(), nil, nil) {
			for _, in := range b.Instrs {
				if r, ok := in.(*ssa.Return); ok {
					if len(r.Results) == 0 || isNilConst(returnedValue(r, len(r.Results)-1)) {
						failing = false
					}
				}
			}
		}
		if !failing {
			continue
		}
		if user == nil || bf.E.From.Dominates(user.Block()) {
			return true
		}
	}
	return false
}
