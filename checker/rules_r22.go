package main

// Round 22: clauses added for the smallest-edit seeds of round 22.

import (
	"fmt"
	"go/constant"
	"go/token"
	"go/types"

	"golang.org/x/tools/go/ssa"
)

// probeVerdict (a clause of WR4): the tail probe P(path) (unterminated bool, err error) may answer "terminated"
// (false, nil) on its own authority only where there is nothing to be torn - the file is missing (an error was looked
// at), or its size was found to be exactly 0 - or where the last byte was compared equal to '\n'. An answer "terminated"
// that rests on anything else (a size below some other bound, a modification time, a cached flag) lets the appender glue
// its line onto a fragment, and every later read fails. A verdict computed from the byte (`return last[0] != '\n', nil`)
// is not a constant and is covered by the byte comparison itself.
func (c *Ctx) probeVerdict(P *ssa.Function) {
	if P == nil || P.Blocks == nil {
		return
	}
	fn := c.Name(P)
	isSize := func(v ssa.Value) bool {
		cl, _ := callOf(strip(v))
		if cl == nil {
			return false
		}
		if cl.Call.IsInvoke() {
			return cl.Call.Method.Name() == "Size"
		}
		n := calleeFullName(&cl.Call)
		return n == "(*os.File).Seek" || n == "(*bytes.Reader).Size" || n == "(*bytes.Reader).Len"
	}
	intOf := func(v ssa.Value) (int64, bool) {
		k, ok := strip(v).(*ssa.Const)
		if !ok || k.Value == nil || k.Value.Kind() != constant.Int {
			return 0, false
		}
		return k.Int64(), true
	}
	// admits(a, holds, n): the edge is taken when the size is n; ok=false when the atom is not a test of the size
	admits := func(a Atom, holds bool, n int64) (taken, ok bool) {
		switch a.Kind {
		case "const":
			if !isSize(a.X) || a.C == nil || a.C.Value == nil || a.C.Value.Kind() != constant.Int {
				return false, false
			}
			return (n == a.C.Int64()) == holds, true
		case "cmp":
			var l, r int64
			switch {
			case isSize(a.X):
				k, ok := intOf(a.Y)
				if !ok {
					return false, false
				}
				l, r = n, k
			case a.Y != nil && isSize(a.Y):
				k, ok := intOf(a.X)
				if !ok {
					return false, false
				}
				l, r = k, n
			default:
				return false, false
			}
			var v bool
			switch a.Op {
			case token.LSS:
				v = l < r
			case token.LEQ:
				v = l <= r
			case token.GTR:
				v = l > r
			case token.GEQ:
				v = l >= r
			case token.EQL:
				v = l == r
			default:
				return false, false
			}
			return v == holds, true
		}
		return false, false
	}
	isByte := func(v ssa.Value) bool {
		b, ok := v.Type().Underlying().(*types.Basic)
		return ok && (b.Kind() == types.Uint8 || b.Kind() == types.Byte)
	}
	pass := edgesWhere(P, func(a Atom, holds bool) bool {
		if a.Kind == "nil" && !holds && isErrorType(a.X) {
			return true // an error was looked at: missing file, failed stat
		}
		if a.Kind == "const" && holds && a.C != nil && a.C.Value != nil && a.C.Value.Kind() == constant.Int && isByte(a.X) {
			if k := a.C.Int64(); k == '\n' {
				return true // the byte read is the newline
			}
		}
		if t0, ok := admits(a, holds, 0); ok && t0 {
			for _, n := range []int64{1, 2, 3, 4096} {
				if tn, _ := admits(a, holds, n); tn {
					return false
				}
			}
			return true // the size is exactly 0
		}
		return false
	})
	isFalse := func(v ssa.Value) bool {
		k, ok := strip(v).(*ssa.Const)
		return ok && k.Value != nil && k.Value.Kind() == constant.Bool && !constant.BoolVal(k.Value)
	}
	n := 0
	for _, r := range c.nonFailingReturns(P) {
		if len(r.Results) < 2 {
			continue
		}
		v := returnedValue(r, 0)
		construct := fmt.Sprintf("probe-verdict|return#%d", n+1)
		switch x := strip(v).(type) {
		case *ssa.Phi:
			for i, e := range x.Edges {
				if !isFalse(e) {
					continue
				}
				n++
				pred := x.Block().Preds[i]
				okEdge := false
				for si, s := range pred.Succs {
					if s == x.Block() && pass[edge{pred, si}] {
						okEdge = true
					}
				}
				c.check(okEdge || mustPassEdges(P, pred, pass), fn, fmt.Sprintf("probe-verdict|phi#%d", n), c.Pos(r.Pos()),
					"the constant answer `terminated` is given only for a missing or empty file, or after the last byte compared equal to the newline",
					"the tail probe answers `terminated` on a path that neither found the file missing or empty nor compared its last byte with the newline: an appender that trusts it glues its line onto a fragment and every later read fails")
			}
		default:
			if !isFalse(v) {
				continue
			}
			n++
			c.check(mustPassEdges(P, r.Block(), pass), fn, construct, c.Pos(r.Pos()),
				"the constant answer `terminated` is given only for a missing or empty file, or after the last byte compared equal to the newline",
				"the tail probe answers `terminated` on a path that neither found the file missing or empty nor compared its last byte with the newline: an appender that trusts it glues its line onto a fragment and every later read fails")
		}
	}
}

func init() {
	register(&Rule{ID: "ST5", Min: 2, Run: ruleST5,
		Doc: "links-are-followed-as-discovery-followed-them: the upward search accepts a `.ergo` that is a symbolic link to a directory (it asks os.Stat, which follows links), so a store reached through a link is a supported store. Every later open of a path must resolve it the same way: no os.OpenFile / syscall.Open of a directory of the store (O_DIRECTORY set, or a path that is filepath.Dir(...) of a store file or comes from the search itself) sets O_NOFOLLOW - the flag concerns the last path component only, so it is harmless on a file inside the store. An open that refuses links fails on such a store where discovery, the lock and the reader succeeded - for the directory sync that follows the rename this is after the commit: the command exits non-zero and its events are recorded all the same. (Waived when discovery itself asks os.Lstat only: links are then refused up front, consistently.) Decided on constant flag operands; a flag that is not a constant is reported undecided"})
}

func ruleST5(c *Ctx) {
	nofollow, ok := pkgConst(c.Prog, "syscall", "O_NOFOLLOW")
	if !ok || nofollow == 0 {
		c.ok("<platform>", "O_NOFOLLOW", "-", "the platform has no O_NOFOLLOW: nothing to decide")
		c.ok("<platform>", "O_NOFOLLOW#2", "-", "the platform has no O_NOFOLLOW: nothing to decide")
		return
	}
	odir, _ := pkgConst(c.Prog, "syscall", "O_DIRECTORY")
	// does discovery follow links?
	follows := false
	disc := c.anchor("resolveErgoDir")
	if disc != nil {
		for _, g := range append([]*ssa.Function{disc}, c.unitOf(disc)...) {
			if g.Blocks != nil && len(callsNamed(g, "os.Stat")) > 0 {
				follows = true
			}
		}
		for _, call := range callsIn(disc) {
			if cal := calleeOf(call.Common()); cal != nil && c.InModule(cal) && cal.Blocks != nil && len(callsNamed(cal, "os.Stat")) > 0 {
				follows = true
			}
		}
	}
	c.check(disc != nil, "<module>", "discovery", "-", fmt.Sprintf("discovery found; it follows links: %v", follows), "the upward search was not found")
	for _, f := range c.Fns {
		if !c.InModule(f) || f.Blocks == nil {
			continue
		}
		k := 0
		for _, call := range callsIn(f) {
			nme := calleeFullName(call.Common())
			if nme != "os.OpenFile" && nme != "syscall.Open" && nme != "syscall.Openat" {
				continue
			}
			args := call.Common().Args
			fi := 1
			if nme == "syscall.Openat" {
				fi = 2
			}
			if len(args) <= fi {
				continue
			}
			k++
			construct := fmt.Sprintf("open#%d", k)
			fl, isConst := constInt(args[fi])
			switch {
			case !isConst:
				c.unk(c.Name(f), construct, c.Pos(call.Pos()), "the flags of this open are not a constant: whether it refuses symbolic links is not decided")
			case fl&nofollow != 0 && follows && !(fl&odir != 0 || c.isDirectoryPath(f, args[fi-1], 0)):
				c.ok(c.Name(f), construct, c.Pos(call.Pos()), "O_NOFOLLOW concerns the last component only, here a file inside the store: the linked directory part is still followed")
			case fl&nofollow != 0 && follows:
				c.bad(c.Name(f), construct, c.Pos(call.Pos()), "this open sets O_NOFOLLOW while discovery accepts a linked `.ergo` (os.Stat): on such a store it fails where the search, the lock and the reader succeeded - after the rename that is a non-zero exit with the events recorded")
			default:
				c.ok(c.Name(f), construct, c.Pos(call.Pos()), "the open follows links like discovery does")
			}
		}
	}
}

// titleNeverJudgedByPlainEmptiness (a clause of VD15): replay's legacy migration takes a title for missing when
// strings.TrimSpace(title) == "". The validators of the JSON inputs must draw the same line for the Title of every
// *Input type: a comparison of the raw field with "" (`*p.Title == ""`) accepts a title made of white space, which is
// recorded and then replaced by the first line of the body on every read.
func (c *Ctx) titleNeverJudgedByPlainEmptiness() {
	n := 0
	for _, f := range c.Fns {
		if !c.InModule(f) || f.Blocks == nil || f.Pkg != c.Ergo {
			continue
		}
		k := 0
		eachInstr(f, func(r instrRef) {
			b, ok := r.In.(*ssa.BinOp)
			if !ok || (b.Op != token.EQL && b.Op != token.NEQ) {
				return
			}
			x, y := b.X, b.Y
			if _, isK := x.(*ssa.Const); isK {
				x, y = y, x
			}
			kc, isK := y.(*ssa.Const)
			if !isK || kc.Value == nil || kc.Value.Kind() != constant.String || constant.StringVal(kc.Value) != "" {
				return
			}
			// x is the raw Title of an input document: t.Title (string) or *t.Title (*string)
			v := strip(x)
			if u, ok := v.(*ssa.UnOp); ok && u.Op == token.MUL {
				if _, isPtrLoad := strip(u.X).(*ssa.UnOp); isPtrLoad {
					v = strip(u.X)
				}
			}
			base, name, ok := fieldLoad(v)
			if !ok || name != "Title" || base == nil {
				return
			}
			tn := namedTypeName(base.Type())
			if !stringsHasSuffix(tn, "Input") {
				return
			}
			k++
			n++
			c.bad(c.Name(f), fmt.Sprintf("title-blank-test#%d", k), c.Pos(b.Pos()),
				"the Title of "+tn+" is compared with \"\" as it stands: replay's legacy migration takes a title for missing when strings.TrimSpace(title) is empty, so a title made of white space passes here, is recorded, and is replaced by the first line of the body on every read")
		})
	}
	if n == 0 {
		c.ok("<module>", "title-blank-test", "-", "no validator judges an input Title by plain emptiness")
	}
}

func stringsHasSuffix(s, suf string) bool { return len(s) >= len(suf) && s[len(s)-len(suf):] == suf }

// emissionNotGuardedByKind (a clause of DT5 e): replay applies a state, title or body event to whatever item carries the
// id - epics included (logs written before epic state became derived hold state events for epics). Compaction must
// therefore re-emit the field for every kind of item: the emission may not lie behind a test of the item's IsEpic flag
// unless replay's case for that event type tests the flag as well. The `epic` event is exempt: every writer refuses to
// put an epic into an epic, so there is nothing to re-emit for epics.
func (c *Ctx) emissionNotGuardedByKind(ce *ssa.Function, em *Emission, event, field string) {
	if event == "epic" {
		return
	}
	f := em.Call.Parent()
	kindEdges := edgesWhere(f, func(a Atom, holds bool) bool {
		if a.Kind != "bool" {
			return false
		}
		_, n, ok := fieldLoad(a.X)
		return ok && n == "IsEpic"
	})
	guarded := false
	for e := range kindEdges {
		if mustPassEdges(f, em.Call.Block(), map[edge]bool{e: true}) {
			guarded = true
		}
	}
	replayTests := false
	if m := c.replay(); m != nil && guarded {
		ce := m.caseEdgesFor(event)
		for _, bf := range branchFacts(m.Switch) {
			curEnv = bf.A.Env
			if bf.A.Kind != "bool" {
				continue
			}
			if _, n, ok := fieldLoad(bf.A.X); ok && n == "IsEpic" && mustPassEdges(m.Switch, bf.E.From, ce) {
				replayTests = true
			}
		}
		curEnv = nil
	}
	c.check(!guarded || replayTests, c.Name(ce), "e:emits "+event+" for every kind of item", c.Pos(em.Call.Pos()),
		"the "+event+" re-emission does not depend on the item being a task or an epic (or replay draws the same line)",
		"the "+event+" event is re-emitted only for one kind of item (a test of IsEpic guards it) while replay applies "+event+" events to tasks and epics alike: an epic whose "+field+" was changed - a log written before epic state became derived - reverts to the created value on compact")
}

func init() {
	register(&Rule{ID: "DT20", Min: 1, Run: ruleDT20,
		Doc: "a-set-is-dropped-only-when-it-was-found-empty: the relations of the graph are maps of sets (Deps, RDeps: id -> set of ids). Where a function walks such a map and drops the entry of the key in hand (`for k := range M { ... delete(M, k) }`), the delete lies behind a test that the set of that very key is empty - len(v) == 0 on the ranged value of k, or len(M[k]) == 0 with the same key. A test on another key's set (the id just removed, whose set is always empty by then) drops the whole dependency set of every item that shared one member with it: after pruning one dependency the dependant loses the others too and is reported ready while they are still open. Deleting the entry of an id that is not the loop key (the pruned id's own set) is not this rule's business"})
}

func ruleDT20(c *Ctx) {
	n := 0
	for _, f := range c.Fns {
		if !c.InModule(f) || f.Blocks == nil || f.Pkg != c.Ergo {
			continue
		}
		k := 0
		for _, call := range callsIn(f) {
			b, ok := call.Common().Value.(*ssa.Builtin)
			if !ok || b.Name() != "delete" || len(call.Common().Args) != 2 {
				continue
			}
			M, key := call.Common().Args[0], strip(call.Common().Args[1])
			mt, ok := M.Type().Underlying().(*types.Map)
			if !ok {
				continue
			}
			if _, inner := mt.Elem().Underlying().(*types.Map); !inner {
				continue
			}
			// the key comes out of a range over the same map
			ex, ok := key.(*ssa.Extract)
			if !ok || ex.Index != 1 {
				continue
			}
			nx, ok := ex.Tuple.(*ssa.Next)
			if !ok {
				continue
			}
			rg, ok := nx.Iter.(*ssa.Range)
			if !ok || c.canon(rg.X) != c.canon(M) {
				continue
			}
			k++
			n++
			construct := fmt.Sprintf("delete-in-range#%d", k)
			isSetOfKey := func(v ssa.Value) bool {
				v = strip(v)
				if e2, ok := v.(*ssa.Extract); ok && e2.Tuple == ssa.Value(nx) && e2.Index == 2 {
					return true
				}
				if lk, ok := v.(*ssa.Lookup); ok && c.canon(lk.X) == c.canon(M) && strip(lk.Index) == key {
					return true
				}
				if e2, ok := v.(*ssa.Extract); ok && e2.Index == 0 {
					if lk, ok := e2.Tuple.(*ssa.Lookup); ok && c.canon(lk.X) == c.canon(M) && strip(lk.Index) == key {
						return true
					}
				}
				return false
			}
			pass := edgesWhere(f, func(a Atom, holds bool) bool {
				if a.Kind != "const" || !holds || a.C == nil || a.C.Value == nil || a.C.Value.Kind() != constant.Int || a.C.Int64() != 0 {
					return false
				}
				cl, _ := callOf(strip(a.X))
				if cl == nil {
					return false
				}
				lb, ok := cl.Call.Value.(*ssa.Builtin)
				return ok && lb.Name() == "len" && len(cl.Call.Args) == 1 && isSetOfKey(cl.Call.Args[0])
			})
			c.check(mustPassEdges(f, call.Block(), pass), c.Name(f), construct, c.Pos(call.Pos()),
				"the entry of the key in hand is dropped only after its own set was found empty",
				"the entry of the loop key is deleted from "+c.canon(M)+" without a test that the set of that very key is empty (len of the ranged value, or of a lookup with the same key): the sets of other items are dropped while they still have members - after a prune the dependant loses its remaining dependencies and is reported ready")
		}
	}
	if n == 0 {
		c.ok("<module>", "delete-in-range", "-", "no function drops the entry of the key it is ranging over from a map of sets")
	}
}

// isDirectoryPath: the path operand names a directory of the store: filepath.Dir(...) of something, the result of the
// upward search, or - through a parameter - such a value at a call site.
func (c *Ctx) isDirectoryPath(f *ssa.Function, v ssa.Value, d int) bool {
	if d > 4 || v == nil {
		return false
	}
	v = strip(v)
	if cl, _ := callOf(v); cl != nil {
		switch calleeFullName(&cl.Call) {
		case "path/filepath.Dir", "path.Dir":
			return true
		}
		if cal := calleeOf(&cl.Call); cal != nil && (cal == c.anchor("resolveErgoDir") || cal == c.ErgoFn("ergoDir")) {
			return true
		}
	}
	if ex, ok := v.(*ssa.Extract); ok {
		if cl, _ := callOf(ex.Tuple); cl != nil {
			if cal := calleeOf(&cl.Call); cal != nil && (cal == c.anchor("resolveErgoDir") || cal == c.ErgoFn("ergoDir")) {
				return true
			}
		}
	}
	if prm, ok := v.(*ssa.Parameter); ok {
		i := paramIndex(prm)
		for _, cs := range c.callers[prm.Parent()] {
			if args := cs.Call.Common().Args; i < len(args) && c.isDirectoryPath(cs.Fn, args[i], d+1) {
				return true
			}
		}
	}
	return false
}

// hoistedDiffers: the condition of a re-emission was given a name first (`changed := task.X != createdX || ...` followed
// by `if changed {` or, for the epic event, `if !task.IsEpic && changed {`). The differs edge then enters the block of a
// bool phi with the constant true; the emission is reached when the first branch on that phi is taken on its true edge.
// Between the phi and that branch only a test of IsEpic may sit, and only for the `epic` event (writers refuse epics in
// epics, see emissionNotGuardedByKind); the walk follows its not-an-epic edge.
func hoistedDiffers(bf branchFact, em *Emission, event string) bool {
	tgt := bf.E.To()
	for _, in := range tgt.Instrs {
		phi, ok := in.(*ssa.Phi)
		if !ok {
			break
		}
		isTrue := false
		for i, p := range tgt.Preds {
			if p == bf.E.From && i < len(phi.Edges) {
				if k, ok := phi.Edges[i].(*ssa.Const); ok && k.Value != nil && k.Value.Kind() == constant.Bool && constant.BoolVal(k.Value) {
					isTrue = true
				}
			}
		}
		if !isTrue {
			continue
		}
		b := tgt
		for steps := 0; steps < 6 && b != nil; steps++ {
			if len(b.Instrs) == 0 {
				return false
			}
			// nothing but value computations may sit on the way (no call that could end the iteration, no store)
			for _, x := range b.Instrs[:len(b.Instrs)-1] {
				switch x.(type) {
				case *ssa.Phi, *ssa.UnOp, *ssa.BinOp, *ssa.FieldAddr, *ssa.Field, *ssa.DebugRef:
				default:
					return false
				}
			}
			switch last := b.Instrs[len(b.Instrs)-1].(type) {
			case *ssa.Jump:
				b = b.Succs[0]
			case *ssa.If:
				a, pos := decompose(last.Cond)
				if a.Kind != "bool" {
					return false
				}
				if strip(a.X) == ssa.Value(phi) {
					t := b.Succs[1]
					if pos {
						t = b.Succs[0]
					}
					return t == em.Call.Block() || (t.Dominates(em.Call.Block()) && len(t.Succs) == 1)
				}
				if _, n, ok := fieldLoad(a.X); ok && n == "IsEpic" && event == "epic" {
					// follow the edge on which the item is not an epic
					if pos {
						b = b.Succs[1]
					} else {
						b = b.Succs[0]
					}
					continue
				}
				return false
			default:
				return false
			}
		}
	}
	return false
}

func init() {
	register(&Rule{ID: "DT21", Min: 10, Run: ruleDT21,
		Doc: "recorded-keys-stay-readable: the JSON keys of the event envelope and of every event payload are the on-disk format of every log ever written. For each payload type the keys recorded by ergo so far (the table below, confirmed on the pinned tree) are still the `json` tag of some field of that type: a renamed key makes the binary read back what it writes itself - every test passes - while a tombstone, a claim or a result written by an earlier binary (a store pruned before the upgrade, a peer's clone) decodes to an empty value and silently takes no effect: pruned ids come back, claims vanish. New fields and new keys are not this rule's business; a type that gives itself an UnmarshalJSON decides its own keys and is reported undecided"})
}

// recordedKeys: payload type -> the keys ergo has recorded for it (pinned tree 480758f .. 22f4279).
var recordedKeys = map[string][]string{
	"Event":            {"type", "ts", "data"},
	"NewTaskEvent":     {"id", "uuid", "epic_id", "state", "title", "body", "created_at"},
	"StateEvent":       {"id", "state", "ts"},
	"LinkEvent":        {"from_id", "to_id", "type"},
	"ClaimEvent":       {"id", "agent_id", "ts"},
	"TitleUpdateEvent": {"id", "title", "ts"},
	"BodyUpdateEvent":  {"id", "body", "ts"},
	"EpicAssignEvent":  {"id", "epic_id", "ts"},
	"UnclaimEvent":     {"id", "ts"},
	"TombstoneEvent":   {"id", "agent_id", "ts"},
	"ResultEvent":      {"task_id", "summary", "path", "sha256_at_attach", "mtime_at_attach", "git_commit_at_attach", "ts"},
}

func ruleDT21(c *Ctx) {
	if c.Ergo == nil || c.Ergo.Pkg == nil {
		c.unk("<module>", "package", "-", "package internal/ergo not found")
		return
	}
	scope := c.Ergo.Pkg.Scope()
	names := make([]string, 0, len(recordedKeys))
	for n := range recordedKeys {
		names = append(names, n)
	}
	sortStrings(names)
	for _, name := range names {
		obj := scope.Lookup(name)
		if obj == nil {
			c.bad("ergo."+name, "type", "-", "the payload type "+name+" no longer exists: events of this kind recorded so far are not decoded into it")
			continue
		}
		st, ok := obj.Type().Underlying().(*types.Struct)
		if !ok {
			c.unk("ergo."+name, "type", c.Pos(obj.Pos()), name+" is no longer a struct: its keys are not decided")
			continue
		}
		custom := false
		for _, t := range []types.Type{obj.Type(), types.NewPointer(obj.Type())} {
			ms := types.NewMethodSet(t)
			for i := 0; i < ms.Len(); i++ {
				if ms.At(i).Obj().Name() == "UnmarshalJSON" {
					custom = true
				}
			}
		}
		tags := map[string]bool{}
		for i := 0; i < st.NumFields(); i++ {
			tag := structTagJSON(st.Tag(i))
			if tag == "" {
				tag = st.Field(i).Name()
			}
			tags[tag] = true
		}
		for _, key := range recordedKeys[name] {
			construct := "key " + key
			switch {
			case tags[key]:
				c.ok("ergo."+name, construct, "-", "still the json tag of a field")
			case custom:
				c.unk("ergo."+name, construct, "-", name+" has its own UnmarshalJSON: whether the recorded key `"+key+"` is still read is not decided")
			default:
				c.bad("ergo."+name, construct, "-", "no field of "+name+" carries the json key `"+key+"` any more: events recorded with it by earlier binaries (or a peer's clone) decode to an empty value and silently take no effect")
			}
		}
	}
}

func structTagJSON(tag string) string {
	// `json:"name,omitempty"`
	const k = `json:"`
	i := indexOf(tag, k)
	if i < 0 {
		return ""
	}
	rest := tag[i+len(k):]
	j := indexOf(rest, `"`)
	if j < 0 {
		return ""
	}
	v := rest[:j]
	if c := indexOf(v, ","); c >= 0 {
		v = v[:c]
	}
	return v
}

func indexOf(s, sub string) int {
	for i := 0; i+len(sub) <= len(s); i++ {
		if s[i:i+len(sub)] == sub {
			return i
		}
	}
	return -1
}

