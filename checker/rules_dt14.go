package main

// DT14: helpers that turn a set into a slice answer the same for a nil set and an empty one.

import (
	"fmt"
	"go/constant"
	"go/token"
	"go/types"

	"golang.org/x/tools/go/ssa"
)

func init() {
	register(&Rule{ID: "DT14", Min: 1, Run: ruleDT14,
		Doc: "nil-and-empty-sets-look-alike: replay leaves an empty but non-nil set behind where the last edge of an item was removed (unlink, prune), while a graph replayed from the compacted log has no set there at all. A helper that turns a map into a slice and distinguishes the two (`if m == nil { return nil }` followed by building a slice) hands back nil in one case and an empty slice in the other, which JSON prints as null and [] - `show --json` then differs before and after compact. Every function of internal/ergo with a map parameter and a slice result that tests the parameter for nil must decide its empty answer by len(m) == 0 instead (every non-nil slice it returns lies behind len(m) != 0)"})
}

func ruleDT14(c *Ctx) {
	n := 0
	for _, f := range c.Fns {
		if Outermost(f).Pkg != c.Ergo || f.Blocks == nil || f.Parent() != nil {
			continue
		}
		res := f.Signature.Results()
		if res.Len() == 0 {
			continue
		}
		if _, isSlice := res.At(0).Type().Underlying().(*types.Slice); !isSlice {
			continue
		}
		for _, prm := range f.Params {
			if _, isMap := prm.Type().Underlying().(*types.Map); !isMap {
				continue
			}
			n++
			nilTested := false
			for _, bf := range directFacts(f) {
				if bf.A.Kind == "nil" && strip(bf.A.X) == ssa.Value(prm) {
					nilTested = true
				}
			}
			construct := "map-param " + prm.Name()
			if !nilTested {
				c.ok(c.Name(f), construct, c.FnPos(f), "the map parameter is not tested for nil")
				continue
			}
			// non-empty established: len(prm) != 0 / > 0
			nonEmpty := edgesWhere(f, func(a Atom, holds bool) bool {
				var lenCall *ssa.Call
				var k *ssa.Const
				var op token.Token
				switch a.Kind {
				case "const":
					if cl, _ := callOf(a.X); cl != nil {
						lenCall, k, op = cl, a.C, token.EQL
					}
				case "cmp":
					if cl, _ := callOf(a.X); cl != nil {
						if kc, ok := a.Y.(*ssa.Const); ok {
							lenCall, k, op = cl, kc, a.Op
						}
					}
				}
				if lenCall == nil || k == nil || calleeFullName(&lenCall.Call) != "builtin len" || len(lenCall.Call.Args) != 1 || strip(lenCall.Call.Args[0]) != ssa.Value(prm) {
					return false
				}
				if k.Value == nil || k.Value.Kind() != constant.Int {
					return false
				}
				kv, _ := constant.Int64Val(k.Value)
				switch op {
				case token.EQL:
					return !holds && kv == 0
				case token.NEQ:
					return holds && kv == 0
				case token.GTR:
					return holds && kv >= 0
				case token.GEQ:
					return holds && kv >= 1
				case token.LEQ:
					return !holds && kv >= 0
				case token.LSS:
					return !holds && kv >= 1
				}
				return false
			})
			bad := ""
			for _, r := range returnsOf(f) {
				v := returnedValue(r, 0)
				if isNilConst(v) {
					continue
				}
				if len(nonEmpty) == 0 || !mustPassEdges(f, r.Block(), nonEmpty) {
					bad = c.Pos(r.Pos())
				}
			}
			c.check(bad == "", c.Name(f), construct, c.FnPos(f), "every non-nil slice is returned behind len("+prm.Name()+") != 0",
				fmt.Sprintf("%s is tested for nil, and the return at %s can hand back a non-nil (possibly empty) slice for an empty non-nil map: a nil set and an empty one come out as nil and [] - JSON null and [] - and replay leaves empty sets where compaction leaves none", prm.Name(), bad))
		}
	}
	if n == 0 {
		c.ok("<module>", "set-to-slice helpers", "-", "no function with a map parameter and a slice result")
	}
}
