package main

// WR8: an error while reading the log is an error of the command, not the end of the log.

import (
	"fmt"
	"go/token"

	"golang.org/x/tools/go/ssa"
)

func init() {
	register(&Rule{ID: "WR8", Min: 1, Run: ruleWR8,
		Doc: "log-read-errors-propagate: in the log reader (readEvents, its closures and private helpers) every call that reads - (*bufio.Reader).Read*, (*os.File).Read*, io.ReadAll/ReadFull/Copy, os.ReadFile, and (*bufio.Scanner).Err, which is where a Scanner reports its read error - has its error looked at, and from the call no return that can report success is reachable except across an edge on which that error is nil or is io.EOF; a loop over (*bufio.Scanner).Scan must be followed by that scanner's Err on every path to a success return. A reader that takes any read error for the end of the log hands a prefix of the history to the command as if it were all of it: a claimer under the lock then sees an already claimed task as ready"})
}

var readCallNames = map[string]bool{
	"(*bufio.Reader).ReadBytes": true, "(*bufio.Reader).ReadString": true, "(*bufio.Reader).ReadLine": true,
	"(*bufio.Reader).ReadSlice": true, "(*bufio.Reader).Read": true, "(*bufio.Reader).ReadByte": true,
	"(*bufio.Reader).ReadRune": true, "(*bufio.Reader).Peek": true, "(*bufio.Reader).Discard": true,
	"(*bufio.Reader).WriteTo": true, "(*os.File).Read": true, "(*os.File).ReadAt": true, "(*os.File).ReadFrom": true,
	"io.ReadAll": true, "io.ReadFull": true, "io.ReadAtLeast": true, "io.Copy": true, "io.CopyN": true, "io.CopyBuffer": true,
	"os.ReadFile": true, "(*bufio.Scanner).Err": true,
}

func ruleWR8(c *Ctx) {
	re := c.anchor("readEvents")
	if re == nil {
		return
	}
	unit := append([]*ssa.Function{}, c.unitOf(re)...)
	seen := map[*ssa.Function]bool{}
	var fns []*ssa.Function
	for _, f := range append([]*ssa.Function{re}, unit...) {
		for _, g := range append([]*ssa.Function{f}, Closures(f)...) {
			if !seen[g] && g.Blocks != nil {
				seen[g] = true
				fns = append(fns, g)
			}
		}
	}
	n := 0
	for _, f := range fns {
		cnt := map[string]int{}
		var scans []ssa.CallInstruction
		var errCalls []*ssa.Call
		for _, call := range callsIn(f) {
			name := calleeFullName(call.Common())
			if name == "(*bufio.Scanner).Scan" {
				scans = append(scans, call)
			}
			if !readCallNames[name] {
				continue
			}
			cnt[name]++
			n++
			construct := fmt.Sprintf("read %s#%d", name, cnt[name])
			pos := c.Pos(call.Pos())
			cv, ok := call.(*ssa.Call)
			if !ok {
				c.bad(c.Name(f), construct, pos, "the read is deferred/spawned: its error is lost")
				continue
			}
			if name == "(*bufio.Scanner).Err" {
				errCalls = append(errCalls, cv)
			}
			idx := errorResultIndex(call)
			ev := errValueOf(cv, idx)
			if idx < 0 || ev == nil {
				c.bad(c.Name(f), construct, pos, "the error result of the read is discarded: a failed read is taken for the end of the log")
				continue
			}
			okP, why := c.readErrorPropagates(f, cv, ev)
			c.check(okP, c.Name(f), construct, pos, why, "a read error is not reported: "+why+" - the command goes on with the prefix of the log it happened to get")
		}
		// Scanner loops: Err() consulted before any success
		for i, sc := range scans {
			construct := fmt.Sprintf("scan-loop#%d", i+1)
			recv := sc.Common().Args[0]
			var blocks = map[*ssa.BasicBlock]bool{}
			for _, ec := range errCalls {
				if resolve(ec.Call.Args[0]) == resolve(recv) || c.canon(ec.Call.Args[0]) == c.canon(recv) {
					blocks[ec.Block()] = true
				}
			}
			n++
			if len(blocks) == 0 {
				c.bad(c.Name(f), construct, c.Pos(sc.Pos()), "the scanner's Err() is never consulted: a read error ends the loop like the end of the file does")
				continue
			}
			region := reach(sc.Block(), nil, blocks)
			bad := ""
			for _, r := range returnsOf(f) {
				if !region[r.Block()] || blocks[r.Block()] || c.definitelyFails(f, r) || r.Block().Comment == "recover" {
					continue
				}
				bad = c.Pos(r.Pos())
			}
			c.check(bad == "", c.Name(f), construct, c.Pos(sc.Pos()), "every success return after the scan loop lies behind the scanner's Err()",
				"the return at "+bad+" can report success without the scanner's Err() having been consulted")
		}
	}
	if n == 0 {
		c.bad(c.Name(re), "reads", c.FnPos(re), "no read call recognised in the log reader")
	}
}

// readErrorPropagates: from the read, no return that can report success is reachable except across an edge on which the
// error is nil, or is io.EOF.
func (c *Ctx) readErrorPropagates(f *ssa.Function, cv *ssa.Call, ev ssa.Value) (bool, string) {
	same := func(x ssa.Value) bool { x = strip(x); return x == ev || holdsValue(x, ev) }
	pass := edgesWhere(f, func(a Atom, holds bool) bool {
		if len(a.Env) > 0 {
			return false
		}
		switch a.Kind {
		case "nil":
			return holds && same(a.X)
		case "bool":
			// errors.Is(err, io.EOF)
			if cl, _ := callOf(a.X); cl != nil && calleeFullName(&cl.Call) == "errors.Is" && len(cl.Call.Args) == 2 {
				return holds && same(cl.Call.Args[0]) && isGlobalLoad(cl.Call.Args[1], "EOF")
			}
		default:
			// err == io.EOF
			if a.Y != nil && (a.Op == token.EQL || a.Op == token.NEQ) {
				if same(a.X) && isGlobalLoad(a.Y, "EOF") || same(a.Y) && isGlobalLoad(a.X, "EOF") {
					return holds == (a.Op == token.EQL)
				}
			}
		}
		return false
	})
	if len(pass) == 0 {
		// not tested at all: fine only if the error itself is what every reachable return hands back
		for _, r := range returnsOf(f) {
			if !canReachInstr(cv, r) || len(r.Results) == 0 {
				continue
			}
			v := returnedValue(r, len(r.Results)-1)
			if same(v) || c.definitelyFails(f, r) {
				continue
			}
			return false, "the error is never compared with nil or io.EOF and the return at " + c.Pos(r.Pos()) + " does not hand it back"
		}
		return true, "the error is returned as it is"
	}
	region := reach(cv.Block(), pass, nil)
	for _, r := range returnsOf(f) {
		if !region[r.Block()] || r.Block().Comment == "recover" || len(r.Results) == 0 {
			continue
		}
		if r.Block() == cv.Block() && instrIndex(r) < instrIndex(cv) && !reachesSelf(cv.Block()) {
			continue
		}
		v := returnedValue(r, len(r.Results)-1)
		if same(v) || c.definitelyFails(f, r) {
			continue
		}
		return false, "the return at " + c.Pos(r.Pos()) + " can report success although the read failed (reached without crossing err == nil or err == io.EOF)"
	}
	return true, "success is only reachable across err == nil or err == io.EOF"
}
