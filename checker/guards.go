package main

// Helper transparency for guards (one of the two halves of "virtual inlining"; the other is
// emission lifting in events.go): the outcome of a call to a module helper, tested at a branch,
// implies the branch outcomes every matching return of the helper has passed. Those implied
// atoms are reported as additional facts on the same CFG edge, expressed over the helper's
// values with the helper's parameters bound to the call's arguments (Atom.Env).

import (
	"fmt"
	"go/constant"
	"go/token"
	"go/types"
	"sort"
	"strings"

	"golang.org/x/tools/go/ssa"
)

var curProg *Prog

const helperDepth = 3

// branchFacts enumerates, for every If of f, its out-edges with the directly tested atom and the atoms
// implied through helper outcomes.
func branchFacts(f *ssa.Function) []branchFact {
	curEnv = nil
	p := curProg
	if p == nil {
		return directFacts(f)
	}
	if p.factMemo == nil {
		p.factMemo = map[*ssa.Function][]branchFact{}
	}
	if m, ok := p.factMemo[f]; ok {
		return m
	}
	out := expandFacts(p, f, helperDepth, map[*ssa.Function]bool{f: true})
	p.factMemo[f] = out
	return out
}

func expandFacts(p *Prog, f *ssa.Function, depth int, onStack map[*ssa.Function]bool) []branchFact {
	var out []branchFact
	for _, bf := range directFacts(f) {
		out = append(out, bf)
		// membership in a constant set (`_, ok := terminalStates[s]`): the equalities / inequalities it stands for
		if key, keys, isSet := constSetLookup(p, bf.A); isSet {
			alts := setMembershipAlts(key, bf.A.Env, keys, bf.Holds)
			if len(alts) == 1 {
				for _, fa := range alts[0] {
					out = append(out, branchFact{E: bf.E, A: fa.A, Holds: fa.Holds, If: bf.If, Derived: true})
				}
			} else {
				out[len(out)-1].Alts = alts
			}
			continue
		}
		if depth <= 0 {
			continue
		}
		call, kind := helperOutcome(p, bf.A)
		if call == nil {
			continue
		}
		h := calleeOf(&call.Call)
		if onStack[h] || p.opaque[h] {
			continue
		}
		e := env{}
		for i, prm := range h.Params {
			if i < len(call.Call.Args) {
				e[prm] = call.Call.Args[i]
			}
		}
		onStack[h] = true
		alts := outcomeAlts(p, h, kind, bf.Holds, e, depth-1, onStack)
		delete(onStack, h)
		if len(alts) == 0 {
			continue
		}
		if len(alts) == 1 {
			for _, fa := range alts[0] {
				out = append(out, branchFact{E: bf.E, A: fa.A, Holds: fa.Holds, If: bf.If, Derived: true, Via: h})
			}
			continue
		}
		// several alternatives: facts common to all are implied; the alternatives themselves are kept for disjunction queries
		out[len(out)-1].Alts = alts
		common := map[string]factAtom{}
		for i, alt := range alts {
			cur := map[string]factAtom{}
			for _, fa := range alt {
				cur[factKey(p, fa)] = fa
			}
			if i == 0 {
				common = cur
				continue
			}
			for k := range common {
				if _, ok := cur[k]; !ok {
					delete(common, k)
				}
			}
		}
		for _, fa := range common {
			out = append(out, branchFact{E: bf.E, A: fa.A, Holds: fa.Holds, If: bf.If, Derived: true, Via: h})
		}
	}
	return out
}

func factKey(p *Prog, fa factAtom) string {
	k := fa.A.Kind + "|" + p.canonE(fa.A.X, fa.A.Env)
	if fa.A.C != nil {
		k += "|" + fa.A.C.String()
	}
	if fa.A.Y != nil {
		k += "|" + fa.A.Op.String() + "|" + p.canonE(fa.A.Y, fa.A.Env)
	}
	if fa.Holds {
		return k + "|T"
	}
	return k + "|F"
}

// helperOutcome: the atom tests the result of a call to a module helper.
// kind "bool": the helper's bool result; "err": the helper's error result (atom nil).
func helperOutcome(p *Prog, a Atom) (*ssa.Call, string) {
	if len(a.Env) > 0 {
		return nil, "" // already inside a helper: nested expansion is done by the recursive call
	}
	switch a.Kind {
	case "bool":
		cl, idx := callOf(a.X)
		if cl == nil {
			return nil, ""
		}
		h := calleeOf(&cl.Call)
		if h == nil || !p.InModule(h) || h.Blocks == nil {
			return nil, ""
		}
		res := h.Signature.Results()
		if idx < 0 && res.Len() == 1 && res.At(0).Type().String() == "bool" {
			return cl, "bool"
		}
		// one bool component of a multi-result helper: (task, ok) / (data, ok, err)
		if idx >= 0 && idx < res.Len() && res.Len() > 1 && res.At(idx).Type().String() == "bool" {
			return cl, fmt.Sprintf("bool@%d", idx)
		}
	case "nil":
		cl, idx := callOf(a.X)
		if cl == nil {
			return nil, ""
		}
		h := calleeOf(&cl.Call)
		if h == nil || !p.InModule(h) || h.Blocks == nil {
			return nil, ""
		}
		res := h.Signature.Results()
		last := res.Len() - 1
		if last < 0 || res.At(last).Type().String() != "error" {
			return nil, ""
		}
		if (idx < 0 && res.Len() == 1) || idx == last {
			return cl, "err"
		}
	}
	return nil, ""
}

// outcomeAlts: for each return of h matching the outcome (bool result == holds / error result nil == holds),
// the atoms every path to that return has passed, with h's parameters bound by e.
func outcomeAlts(p *Prog, h *ssa.Function, kind string, holds bool, e env, depth int, onStack map[*ssa.Function]bool) [][]factAtom {
	resIdx := -1
	if strings.HasPrefix(kind, "bool@") {
		fmt.Sscanf(kind, "bool@%d", &resIdx)
		kind = "bool"
	}
	facts := expandFacts(p, h, depth, onStack)
	withEnv := func(a Atom) Atom {
		ne := env{}
		for k, v := range e {
			ne[k] = v
		}
		for k, v := range a.Env {
			ne[k] = v
		}
		a.Env = ne
		return a
	}
	collect := func(blk *ssa.BasicBlock, extraFrom *ssa.BasicBlock) []factAtom {
		var out []factAtom
		for _, bf := range facts {
			if len(bf.Alts) > 0 && !bf.Derived {
				// the direct atom of a disjunctive branch is still a fact about the call result itself
			}
			if extraFrom != nil && bf.E.From == extraFrom && bf.E.To() == blk {
				out = append(out, factAtom{withEnv(bf.A), bf.Holds})
				continue
			}
			target := blk
			if extraFrom != nil {
				target = extraFrom
			}
			if mustPassEdges(h, target, map[edge]bool{bf.E: true}) {
				out = append(out, factAtom{withEnv(bf.A), bf.Holds})
			}
		}
		return out
	}
	var alts [][]factAtom
	for _, r := range returnsOf(h) {
		if r.Block().Comment == "recover" || len(r.Results) == 0 {
			continue
		}
		idx := len(r.Results) - 1
		if resIdx >= 0 {
			if resIdx >= len(r.Results) {
				return nil
			}
			idx = resIdx
		}
		blk := r.Block()
		matches := func(v ssa.Value) (bool, bool) { // (decidable, matches)
			switch kind {
			case "bool":
				b, ok := constBool(v)
				if !ok {
					return false, false
				}
				return true, b == holds
			default:
				if isNilConst(v) {
					return true, holds
				}
				// returned on the branch where it was tested non-nil: a failure
				sv := strip(v)
				tested := map[edge]bool{}
				for _, bf := range directFacts(h) {
					if bf.A.Kind == "nil" && !bf.Holds && strip(bf.A.X) == sv {
						tested[bf.E] = true
					}
				}
				if len(tested) > 0 && mustPassEdges(h, blk, tested) {
					return true, !holds
				}
				// a non-constant error value: treated as "may be nil or not": matches the failing outcome only
				// when it is definitely an error (fresh error or tested non-nil)
				if cl, _ := callOf(v); cl != nil {
					n := calleeFullName(&cl.Call)
					if n == "errors.New" || n == "fmt.Errorf" {
						return true, !holds
					}
					if h2 := calleeOf(&cl.Call); h2 != nil && p.InModule(h2) && alwaysFails(h2, 0) {
						return true, !holds
					}
				}
				return false, false
			}
		}
		rv := r.Results[idx]
		ph, isPhi := rv.(*ssa.Phi)
		if isPhi && ph.Block() != blk {
			isPhi = false
		}
		if !isPhi {
			rv = returnedValue(r, idx)
		}
		// a returned condition value: the outcome is that condition (plus the path facts)
		condAlts := func(v ssa.Value, base []factAtom) [][]factAtom {
			if kind != "bool" {
				// `return g(...)`: the helper succeeds exactly when g does
				cl, idx := callOf(v)
				if cl == nil {
					return nil
				}
				res := cl.Call.Signature().Results()
				if !(idx < 0 && res.Len() == 1 || idx == res.Len()-1) {
					return nil
				}
				a := Atom{Kind: "nil", X: v}
				fa := factAtom{withEnv(a), holds}
				out := [][]factAtom{append(append([]factAtom{}, base...), fa)}
				if h2 := calleeOf(&cl.Call); h2 != nil && p.InModule(h2) && h2.Blocks != nil && depth > 0 && !onStack[h2] && !p.opaque[h2] {
					e2 := env{}
					for k2, v2 := range e {
						e2[k2] = v2
					}
					for i, prm := range h2.Params {
						if i < len(cl.Call.Args) {
							e2[prm] = cl.Call.Args[i]
						}
					}
					onStack[h2] = true
					inner := outcomeAlts(p, h2, "err", holds, e2, depth-1, onStack)
					delete(onStack, h2)
					if len(inner) > 0 {
						out = nil
						for _, in := range inner {
							out = append(out, append(append(append([]factAtom{}, base...), fa), in...))
						}
					}
				}
				return out
			}
			a, pos := decompose(v)
			if a.Kind == "bool" {
				if _, isParam := a.X.(*ssa.Parameter); !isParam {
					if cl, _ := callOf(a.X); cl == nil {
						_, isField := a.X.(*ssa.UnOp)
						isCommaOk := false
						if ex, ok := a.X.(*ssa.Extract); ok {
							_, isCommaOk = ex.Tuple.(*ssa.Lookup)
						}
						if !isField && !isCommaOk {
							return nil
						}
					}
				}
			}
			fa := factAtom{withEnv(a), holds == pos}
			out := [][]factAtom{append(append([]factAtom{}, base...), fa)}
			// `return ok` of a lookup in a constant set: the outcome says which constants the key equals / differs from
			if key, keys, isSet := constSetLookup(p, a); isSet {
				out = nil
				for _, alt := range setMembershipAlts(key, withEnv(a).Env, keys, holds == pos) {
					out = append(out, append(append([]factAtom{}, base...), alt...))
				}
				return out
			}
			// a returned helper call: its own outcome alternatives
			if cl, k := helperOutcome(p, a); cl != nil && depth > 0 && !onStack[calleeOf(&cl.Call)] && !p.opaque[calleeOf(&cl.Call)] {
				h2 := calleeOf(&cl.Call)
				e2 := env{}
				for k2, v2 := range e {
					e2[k2] = v2
				}
				for i, prm := range h2.Params {
					if i < len(cl.Call.Args) {
						e2[prm] = cl.Call.Args[i]
					}
				}
				onStack[h2] = true
				inner := outcomeAlts(p, h2, k, holds == pos, e2, depth-1, onStack)
				delete(onStack, h2)
				if len(inner) > 0 {
					out = nil
					for _, in := range inner {
						out = append(out, append(append(append([]factAtom{}, base...), fa), in...))
					}
				}
			}
			return out
		}
		if len(blk.Preds) > 1 {
			for i, pred := range blk.Preds {
				v := rv
				if isPhi {
					v = ph.Edges[i]
				}
				dec, m := matches(v)
				if !dec {
					if ca := condAlts(v, collect(blk, pred)); ca != nil {
						alts = append(alts, ca...)
						continue
					}
					if kind == "err" && holds {
						continue // unknown error value: not a success alternative we can characterise
					}
					return nil // undecidable return: no summary
				}
				if m {
					alts = append(alts, collect(blk, pred))
				}
			}
			continue
		}
		dec, m := matches(rv)
		if !dec {
			if ca := condAlts(rv, collect(blk, nil)); ca != nil {
				alts = append(alts, ca...)
				continue
			}
			if kind == "err" {
				// `return f(...)` tail call: outcome depends on the callee; no summary for success, ignore for failure
				if holds {
					return nil
				}
				continue
			}
			return nil
		}
		if m {
			alts = append(alts, collect(blk, nil))
		}
	}
	return alts
}

// constSetLookup: the atom tests membership of a value in a package-level set with constant keys (`_, ok :=
// terminalStates[s]`, or `closed[s]` for a map[string]bool whose values are all true): the key tested and the set.
func constSetLookup(p *Prog, a Atom) (ssa.Value, []string, bool) {
	if a.Kind != "bool" || p == nil {
		return nil, nil, false
	}
	var lk *ssa.Lookup
	switch x := strip(a.X).(type) {
	case *ssa.Extract:
		if l, ok := x.Tuple.(*ssa.Lookup); ok && x.Index == 1 && l.CommaOk {
			lk = l
		}
	case *ssa.Lookup:
		if !x.CommaOk {
			if mt, ok := x.X.Type().Underlying().(*types.Map); ok && mt.Elem().String() == "bool" {
				lk = x
			}
		}
	}
	if lk == nil {
		return nil, nil, false
	}
	keys, ok := p.constSetOfLookup(lk)
	if !ok {
		return nil, nil, false
	}
	return lk.Index, keys, true
}

// constSetOfLookup: the keys of the package-level constant set the lookup reads, if it reads one.
func (p *Prog) constSetOfLookup(lk *ssa.Lookup) ([]string, bool) {
	ld, ok := lk.X.(*ssa.UnOp)
	if !ok || ld.Op != token.MUL {
		return nil, false
	}
	g, ok := ld.X.(*ssa.Global)
	if !ok || g.Pkg != p.Ergo {
		return nil, false
	}
	return p.constSetOf(g)
}

// constSetOf: the constant string keys of a package-level map literal that nothing but the package initialiser writes.
func (p *Prog) constSetOf(g *ssa.Global) ([]string, bool) {
	if p.constSets == nil {
		p.constSets = map[*ssa.Global][]string{}
		p.constSetsBad = map[*ssa.Global]bool{}
	}
	if ks, ok := p.constSets[g]; ok {
		return ks, true
	}
	if p.constSetsBad[g] {
		return nil, false
	}
	fail := func() ([]string, bool) { p.constSetsBad[g] = true; return nil, false }
	mt, isMap := g.Type().Underlying().(*types.Pointer).Elem().Underlying().(*types.Map)
	if !isMap || mt.Key().Underlying().String() != "string" {
		return fail()
	}
	init := g.Pkg.Func("init")
	if init == nil {
		return fail()
	}
	var mm ssa.Value
	for _, b := range init.Blocks {
		for _, in := range b.Instrs {
			if st, ok := in.(*ssa.Store); ok && st.Addr == ssa.Value(g) {
				if mm != nil {
					return fail()
				}
				mm = st.Val
			}
		}
	}
	mk, ok := mm.(*ssa.MakeMap)
	if !ok || mk.Referrers() == nil {
		return fail()
	}
	var keys []string
	for _, r := range *mk.Referrers() {
		switch x := r.(type) {
		case *ssa.MapUpdate:
			k, isC := constString(x.Key)
			if !isC {
				return fail()
			}
			if mt.Elem().String() == "bool" {
				if bv, isB := constBool(x.Value); !isB || !bv {
					return fail()
				}
			}
			keys = append(keys, k)
		case *ssa.Store, *ssa.DebugRef:
		default:
			return fail()
		}
	}
	// nobody else writes the map
	for _, f := range p.Fns {
		if f == init {
			continue
		}
		for _, b := range f.Blocks {
			for _, in := range b.Instrs {
				switch x := in.(type) {
				case *ssa.MapUpdate:
					if ld, ok := x.Map.(*ssa.UnOp); ok && ld.X == ssa.Value(g) {
						return fail()
					}
				case *ssa.Store:
					if x.Addr == ssa.Value(g) {
						return fail()
					}
				case ssa.CallInstruction:
					if calleeFullName(x.Common()) == "builtin delete" && len(x.Common().Args) > 0 {
						if ld, ok := x.Common().Args[0].(*ssa.UnOp); ok && ld.X == ssa.Value(g) {
							return fail()
						}
					}
				}
			}
		}
	}
	sort.Strings(keys)
	p.constSets[g] = keys
	return keys, len(keys) > 0
}

// setMembershipAlts: what a membership test in a constant set says about the key: on the positive outcome one of
// key == k_i, on the negative outcome all of key != k_i.
func setMembershipAlts(key ssa.Value, e env, keys []string, holds bool) [][]factAtom {
	mk := func(k string, h bool) factAtom {
		return factAtom{Atom{Kind: "const", X: key, C: ssa.NewConst(constant.MakeString(k), types.Typ[types.String]), Env: e}, h}
	}
	if holds {
		var alts [][]factAtom
		for _, k := range keys {
			alts = append(alts, []factAtom{mk(k, true)})
		}
		return alts
	}
	var all []factAtom
	for _, k := range keys {
		all = append(all, mk(k, false))
	}
	return [][]factAtom{all}
}

// alwaysFails: every return of h yields a freshly built (non-nil) error.
// typedErrorValue: an error interface built from a value that cannot be nil: the address of a literal (&usageError{...})
// or a struct value (validationError{...}).
func typedErrorValue(v ssa.Value) bool {
	mi, ok := v.(*ssa.MakeInterface)
	if !ok {
		return false
	}
	switch x := mi.X.(type) {
	case *ssa.Alloc:
		return true
	case *ssa.UnOp:
		// a struct value loaded from a literal
		if _, isStruct := x.Type().Underlying().(*types.Struct); isStruct {
			return true
		}
	default:
		if _, isStruct := mi.X.Type().Underlying().(*types.Struct); isStruct {
			return true
		}
	}
	return false
}

func alwaysFails(h *ssa.Function, d int) bool {
	if h.Blocks == nil || d > 2 {
		return false
	}
	res := h.Signature.Results()
	if res.Len() == 0 || res.At(res.Len()-1).Type().String() != "error" {
		return false
	}
	n := 0
	for _, r := range returnsOf(h) {
		if len(r.Results) == 0 {
			return false
		}
		v := returnedValue(r, len(r.Results)-1)
		if typedErrorValue(v) {
			n++
			continue
		}
		// `if err := f(); err != nil { return err }`: the value was found non-nil on the way to this return
		sv := strip(v)
		tested := edgesWhere(h, func(a Atom, holds bool) bool {
			return a.Kind == "nil" && !holds && len(a.Env) == 0 && strip(a.X) == sv
		})
		if len(tested) > 0 && mustPassEdges(h, r.Block(), tested) {
			n++
			continue
		}
		cl, _ := callOf(v)
		if cl == nil {
			return false
		}
		nm := calleeFullName(&cl.Call)
		if nm == "errors.New" || nm == "fmt.Errorf" {
			n++
			continue
		}
		if h2 := calleeOf(&cl.Call); h2 != nil && h2 != h && alwaysFails(h2, d+1) {
			n++
			continue
		}
		return false
	}
	return n > 0
}

// unitOf: anchor, its closures, and the module functions all of whose static callers already belong to the unit
// (private helpers split out of the anchor). This is the code that implements the anchor's role.
func (c *Ctx) unitOf(anchor *ssa.Function) []*ssa.Function {
	if anchor == nil {
		return nil
	}
	in := map[*ssa.Function]bool{anchor: true}
	for _, cl := range Closures(anchor) {
		in[cl] = true
	}
	for changed := true; changed; {
		changed = false
		for _, fn := range c.Fns {
			if in[fn] || fn.Parent() != nil || c.opaqueHelper(fn) {
				continue
			}
			sites := c.callers[fn]
			if len(sites) == 0 {
				continue
			}
			all := true
			for _, cs := range sites {
				if !in[cs.Fn] {
					all = false
				}
			}
			// functions referenced as values elsewhere are not private
			if all {
				in[fn] = true
				for _, cl := range Closures(fn) {
					in[cl] = true
				}
				changed = true
			}
		}
	}
	var out []*ssa.Function
	for _, fn := range c.Fns {
		if in[fn] {
			out = append(out, fn)
		}
	}
	return out
}

func (c *Ctx) inUnit(fn, anchor *ssa.Function) bool {
	for _, g := range c.unitOf(anchor) {
		if g == fn {
			return true
		}
	}
	return false
}
