package main

// ergocheck: repository-specific static analyser for sandover/ergo.
// It never runs ergo; it loads /repo's current working tree, builds SSA and
// evaluates the rules mapped to one property (see /verif/DESIGN.md).

import (
	"encoding/json"
	"flag"
	"fmt"
	"golang.org/x/tools/go/ssa"
	"os"
	"path/filepath"
	"sort"
	"strings"
	"time"
)

type Verdict string

const (
	Discharged Verdict = "discharged"
	Violated   Verdict = "violated"
	Undecided  Verdict = "undecided"
)

// Obligation is one decided instance of a rule at a construct.
type Obligation struct {
	Rule    string   `json:"rule"`
	Key     string   `json:"key"` // rule|function|construct  (never a line number)
	Pos     string   `json:"pos"` // file:line, human-readable only
	Verdict Verdict  `json:"verdict"`
	Why     string   `json:"why"`
	Path    []string `json:"path,omitempty"` // witness: call-graph or CFG path
	Config  string   `json:"config,omitempty"`
}

// Rule is a repository-specific check.
type Rule struct {
	ID   string
	Doc  string // the rule statement, quoted into evidence
	Run  func(c *Ctx)
	Min  int // minimum number of obligations (non-vacuity floor)
	Note string
}

// Ctx is the per-rule evaluation context.
type Ctx struct {
	*Prog
	loaderMemo  map[*ssa.Function]string
	F           *Facts
	rule        *Rule
	obs         []Obligation
	emMemo      []*Emission
	replayMemo  *replayModel
	csvFlagMemo map[*ssa.Global]string
	mapUpd      map[ssa.Value][]*ssa.MapUpdate
}

func (c *Ctx) add(v Verdict, fn, construct, pos, why string, path ...string) {
	key := c.rule.ID + "|" + fn + "|" + construct
	c.obs = append(c.obs, Obligation{Rule: c.rule.ID, Key: key, Pos: pos, Verdict: v, Why: why, Path: path, Config: c.Config.Name})
}

func (c *Ctx) ok(fn, construct, pos, why string) { c.add(Discharged, fn, construct, pos, why) }
func (c *Ctx) bad(fn, construct, pos, why string, path ...string) {
	c.add(Violated, fn, construct, pos, why, path...)
}
func (c *Ctx) unk(fn, construct, pos, why string) { c.add(Undecided, fn, construct, pos, why) }

// check adds discharged or violated depending on cond.
func (c *Ctx) check(cond bool, fn, construct, pos, okWhy, badWhy string) {
	if cond {
		c.ok(fn, construct, pos, okWhy)
	} else {
		c.bad(fn, construct, pos, badWhy)
	}
}

var rules = map[string]*Rule{}

var rolesFile string

func register(r *Rule) {
	if _, dup := rules[r.ID]; dup {
		panic("duplicate rule " + r.ID)
	}
	rules[r.ID] = r
}

// ---------------------------------------------------------------- known findings

type knownFinding struct {
	Property string
	Key      string
	What     string
}

func loadKnown(path string) ([]knownFinding, error) {
	data, err := os.ReadFile(path)
	if err != nil {
		if os.IsNotExist(err) {
			return nil, nil
		}
		return nil, err
	}
	var out []knownFinding
	for _, line := range strings.Split(string(data), "\n") {
		line = strings.TrimSpace(line)
		if line == "" || strings.HasPrefix(line, "#") || strings.HasPrefix(line, "fixed:") {
			continue // a fixed: entry suppresses nothing
		}
		if !strings.HasPrefix(line, "known:") {
			continue
		}
		rest := strings.TrimSpace(strings.TrimPrefix(line, "known:"))
		var kf knownFinding
		parts := strings.SplitN(rest, " :: ", 2)
		for _, f := range strings.Fields(parts[0]) {
			if strings.HasPrefix(f, "property=") {
				kf.Property = strings.TrimPrefix(f, "property=")
			}
		}
		if i := strings.Index(parts[0], "key="); i >= 0 {
			kf.Key = strings.TrimSpace(parts[0][i+4:])
		}
		if len(parts) == 2 {
			kf.What = strings.TrimSpace(parts[1])
		}
		if kf.Key != "" {
			out = append(out, kf)
		}
	}
	return out, nil
}

// ---------------------------------------------------------------- evidence

type evidence struct {
	PropertyID  string         `json:"property_id"`
	Tier        string         `json:"tier"`
	Seed        int            `json:"seed"`
	Level       string         `json:"level"`
	Coverage    map[string]any `json:"coverage"`
	Assumptions []string       `json:"assumptions"`
	WallS       float64        `json:"wall_s"`
	Violations  int            `json:"violations"`
}

func main() {
	// type aliases (type taskState = string) are names for the same type: keep go/types from materialising them as
	// separate Alias nodes, so that every type test and printed signature sees through them
	if !strings.Contains(os.Getenv("GODEBUG"), "gotypesalias") {
		gd := os.Getenv("GODEBUG")
		if gd != "" {
			gd += ","
		}
		os.Setenv("GODEBUG", gd+"gotypesalias=0")
	}
	prop := flag.String("property", "", "property id (C01..C20) or 'all'")
	tier := flag.String("tier", "quick", "quick|thorough")
	repo := flag.String("repo", "/repo", "tree to analyse")
	out := flag.String("out", "/verif", "directory holding evidence/ and KNOWN_FINDINGS.txt")
	explain := flag.String("explain", "", "re-evaluate the obligation recorded in this violation file")
	ruleFlag := flag.String("rules", "", "debug: comma-separated rule ids to run instead of a property's")
	dump := flag.Bool("dump", false, "debug: print every obligation")
	mutDir := flag.String("mutants", "", "run the mutant catalogue in this directory against -repo (development / thorough tier)")
	dumpRolesTo := flag.String("dumproles", "", "development: write the role fingerprints of -repo's functions to this file")
	listRules := flag.Bool("listrules", false, "print every rule id with its statement (the text quoted into evidence) and exit")
	flag.Parse()
	rolesFile = filepath.Join(*out, "checker", "roles.json")
	if *listRules {
		var ids []string
		for id := range rules {
			ids = append(ids, id)
		}
		sort.Strings(ids)
		for _, id := range ids {
			fmt.Printf("%s\t%s\n", id, rules[id].Doc)
		}
		return
	}
	if os.Getenv("ERGO_DUMP_WRAPPERS") != "" {
		prog, err := loadProgram(*repo, quickConfigs[0])
		if err == nil {
			for w, impl := range prog.implOf {
				fmt.Println(w.String(), "->", impl.String())
			}
		}
		return
	}
	if os.Getenv("ERGO_DUMP_STATESETS") != "" {
		prog, err := loadProgram(*repo, quickConfigs[0])
		if err == nil {
			curProg = prog
			facts, _ := computeFacts(prog)
			cx := &Ctx{Prog: prog, F: facts}
			for f, set := range cx.stateConstSets() {
				fmt.Println(prog.Name(f), setString(set))
			}
		}
		return
	}
	if *dumpRolesTo != "" {
		prog, err := loadProgramRaw(*repo, quickConfigs[0])
		if err != nil {
			fmt.Fprintln(os.Stderr, err)
			os.Exit(2)
		}
		if err := dumpRoles(prog, *dumpRolesTo); err != nil {
			fmt.Fprintln(os.Stderr, err)
			os.Exit(2)
		}
		return
	}

	if *mutDir != "" {
		os.Exit(mutantsMain(*mutDir, *repo, *prop))
	}

	if *explain != "" {
		os.Exit(runExplain(*explain, *repo, *out))
	}
	if *prop == "" && *ruleFlag == "" {
		fmt.Fprintln(os.Stderr, "usage: ergocheck -property <id|all> [-tier quick|thorough]")
		os.Exit(2)
	}
	abs, err := filepath.Abs(*repo)
	if err == nil {
		*repo = abs
	}
	code := 0
	var props []string
	if *prop == "all" {
		for id := range propertyRules {
			props = append(props, id)
		}
		sort.Strings(props)
	} else if *prop != "" {
		if _, ok := propertyRules[*prop]; !ok {
			fmt.Fprintf(os.Stderr, "ergocheck: unknown property %q\n", *prop)
			os.Exit(2)
		}
		props = []string{*prop}
	}
	start := time.Now()
	run, rc := analyse(*repo, *tier, props, *ruleFlag)
	if rc != 0 {
		os.Exit(rc)
	}
	if *ruleFlag != "" {
		for _, o := range run.all {
			if *dump || o.Verdict != Discharged {
				fmt.Printf("%-10s %-11s %s  [%s] %s\n", o.Rule, o.Verdict, o.Key, o.Pos, o.Why)
			}
		}
		if notes, _ := run.progInfo["renamed_roles_resolved_by_fingerprint"].([]string); len(notes) > 0 {
			fmt.Printf("roles: %s\n", strings.Join(notes, "; "))
		}
		fmt.Printf("rules=%s obligations=%d wall=%.1fs\n", *ruleFlag, len(run.all), time.Since(start).Seconds())
		return
	}
	known, err := loadKnown(filepath.Join(*out, "KNOWN_FINDINGS.txt"))
	if err != nil {
		fmt.Fprintln(os.Stderr, "ergocheck: cannot read known findings:", err)
		os.Exit(2)
	}
	for _, id := range props {
		var mut []mutResult
		if *tier == "thorough" && os.Getenv("ERGOCHECK_NO_MUTANTS") == "" {
			only := map[string]bool{}
			for _, r := range rulesOf(id) {
				only[r] = true
			}
			mut, _ = runMutants(filepath.Join(*out, "mutants"), *repo, only, id)
		}
		run.mutants = mut
		if report(run, id, *tier, *out, known, *dump, time.Since(start).Seconds()) {
			code = 1
		}
	}
	os.Exit(code)
}

type runResult struct {
	all      []Obligation
	byRule   map[string][]Obligation
	progInfo map[string]any
	configs  []string
	broken   []string // checker-level failures (positive control did not fire, floor not met)
	mutants  []mutResult
}

// analyse loads the tree under every configuration of the tier and runs the needed rules once.
func analyse(repo, tier string, props []string, ruleList string) (*runResult, int) {
	need := map[string]bool{}
	if ruleList != "" {
		for _, r := range strings.Split(ruleList, ",") {
			if r == "all" {
				for id := range rules {
					need[id] = true
				}
				continue
			}
			if rules[r] == nil {
				fmt.Fprintf(os.Stderr, "ergocheck: unknown rule %q\n", r)
				return nil, 2
			}
			need[r] = true
		}
	}
	for _, id := range props {
		for _, r := range rulesOf(id) {
			if rules[r] == nil {
				fmt.Fprintf(os.Stderr, "ergocheck: property %s names unknown rule %q\n", id, r)
				return nil, 2
			}
			need[r] = true
		}
	}
	var ids []string
	for id := range need {
		ids = append(ids, id)
	}
	sort.Strings(ids)
	cfgs := quickConfigs
	if tier == "thorough" {
		cfgs = thoroughConfigs
	}
	res := &runResult{byRule: map[string][]Obligation{}, progInfo: map[string]any{}}
	for ci, cfg := range cfgs {
		prog, err := loadProgram(repo, cfg)
		if err != nil {
			fmt.Fprintf(os.Stderr, "ergocheck: cannot analyse %s [%s]: %v\n", repo, cfg.Name, err)
			return nil, 2
		}
		curProg = prog
		facts, ferr := computeFacts(prog)
		prog.factMemo = nil
		prog.opaque = map[*ssa.Function]bool{}
		if facts != nil {
			for _, a := range facts.Anchors {
				if a != nil {
					prog.opaque[a] = true
				}
			}
		}
		if ferr != nil {
			fmt.Fprintf(os.Stderr, "ergocheck: fact extraction failed [%s]: %v\n", cfg.Name, ferr)
			// fact failures are analysable outcomes: reported as undecided obligations by the rules
		}
		res.configs = append(res.configs, cfg.Name)
		if ci == 0 {
			res.progInfo["packages"] = len(prog.Pkgs)
			res.progInfo["module_functions"] = len(prog.Fns)
			res.progInfo["call_sites"] = prog.nCalls
			res.progInfo["renamed_roles_resolved_by_fingerprint"] = prog.RoleNotes
			res.progInfo["fact_summary"] = facts.Summary(prog)
		}
		for _, id := range ids {
			r := rules[id]
			c := &Ctx{Prog: prog, F: facts, rule: r}
			func() {
				defer func() {
					if x := recover(); x != nil {
						c.unk("<checker>", "panic", "-", fmt.Sprintf("rule panicked: %v", x))
					}
				}()
				r.Run(c)
			}()
			if len(c.obs) < r.Min {
				c.bad("<rule>", "floor", "-", fmt.Sprintf("rule %s produced %d obligations, floor is %d: the rule lost its subject (vacuous pass refused)", r.ID, len(c.obs), r.Min))
			}
			for _, o := range c.obs {
				if ci > 0 {
					// in later configs only record what differs from config 0 or is not discharged
					if o.Verdict == Discharged {
						res.progInfo["extra_config_discharged"] = toInt(res.progInfo["extra_config_discharged"]) + 1
						continue
					}
				}
				res.all = append(res.all, o)
				res.byRule[id] = append(res.byRule[id], o)
			}
		}
	}
	sort.SliceStable(res.all, func(i, j int) bool { return res.all[i].Key < res.all[j].Key })
	return res, 0
}

func toInt(v any) int {
	if i, ok := v.(int); ok {
		return i
	}
	return 0
}

// ruleRef splits an entry of propertyRules: "OU18" is the whole rule, "OU18:StartDir" only the rule's obligations whose
// key carries the tag (a rule with one instance per option field, of which a property speaks about one).
func ruleRef(s string) (rule, tag string) {
	if i := strings.Index(s, ":"); i >= 0 {
		return s[:i], s[i+1:]
	}
	return s, ""
}

// obligationsOf: the obligations of the run that count for the property.
func obligationsOf(run *runResult, id string) []Obligation {
	var obs []Obligation
	for _, ref := range propertyRules[id] {
		r, tag := ruleRef(ref)
		for _, o := range run.byRule[r] {
			if tag == "" || strings.Contains(o.Key, "|"+tag+"|") || strings.HasSuffix(o.Key, "|"+tag) || strings.Contains(o.Key, "|"+tag+" ") {
				obs = append(obs, o)
			}
		}
	}
	return obs
}

// rulesOf: the rule ids of a property without tags, each once.
func rulesOf(id string) []string {
	var out []string
	seen := map[string]bool{}
	for _, ref := range propertyRules[id] {
		r, _ := ruleRef(ref)
		if !seen[r] {
			seen[r] = true
			out = append(out, r)
		}
	}
	return out
}

// report prints the verdict lines for one property and writes its evidence; returns true on violation.
func report(run *runResult, id, tier, out string, known []knownFinding, dump bool, wall float64) bool {
	obs := obligationsOf(run, id)
	sort.SliceStable(obs, func(i, j int) bool { return obs[i].Key < obs[j].Key })
	isKnown := func(o Obligation) (knownFinding, bool) {
		for _, k := range known {
			if (k.Key == o.Key || (curProg != nil && curProg.aliasKey(k.Key) == o.Key)) && (k.Property == id || k.Property == "" || k.Property == "*") {
				return k, true
			}
		}
		return knownFinding{}, false
	}
	_ = os.MkdirAll(filepath.Join(out, "evidence", "violations"), 0o755)
	// remove stale violation files of this property
	if old, _ := filepath.Glob(filepath.Join(out, "evidence", "violations", id+"-*.json")); old != nil {
		for _, f := range old {
			_ = os.Remove(f)
		}
	}
	nViol, nKnown, nDis := 0, 0, 0
	distinct := map[string]bool{}
	perRule := map[string]map[string]int{}
	var samples []any
	seenKnownLine := map[string]bool{}
	seenViolKey := map[string]bool{}
	for _, o := range obs {
		distinct[o.Key] = true
		if perRule[o.Rule] == nil {
			perRule[o.Rule] = map[string]int{}
		}
		perRule[o.Rule][string(o.Verdict)]++
		if dump {
			fmt.Printf("  %-10s %-11s %s [%s] %s\n", o.Rule, o.Verdict, o.Key, o.Pos, o.Why)
		}
		if o.Verdict == Discharged {
			nDis++
			continue
		}
		if k, ok := isKnown(o); ok {
			nKnown++
			if !seenKnownLine[o.Key] {
				seenKnownLine[o.Key] = true
				what := k.What
				if what == "" {
					what = o.Why
				}
				fmt.Printf("KNOWN-FINDING: property=%s key=%s %s\n", id, o.Key, what)
			}
			continue
		}
		if seenViolKey[o.Key+o.Config] {
			continue
		}
		seenViolKey[o.Key+o.Config] = true
		nViol++
		vf := filepath.Join(out, "evidence", "violations", fmt.Sprintf("%s-%d.json", id, nViol))
		rec := map[string]any{"property": id, "obligation": o, "rule_statement": rules[o.Rule].Doc, "tier": tier}
		data, _ := json.MarshalIndent(rec, "", " ")
		_ = os.WriteFile(vf, data, 0o644)
		fmt.Printf("  %s %s at %s: %s\n", o.Verdict, o.Key, o.Pos, o.Why)
		for _, s := range o.Path {
			fmt.Printf("      via %s\n", s)
		}
		fmt.Printf("VIOLATION property=%s replay=%s\n", id, vf)
	}
	// samples: a few discharged + every non-discharged
	cnt := map[string]int{}
	for _, o := range obs {
		if o.Verdict != Discharged || cnt[o.Rule] < 3 {
			cnt[o.Rule]++
			samples = append(samples, o)
		}
	}
	var ruleDocs []string
	for _, r := range rulesOf(id) {
		ruleDocs = append(ruleDocs, r+": "+rules[r].Doc)
	}
	seed := 0
	fmt.Sscanf(os.Getenv("VERIF_SEED"), "%d", &seed)
	ev := evidence{
		PropertyID: id, Tier: tier, Seed: seed, Level: "other",
		Coverage: map[string]any{
			"explanation": "Static analysis of /repo's current working tree (go/packages type-checked syntax + go/ssa). " +
				"Each rule enumerates the constructs it governs and decides, per construct, a structural necessary condition of the property; " +
				"nothing is executed. " + propertyScope[id] + " Rules applied: " + strings.Join(ruleDocs, " || "),
			"obligations":                  len(obs),
			"discharged":                   nDis,
			"known_findings":               nKnown,
			"violations":                   nViol,
			"evaluations":                  len(obs),
			"distinct_nontrivial":          len(distinct),
			"rule":                         "one evaluation per (rule, function, construct) obligation per build configuration; distinct = distinct obligation keys; an obligation is non-trivial because it is only emitted for a construct the rule governs (call site, emission site, branch, table)",
			"per_rule":                     perRule,
			"rules":                        propertyRules[id],
			"samples":                      samples,
			"checker_cmd":                  fmt.Sprintf("./check %s %s", id, tier),
			"trusted_base":                 []string{"Go type checker", "golang.org/x/tools v0.50.0 go/packages + go/ssa", "flock(2)/O_APPEND/rename(2) semantics of the OS", "encoding/json, bufio, cobra internals"},
			"build_configs":                run.configs,
			"program":                      run.progInfo,
			"exhaustive":                   true,
			"deterministic_no_use_of_seed": true,
		},
		Assumptions: []string{
			"decides structural necessary conditions on the source, not behaviour for all runtime values (see level_note and DESIGN.md section 5 'not decided')",
			"library internals (cobra, encoding/json, bufio, runewidth, x/term) are trusted",
			"cmd/ergo is the only client of internal/ergo",
		},
		WallS: wall, Violations: nViol,
	}
	if run.mutants != nil {
		det, app := 0, 0
		for _, m := range run.mutants {
			if m.Status == "detected" || m.Status == "missed" {
				app++
			}
			if m.Status == "detected" {
				det++
			}
		}
		ev.Coverage["mutant_sensitivity"] = map[string]any{
			"note":       "recorded, never gating: catalogue edits applied to scratch copies of the current tree; a mutant is detected when an obligation key that is discharged (or absent) on the unmodified tree becomes violated/undecided",
			"applicable": app, "detected": det, "catalogue_entries_for_this_property": len(run.mutants), "results": run.mutants,
		}
	}
	data, _ := json.MarshalIndent(ev, "", " ")
	if err := os.WriteFile(filepath.Join(out, "evidence", id+".json"), data, 0o644); err != nil {
		fmt.Fprintln(os.Stderr, "ergocheck: cannot write evidence:", err)
		os.Exit(2)
	}
	fmt.Printf("property=%s tier=%s rules=%s obligations=%d discharged=%d known=%d violations=%d\n",
		id, tier, strings.Join(propertyRules[id], ","), len(obs), nDis, nKnown, nViol)
	return nViol > 0
}

func runExplain(path, repo, out string) int {
	data, err := os.ReadFile(path)
	if err != nil {
		fmt.Fprintln(os.Stderr, "ergocheck:", err)
		return 2
	}
	var rec struct {
		Property   string     `json:"property"`
		Obligation Obligation `json:"obligation"`
		RuleDoc    string     `json:"rule_statement"`
		Tier       string     `json:"tier"`
	}
	if err := json.Unmarshal(data, &rec); err != nil {
		fmt.Fprintln(os.Stderr, "ergocheck:", err)
		return 2
	}
	fmt.Printf("recorded: %s %s at %s\n  rule: %s\n  why: %s\n", rec.Obligation.Verdict, rec.Obligation.Key, rec.Obligation.Pos, rec.RuleDoc, rec.Obligation.Why)
	run, rc := analyse(repo, "quick", nil, rec.Obligation.Rule)
	if rc != 0 {
		return rc
	}
	found := false
	code := 0
	for _, o := range run.all {
		if o.Key == rec.Obligation.Key {
			found = true
			fmt.Printf("current tree: %s at %s: %s\n", o.Verdict, o.Pos, o.Why)
			for _, s := range o.Path {
				fmt.Printf("      via %s\n", s)
			}
			if o.Verdict != Discharged {
				code = 1
			}
		}
	}
	if !found {
		fmt.Println("current tree: the construct named by this key no longer exists (obligation not produced)")
	}
	return code
}
