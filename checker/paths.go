package main

// Path provenance (E3): classification of file path operands into LOG / LOCK / OTHER,
// parameter substitution through static callers, and the derived sets of
// log-mutating and committing functions.

import (
	"fmt"
	"go/constant"
	"go/token"
	"go/types"
	os_ "os"
	"sort"
	"strings"

	"golang.org/x/tools/go/ssa"
)

const (
	classLOG   = "LOG"
	classLOCK  = "LOCK"
	classOTHER = "OTHER"
)

type classSet map[string]bool

func (s classSet) String() string {
	var ks []string
	for k := range s {
		ks = append(ks, k)
	}
	sort.Strings(ks)
	return strings.Join(ks, "+")
}

func isLogName(s string) bool {
	return strings.Contains(s, "plans.jsonl") || strings.Contains(s, "events.jsonl")
}

// pathClass computes the set of provenance classes a path value can have.
func (c *Ctx) pathClass(v ssa.Value) classSet {
	out := classSet{}
	c.pathClassRec(v, out, map[ssa.Value]bool{}, 0)
	if len(out) == 0 {
		out[classOTHER] = true
	}
	return out
}

func (c *Ctx) pathClassRec(v ssa.Value, out classSet, seen map[ssa.Value]bool, d int) {
	if v == nil || d > 24 || seen[v] {
		return
	}
	seen[v] = true
	// a cell with several stores: union over the stores
	if u, ok := strip(v).(*ssa.UnOp); ok && u.Op == token.MUL {
		if cell := cellOf(u.X); cell != nil {
			sts := cellStores(cell)
			if len(sts) > 0 {
				for _, st := range sts {
					c.pathClassRec(st.Val, out, seen, d+1)
				}
				return
			}
		}
	}
	// an element of a slice of paths (for _, p := range []string{eventsPath, lockPath}; created = append(created, p)):
	// the union over everything ever put into that slice
	if u, ok := strip(v).(*ssa.UnOp); ok && u.Op == token.MUL {
		if ia, isIA := u.X.(*ssa.IndexAddr); isIA {
			if _, isSlice := ia.X.Type().Underlying().(*types.Slice); isSlice {
				if elems, ok := sliceElems(ia.X, 0, map[ssa.Value]bool{}); ok && len(elems) > 0 {
					for _, e := range elems {
						c.pathClassRec(e, out, seen, d+1)
					}
					return
				}
			}
		}
	}
	v = resolve(v)
	// a path kept in a field of a store object (l.lockPath, l.path): the union over what is ever stored there
	if _, _, isField := fieldLoad(v); isField {
		if os, ok := fieldOrigins(v, 0); ok && len(os) > 0 {
			for _, o := range os {
				c.pathClassRec(o.V, out, seen, d+1)
			}
			return
		}
	}
	switch x := v.(type) {
	case *ssa.Const:
		if x.Value != nil && x.Value.Kind() == constant.String {
			s := constant.StringVal(x.Value)
			if isLogName(s) {
				out[classLOG] = true
				return
			}
		}
		out[classOTHER] = true
	case *ssa.Call:
		name := calleeFullName(&x.Call)
		if cal := calleeOf(&x.Call); cal != nil && cal == c.F.Chooser {
			out[classLOG] = true
			return
		}
		switch name {
		case "path/filepath.Join":
			// variadic: the args slice is built from an array alloc
			elems := variadicElems(x.Call.Args)
			if len(elems) > 0 {
				if s, ok := constString(elems[len(elems)-1]); ok {
					if s == "lock" {
						out[classLOCK] = true
						return
					}
					if isLogName(s) {
						out[classLOG] = true
						return
					}
				}
				// a path below a LOG/LOCK path keeps no class; below a directory: OTHER,
				// but a join whose first element is itself a log path (path+suffix handled by ADD) stays LOG
				sub := classSet{}
				for _, e := range elems {
					c.pathClassRec(e, sub, seen, d+1)
				}
				if sub[classLOG] {
					out[classLOG] = true
				} else {
					out[classOTHER] = true
				}
				return
			}
			out[classOTHER] = true
		case "path/filepath.Clean", "path/filepath.Abs", "path/filepath.EvalSymlinks":
			if len(x.Call.Args) > 0 {
				c.pathClassRec(x.Call.Args[0], out, seen, d+1)
			}
		default:
			if cal := calleeOf(&x.Call); cal != nil && c.InModule(cal) {
				// a module helper returning a path: union over its returned values
				for _, r := range returnsOf(cal) {
					if len(r.Results) > 0 {
						c.pathClassRec(r.Results[0], out, seen, d+1)
					}
				}
				return
			}
			out[classOTHER] = true
		}
	case *ssa.Extract:
		if call, ok := x.Tuple.(*ssa.Call); ok {
			if cal := calleeOf(&call.Call); cal != nil && c.InModule(cal) {
				for _, r := range returnsOf(cal) {
					if x.Index < len(r.Results) {
						c.pathClassRec(r.Results[x.Index], out, seen, d+1)
					}
				}
				return
			}
		}
		out[classOTHER] = true
	case *ssa.BinOp:
		if x.Op == token.ADD {
			sub := classSet{}
			c.pathClassRec(x.X, sub, seen, d+1)
			c.pathClassRec(x.Y, sub, seen, d+1)
			switch {
			case sub[classLOG]:
				out[classLOG] = true
			case sub[classLOCK]:
				out[classLOCK] = true
			default:
				out[classOTHER] = true
			}
			return
		}
		out[classOTHER] = true
	case *ssa.Phi:
		for _, e := range x.Edges {
			c.pathClassRec(e, out, seen, d+1)
		}
	case *ssa.Parameter:
		args := c.argValues(x.Parent(), paramIndex(x))
		if len(args) == 0 {
			out[classOTHER] = true
			return
		}
		for _, a := range args {
			c.pathClassRec(a, out, seen, d+1)
		}
	case *ssa.FreeVar:
		out[classOTHER] = true
	default:
		out[classOTHER] = true
	}
}

// variadicElems returns the individual values passed to a variadic call (f(a, b...) as built by go/ssa:
// a slice of a fresh array with one store per element), or args themselves otherwise.
func variadicElems(args []ssa.Value) []ssa.Value {
	if len(args) != 1 {
		return args
	}
	sl, ok := args[0].(*ssa.Slice)
	if !ok {
		return args
	}
	arr, ok := sl.X.(*ssa.Alloc)
	if !ok {
		return args
	}
	type el struct {
		idx int64
		v   ssa.Value
	}
	var els []el
	for _, r := range *arr.Referrers() {
		ia, ok := r.(*ssa.IndexAddr)
		if !ok {
			continue
		}
		idx, ok := constInt(ia.Index)
		if !ok {
			return args
		}
		for _, r2 := range *ia.Referrers() {
			if st, ok := r2.(*ssa.Store); ok && st.Addr == ia {
				els = append(els, el{idx, st.Val})
			}
		}
	}
	sort.Slice(els, func(i, j int) bool { return els[i].idx < els[j].idx })
	var out []ssa.Value
	for _, e := range els {
		out = append(out, e.v)
	}
	return out
}

// env binds parameters of one function to the argument values of one of its call sites.
type env map[*ssa.Parameter]ssa.Value

// contexts returns the parameter bindings under which fn is analysed: one per static module
// call site, or a single empty binding when fn is a root (entry point / exported / uncalled).
func (c *Ctx) contexts(fn *ssa.Function) []env {
	fn = Outermost(fn)
	sites := c.callers[fn]
	isRoot := false
	for _, r := range c.F.Roots {
		if r == fn {
			isRoot = true
		}
	}
	if len(sites) == 0 || isRoot {
		return []env{{}}
	}
	var out []env
	for _, cs := range sites {
		e := env{}
		for i, prm := range fn.Params {
			if i < len(cs.Call.Common().Args) {
				e[prm] = cs.Call.Common().Args[i]
			}
		}
		out = append(out, e)
	}
	return out
}

// resolveEnv resolves v and substitutes bound parameters (one level; the bound value lives in the caller).
func resolveEnv(v ssa.Value, e env) ssa.Value {
	for i := 0; i < 8; i++ {
		v = resolve(v)
		if prm, ok := v.(*ssa.Parameter); ok {
			if a, ok := e[prm]; ok {
				v = a
				continue
			}
		}
		return v
	}
	return v
}

// canonEnv is canon with parameter substitution.
func (c *Ctx) canonEnv(v ssa.Value, e env) string {
	return c.canonEnvD(v, e, 0)
}

func (c *Ctx) canonEnvD(v ssa.Value, e env, d int) string {
	if d > 10 {
		return "…"
	}
	v = resolveEnv(v, e)
	switch x := v.(type) {
	case *ssa.Call:
		name := calleeFullName(&x.Call)
		var as []string
		args := x.Call.Args
		if name == "path/filepath.Join" {
			args = variadicElems(args)
		}
		for _, a := range args {
			as = append(as, c.canonEnvD(a, e, d+1))
		}
		if pureCalls[name] {
			return name + "(" + strings.Join(as, ",") + ")"
		}
		return name + "@" + c.Name(x.Parent()) + ":" + c.Pos(x.Pos()) + "(" + strings.Join(as, ",") + ")"
	case *ssa.Extract:
		return c.canonEnvD(x.Tuple, e, d+1) + "#" + string(rune('0'+x.Index))
	case *ssa.BinOp:
		return "(" + c.canonEnvD(x.X, e, d+1) + x.Op.String() + c.canonEnvD(x.Y, e, d+1) + ")"
	}
	return c.canon(v)
}

// joinLockDir recognises filepath.Join(D, "lock") (under e) and returns D.
func (c *Ctx) joinLockDir(v ssa.Value, e env) (ssa.Value, bool) {
	v, e = c.throughObjectField(v, e) // before resolve() leaves this frame through a single-origin field
	v, e = c.throughPureHelper(v, e)
	v, e = c.throughObjectField(v, e)
	call, ok := v.(*ssa.Call)
	if !ok || calleeFullName(&call.Call) != "path/filepath.Join" {
		return nil, false
	}
	el := variadicElems(call.Call.Args)
	if len(el) != 2 {
		return nil, false
	}
	if s, ok := constString(el[1]); !ok || s != "lock" {
		return nil, false
	}
	return resolveEnv(el[0], e), true
}

// throughObjectField: v (under e) is a field of a store object (l.lockPath, l.path) built by a constructor: the
// expression the constructor stored, read with the constructor's parameters bound to the arguments of the call that
// built this particular object.
var dbgPaths = os_.Getenv("ERGO_DBG_PATHS") != ""

func (c *Ctx) throughObjectField(v ssa.Value, e env) (ssa.Value, env) {
	if u, ok := v.(*ssa.UnOp); ok && u.Op == token.MUL {
		if fa, isF := u.X.(*ssa.FieldAddr); isF {
			base := resolveEnv(fa.X, e)
			if al, isAl := fa.X.(*ssa.Alloc); isAl {
				// the local copy of a by-value receiver / parameter: the struct this call was handed
				if w := plainCopyOf(al); w != nil {
					if rb := resolveEnv(w, e); rb != w {
						base = rb
					}
				}
			}
			var os []originVal
			var okO bool
			if base != fa.X {
				os, okO = fieldOfStructValueOrAddr(base, fa.Field, u)
			} else {
				os, okO = fieldOrigins(u, 0)
			}
			if dbgPaths {
				fmt.Fprintf(os_.Stderr, "throughObjectField %s in %s: base=%T %v origins=%d ok=%v\n", v, v.Parent(), base, base, len(os), okO)
			}
			if okO && len(os) == 1 {
				ne := env{}
				for k, val := range e {
					ne[k] = val
				}
				for k, val := range os[0].E {
					ne[k] = resolveEnv(val, e)
				}
				v, e = c.throughPureHelper(os[0].V, ne)
			}
		}
	}
	return v, e
}

// throughPureHelper: v (under e) is a call to a one-expression module helper (lockPathFor(dir) = Join(dir, "lock"),
// tmpPathFor(p) = p + ".tmp"): the expression it returns, with the helper's parameters bound to the arguments.
// Anchors and the log chooser are never looked into.
func (c *Ctx) throughPureHelper(v ssa.Value, e env) (ssa.Value, env) {
	for i := 0; i < 3; i++ {
		v = resolveEnv(v, e)
		idx := 0
		call, ok := v.(*ssa.Call)
		if ex, isEx := v.(*ssa.Extract); isEx {
			// one component of a multi-result helper (storePaths(dir) -> lockPath, eventsPath)
			call, ok = ex.Tuple.(*ssa.Call)
			idx = ex.Index
		}
		if !ok || call == nil {
			return v, e
		}
		h := calleeOf(&call.Call)
		if h == nil || !c.InModule(h) || h.Blocks == nil || h == c.F.Chooser || c.opaqueHelper(h) || len(h.Blocks) != 1 {
			return v, e
		}
		rets := returnsOf(h)
		if len(rets) != 1 || idx >= len(rets[0].Results) || (idx == 0 && len(rets[0].Results) != 1 && v == ssa.Value(call)) {
			return v, e
		}
		e2 := env{}
		for k, val := range e {
			e2[k] = val
		}
		for j, prm := range h.Params {
			if j < len(call.Call.Args) {
				e2[prm] = resolveEnv(call.Call.Args[j], e)
			}
		}
		v, e = rets[0].Results[idx], e2
	}
	return resolveEnv(v, e), e
}

// chooserDir recognises chooser(D) (under e) and returns D.
func (c *Ctx) chooserDir(v ssa.Value, e env) (ssa.Value, bool) {
	v, e = c.throughObjectField(v, e) // before resolve() leaves this frame through a single-origin field
	v, e = c.throughPureHelper(v, e)
	v, e = c.throughObjectField(v, e)
	call, ok := v.(*ssa.Call)
	if !ok || calleeOf(&call.Call) != c.F.Chooser || c.F.Chooser == nil || len(call.Call.Args) != 1 {
		return nil, false
	}
	return resolveEnv(call.Call.Args[0], e), true
}

// commitEffect: effect classes that make a change visible in a live file.
func commitEffectClass(class string) bool {
	switch class {
	case "append-open", "rename", "remove", "truncate", "write-open", "nonconst-open", "link",
		"sys-append-open", "sys-write-open", "sys-trunc-open", "forbidden":
		return true
	}
	return false
}

// isTempOfLog: path is <something LOG> + constant suffix (a temp sibling of the live log).
func (c *Ctx) isTempOfLog(v ssa.Value) bool {
	v = resolve(v)
	if hv, he := c.throughPureHelper(v, nil); hv != v {
		if b, ok := hv.(*ssa.BinOp); ok && b.Op == token.ADD {
			if s, ok := constString(b.Y); ok && s != "" {
				return c.pathClass(resolveEnv(b.X, he))[classLOG]
			}
		}
	}
	if b, ok := v.(*ssa.BinOp); ok && b.Op == token.ADD {
		if s, ok := constString(b.Y); ok && s != "" {
			return c.pathClass(b.X)[classLOG]
		}
	}
	if prm, ok := v.(*ssa.Parameter); ok {
		args := c.argValues(prm.Parent(), paramIndex(prm))
		if len(args) == 0 {
			return false
		}
		for _, a := range args {
			if !c.isTempOfLog(a) {
				return false
			}
		}
		return true
	}
	return false
}

// logEffects lists effect sites whose path may be the log (class LOG) and that mutate content,
// or all of them regardless of class when anyClass is set.
func (c *Ctx) logMutatorSites() []Effect {
	var out []Effect
	for _, e := range c.F.Effects {
		if !contentMutator(e.Class) {
			continue
		}
		if e.Path == nil {
			out = append(out, e) // forbidden/unanalysable: treated as touching the log
			continue
		}
		if c.pathClass(e.Path)[classLOG] {
			out = append(out, e)
		}
	}
	return out
}

// commitFuncs: module functions that (transitively, through module calls) contain a commit
// effect on a LOG-class path. The innermost ones are the commit primitives.
func (c *Ctx) commitFuncs() map[*ssa.Function]bool {
	direct := map[*ssa.Function]bool{}
	for _, e := range c.F.Effects {
		if !commitEffectClass(e.Class) {
			continue
		}
		if e.Path != nil && !c.pathClass(e.Path)[classLOG] {
			continue
		}
		if e.Path != nil && e.Class != "rename" && c.isTempOfLog(e.Path) {
			continue
		}
		direct[e.Fn] = true
	}
	out := map[*ssa.Function]bool{}
	for _, fn := range c.Fns {
		for g := range c.F.TransitiveCallees(fn) {
			if direct[g] {
				out[fn] = true
			}
		}
	}
	return out
}

// sliceElems: every value that can be an element of the slice: the stores into the array a literal is built on, the
// elements appended to it (through phis and local variables). ok is false when the slice comes from somewhere else.
func sliceElems(v ssa.Value, d int, seen map[ssa.Value]bool) ([]ssa.Value, bool) {
	if v == nil || d > 8 {
		return nil, false
	}
	if seen[v] {
		return nil, true
	}
	seen[v] = true
	switch x := v.(type) {
	case *ssa.Const:
		return nil, true // nil slice
	case *ssa.Slice:
		arr, ok := x.X.(*ssa.Alloc)
		if !ok {
			return sliceElems(x.X, d+1, seen)
		}
		var out []ssa.Value
		for _, r := range *arr.Referrers() {
			if ia, ok := r.(*ssa.IndexAddr); ok {
				for _, r2 := range *ia.Referrers() {
					if st, ok := r2.(*ssa.Store); ok && st.Addr == ssa.Value(ia) {
						out = append(out, st.Val)
					}
				}
			}
		}
		return out, true
	case *ssa.Phi:
		var out []ssa.Value
		for _, e := range x.Edges {
			sub, ok := sliceElems(e, d+1, seen)
			if !ok {
				return nil, false
			}
			out = append(out, sub...)
		}
		return out, true
	case *ssa.Call:
		if calleeFullName(&x.Call) == "builtin append" && len(x.Call.Args) == 2 {
			base, ok := sliceElems(x.Call.Args[0], d+1, seen)
			if !ok {
				return nil, false
			}
			add, ok := sliceElems(x.Call.Args[1], d+1, seen)
			if !ok {
				return nil, false
			}
			return append(base, add...), true
		}
		return nil, false
	case *ssa.UnOp:
		if x.Op == token.MUL {
			if cell := cellOf(x.X); cell != nil {
				var out []ssa.Value
				for _, st := range cellStores(cell) {
					sub, ok := sliceElems(st.Val, d+1, seen)
					if !ok {
						return nil, false
					}
					out = append(out, sub...)
				}
				return out, true
			}
		}
		return nil, false
	case *ssa.MakeSlice:
		return nil, true
	}
	return nil, false
}
